(* Agg.v — aggregation records of `stats` / `stats by` / `timechart` (C04).
   Definitions only (proofs: SigP.AggProofs).

   What is followed, and where it is in siglens:
   * the per-column record SegStats (pkg/segment/structs/segstructs.go) with
       add   = AddSegStatsNums / AddSegStatsStr / AddSegStatsUNIXTime / AddSegStatsLatestEarliestVal
               (pkg/segment/writer/stats/segstats.go, query time) and addSegStatsNums /
               addSegStatsStrIngestion (pkg/segment/writer/packer.go, ingest time; same arithmetic,
               no values/list/time part);
       merge = SegStats.Merge (with fixes/C04-merge-isnumeric), NumericStats.Merge, StringStats.Merge, TimeStats.Merge
               and stats.MergeSegStats (absent map entry = identity: the other record is adopted whole);
       finalize = segread.GetSegCount/Sum/Avg/Min/Max/Range/Value/List/LatestOrEarliestVal called once
               with runningSegStat = nil on the merged map (segresults.UpdateSegmentStats);
   * the group-by bucket (pkg/segment/results/blockresults: RunningBucketResults, runningStats,
     GroupByBuckets.updateEValFromRunningBuckets): rows, sum, min, max, items; count(f) and avg(f)
     are computed from the ROW count of the bucket (as coded).

   Numbers: an integer value is `Z` (Go int64; sums wrap explicitly); a float64 is modelled as
   an exact dyadic rational in units of 1/FS (FS = 1024) — float rounding is not modelled.
   Strings are byte lists, compared like Go strings (bytewise lexicographic). *)
From SigM Require Import Base.
From Coq Require Import QArith.
Open Scope Z_scope.

Definition str := list N.
Definition FS : Z := 1024.
Definition two63 : Z := 9223372036854775808.
Definition two64z : Z := 18446744073709551616.
Definition wrap_i64 (z : Z) : Z := (z + two63) mod two64z - two63.

(* ---------- Go string order ---------- *)
Fixpoint str_cmp (a b : str) : comparison :=
  match a, b with
  | [], [] => Eq
  | [], _ :: _ => Lt
  | _ :: _, [] => Gt
  | x :: a', y :: b' => match N.compare x y with Eq => str_cmp a' b' | c => c end
  end.
Definition str_ltb (a b : str) : bool := match str_cmp a b with Lt => true | _ => false end.
Definition str_eqb (a b : str) : bool := match str_cmp a b with Eq => true | _ => false end.

(* ---------- values as min/max see them (CValueEnclosure) ----------
   VNone = SS_INVALID / SS_DT_BACKFILL; VNum = SS_DT_SIGNED_NUM or SS_DT_FLOAT (exact value in
   1/FS units; the int/float tag of a min/max result is not observable in the API output and is
   not modelled); VStr = SS_DT_STRING *)
Inductive val := VNone | VNum (q : Z) | VStr (s : str).

(* sutils.ReduceMinMax: invalid/backfill is neutral; equal kinds compare (GetMinMaxString for
   strings); a number always wins against a string, for min AND for max *)
Definition reduce_minmax (e1 e2 : val) (is_min : bool) : val :=
  match e1, e2 with
  | VNone, _ => e2
  | _, VNone => e1
  | VNum a, VNum b => VNum (if is_min then Z.min a b else Z.max a b)
  | VStr a, VStr b =>
      VStr (if is_min then (if str_ltb a b then a else b) else (if str_ltb b a then a else b))
  | VNum _, VStr _ => e1
  | VStr _, VNum _ => e2
  end.

(* ---------- sums (NumTypeEnclosure: Ntype int64 | float64) ---------- *)
Inductive sumv := SInt (z : Z) | SFlt (q : Z).

Definition sum_merge (a b : sumv) : sumv :=
  match a, b with
  | SInt x, SInt y => SInt (wrap_i64 (x + y))           (* int64 addition *)
  | SInt x, SFlt y => SFlt (x * FS + y)                 (* float64(IntgrVal) + FloatVal *)
  | SFlt x, SInt y => SFlt (x + y * FS)
  | SFlt x, SFlt y => SFlt (x + y)
  end.

(* ---------- one event's value of the measured field ---------- *)
Inductive mval :=
| MAbs                          (* field absent in the event (backfill) *)
| MInt (z : Z)                  (* JSON integer *)
| MFlt (q : Z)                  (* JSON float, q/FS *)
| MNumStr (s : str) (q : Z)     (* JSON string that strconv.ParseFloat accepts, value q/FS *)
| MStr (s : str).               (* any other JSON string *)

Definition event := (Z * mval)%type.      (* timestamp (ms), value *)

(* element of values(f) / list(f) in canonical form: a number is compared by value *)
Inductive item := INum (q : Z) | IStr (s : str).

Definition num_of (v : mval) : option sumv :=
  match v with
  | MInt z => Some (SInt z)
  | MFlt q => Some (SFlt q)
  | MNumStr _ q => Some (SFlt q)        (* AddSegStatsStr -> ParseFloat -> AddSegStatsNums(SS_FLOAT64) *)
  | _ => None
  end.
Definition scaled (s : sumv) : Z := match s with SInt z => z * FS | SFlt q => q end.
Definition item_of (v : mval) : option item :=
  match v with
  | MAbs => None
  | MStr s => Some (IStr s)
  | MInt z => Some (INum (z * FS))
  | MFlt q => Some (INum q)
  | MNumStr _ q => Some (INum q)
  end.
Definition val_of (v : mval) : val :=
  match v with
  | MAbs => VNone
  | MStr s => VStr s
  | MInt z => VNum (z * FS)
  | MFlt q => VNum q
  | MNumStr _ q => VNum q
  end.

(* ---------- the record ---------- *)
Record numstats := mkNum { ncnt : Z; nsum : sumv }.
Record tstats := mkT { lts : Z; lval : mval; ets : Z; eval_ : mval }.
Record segstats := mkS {
  isnum : bool;                 (* IsNumeric *)
  cnt   : Z;                    (* Count *)
  mn    : val;                  (* Min *)
  mx    : val;                  (* Max *)
  num   : option numstats;      (* NumStats (nil | NumericCount, Sum) *)
  sset  : list item;            (* StringStats.StrSet (membership only) *)
  slist : list item;            (* StringStats.StrList *)
  tst   : option tstats         (* TimeStats: nil, or latest/earliest timestamp with the value seen there *)
}.

Definition num_zero : numstats := mkNum 0 (SInt 0).       (* GetDefaultNumStats *)

(* UpdateMinMax *)
Definition upd_minmax (s : segstats) (v : val) : segstats :=
  mkS (isnum s) (cnt s) (reduce_minmax (mn s) v true) (reduce_minmax (mx s) v false)
      (num s) (sset s) (slist s) (tst s).

(* AddSegStatsUNIXTime (latest, earliest) then AddSegStatsLatestEarliestVal (latest, earliest) *)
Definition ts_step (o : option tstats) (t : Z) (v : mval) : option tstats :=
  match o with
  | None => Some (mkT t v t v)
  | Some x =>
      let l := if lts x <? t then t else lts x in
      let e := if t <? ets x then t else ets x in
      Some (mkT l (if l =? t then v else lval x) e (if e =? t then v else eval_ x))
  end.

(* record created by the time functions when the column has no entry yet *)
Definition new_for_ts : segstats := mkS false 0 VNone VNone (Some num_zero) [] [] None.
Definition new_for_num : segstats := mkS true 0 VNone VNone (Some num_zero) [] [] None.
Definition new_for_str : segstats := mkS false 0 VNone VNone None [] [] None.

Definition app1 {A} (l : list A) (o : option A) : list A :=
  match o with Some x => l ++ [x] | None => l end.

(* AddSegStatsNums + processStats *)
Definition add_num (o : option segstats) (v : mval) (n : sumv) : segstats :=
  let s := match o with
           | None => new_for_num
           | Some s => if isnum s then s
                       else mkS true (cnt s) (mn s) (mx s) (Some num_zero) (sset s) (slist s) (tst s)
           end in
  let ns := match num s with Some x => x | None => num_zero end in
  let s' := mkS true (cnt s + 1) (mn s) (mx s)
                (Some (mkNum (ncnt ns + 1) (sum_merge (nsum ns) n)))
                (app1 (sset s) (item_of v)) (app1 (slist s) (item_of v)) (tst s) in
  upd_minmax s' (val_of v).

(* AddSegStatsStr for a string that does not parse as a number *)
Definition add_str (o : option segstats) (v : mval) : segstats :=
  let s := match o with None => new_for_str | Some s => s end in
  let s' := mkS (isnum s) (cnt s + 1) (mn s) (mx s) (num s)
                (app1 (sset s) (item_of v)) (app1 (slist s) (item_of v)) (tst s) in
  upd_minmax s' (val_of v).

(* one record of the statsProcessor loop; with_ts = the query has earliest/latest(-time) measures *)
(* FIXED code (fixes/C04-latest-earliest-skip-missing): the time stats of a column only advance on
   records that have the column — a record without it changes nothing *)
Definition add (with_ts : bool) (o : option segstats) (e : event) : option segstats :=
  let '(t, v) := e in
  match v with
  | MAbs => o
  | _ =>
    let o1 := if with_ts then
                let s := match o with None => new_for_ts | Some s => s end in
                Some (mkS (isnum s) (cnt s) (mn s) (mx s) (num s) (sset s) (slist s) (ts_step (tst s) t v))
              else o in
    match v with
    | MStr _ => Some (add_str o1 v)
    | _ => match num_of v with Some n => Some (add_num o1 v n) | None => o1 end
    end
  end.

(* PRE-FIX (documentation only): the time functions ran for every matched record, also for one
   without the column *)
Definition add_prefix (with_ts : bool) (o : option segstats) (e : event) : option segstats :=
  let '(t, v) := e in
  let o1 := if with_ts then
              let s := match o with None => new_for_ts | Some s => s end in
              Some (mkS (isnum s) (cnt s) (mn s) (mx s) (num s) (sset s) (slist s) (ts_step (tst s) t v))
            else o in
  match v with
  | MAbs => o1
  | MStr _ => Some (add_str o1 v)
  | _ => match num_of v with Some n => Some (add_num o1 v n) | None => o1 end
  end.
Definition stats_prefix (with_ts : bool) (l : list event) : option segstats := fold_left (add_prefix with_ts) l None.

Definition stats (with_ts : bool) (l : list event) : option segstats := fold_left (add with_ts) l None.

(* ---------- merge ---------- *)
Definition num_merge (a b : option numstats) : option numstats :=
  match a, b with
  | None, _ => b
  | Some x, None => Some x
  | Some x, Some y => Some (mkNum (ncnt x + ncnt y) (sum_merge (nsum x) (nsum y)))
  end.

(* TimeStats.Merge: strictly later / strictly earlier wins, ties keep the receiver *)
Definition ts_merge (a b : option tstats) : option tstats :=
  match a, b with
  | None, _ => b
  | Some x, None => Some x
  | Some x, Some y =>
      Some (mkT (if lts x <? lts y then lts y else lts x) (if lts x <? lts y then lval y else lval x)
                (if ets y <? ets x then ets y else ets x) (if ets y <? ets x then eval_ y else eval_ x))
  end.

(* SegStats.Merge: IsNumeric of the receiver is kept; UpdateMinMax(ss, other.Min); UpdateMinMax(ss, other.Max) *)
(* FIXED code (fixes/C04-merge-isnumeric): IsNumeric = ss.IsNumeric || other.IsNumeric *)
Definition merge (a b : segstats) : segstats :=
  let a1 := upd_minmax (upd_minmax a (mn b)) (mx b) in
  mkS (isnum a || isnum b) (cnt a + cnt b) (mn a1) (mx a1) (num_merge (num a) (num b))
      (sset a ++ sset b) (slist a ++ slist b) (ts_merge (tst a) (tst b)).

(* stats.MergeSegStats on one column *)
Definition mergeo (a b : option segstats) : option segstats :=
  match a, b with
  | None, _ => b
  | _, None => a
  | Some x, Some y => Some (merge x y)
  end.

(* blocks / segments merged in the given order *)
Definition merge_blocks (with_ts : bool) (bs : list (list event)) : option segstats :=
  fold_left (fun acc b => mergeo acc (stats with_ts b)) bs None.

(* PRE-FIX (documentation only): IsNumeric of the receiver was kept *)
Definition merge_prefix (a b : segstats) : segstats :=
  let a1 := upd_minmax (upd_minmax a (mn b)) (mx b) in
  mkS (isnum a) (cnt a + cnt b) (mn a1) (mx a1) (num_merge (num a) (num b))
      (sset a ++ sset b) (slist a ++ slist b) (ts_merge (tst a) (tst b)).
Definition mergeo_prefix (a b : option segstats) : option segstats :=
  match a, b with
  | None, _ => b
  | _, None => a
  | Some x, Some y => Some (merge_prefix x y)
  end.
Definition merge_blocks_prefix (with_ts : bool) (bs : list (list event)) : option segstats :=
  fold_left (fun acc b => mergeo_prefix acc (stats with_ts b)) bs None.

(* ---------- finalize (segstatsreader.go, runningSegStat = nil) ---------- *)
Record result := mkR {
  r_count : Z;                  (* count(f) *)
  r_sum   : sumv;               (* sum(f); 0 when the record is not numeric *)
  r_avg   : option Q;           (* avg(f) = Sum / NumericCount; None when not numeric / count 0 (API shows 0) *)
  r_min   : val;
  r_max   : val;
  r_range : option Z;           (* range(f) = Max - Min (1/FS units) when Min is numeric *)
  r_values : list item;
  r_list  : list item;
  r_earliest : option item;
  r_latest : option item
}.

Definition sum_q (s : sumv) : Q := match s with SInt z => inject_Z z | SFlt q => Qmake q 1024 end.

Definition finalize (o : option segstats) : result :=
  match o with
  | None => mkR 0 (SInt 0) None VNone VNone None [] [] None None
  | Some s =>
      let ns := match num s with Some x => x | None => num_zero end in
      mkR (cnt s)
          (if isnum s then nsum ns else SInt 0)
          (if isnum s && (0 <? ncnt ns) then Some (Qdiv (sum_q (nsum ns)) (inject_Z (ncnt ns))) else None)
          (mn s) (mx s)
          (match mn s, mx s with VNum a, VNum b => Some (b - a) | _, _ => None end)
          (sset s) (slist s)
          (match tst s with Some x => item_of (eval_ x) | None => None end)
          (match tst s with Some x => item_of (lval x) | None => None end)
  end.

(* ---------- group-by ---------- *)
(* grouped events: (key, event) in arrival order; groups in first-occurrence order *)
Section Group.
Variable K : Type.
Variable keqb : K -> K -> bool.

Fixpoint g_add (k : K) (e : event) (acc : list (K * list event)) : list (K * list event) :=
  match acc with
  | [] => [(k, [e])]
  | (k', es) :: r => if keqb k' k then (k', es ++ [e]) :: r else (k', es) :: g_add k e r
  end.

Definition group_by (l : list (K * event)) : list (K * list event) :=
  fold_left (fun acc ke => g_add (fst ke) (snd ke) acc) l [].

Fixpoint g_lookup (k : K) (acc : list (K * list event)) : list event :=
  match acc with
  | [] => []
  | (k', es) :: r => if keqb k' k then es else g_lookup k r
  end.
End Group.

(* the bucket of one group as the group-by path keeps it (for numeric / absent measure values):
   rows = RunningBucketResults.count; sum through Number.ReduceFast (backfill skipped) *)
Record gresult := mkG {
  g_rows : Z;                  (* count-all and, as coded, also count(f) *)
  g_sum : option sumv;         (* None: no numeric value seen (API shows 0) *)
  g_avg : option Q;            (* as coded: sum / rows *)
  g_min : val; g_max : val;
  g_range : option Z;
  g_items : list item          (* values(f) / list(f) *)
}.

Definition gsum_add (a : option sumv) (v : mval) : option sumv :=
  match num_of v with
  | None => a
  | Some n => match a with None => Some n | Some x => Some (sum_merge x n) end
  end.

Definition gstats (es : list event) : gresult :=
  let vs := map snd es in
  let rows := Z.of_nat (length es) in
  let s := fold_left gsum_add vs None in
  let mnv := fold_left (fun a v => reduce_minmax a (val_of v) true) vs VNone in
  let mxv := fold_left (fun a v => reduce_minmax a (val_of v) false) vs VNone in
  mkG rows s
      (match s with Some x => if 0 <? rows then Some (Qdiv (sum_q x) (inject_Z rows)) else None | None => None end)
      mnv mxv
      (match mnv, mxv with VNum a, VNum b => Some (b - a) | _, _ => None end)
      (fold_left (fun a v => app1 a (item_of v)) vs []).

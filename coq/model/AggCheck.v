(* AggCheck.v — executable comparison of the aggregation / bucket models with observations of the
   real siglens query path (used by the generated case files of C04).  Definitions only. *)
From SigM Require Import Base Agg Bucket.
From Coq Require Import QArith Qabs.
Open Scope Z_scope.

(* ---------- 1. FindTimeRangeBucket driven directly ---------- *)
(* case = (start, end, step, ts, observed result; None = the real function panicked) *)
Definition oz_eqb (a b : option Z) : bool :=
  match a, b with Some x, Some y => x =? y | None, None => true | _, _ => false end.

Fixpoint check_buckets (cs : list (Z * Z * Z * Z * option Z)) (idx : nat) : list nat :=
  match cs with
  | [] => []
  | (s, e, st, t, o) :: r =>
      (if oz_eqb (find_bucket s e st t) o then [] else [idx]) ++ check_buckets r (S idx)
  end.

(* ---------- 2. observed values ---------- *)
(* what the API printed for one measure: a number (exact dyadic, 1/FS units), a string, or a number
   that is not a multiple of 1/FS (only legal for avg) *)
Inductive oval := ONum (q : Z) | OStr (s : str).

Definition item_eqb (a b : item) : bool :=
  match a, b with
  | INum x, INum y => x =? y
  | IStr x, IStr y => str_eqb x y
  | _, _ => false
  end.

Definition oval_item (o : oval) : item := match o with ONum q => INum q | OStr s => IStr s end.

(* absent values are printed as 0 by the API *)
Definition val_matches (v : val) (o : oval) : bool :=
  match v, o with
  | VNone, ONum q => q =? 0
  | VNum a, ONum b => a =? b
  | VStr a, OStr b => str_eqb a b
  | _, _ => false
  end.
Definition optitem_matches (v : option item) (o : oval) : bool :=
  match v with
  | None => match o with ONum q => q =? 0 | _ => false end
  | Some i => item_eqb i (oval_item o)
  end.
Definition optz_matches (v : option Z) (o : oval) : bool :=
  match o with ONum q => (match v with Some x => x | None => 0 end) =? q | _ => false end.

Fixpoint mem_item (x : item) (l : list item) : bool :=
  match l with [] => false | y :: r => item_eqb x y || mem_item x r end.
Definition subset_items (a b : list item) : bool := forallb (fun x => mem_item x b) a.
Definition set_eq_items (a b : list item) : bool := subset_items a b && subset_items b a.
Fixpoint remove1 (x : item) (l : list item) : option (list item) :=
  match l with
  | [] => None
  | y :: r => if item_eqb x y then Some r else match remove1 x r with Some r' => Some (y :: r') | None => None end
  end.
Fixpoint perm_items (a b : list item) : bool :=
  match a with
  | [] => match b with [] => true | _ => false end
  | x :: r => match remove1 x b with Some b' => perm_items r b' | None => false end
  end.

(* avg: the observed float64 (given exactly as a rational) within 2^-40 relative of the model's exact value *)
Definition q_close (m o : Q) : bool :=
  Qle_bool (Qabs (o - m)) (Qabs m * (1 # 1099511627776)).
Definition avg_matches (m : option Q) (o : Q) : bool :=
  match m with Some x => q_close x o | None => Qeq_bool o 0 end.

(* ---------- 3. stats without group-by ---------- *)
(* which measures the query asked for is implicit: the harness always sends all observed fields *)
Record obs_stats := mkO {
  o_wt : bool;            (* earliest/latest requested: the time stats of the column are tracked (fixed code: only on
                             records that have the column).  Was: time functions run for every matched record (raw-record and pipeline
                             paths: addValsToTimeStats / processMeasureOperations); false = records
                             read from the ingest-time .sst *)
  o_count : Z;            (* count(f) *)
  o_sum : oval; o_avg : Q; o_min : oval; o_max : oval; o_range : oval;
  o_has_vl : bool;        (* query had values(f), list(f) *)
  o_values : list oval; o_list : list oval;
  o_has_ts : bool;        (* query had earliest(f), latest(f) *)
  o_earliest : oval; o_latest : oval
}.

Definition stats_matches (blocks : list (list event)) (o : obs_stats) : bool :=
  let r := finalize (merge_blocks (o_wt o) blocks) in
  (r_count r =? o_count o)
  && (match o_sum o with ONum q => scaled (r_sum r) =? q | _ => false end)
  && avg_matches (r_avg r) (o_avg o)
  && val_matches (r_min r) (o_min o)
  && val_matches (r_max r) (o_max o)
  && optz_matches (r_range r) (o_range o)
  && (if o_has_vl o
      then set_eq_items (r_values r) (map oval_item (o_values o))
           && perm_items (r_list r) (map oval_item (o_list o))
      else true)
  && (if o_has_ts o
      then optitem_matches (r_earliest r) (o_earliest o) && optitem_matches (r_latest r) (o_latest o)
      else true).

Fixpoint check_stats (cs : list (list (list event) * obs_stats)) (idx : nat) : list nat :=
  match cs with
  | [] => []
  | (b, o) :: r => (if stats_matches b o then [] else [idx]) ++ check_stats r (S idx)
  end.

(* ---------- 4. stats by <field> ---------- *)
(* Layout rule of the group-by path (observed, see notes/C04.md): an event that lacks the by-field
   is grouped under the empty key when its SEGMENT has that column and is dropped when the segment
   has no such column at all. *)
Definition seg_events := (bool * list (option str * event))%type.   (* has_col, events *)

Definition keyed (segs : list seg_events) : list (str * event) :=
  flat_map (fun se : seg_events =>
    let (has, evs) := se in
    if has then map (fun ke : option str * event =>
                       (match fst ke with Some k => k | None => [] end, snd ke)) evs
    else []) segs.

Record obs_group := mkOG {
  og_full : bool;          (* false: the query asked for count and sum(f) only *)
  og_rows : Z; og_cntf : Z;
  og_sum : oval; og_avg : Q; og_min : oval; og_max : oval; og_range : oval;
  og_has_vl : bool; og_values : list oval; og_list : list oval
}.

Definition group_matches (es : list event) (o : obs_group) : bool :=
  let g := gstats es in
  (g_rows g =? og_rows o)
  && (match og_sum o with ONum q => (match g_sum g with Some s => scaled s | None => 0 end) =? q | _ => false end)
  && (if og_full o then
        (g_rows g =? og_cntf o)                 (* count(f) = rows, as coded *)
        && avg_matches (g_avg g) (og_avg o)
        && val_matches (g_min g) (og_min o) && val_matches (g_max g) (og_max o)
        && optz_matches (g_range g) (og_range o)
        && (if og_has_vl o
            then set_eq_items (g_items g) (map oval_item (og_values o))
                 && perm_items (g_items g) (map oval_item (og_list o))
            else true)
      else true).

(* observed rows as a set: every observed key is a model group with matching numbers, keys are
   distinct, and the number of rows equals the number of model groups *)
Fixpoint keys_distinct (ks : list str) : bool :=
  match ks with [] => true | k :: r => negb (existsb (str_eqb k) r) && keys_distinct r end.

Definition groups_match (segs : list seg_events) (rows : list (str * obs_group)) : bool :=
  let g := group_by str str_eqb (keyed segs) in
  (Nat.eqb (length g) (length rows))
  && keys_distinct (map fst rows)
  && forallb (fun ro : str * obs_group =>
       existsb (fun ge : str * list event => str_eqb (fst ge) (fst ro)) g
       && group_matches (g_lookup str str_eqb (fst ro) g) (snd ro)) rows.

Fixpoint check_groups (cs : list (list seg_events * list (str * obs_group))) (idx : nat) : list nat :=
  match cs with
  | [] => []
  | (s, o) :: r => (if groups_match s o then [] else [idx]) ++ check_groups r (S idx)
  end.

(* ---------- 5. timechart span=.. count, sum(f) ---------- *)
(* events: (timestamp, value of f in 1/FS units, 0 when absent); observed rows: (bucket, count, sum) *)
Fixpoint tc_find (b : Z) (tc : list (Z * (Z * Z))) : option (Z * Z) :=
  match tc with
  | [] => None
  | (b', cs) :: r => if b' =? b then Some cs else tc_find b r
  end.
Fixpoint z_distinct (ks : list Z) : bool :=
  match ks with [] => true | k :: r => negb (existsb (Z.eqb k) r) && z_distinct r end.

Definition timechart_matches (start end_ step : Z) (evs : list (Z * Z)) (rows : list (Z * (Z * Z))) : bool :=
  let tc := timechart start end_ step evs in
  Nat.eqb (length tc) (length rows) && z_distinct (map fst rows)
  && forallb (fun ro : Z * (Z * Z) =>
       match tc_find (fst ro) tc with
       | Some (c, s) => (c =? fst (snd ro)) && (s =? snd (snd ro))
       | None => false
       end) rows.

Fixpoint check_timecharts (cs : list (Z * Z * Z * list (Z * Z) * list (Z * (Z * Z)))) (idx : nat) : list nat :=
  match cs with
  | [] => []
  | (s, e, st, evs, rows) :: r =>
      (if timechart_matches s e st evs rows then [] else [idx]) ++ check_timecharts r (S idx)
  end.

(* ---------- 6. bin span=<n><unit> [aligntime=T] <timefield> | stats count, sum(f) by <timefield> ---------- *)
(* rows as a set: the observed rows are exactly the groups of the model, with equal count and sum *)
Definition binchart_matches (u : tunit) (n : Z) (align : option Z) (evs : list (Z * Z)) (rows : list (Z * (Z * Z))) : bool :=
  let tc := bin_chart u n align evs in
  Nat.eqb (length tc) (length rows) && z_distinct (map fst rows)
  && forallb (fun ro : Z * (Z * Z) =>
       match tc_find (fst ro) tc with
       | Some (c, s) => (c =? fst (snd ro)) && (s =? snd (snd ro))
       | None => false
       end) rows.

Fixpoint check_bins (cs : list (tunit * Z * option Z * list (Z * Z) * list (Z * (Z * Z)))) (idx : nat) : list nat :=
  match cs with
  | [] => []
  | (u, n, a, evs, rows) :: r =>
      (if binchart_matches u n a evs rows then [] else [idx]) ++ check_bins r (S idx)
  end.

(* direct calls of performBinWithSpanTime: (unit, n, aligntime, ts, bucket returned by the new-pipeline copy,
   bucket returned by the row-based copy) *)
Fixpoint check_bin_calls (cs : list (tunit * Z * option Z * Z * Z * Z)) (idx : nat) : list nat :=
  match cs with
  | [] => []
  | (u, n, a, ts, b1, b2) :: r =>
      (if (bin_time u n a ts =? b1) && (bin_time u n a ts =? b2) then [] else [idx]) ++ check_bin_calls r (S idx)
  end.

(* ---------- 7. timechart span=<n><unit>: the interval is computed by the model (tc_interval) ---------- *)
Fixpoint check_timecharts_u (cs : list (Z * Z * tunit * Z * list (Z * Z) * list (Z * (Z * Z)))) (idx : nat) : list nat :=
  match cs with
  | [] => []
  | (s, e, u, n, evs, rows) :: r =>
      (if timechart_matches s e (tc_interval u n) evs rows then [] else [idx]) ++ check_timecharts_u r (S idx)
  end.

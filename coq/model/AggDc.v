(* AggDc.v — distinct count (dc / estdc) of `stats`, `stats by` and `timechart` (C04).
   Definitions only (proofs: SigP.AggDcProofs).

   What is followed, and where it is in siglens: every route feeds one 64-bit hash per value into a
   HyperLogLog sketch (segmentio hll, log2m = 16, explicit / sparse storage first) and reports its cardinality:
     * group-by and timechart:  blockresults.hllAddRawCval (pkg/segment/results/blockresults/runningstats.go)
         uint64 -> xxhash of the 8 little-endian bytes of the number, int64 -> the 8 bytes of its two's
         complement, float64 -> the 8 bytes of its IEEE bits, string -> xxhash of the string bytes;
     * without BY, query time:  stats.AddSegStatsNums (pkg/segment/writer/stats/segstats.go): the same 8 bytes
         by type; stats.AddSegStatsStr: the bytes of the string, also when the string parses as a number (fix
         df5c019; before it the 8 bytes of strconv.ParseFloat(s): AggDcProofs.hll_key_qt_prefix);
         ingest time (.sst): packer.addSegStatsNums hashes the 8 STORED bytes of the number,
         addSegStatsStrIngestion the bytes of the string;
     * merge of blocks / segments / buckets: Hll.StrictUnion = union of the sets of hashes.
   The sketch itself is not modelled: the model's count is the number of distinct hash KEYS (the byte string that
   is hashed); the harness compares in the range where the sketch stores the hashes themselves.  The hash function
   enters the theorems as a Section variable that is injective on the keys that occur.

   A stored value: SInt = SS_DT_SIGNED_NUM (int64), SUint = SS_DT_UNSIGNED_NUM (uint64), SFlt = SS_DT_FLOAT given by
   its 64 IEEE bits, SStr = SS_DT_STRING. *)
From SigM Require Import Base Agg.
Open Scope Z_scope.

Inductive sval := SInt (z : Z) | SUint (n : Z) | SFlt (bits : N) | SStr (s : str).

Definition two64d : Z := 18446744073709551616.
Definition two63d : Z := 9223372036854775808.
Definition two53 : Z := 9007199254740992.
Definition two52 : Z := 4503599627370496.

(* the 64-bit pattern of an int64 (two's complement): utils.Int64ToBytesLittleEndian writes uint64(v) *)
Definition u64_of_i64 (z : Z) : N := Z.to_N (z mod two64d).

(* the bytes that are hashed *)
Definition hll_key (v : sval) : bytes :=
  match v with
  | SInt z => le64 (u64_of_i64 z)
  | SUint n => le64 (Z.to_N n)
  | SFlt b => le64 b
  | SStr s => s
  end.

(* set of keys (first occurrences, in order) *)
Fixpoint mem_key (k : bytes) (l : list bytes) : bool :=
  match l with [] => false | x :: r => bytes_eqb k x || mem_key k r end.
Fixpoint dedup_keys (l : list bytes) : list bytes :=
  match l with
  | [] => []
  | x :: r => let d := dedup_keys r in if mem_key x d then d else x :: d
  end.

(* the sketch of a list of values / the union of two sketches / the reported count *)
Definition dc_keys_with (key : sval -> bytes) (l : list sval) : list bytes := dedup_keys (map key l).
Definition dc_keys := dc_keys_with hll_key.
Definition dc_union (a b : list bytes) : list bytes := dedup_keys (a ++ b).
Definition dc_count_with (key : sval -> bytes) (l : list sval) : Z := Z.of_nat (length (dc_keys_with key l)).
Definition dc_count := dc_count_with hll_key.
(* blocks / segments / buckets merged in the given order *)
Definition dc_merge_blocks (bs : list (list sval)) : list bytes :=
  fold_left (fun acc b => dc_union acc (dc_keys b)) bs [].

(* ---------- float64(int64): round to nearest, ties to even (what CValueEnclosure.GetFloatValue does to an
   integer).  Used (a) to state which stored float a JSON integer beyond int64 becomes, (b) to state why a key
   computed through float64 is NOT a function of the value above 2^53.  Compared with Go's conversion on
   thousands of integers in every run (check_f64conv). ---------- *)
Definition f64_of_Z (z : Z) : N :=
  if z =? 0 then 0%N else
  let a := Z.abs z in
  let e := Z.log2 a in
  let sign := if z <? 0 then two63d else 0 in
  let me :=
    if e <=? 52 then (a * 2 ^ (52 - e), e)
    else
      let sh := e - 52 in
      let q := a / 2 ^ sh in
      let r := a mod 2 ^ sh in
      let half := 2 ^ (sh - 1) in
      let q' := if (half <? r) || ((r =? half) && Z.odd q) then q + 1 else q in
      if q' =? two53 then (two52, e + 1) else (q', e) in
  Z.to_N (sign + (snd me + 1023) * two52 + (fst me - two52)).

(* the key when every number is first converted to float64 (NOT what the code does; kept to state the guarded /
   refuted pair that explains why small numbers cannot tell the two apart) *)
Definition hll_key_via_float (v : sval) : bytes :=
  match v with
  | SInt z => le64 (f64_of_Z z)
  | SUint n => le64 (f64_of_Z n)
  | SFlt b => le64 b
  | SStr s => s
  end.

Definition in_i64 (z : Z) : Prop := - two63d <= z < two63d.
Definition in_u64 (z : Z) : Prop := 0 <= z < two64d.

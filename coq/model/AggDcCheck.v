(* AggDcCheck.v — executable comparison of the distinct-count model with observations of the real siglens
   query path (generated case files cases_c04_dc_N, cases_c04_f64conv_N).  Definitions only. *)
From SigM Require Import Base Agg AggDc.
Open Scope Z_scope.

(* case = (the distinct stored values of the matched events of one result row / group / bucket cell, reported dc) *)
Fixpoint check_dc (cs : list (list sval * Z)) (idx : nat) : list nat :=
  match cs with
  | [] => []
  | (vals, o) :: r => (if dc_count vals =? o then [] else [idx]) ++ check_dc r (S idx)
  end.

(* case = (int64 / uint64 value, math.Float64bits(float64(value)) as computed by Go) *)
Fixpoint check_f64conv (cs : list (Z * N)) (idx : nat) : list nat :=
  match cs with
  | [] => []
  | (z, b) :: r => (if N.eqb (f64_of_Z z) b then [] else [idx]) ++ check_f64conv r (S idx)
  end.

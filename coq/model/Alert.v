(* Alert.v — executable model of the alert evaluation state machine
   (pkg/alerts/alertsHandler/cronJobHandler.go, notificationHandler.go,
    alertsHandler.go ProcessUpdateAlertRequest, alertsqlite UpdateAlertStateAndNotificationDetails).
   Definitions only; proofs are in SigP.AlertProofs.

   Time is explicit: seconds as Z.  Cool-down and silence are minutes (as in the
   notification_details / all_alerts tables).  Query-result values and the
   threshold are exact integers in Z (the harness scales decimals by 1000); float64
   rounding, NaN and +-Inf are not modelled. *)
From SigM Require Import Base.
Open Scope Z_scope.

(* alertutils.AlertState: Inactive = 0 (the zero value), Normal, Pending, Firing *)
Inductive astate := Inactive | Normal | Pending | Firing.

Definition astate_code (s : astate) : N :=
  match s with Inactive => 0%N | Normal => 1%N | Pending => 2%N | Firing => 3%N end.

Definition astate_eqb (a b : astate) : bool := N.eqb (astate_code a) (astate_code b).

(* alertutils.IsAlertStatePendingOrFiring *)
Definition pending_or_firing (s : astate) : bool :=
  match s with Pending | Firing => true | _ => false end.

(* alertutils.AlertQueryCondition *)
Inductive cond := IsAbove | IsBelow | IsEqualTo | IsNotEqualTo | HasNoValue | CondOther.

(* evaluateConditions(serResVal, queryCond, val) *)
Definition evaluate_conditions (v : Z) (c : cond) (thr : Z) : bool :=
  match c with
  | IsAbove => thr <? v
  | IsBelow => v <? thr
  | IsEqualTo => v =? thr
  | IsNotEqualTo => negb (v =? thr)
  | HasNoValue => v =? 0
  | CondOther => false
  end.

(* evaluateMeasureResultsAlertCondition / evaluateRecordsMeasureAggsAlertCondition /
   evaluateMetricsQueryConditions: the condition holds iff it holds for some value of the
   query result (no value at all: it does not hold, also for HasNoValue). *)
Definition evaluate_result (vals : list Z) (c : cond) (thr : Z) : bool :=
  existsb (fun v => evaluate_conditions v c thr) vals.

(* ---- history table: rows of one alert, newest first.  A row is either the record of an
   evaluation (its state) or the record of a configuration change ("Config Modified", written by
   ProcessUpdateAlertRequest with the zero AlertState). ---- *)
Inductive hrow := HEval (s : astate) | HConfig.
Definition history := list hrow.

(* GetAlertHistoryByAlertID with EvaluationsOnly: event_description <> "Config Modified" *)
Fixpoint eval_rows (h : history) : list astate :=
  match h with
  | [] => []
  | HEval s :: r => s :: eval_rows r
  | HConfig :: r => eval_rows r
  end.

(* the state column as the PRE-FIX window check read it: a config row has AlertState 0 *)
Definition row_state (r : hrow) : astate := match r with HEval s => s | HConfig => Inactive end.

(* the newest n rows exist and all are Pending or Firing
   (Limit=n DESC; len < n -> false; loop) *)
Fixpoint window_ok (n : N) (h : list astate) : bool :=
  if (n =? 0)%N then true else
  match h with
  | [] => false
  | r :: h' => pending_or_firing r && window_ok (n - 1) h'
  end.

(* shouldUpdateAlertStateToFiring.  Go: EvalWindow / EvalInterval in uint64
   (EvalInterval = 0 would panic; creation rejects window < interval, the model's N.div gives 0).
   The previous N-1 EVALUATIONS are read (config-change rows are skipped). *)
Definition should_fire (window interval : N) (h : history) (cur : astate) : bool :=
  if negb (pending_or_firing cur) then false else
  let n := (window / interval)%N in
  if (n =? 0)%N then false else
  if (n =? 1)%N then true else
  window_ok (n - 1) (eval_rows h).

(* PRE-FIX: the newest N-1 rows of any kind were read *)
Definition should_fire_prefix (window interval : N) (h : history) (cur : astate) : bool :=
  if negb (pending_or_firing cur) then false else
  let n := (window / interval)%N in
  if (n =? 0)%N then false else
  if (n =? 1)%N then true else
  window_ok (n - 1) (map row_state h).

(* ---- notification_details row ---- *)
Record notif := mkNotif {
  n_last_state : astate;      (* LastAlertState: state of the last notification sent *)
  n_last_sent : option Z;     (* LastSentTime; None = zero time *)
  n_cooldown : Z              (* CooldownPeriod, minutes *)
}.

(* isCooldownOver / isSilenceMinutesOver *)
Definition gate_over (minutes : Z) (last : option Z) (now : Z) : bool :=
  match last with
  | None => true
  | Some t => minutes * 60 <=? now - t
  end.

(* shouldSendNotification *)
Definition should_send (cur : astate) (nf : notif) (silence : Z) (now : Z) : bool :=
  if astate_eqb cur Normal && astate_eqb (n_last_state nf) Inactive then false else
  if astate_eqb cur Normal && astate_eqb (n_last_state nf) cur then false else
  if negb (gate_over (n_cooldown nf) (n_last_sent nf) now) then false else
  if negb (gate_over silence (n_last_sent nf) now) then false else
  true.

(* ---- one alert: all_alerts row + its history + its notification row ---- *)
Record alert := mkAlert {
  a_state : astate;
  a_window : N;        (* EvalWindow, minutes *)
  a_interval : N;      (* EvalInterval, minutes *)
  a_silence : Z;       (* SilenceMinutes *)
  a_hist : history;
  a_notif : notif;
  a_evals : N          (* NumEvaluationsCount *)
}.

Definition new_alert (window interval : N) (cooldown : Z) : alert :=
  mkAlert Inactive window interval 0 [] (mkNotif Inactive None cooldown) 0.

(* handleAlertCondition + NotifyAlertHandlerRequest + updateAlertStateAndCreateAlertHistory.
   [deliver]: at least one contact channel accepted the message.
   Result: new alert, and the kind of notification that went out (if any). *)
Definition handle_condition (now : Z) (matched deliver : bool) (a : alert) : alert * option astate :=
  let new :=
    if matched then
      (if should_fire (a_window a) (a_interval a) (a_hist a) Pending then Firing else Pending)
    else Normal in
  let attempt := match new with Firing | Normal => true | _ => false end in
  let sent := attempt && should_send new (a_notif a) (a_silence a) now && deliver in
  let nf := if sent then mkNotif new (Some now) (n_cooldown (a_notif a)) else a_notif a in
  (mkAlert new (a_window a) (a_interval a) (a_silence a) (HEval new :: a_hist a) nf (a_evals a + 1)%N,
   if sent then Some new else None).

(* events of an alert's life *)
Inductive event :=
| Eval (t : Z) (matched : bool)          (* one evaluation at time t with the given outcome *)
| Update (window interval : N)           (* ProcessUpdateAlertRequest: config saved, history row "Config Modified" with AlertState = 0 *)
| Silence (minutes : Z).                 (* ProcessSilenceAlertRequest / Unsilence (0): UpdateAlert, no history row *)

Definition step (deliver : bool) (a : alert) (e : event) : alert * option (Z * astate) :=
  match e with
  | Eval t m =>
    let '(a', s) := handle_condition t m deliver a in
    (a', match s with Some k => Some (t, k) | None => None end)
  | Update w i =>
    (mkAlert (a_state a) w i (a_silence a) (HConfig :: a_hist a) (a_notif a) (a_evals a), None)
  | Silence m =>
    (mkAlert (a_state a) (a_window a) (a_interval a) m (a_hist a) (a_notif a) (a_evals a), None)
  end.

(* run: final alert and the notifications that went out, NEWEST FIRST *)
Fixpoint run_from (deliver : bool) (evs : list event) (a : alert) (sent : list (Z * astate)) : alert * list (Z * astate) :=
  match evs with
  | [] => (a, sent)
  | e :: r =>
    let '(a', s) := step deliver a e in
    run_from deliver r a' (match s with Some x => x :: sent | None => sent end)
  end.

Definition run (deliver : bool) (evs : list event) (a : alert) : alert * list (Z * astate) :=
  run_from deliver evs a [].

(* PRE-FIX state machine (documentation): same, with the pre-fix window check; state only *)
Definition step_prefix (a : alert) (e : event) : alert :=
  match e with
  | Eval t m =>
    let new :=
      if m then
        (if should_fire_prefix (a_window a) (a_interval a) (a_hist a) Pending then Firing else Pending)
      else Normal in
    mkAlert new (a_window a) (a_interval a) (a_silence a) (HEval new :: a_hist a) (a_notif a) (a_evals a + 1)%N
  | _ => fst (step true a e)
  end.

Fixpoint run_prefix (evs : list event) (a : alert) : alert :=
  match evs with [] => a | e :: r => run_prefix r (step_prefix a e) end.

(* trace: per event the state after it and the notification kind sent by it (0 = none) *)
Fixpoint trace (deliver : bool) (evs : list event) (a : alert) : list (N * N) :=
  match evs with
  | [] => []
  | e :: r =>
    let '(a', s) := step deliver a e in
    (astate_code (a_state a'), match s with Some (_, k) => astate_code k | None => 0%N end)
      :: trace deliver r a'
  end.

(* ---- specification side (property text) ---- *)

(* outcomes of the evaluations of an event list, in order *)
Fixpoint outcomes (evs : list event) : list bool :=
  match evs with
  | [] => []
  | Eval _ m :: r => m :: outcomes r
  | _ :: r => outcomes r
  end.

(* the newest n outcomes exist and all are true; [os] newest first *)
Fixpoint all_held (n : N) (os : list bool) : bool :=
  if (n =? 0)%N then true else
  match os with
  | [] => false
  | o :: r => o && all_held (n - 1) r
  end.

(* state required by the property after the evaluations [os] (newest first), N = n *)
Definition spec_state (n : N) (os : list bool) : astate :=
  match os with
  | [] => Inactive
  | false :: _ => Normal
  | true :: _ => if (1 <=? n)%N && all_held n os then Firing else Pending
  end.

Definition is_eval (e : event) : bool := match e with Eval _ _ => true | _ => false end.
Definition is_update (e : event) : bool := match e with Update _ _ => true | _ => false end.

(* no configuration update among the newest n history-producing events ([evs_rev] newest first);
   Silence events produce no history row and are skipped *)
Fixpoint no_update_in_window (n : N) (evs_rev : list event) : bool :=
  if (n =? 0)%N then true else
  match evs_rev with
  | [] => true
  | Eval _ _ :: r => no_update_in_window (n - 1) r
  | Update _ _ :: _ => false
  | Silence _ :: r => no_update_in_window n r
  end.

(* event times are non-decreasing *)
Fixpoint times_from (t0 : Z) (evs : list event) : bool :=
  match evs with
  | [] => true
  | Eval t _ :: r => (t0 <=? t) && times_from t r
  | _ :: r => times_from t0 r
  end.

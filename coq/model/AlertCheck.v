(* AlertCheck.v — executable comparison of the alert model with observations of the
   real alertsHandler package (used by the generated case files of C20). *)
From SigM Require Import Base Alert KvStore.
Open Scope Z_scope.

(* events as the harness drives them: an evaluation carries the values of the query result *)
Inductive cevent :=
| CEval (t : Z) (vals : list Z)
| CUpdate (window interval : N)
| CSilence (minutes : Z).

Definition to_event (c : cond) (thr : Z) (e : cevent) : event :=
  match e with
  | CEval t vals => Eval t (evaluate_result vals c thr)
  | CUpdate w i => Update w i
  | CSilence m => Silence m
  end.

Definition cond_of_code (n : N) : cond :=
  match n with
  | 0%N => IsAbove | 1%N => IsBelow | 2%N => IsEqualTo | 3%N => IsNotEqualTo | 4%N => HasNoValue
  | _ => CondOther
  end.

(* matched code per event: 1/0 for an evaluation, 2 for the others *)
Definition matched_code (c : cond) (thr : Z) (e : cevent) : N :=
  match e with
  | CEval _ vals => if evaluate_result vals c thr then 1%N else 0%N
  | _ => 2%N
  end.

Record acase := mkCase {
  k_window : N; k_interval : N; k_cooldown : Z; k_deliver : bool;
  k_cond : N; k_thr : Z;
  k_events : list cevent;
  (* observed per event: (alert state code after it, notification kind received (0 none), matched code) *)
  k_obs : list (N * N * N)
}.

Definition obs_eqb (a b : N * N * N) : bool :=
  let '(a1, a2, a3) := a in let '(b1, b2, b3) := b in
  N.eqb a1 b1 && N.eqb a2 b2 && N.eqb a3 b3.

Definition model_obs (k : acase) : list (N * N * N) :=
  let c := cond_of_code (k_cond k) in
  let evs := map (to_event c (k_thr k)) (k_events k) in
  let tr := trace (k_deliver k) evs (new_alert (k_window k) (k_interval k) (k_cooldown k)) in
  map (fun p => let '((s, n), e) := p in (s, n, matched_code c (k_thr k) e)) (combine tr (k_events k)).

Definition case_ok (k : acase) : bool := list_eqb obs_eqb (model_obs k) (k_obs k).

(* model self-check (redundant with alert_state_is_function_of_last_N_all_events): the model's
   state after each evaluation is the specified one, N taken from the configuration in force *)
Fixpoint spec_trace (n : N) (os_rev : list bool) (evs : list event) : list N :=
  match evs with
  | [] => []
  | Eval _ m :: r => astate_code (spec_state n (m :: os_rev)) :: spec_trace n (m :: os_rev) r
  | Update w i :: r => 99%N :: spec_trace (w / i)%N os_rev r
  | Silence _ :: r => 99%N :: spec_trace n os_rev r
  end.

Fixpoint mask_non_evals (evs : list event) (l : list N) : list N :=
  match evs, l with
  | e :: r, x :: l' => (if is_eval e then x else 99%N) :: mask_non_evals r l'
  | _, _ => []
  end.

Definition self_ok (k : acase) : bool :=
  let c := cond_of_code (k_cond k) in
  let evs := map (to_event c (k_thr k)) (k_events k) in
  list_eqb N.eqb
    (mask_non_evals evs (map fst (trace (k_deliver k) evs (new_alert (k_window k) (k_interval k) (k_cooldown k)))))
    (spec_trace (k_window k / k_interval k)%N [] evs).

Fixpoint bad_from (ks : list acase) (idx : nat) : list nat :=
  match ks with
  | [] => []
  | k :: r => (if case_ok k && self_ok k then [] else [idx]) ++ bad_from r (S idx)
  end.

(* indices of the cases on which model and implementation disagree *)
Definition bad_cases (ks : list acase) : list nat := bad_from ks O.

(* single decision functions driven directly *)
(* evaluateConditions: (value, cond code, threshold, observed) *)
Definition bad_conditions (l : list (Z * N * Z * bool)) : list nat :=
  let fix go l idx :=
    match l with
    | [] => []
    | (v, c, thr, o) :: r =>
      (if Bool.eqb (evaluate_conditions v (cond_of_code c) thr) o then [] else [idx]) ++ go r (S idx)
    end in go l O.

Definition state_of_code (n : N) : astate :=
  match n with 1%N => Normal | 2%N => Pending | 3%N => Firing | _ => Inactive end.

(* shouldSendNotification: (current state code, last state code, last sent (None = never), cooldown, silence, now, observed) *)
Definition bad_should_send (l : list (N * N * option Z * Z * Z * Z * bool)) : list nat :=
  let fix go l idx :=
    match l with
    | [] => []
    | (cur, last, ls, cd, sil, now, o) :: r =>
      (if Bool.eqb (should_send (state_of_code cur) (mkNotif (state_of_code last) ls cd) sil now) o then [] else [idx])
      ++ go r (S idx)
    end in go l O.

(* history row codes: 0..3 = evaluation row with that state, 4 = config-change row *)
Definition hrow_of_code (n : N) : hrow :=
  match n with 4%N => HConfig | _ => HEval (state_of_code n) end.

(* shouldUpdateAlertStateToFiring: (window, interval, history row codes newest first, current state code, observed) *)
Definition bad_should_fire (l : list (N * N * list N * N * bool)) : list nat :=
  let fix go l idx :=
    match l with
    | [] => []
    | (w, i, h, cur, o) :: r =>
      (if Bool.eqb (should_fire w i (map hrow_of_code h) (state_of_code cur)) o then [] else [idx]) ++ go r (S idx)
    end in go l O.

(* ------------------------------------------------------------------ *)
(* keyed stores: model outputs against the observed outputs            *)
(* ------------------------------------------------------------------ *)

(* same map: equal size and every binding of [a] is in [b] (keys of both are unique) *)
Definition kvmap_same (a b : kvmap) : bool :=
  Nat.eqb (length a) (length b) &&
  forallb (fun kv => match kv_get (fst kv) b with Some v => bytes_eqb v (snd kv) | None => false end) a.

Definition out_same (m o : out) : bool :=
  match m, o with
  | OAck a, OAck b => Bool.eqb a b
  | OVal None, OVal None => true
  | OVal (Some a), OVal (Some b) => bytes_eqb a b
  | OList a, OList b => kvmap_same a b
  | _, _ => false
  end.

Fixpoint outs_bad (m o : list out) (idx : nat) : list nat :=
  match m, o with
  | [], [] => []
  | x :: m', y :: o' => (if out_same x y then [] else [idx]) ++ outs_bad m' o' (S idx)
  | _, _ => [idx]
  end.

(* cached store (saved queries): indices of operations whose observed output differs *)
Definition kv_bad (ops : list op) (obs : list out) : list nat :=
  outs_bad (run_out ops empty_store) obs O.
(* direct store (dashboards/folders, lookups) *)
Definition dkv_bad (ops : list op) (obs : list out) : list nat :=
  outs_bad (drun_out ops []) obs O.

Definition nset_same (a b : nset) : bool :=
  forallb (fun x => ns_mem x b) a && forallb (fun x => ns_mem x a) b.

(* alias store; a reverse lookup is observed as [] (not an alias) or [index] (one of the
   indexes of the alias, whichever the map iteration yields) *)
Definition aout_same (o : aop) (m obs : aout) : bool :=
  match m, obs with
  | AAck a, AAck b => Bool.eqb a b
  | ASet ms, ASet os =>
    match o with
    | AIsAlias _ _ =>
      match os with
      | [] => match ms with [] => true | _ => false end
      | [i] => ns_mem i ms
      | _ => false
      end
    | _ => nset_same ms os
    end
  | _, _ => false
  end.

Fixpoint aouts_bad (ops : list aop) (m o : list aout) (idx : nat) : list nat :=
  match ops, m, o with
  | [], [], [] => []
  | p :: ops', x :: m', y :: o' => (if aout_same p x y then [] else [idx]) ++ aouts_bad ops' m' o' (S idx)
  | _, _, _ => [idx]
  end.

(* ds: the tenants (<> 0) whose alias directory exists in the scenario's data directory *)
Definition alias_bad (ds : list tenant) (ops : list aop) (obs : list aout) : list nat :=
  aouts_bad ops (arun_out (D := ds) ops empty_astore) obs O.

(* a file of many scenarios: indices of the scenarios with at least one differing output *)
Fixpoint scen_bad {A} (bad : A -> list nat) (l : list A) (idx : nat) : list nat :=
  match l with
  | [] => []
  | x :: r => (match bad x with [] => [] | _ => [idx] end) ++ scen_bad bad r (S idx)
  end.

(* Base.v — shared executable definitions: bytes, little-endian fields.
   Model files contain definitions only (no proofs) so that the model
   still runs when a proof breaks. *)
From Coq Require Export List Arith NArith ZArith Bool.
Export ListNotations.
Open Scope N_scope.

Notation byte := N (only parsing).
Notation bytes := (list N) (only parsing).

Definition is_byte (b : N) : bool := b <? 256.
Definition all_bytes (l : bytes) : bool := forallb is_byte l.

(* little-endian fixed-width encoders *)
Fixpoint le_enc (k : nat) (n : N) : bytes :=
  match k with
  | O => []
  | S k' => n mod 256 :: le_enc k' (n / 256)
  end.

Fixpoint le_dec (bs : bytes) : N :=
  match bs with
  | [] => 0
  | b :: r => b + 256 * le_dec r
  end.

Definition le16 := le_enc 2.
Definition le32 := le_enc 4.
Definition le64 := le_enc 8.

(* read k bytes as a little-endian number *)
Definition rd_le (k : nat) (b : bytes) : option (N * bytes) :=
  if Nat.ltb (length b) k then None
  else Some (le_dec (firstn k b), skipn k b).

Definition rd16 := rd_le 2.
Definition rd32 := rd_le 4.
Definition rd64 := rd_le 8.

Definition take (k : nat) (b : bytes) : option (bytes * bytes) :=
  if Nat.ltb (length b) k then None else Some (firstn k b, skipn k b).

(* replace element i of a list *)
Fixpoint set_nth {A} (i : nat) (x : A) (l : list A) : list A :=
  match l, i with
  | [], _ => []
  | _ :: r, O => x :: r
  | y :: r, S i' => y :: set_nth i' x r
  end.

Fixpoint list_eqb {A} (eqb : A -> A -> bool) (a b : list A) : bool :=
  match a, b with
  | [], [] => true
  | x :: a', y :: b' => eqb x y && list_eqb eqb a' b'
  | _, _ => false
  end.

Definition bytes_eqb := list_eqb N.eqb.

Definition pow2_32 : N := 4294967296.
Definition pow2_64 : N := 18446744073709551616.

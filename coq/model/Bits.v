(* Bits.v — bit strings (MSB first), fixed-width fields, 64-bit words as bit lists,
   packing into bytes.  Definitions only. *)
From SigM Require Import Base.
Open Scope N_scope.

Definition word := list bool.

Fixpoint lz (w : word) : nat :=
  match w with
  | false :: w' => S (lz w')
  | _ => O
  end.

Definition tz (w : word) : nat := lz (rev w).

Definition xorw (a b : word) : word := map (fun p => xorb (fst p) (snd p)) (combine a b).

Definition zeros (n : nat) : word := repeat false n.

Definition iszero (w : word) : bool := forallb negb w.

(* the "meaningful" slice for a window (l leading, t trailing zeros) *)
Definition slice (l t : nat) (w : word) : word := firstn (length w - l - t) (skipn l w).

Definition rebuild (l t : nat) (mid : word) : word := zeros l ++ mid ++ zeros t.

(* fixed-width fields: the k low bits of n, most significant first *)
Fixpoint N2bits_rev (k : nat) (n : N) : list bool :=
  match k with
  | O => []
  | S k' => N.odd n :: N2bits_rev k' (N.div2 n)
  end.
Definition N2bits (k : nat) (n : N) : list bool := rev (N2bits_rev k n).

Fixpoint bitsrev2N (l : list bool) : N :=
  match l with
  | [] => 0
  | b :: r => (if b then 1 else 0) + 2 * bitsrev2N r
  end.
Definition bits2N (l : list bool) : N := bitsrev2N (rev l).

Definition btake (k : nat) (s : list bool) : option (list bool * list bool) :=
  if Nat.leb k (length s) then Some (firstn k s, skipn k s) else None.

(* bitWriter: bytes are emitted MSB first; flush pads the last byte with zero bits *)
Fixpoint pack_aux (fuel : nat) (bs : list bool) : bytes :=
  match fuel with
  | O => []
  | S f =>
    match bs with
    | [] => []
    | _ => bits2N (firstn 8 (bs ++ zeros 7)) :: pack_aux f (skipn 8 bs)
    end
  end.
Definition pack (bs : list bool) : bytes := pack_aux (length bs) bs.

Definition unpack (b : bytes) : list bool := flat_map (N2bits 8) b.

Definition bool_eqb (a b : bool) : bool := Bool.eqb a b.

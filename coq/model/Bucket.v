(* Bucket.v — time buckets of `timechart` (C04).
   Follows pkg/segment/aggregations/timechartagg.go:
     type Range struct { start, end (exclusive), step uint64 }
     GenerateTimeRangeBuckets: start = query start epoch, end = query END epoch, step = span (ms)
     FindTimeRangeBucket(r, ts):
        if ts <  r.start { return r.start }
        if ts >= r.end   { return r.end - r.step }           // uint64 subtraction (wraps)
        index := (ts - r.start) / r.step                      // uint64, panics when step = 0
        return r.start + index*r.step
   All values are Go uint64; every arithmetic node is wrapped explicitly.
   Definitions only (proofs: SigP.BucketProofs). *)
From SigM Require Import Base.
Open Scope Z_scope.

Definition two64 : Z := 18446744073709551616.
Definition wrap_u64 (z : Z) : Z := z mod two64.
Definition is_u64 (z : Z) : bool := (0 <=? z) && (z <? two64).

(* None = run-time panic (integer divide by zero) *)
Definition find_bucket (start end_ step ts : Z) : option Z :=
  if ts <? start then Some start
  else if end_ <=? ts then Some (wrap_u64 (end_ - step))
  else if step =? 0 then None
  else
    let index := wrap_u64 (ts - start) / step in
    Some (wrap_u64 (start + wrap_u64 (index * step))).

(* total variant used by the theorems (step > 0) *)
Definition find_bucket_t (start end_ step ts : Z) : Z :=
  match find_bucket start end_ step ts with Some b => b | None => 0 end.

(* the aligned bucket starts of the half-open range [start, end_): start + k*step < end_ *)
Fixpoint bucket_list_from (n : nat) (b end_ step : Z) : list Z :=
  match n with
  | O => []
  | S n' => if b <? end_ then b :: bucket_list_from n' (b + step) end_ step else []
  end.

Definition bucket_count (start end_ step : Z) : Z :=
  if end_ <=? start then 0 else (end_ - start + step - 1) / step.

Definition bucket_list (start end_ step : Z) : list Z :=
  bucket_list_from (Z.to_nat (bucket_count start end_ step)) start end_ step.

(* does bucket b (of width step) contain ts *)
Definition in_bucket (b step ts : Z) : bool := (b <=? ts) && (ts <? b + step).

(* ---- timechart as grouping by find_bucket: (bucket, count, sum of integer values) ---- *)
Fixpoint tc_add (b v : Z) (acc : list (Z * (Z * Z))) : list (Z * (Z * Z)) :=
  match acc with
  | [] => [(b, (1, v))]
  | (b', (c, s)) :: r => if b' =? b then (b', (c + 1, s + v)) :: r else (b', (c, s)) :: tc_add b v r
  end.

(* events = (timestamp, integer value); buckets in first-occurrence order *)
Definition timechart (start end_ step : Z) (evs : list (Z * Z)) : list (Z * (Z * Z)) :=
  fold_left (fun acc e => tc_add (find_bucket_t start end_ step (fst e)) (snd e) acc) evs [].

(* ---------------------------------------------------------------------------------------------
   `bin <timefield> span=<n><unit> [aligntime=<T>]` (new pipeline: pkg/segment/query/processor/bincommand.go
   binProcessor.performBinWithSpanTime / getTimeBucketWithAlign; the row-based pipeline has an identical
   copy in pkg/segment/aggregations/segaggs.go).  Timestamps are epoch milliseconds.

     sub-day units (ms, cs, ds, s, m, h), span = n * unit:
       aligntime absent : utcTime.Truncate(span)   -- Go rounds down to a multiple of span counted from Go's
                                                      zero time (1 Jan of year 1 = 62135596800 s before 1970)
       aligntime = T    : diff   := math.Floor((ts - T) / span)         (float64; exact below 2^52)
                          bucket := int(T + diff*span); if bucket < 0 { bucket = 0 }
                          -- FLOOR, not truncation: T is an origin with events on both sides of it
     day / week units   : totalDays := int(hours since 1970 / 24); slot := totalDays / w * w  (w = n or 7n days)
                          bucket := slot days after 1970; aligntime is ignored
   month / quarter / year spans are calendar arithmetic (time.Date) and are not modelled. *)
Inductive tunit := UMs | UCs | UDs | USec | UMin | UHour | UDay | UWeek.

Definition unit_ms (u : tunit) : Z :=
  match u with
  | UMs => 1 | UCs => 10 | UDs => 100 | USec => 1000 | UMin => 60000 | UHour => 3600000
  | UDay => 86400000 | UWeek => 604800000
  end.

Definition day_ms : Z := 86400000.
Definition go_zero_ms : Z := 62135596800000.   (* Unix epoch minus Go's zero time, in ms *)

(* the bucket of the grid {origin + k*span | k in Z} whose span contains ts; Z division is floor division *)
Definition grid_bucket (origin span ts : Z) : Z := origin + (ts - origin) / span * span.

Definition bin_align (span align ts : Z) : Z :=
  let b := grid_bucket align span ts in if b <? 0 then 0 else b.

Definition bin_trunc (span ts : Z) : Z := ts - (ts + go_zero_ms) mod span.

Definition bin_days (w ts : Z) : Z := ts / day_ms / w * w * day_ms.

(* width of the buckets of `span=<n><u>` in ms *)
Definition bin_span (u : tunit) (n : Z) : Z := n * unit_ms u.

Definition bin_time (u : tunit) (n : Z) (align : option Z) (ts : Z) : Z :=
  match u with
  | UDay | UWeek => bin_days (n * (unit_ms u / day_ms)) ts
  | _ => match align with
         | None => bin_trunc (bin_span u n) ts
         | Some a => bin_align (bin_span u n) a ts
         end
  end.

(* what a truncating integer division would give (Go's `/` on int64 rounds toward zero): NOT what the code
   computes; kept to state why the floor matters (BucketProofs.trunc_bucket_misses_ts) *)
Definition trunc_bucket (origin span ts : Z) : Z := origin + Z.quot (ts - origin) span * span.

(* `bin ... | stats count, sum(f) by <binned time>` = grouping by the bucket: (bucket, (count, sum)) *)
Definition chart_by (key : Z -> Z) (evs : list (Z * Z)) : list (Z * (Z * Z)) :=
  fold_left (fun acc e => tc_add (key (fst e)) (snd e) acc) evs [].

Definition bin_chart (u : tunit) (n : Z) (align : option Z) (evs : list (Z * Z)) : list (Z * (Z * Z)) :=
  chart_by (bin_time u n align) evs.

(* the bucket width `timechart span=<n><u>` uses: aggregations.GetIntervalInMillis as coded (after the fix
   c9c5b98 "timechart span in centiseconds / deciseconds is converted to milliseconds like every other unit").
     case TMMillisecond: return uint64(numD)                                          -- numD = time.Duration(num)
     case TMCentisecond: return uint64((numD * 10 * time.Millisecond).Milliseconds())  -- n*10
     case TMDecisecond:  return uint64((numD * 100 * time.Millisecond).Milliseconds()) -- n*100
     case TMSecond:      return uint64((numD * time.Second).Milliseconds())   ... minute, hour, day, week alike
   (month = 30 days, quarter = 120 days: not modelled) *)
Definition tc_interval (u : tunit) (n : Z) : Z :=
  match u with
  | UMs => n
  | UCs => n * 10
  | UDs => n * 100
  | _ => n * unit_ms u
  end.

(* before the fix: cs / ds returned `uint64(numD * 10 * time.Millisecond)`, a Duration, i.e. NANOseconds *)
Definition tc_interval_prefix (u : tunit) (n : Z) : Z :=
  match u with
  | UCs => n * 10 * 1000000
  | UDs => n * 100 * 1000000
  | _ => tc_interval u n
  end.

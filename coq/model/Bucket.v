(* Bucket.v — time buckets of `timechart` (C04).
   Follows pkg/segment/aggregations/timechartagg.go:
     type Range struct { start, end (exclusive), step uint64 }
     GenerateTimeRangeBuckets: start = query start epoch, end = query END epoch, step = span (ms)
     FindTimeRangeBucket(r, ts):
        if ts <  r.start { return r.start }
        if ts >= r.end   { return r.end - r.step }           // uint64 subtraction (wraps)
        index := (ts - r.start) / r.step                      // uint64, panics when step = 0
        return r.start + index*r.step
   All values are Go uint64; every arithmetic node is wrapped explicitly.
   Definitions only (proofs: SigP.BucketProofs). *)
From SigM Require Import Base.
Open Scope Z_scope.

Definition two64 : Z := 18446744073709551616.
Definition wrap_u64 (z : Z) : Z := z mod two64.
Definition is_u64 (z : Z) : bool := (0 <=? z) && (z <? two64).

(* None = run-time panic (integer divide by zero) *)
Definition find_bucket (start end_ step ts : Z) : option Z :=
  if ts <? start then Some start
  else if end_ <=? ts then Some (wrap_u64 (end_ - step))
  else if step =? 0 then None
  else
    let index := wrap_u64 (ts - start) / step in
    Some (wrap_u64 (start + wrap_u64 (index * step))).

(* total variant used by the theorems (step > 0) *)
Definition find_bucket_t (start end_ step ts : Z) : Z :=
  match find_bucket start end_ step ts with Some b => b | None => 0 end.

(* the aligned bucket starts of the half-open range [start, end_): start + k*step < end_ *)
Fixpoint bucket_list_from (n : nat) (b end_ step : Z) : list Z :=
  match n with
  | O => []
  | S n' => if b <? end_ then b :: bucket_list_from n' (b + step) end_ step else []
  end.

Definition bucket_count (start end_ step : Z) : Z :=
  if end_ <=? start then 0 else (end_ - start + step - 1) / step.

Definition bucket_list (start end_ step : Z) : list Z :=
  bucket_list_from (Z.to_nat (bucket_count start end_ step)) start end_ step.

(* does bucket b (of width step) contain ts *)
Definition in_bucket (b step ts : Z) : bool := (b <=? ts) && (ts <? b + step).

(* ---- timechart as grouping by find_bucket: (bucket, count, sum of integer values) ---- *)
Fixpoint tc_add (b v : Z) (acc : list (Z * (Z * Z))) : list (Z * (Z * Z)) :=
  match acc with
  | [] => [(b, (1, v))]
  | (b', (c, s)) :: r => if b' =? b then (b', (c + 1, s + v)) :: r else (b', (c, s)) :: tc_add b v r
  end.

(* events = (timestamp, integer value); buckets in first-occurrence order *)
Definition timechart (start end_ step : Z) (evs : list (Z * Z)) : list (Z * (Z * Z)) :=
  fold_left (fun acc e => tc_add (find_bucket_t start end_ step (fst e)) (snd e) acc) evs [].

(* BufPool.v — ownership of pooled read buffers (C18).
   pkg/memorypool: a pool is a list of items with an inUse flag; Get returns the first
   item that is not in use (or appends a new one) and marks it; Put clears the flag
   (idempotent).  Readers (TimeRangeReader.blockReadBuffer, SegmentFileReader.currFileBuffer,
   ...) keep the slice they got in a field.  The sequence the readers execute:
     need a buffer, field nil            : field = Get()                    (Need)
     buffer too small                    : Put(field); field = Get()        (Swap)
     read failed                         : nothing                          (Fail)
     Close                               : Put(field); the reader is gone   (Close)
   [keep = true] is the variant "release without forget": the failure path does
   Put(field) and KEEPS the field (seeded change C18c). *)
From SigM Require Import Base.

Record pstate := { pool : list bool;                 (* inUse flag per buffer id *)
                   holds : list (nat * nat) }.       (* (reader, buffer id) : the reader's field *)

Definition init : pstate := {| pool := []; holds := [] |}.

Inductive pop := Need (r : nat) | Swap (r : nat) | Fail (r : nat) | Close (r : nat).

Fixpoint lookup (r : nat) (h : list (nat * nat)) : option nat :=
  match h with
  | [] => None
  | (r', b) :: t => if Nat.eqb r r' then Some b else lookup r t
  end.

Fixpoint remove_r (r : nat) (h : list (nat * nat)) : list (nat * nat) :=
  match h with
  | [] => []
  | (r', b) :: t => if Nat.eqb r r' then remove_r r t else (r', b) :: remove_r r t
  end.

(* MemoryPool.Get: first free item, else a new one *)
Fixpoint first_free (p : list bool) (i : nat) : nat :=
  match p with
  | [] => i
  | u :: t => if u then first_free t (S i) else i
  end.

Definition pget (p : list bool) : nat * list bool :=
  let i := first_free p 0 in
  if Nat.ltb i (length p) then (i, set_nth i true p) else (i, p ++ [true]).

(* MemoryPool.Put *)
Definition pput (b : nat) (p : list bool) : list bool := set_nth b false p.

Definition acquire (r : nat) (s : pstate) : pstate :=
  let '(i, p') := pget (pool s) in {| pool := p'; holds := (r, i) :: holds s |}.

Definition release_forget (r : nat) (s : pstate) : pstate :=
  match lookup r (holds s) with
  | Some b => {| pool := pput b (pool s); holds := remove_r r (holds s) |}
  | None => s
  end.

Definition release_keep (r : nat) (s : pstate) : pstate :=
  match lookup r (holds s) with
  | Some b => {| pool := pput b (pool s); holds := holds s |}
  | None => s
  end.

Definition pstep (keep : bool) (s : pstate) (o : pop) : pstate :=
  match o with
  | Need r => match lookup r (holds s) with Some _ => s | None => acquire r s end
  | Swap r => acquire r (release_forget r s)
  | Fail r => if keep then release_keep r s else s
  | Close r => release_forget r s
  end.

Definition prun (keep : bool) (ops : list pop) : pstate := fold_left (pstep keep) ops init.

(* no buffer is in two readers' fields *)
Fixpoint nodup_b (l : list nat) : bool :=
  match l with
  | [] => true
  | x :: t => negb (existsb (Nat.eqb x) t) && nodup_b t
  end.
Definition exclusive (s : pstate) : bool := nodup_b (map snd (holds s)).

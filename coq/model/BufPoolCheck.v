(* BufPoolCheck.v — the pool model against the real pkg/memorypool: which buffer every Get returns. *)
From SigM Require Import Base BufPool.
Open Scope N_scope.

Inductive rawop := G | P (b : N).

Fixpoint raw_run (p : list bool) (ops : list rawop) : list N :=
  match ops with
  | [] => []
  | G :: t => let '(i, p') := pget p in N.of_nat i :: raw_run p' t
  | P b :: t => raw_run (pput (N.to_nat b) p) t
  end.

(* [n0] = numInitialItems of NewMemoryPool; obs = identity (index in order of creation) of the
   buffer each Get returned *)
Definition check_pool (cases : list (N * list rawop * list N)) : list nat :=
  (fix go (l : list (N * list rawop * list N)) (i : nat) : list nat :=
     match l with
     | [] => []
     | (n0, ops, obs) :: t =>
       (if list_eqb N.eqb (raw_run (repeat false (N.to_nat n0)) ops) obs then [] else [i]) ++ go t (S i)
     end) cases O.

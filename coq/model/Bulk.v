(* Bulk.v — model of HandleBulkBody (pkg/es/writer/esBulkHandler.go) and of the
   specification vocabulary of C15.  Definitions only.

   [loop]/[handle] follow the code AFTER the fix "bulk response accounting"
   (fixes/C15-bulk-response-accounting.diff): the loop stops only at the end of the
   body, maxRecordSizeExceeded is reset for every action, every failed item sets
   overallError.  [loop_prefix]/[handle_prefix] at the end of the file are the code
   BEFORE that fix, kept as documentation for the _refuted theorems.

   A request body is a byte string; [utils.ReadLine] cuts it at '\n'.  The model
   works on the list of SEGMENTS of the body (the pieces between the '\n's: a
   byte string with k newlines has k+1 segments, a body that ends with '\n' has
   an empty last segment; the empty body is [[empty]] or []).  Each segment is
   classified by the harness (it generated the body, it does not call the code
   under test to classify):
     l_len     byte length of the segment (MAX_RECORD_SIZE gate, len(line)==0 tests)
     l_act     what the segment is when read as an action line
     l_idx     the action's _index (a number standing for the index name; 0 = none)
     l_safe    utils.IsSafePathComponent(_index): non-empty, not "." / "..", no '/', '\\', NUL
               (a missing _index reads as the empty name)
     l_parses  writer.GetNewPLE succeeds on the segment read as a document line
     l_id      identity of the segment read as a document (key of the stored set) *)
From SigM Require Import Base.
Open Scope N_scope.

Definition MAX_RECORD_SIZE : N := 63000.        (* segment/utils/segconsts.go:75 *)

Inductive akind := KIndex | KCreate | KUpdate | KDelete | KUnknown | KBadJson.

Record line := mkLine {
  l_len : N; l_act : akind; l_idx : N; l_safe : bool; l_parses : bool; l_id : N }.

Definition empty_line : line := mkLine 0 KBadJson 0 true false 0.

(* ExtractIndexAndValidateAction (l.287-330): "index"/"create"/"update" whose value is
   an object; everything else (delete, unknown verbs, non-object, not JSON, empty
   line) comes back as DELETE. *)
Inductive esaction := INDEX | CREATE | UPDATE | DELETE.
Definition extract_action (l : line) : esaction :=
  match l_act l with
  | KIndex => INDEX | KCreate => CREATE | KUpdate => UPDATE
  | KDelete | KUnknown | KBadJson => DELETE
  end.

(* len(remainingPostBody) == 0 on the segment representation: nothing, or only the
   empty segment that follows the final '\n'. *)
Definition buf_empty (b : list line) : bool :=
  match b with
  | [] => true
  | [l] => l_len l =? 0
  | _ => false
  end.

(* utils.ReadLine: (line, rest).  The loop below inlines it as the pattern
   [l :: rest] so that the recursion is structural. *)
Definition read_line (b : list line) : line * list line :=
  match b with
  | [] => (empty_line, [])
  | l :: r => (l, r)
  end.

(* ---------- the local variables of HandleBulkBody ---------- *)
Record st := mkSt {
  success : bool;            (* var success bool *)
  oversize : bool;           (* var maxRecordSizeExceeded bool: set at l.223, never reset *)
  overall : bool;            (* var overallError bool *)
  atleast : bool;            (* atleastOneSuccess *)
  processed : N;             (* processedCount *)
  items : list N;            (* items[0:inCount], status codes *)
  ples : list (N * N)        (* allPLEs: (index, document id) *)
}.

Definition init : st := mkSt false false false false 0 [] [].

Definition set_success (v : bool) (s : st) : st :=
  mkSt v (oversize s) (overall s) (atleast s) (processed s) (items s) (ples s).
Definition set_oversize (v : bool) (s : st) : st :=
  mkSt (success s) v (overall s) (atleast s) (processed s) (items s) (ples s).
Definition set_overall (v : bool) (s : st) : st :=
  mkSt (success s) (oversize s) v (atleast s) (processed s) (items s) (ples s).
Definition set_atleast (v : bool) (s : st) : st :=
  mkSt (success s) (oversize s) (overall s) v (processed s) (items s) (ples s).
Definition set_processed (v : N) (s : st) : st :=
  mkSt (success s) (oversize s) (overall s) (atleast s) v (items s) (ples s).
Definition push_item (v : N) (s : st) : st :=
  mkSt (success s) (oversize s) (overall s) (atleast s) (processed s) (items s ++ [v]) (ples s).
Definition push_ple (p : N * N) (s : st) : st :=
  mkSt (success s) (oversize s) (overall s) (atleast s) (processed s) (items s) (ples s ++ [p]).

(* writer.GetNewPLE on a document line: ParseRawJsonObject rejects the empty input. *)
Definition get_new_ple (d : line) : bool :=
  if l_len d =? 0 then false else l_parses d.

(* l.184-224 (the non-".kibana" branch): the size gate and the parse *)
Definition write_doc (idx : N) (d : line) (s : st) : st :=
  if l_len d <? MAX_RECORD_SIZE then
    let s1 := set_success true (set_processed (processed s + 1) s) in
    if get_new_ple d then push_ple (idx, l_id d) s1
    else set_success false s1
  else set_oversize true (set_success false s).

(* the response item of this action: any failed item sets overallError *)
Definition emit (s : st) : st :=
  if negb (success s) then
    if oversize s then push_item 413 (set_overall true s)
    else push_item 400 (set_overall true s)
  else push_item 201 (set_atleast true s).

(* the ReadLine loop.  [s0] is the state after "inCount++; maxRecordSizeExceeded = false". *)
Fixpoint loop (b : list line) (s : st) : st :=
  match b with
  | [] => s                                          (* ReadLine(empty): line and rest empty -> break *)
  | a :: rem =>
    if (l_len a =? 0) && buf_empty rem then s else   (* break only at the end of the body *)
    let s0 := set_oversize false s in
    match extract_action a with
    | INDEX | CREATE =>
      match rem with
      | [] => emit (set_success false s0)            (* ReadLine(empty) = (empty, empty): "expected another line" *)
      | d :: rem' =>
        if (l_len d =? 0) && buf_empty rem'          (* "expected another line" *)
        then loop rem' (emit (set_success false s0))
        else if negb (l_safe a)                      (* "invalid index name": AFTER the document line was read *)
        then loop rem' (emit (set_success false s0))
        else loop rem' (emit (write_doc (l_idx a) d s0))
      end
    | UPDATE =>
      match rem with
      | [] => emit (set_success false s0)
      | _ :: rem' => loop rem' (emit (set_success false s0))
      end
    | DELETE => loop rem (emit (set_success false s0))        (* default *)
    end
  end.

(* What the caller and the store see.  ProcessIndexRequestPle is called once per
   index with that index's documents (l.260-272); its error is logged and dropped,
   so a failing index loses its whole batch: [store_ok idx = false].  The order
   between batches is a Go map order; observations compare r_stored as a multiset. *)
Record resp := mkResp {
  r_items : list N;          (* response["items"], status per item *)
  r_errors : bool;           (* response["errors"] *)
  r_processed : N;           (* first return value *)
  r_allfailed : bool;        (* err != nil ("all bulk requests failed") *)
  r_stored : list (N * N)    (* documents handed to the segment store and accepted *)
}.

Definition handle (store_ok : N -> bool) (b : list line) : resp :=
  let s := loop b init in
  mkResp (items s) (overall s) (processed s) (negb (atleast s))
         (filter (fun p => store_ok (fst p)) (ples s)).

(* ================= specification vocabulary (independent of the loop) ================= *)

(* The lines of a body: its segments up to the end of the body, where the end is the
   empty piece after the final '\n', preceded by at most one blank line (a body that
   ends in "\n\n" has the same lines as the one that ends in "\n"). *)
Fixpoint body_lines (b : list line) : list line :=
  match b with
  | [] => []
  | l :: r => if (l_len l =? 0) && buf_empty r then [] else l :: body_lines r
  end.

(* The bulk grammar: index/create/update are followed by their document line (if the
   body goes on), every other line in action position is an action without document. *)
Inductive action :=
| AWrite (a : line) (d : option line)
| AUpdate (a : line) (d : option line)
| AOther (a : line).

Fixpoint actions (ls : list line) : list action :=
  match ls with
  | [] => []
  | a :: r =>
    match extract_action a with
    | INDEX | CREATE =>
      match r with
      | [] => [AWrite a None]
      | d :: r' => AWrite a (Some d) :: actions r'
      end
    | UPDATE =>
      match r with
      | [] => [AUpdate a None]
      | d :: r' => AUpdate a (Some d) :: actions r'
      end
    | DELETE => AOther a :: actions r
    end
  end.

Definition doc_ok (d : line) : bool :=
  negb (l_len d =? 0) && (l_len d <? MAX_RECORD_SIZE) && l_parses d.

(* the action is a well-formed write: it must be acknowledged as created and stored *)
Definition act_ok (a : action) : bool :=
  match a with AWrite l (Some d) => l_safe l && doc_ok d | _ => false end.
(* an unusable index name is reported before the size of the document is looked at *)
Definition act_oversize (a : action) : bool :=
  match a with AWrite l (Some d) => l_safe l && (MAX_RECORD_SIZE <=? l_len d) | _ => false end.
Definition act_doc (a : action) : list (N * N) :=
  match a with AWrite l (Some d) => [(l_idx l, l_id d)] | _ => [] end.
Definition act_index (a : action) : N :=
  match a with AWrite l _ | AUpdate l _ | AOther l => l_idx l end.
Definition has_doc (a : action) : bool :=
  match a with AWrite _ (Some _) | AUpdate _ (Some _) => true | _ => false end.

(* status an action deserves on its own: 201, 413 for an oversize document, 400 otherwise *)
Definition expected_status (a : action) : N :=
  if act_ok a then 201 else if act_oversize a then 413 else 400.

(* guard: every index named in the request accepts its batch *)
Definition stores_ok (store_ok : N -> bool) (acts : list action) : bool :=
  forallb (fun a => store_ok (act_index a)) acts.

Definition created (st : N) : bool := st =? 201.
Definition key_eqb (p q : N * N) : bool := (fst p =? fst q) && (snd p =? snd q).

(* ================= the code BEFORE the fix (documentation only) =================
   (it also predates the index-name check, which the witnesses do not involve)
   l.160-258 of the pre-fix file: the loop broke as soon as nothing followed the
   action line (before inCount++), maxRecordSizeExceeded was never reset, and the
   413 branch did not set overallError. *)
Definition emit_prefix (s : st) : st :=
  if negb (success s) then
    if oversize s then push_item 413 s
    else push_item 400 (set_overall true s)
  else push_item 201 (set_atleast true s).

Fixpoint loop_prefix (b : list line) (s : st) : st :=
  match b with
  | [] => s
  | a :: rem =>
    if buf_empty rem then s else
    match extract_action a with
    | INDEX | CREATE =>
      match rem with
      | [] => s
      | d :: rem' =>
        if (l_len d =? 0) && buf_empty rem'
        then loop_prefix rem' (emit_prefix (set_success false s))
        else loop_prefix rem' (emit_prefix (write_doc (l_idx a) d s))
      end
    | UPDATE =>
      match rem with
      | [] => s
      | _ :: rem' => loop_prefix rem' (emit_prefix (set_success false s))
      end
    | DELETE => loop_prefix rem (emit_prefix (set_success false s))
    end
  end.

Definition handle_prefix (store_ok : N -> bool) (b : list line) : resp :=
  let s := loop_prefix b init in
  mkResp (items s) (overall s) (processed s) (negb (atleast s))
         (filter (fun p => store_ok (fst p)) (ples s)).

(* BulkAlias.v — where the documents of an ingest request are FILED and where a query LOOKS
   for them when index names may be aliases.  Definitions only.

   HandleBulkBody (pkg/es/writer/esBulkHandler.go:268-280) groups the accepted documents by
   the index name AS WRITTEN in the action (utils.ConvertSliceToMap over ple.GetIndexName())
   and calls ProcessIndexRequestPle once per group, in Go map order.  ProcessIndexRequestPle
   (l.383-426) resolves the name (AddAndGetRealIndexName: vtable.IsAlias -> the index the
   alias points to, else the name itself), derives the stream id from the RESOLVED name
   (utils.CreateStreamId: MAX_SHARDS = 1, so the id is a function of org and name) and calls
   writer.AddEntryToInMemBuf(streamid, resolved name, ...).  There (segwriter.go:325-337,
   699-747) getOrCreateSegStore looks the segment store up BY STREAM ID; the table name is
   used only when the store has to be created (resetSegStore: VirtualTableName, segment
   key / base directory, later the segment meta) — an existing store keeps its name, also
   across rotations (segstore.go:898).  Every other log ingest entry point goes through the
   same ProcessIndexRequestPle.

   A query names an index; vtable.ExpandAndReturnIndexNames replaces an alias by the index it
   points to (a name without wildcard that is not an alias stays as it is) and the search
   reads the segments whose VirtualTableName is one of the expanded names.

   Names are numbers (the harness's index numbers).  An alias points to ONE index here
   (aliasToIndexNames[org][alias] is a set in the code; vtable.IsAlias picks an arbitrary
   member — histories that give an alias a second index are outside the model). *)
From SigM Require Import Base Bulk.
Open Scope N_scope.

(* aliasToIndexNames[org]: alias -> index, latest definition first *)
Definition amap := list (N * N).

(* vtable.IsAlias *)
Fixpoint alias_of (al : amap) (n : N) : option N :=
  match al with
  | [] => None
  | (a, i) :: r => if a =? n then Some i else alias_of r n
  end.

(* AddAndGetRealIndexName; also ExpandAndReturnIndexNames on a single name without wildcard.
   ONE level only: the code does not follow an alias of an alias. *)
Definition resolve (al : amap) (n : N) : N :=
  match alias_of al n with Some i => i | None => n end.

(* utils.CreateStreamId(resolved name, org): fmt "%d-%v-%v" of rand.Intn(MAX_SHARDS = 1), org,
   xxhash(name) — one stream per (org, name); the hash is taken as injective on the names in use *)
Definition stream_id (n : N) : N := n.

(* a segment store: allSegStores[streamid] with its VirtualTableName and the documents
   (identities) it holds *)
Record segstore := mkSS { ss_stream : N; ss_table : N; ss_docs : list N }.

(* AddEntryToInMemBuf = getOrCreateSegStore(streamid, table) + AddEntry: the table name matters
   only when no store exists for the stream *)
Fixpoint add_entry (ss : list segstore) (sid table : N) (ds : list N) : list segstore :=
  match ss with
  | [] => [mkSS sid table ds]
  | s :: r =>
    if ss_stream s =? sid then mkSS (ss_stream s) (ss_table s) (ss_docs s ++ ds) :: r
    else s :: add_entry r sid table ds
  end.

(* ProcessIndexRequestPle for one group (index name as written, its documents) *)
Definition process_index (al : amap) (ss : list segstore) (g : N * list N) : list segstore :=
  let real := resolve al (fst g) in
  add_entry ss (stream_id real) real (snd g).

(* the group loop of a request; the ORDER of the groups is Go map order: the theorems
   quantify over every order *)
Definition run_batches (al : amap) (ss : list segstore) (gs : list (N * list N)) : list segstore :=
  fold_left (process_index al) gs ss.

(* the documents filed under a table name *)
Definition table_docs (ss : list segstore) (t : N) : list N :=
  flat_map (fun s => if ss_table s =? t then ss_docs s else []) ss.

(* what a query on [name] (an index name or an alias) can find *)
Definition searchable (al : amap) (ss : list segstore) (name : N) : list N :=
  table_docs ss (resolve al name).

(* ---- utils.ConvertSliceToMap: the groups of a list of (index as written, document),
   here in order of first occurrence ---- *)
Fixpoint add_to_group (g : list (N * list N)) (k : N * N) : list (N * list N) :=
  match g with
  | [] => [(fst k, [snd k])]
  | (i, ds) :: r => if i =? fst k then (i, ds ++ [snd k]) :: r else (i, ds) :: add_to_group r k
  end.
Definition groups (ps : list (N * N)) : list (N * list N) := fold_left add_to_group ps [].

(* the (index as written, document) pairs of a list of groups *)
Definition ungroup (gs : list (N * list N)) : list (N * N) :=
  flat_map (fun g => map (pair (fst g)) (snd g)) gs.

(* the documents of a list of groups that a query on [name] must find: those whose index name
   resolves to what [name] resolves to *)
Definition docs_for (al : amap) (gs : list (N * list N)) (name : N) : list N :=
  flat_map (fun g => if resolve al (fst g) =? resolve al name then snd g else []) gs.

Definition occ (id : N) (l : list N) : nat := count_occ N.eq_dec l id.

(* ---- history of the process: alias definitions (vtable.AddAliases index [alias]), ingest
   requests of any entry point (their groups, in the order they were processed), removal of
   the segment store of a stream (stale-store clean-up, index deletion) ---- *)
Inductive aev := EAlias (a i : N) | EReq (gs : list (N * list N)) | EDrop (sid : N).

Definition astate := (amap * list segstore)%type.
Definition a_init : astate := ([], []).

Definition run_aev (s : astate) (e : aev) : astate :=
  match e with
  | EAlias a i => ((a, i) :: fst s, snd s)
  | EReq gs => (fst s, run_batches (fst s) (snd s) gs)
  | EDrop sid => (fst s, filter (fun x => negb (ss_stream x =? sid)) (snd s))
  end.
Definition run_ahist (s : astate) (h : list aev) : astate := fold_left run_aev h s.

(* the invariant: every segment store is filed under the name its stream id was derived from *)
Definition filed_ok (ss : list segstore) : bool :=
  forallb (fun s => ss_stream s =? stream_id (ss_table s)) ss.

(* ---- the bulk request in that setting: the groups of the documents it hands to the store ---- *)
Definition bulk_groups (store_ok : N -> bool) (b : list line) : list (N * list N) :=
  groups (r_stored (handle store_ok b)).

(* state of the segment stores after HandleBulkBody (groups in first-occurrence order) *)
Definition bulk_after (s : astate) (store_ok : N -> bool) (b : list line) : list segstore :=
  run_batches (fst s) (snd s) (bulk_groups store_ok b).

(* BulkCheck.v — executable comparison of the HandleBulkBody model with observations
   of the real function (used by the generated case files of C15). *)
From SigM Require Import Base Bulk BulkPool BulkAlias BulkConc.
Open Scope N_scope.

Definition L := mkLine.

(* what the harness saw: items' status codes, the errors flag, processedCount,
   err != nil, and the (index, document) pairs found by searching every index after
   the flush, one entry per hit *)
Record obs := mkObs {
  o_items : list N; o_errors : bool; o_processed : N; o_allfailed : bool;
  o_found : list (N * N) }.

Definition count_key (k : N * N) (l : list (N * N)) : nat := length (filter (key_eqb k) l).
Definition same_multiset (a b : list (N * N)) : bool :=
  Nat.eqb (length a) (length b) &&
  forallb (fun k => Nat.eqb (count_key k a) (count_key k b)) a.

(* [bad]: indexes whose store call fails in this request *)
Definition store_of (bad : list N) (i : N) : bool := negb (existsb (N.eqb i) bad).

Definition agrees (bad : list N) (b : list line) (o : obs) : bool :=
  let r := handle (store_of bad) b in
  list_eqb N.eqb (r_items r) (o_items o) &&
  Bool.eqb (r_errors r) (o_errors o) &&
  (r_processed r =? o_processed o) &&
  Bool.eqb (r_allfailed r) (o_allfailed o) &&
  same_multiset (r_stored r) (o_found o).

(* model self-check on the case: the conclusions of the theorems, evaluated
   (redundant with the proofs; catches a stale .vo) *)
Definition self_check (bad : list N) (b : list line) : bool :=
  let r := handle (store_of bad) b in
  let A := actions (body_lines b) in
  list_eqb N.eqb (r_items r) (map expected_status A) &&
  Bool.eqb (r_errors r) (existsb (fun st => negb (created st)) (r_items r)) &&
  (if stores_ok (store_of bad) A
   then same_multiset (r_stored r) (flat_map act_doc (filter act_ok A)) else true).

Fixpoint check (cases : list (list N * list line * obs)) (i : nat) : list nat :=
  match cases with
  | [] => []
  | (bad, b, o) :: r =>
    (if agrees bad b o && self_check bad b then [] else [i]) ++ check r (S i)
  end.

(* ---- a bulk request served after other ingest requests of the same process (stream
   "after_other_ingest"): the history since the pools were last emptied is part of the
   case; [P proto docs] is a request of that entry point as the unchanged code releases
   its objects ---- *)
Definition P (p : proto) (ds : list (N * N * bool)) : hev := HReq (preq p ds).

Definition agrees_after (h : list hev) (bad : list N) (b : list line) (o : obs) : bool :=
  let r := handle_after h (store_of bad) b in
  list_eqb N.eqb (r_items r) (o_items o) &&
  Bool.eqb (r_errors r) (o_errors o) &&
  (r_processed r =? o_processed o) &&
  Bool.eqb (r_allfailed r) (o_allfailed o) &&
  same_multiset (r_stored r) (o_found o).

Fixpoint check_hist (cases : list (list hev * list N * list line * obs)) (i : nat) : list nat :=
  match cases with
  | [] => []
  | (h, bad, b, o) :: r =>
    (if forallb disciplined_ev h && agrees_after h bad b o && self_check bad b then [] else [i])
    ++ check_hist r (S i)
  end.

(* ---- stream "alias": one process, a history of alias definitions (PUT /<index>/_alias/<alias>)
   and bulk requests that address indexes by name and through aliases.  The model state (alias
   map, segment stores with their table names) is threaded through the steps.  Per bulk step:
   [names] = the names the harness searched after the flush (index names and aliases),
   [o_found o] = (name searched, document) per hit, [tables] = (name, growth of the record
   count of the unrotated segment stores whose VirtualTableName is that name, from
   writer.GetUnrotatedVTableCountsForAll before/after the request).  Document identities are
   unique over the whole history (step number * 1000 + line). ---- *)
Inductive astep :=
| SAlias (a i : N)
| SBulk (bad : list N) (b : list line) (names : list N) (o : obs) (tables : list (N * N)).

Definition in_body (b : list line) (id : N) : bool := existsb (fun l => l_id l =? id) b.

Definition alias_found (al : amap) (ss : list segstore) (b : list line) (names : list N) : list (N * N) :=
  flat_map (fun x => map (pair x) (filter (in_body b) (searchable al ss x))) names.

Definition tables_ok (ss ss' : list segstore) (tables : list (N * N)) : bool :=
  forallb (fun t => N.of_nat (length (table_docs ss' (fst t))) =?
                    N.of_nat (length (table_docs ss (fst t))) + snd t) tables.

Fixpoint check_alias (steps : list astep) (s : astate) (i : nat) : list nat :=
  match steps with
  | [] => []
  | SAlias a x :: r => check_alias r (run_aev s (EAlias a x)) (S i)
  | SBulk bad b names o tables :: r =>
    let so := store_of bad in
    let rs := handle so b in
    let ss' := bulk_after s so b in
    (if list_eqb N.eqb (r_items rs) (o_items o) &&
        Bool.eqb (r_errors rs) (o_errors o) &&
        (r_processed rs =? o_processed o) &&
        Bool.eqb (r_allfailed rs) (o_allfailed o) &&
        same_multiset (alias_found (fst s) ss' b names) (o_found o) &&
        tables_ok (snd s) ss' tables &&
        filed_ok ss' && self_check bad b
     then [] else [i]) ++ check_alias r (fst s, ss') (S i)
  end.

(* ---- stream "concurrent": rounds of bulk requests served at the same time (SigM.BulkConc).  A round
   starts from a process without the round's indexes; [CWave reqs] = the requests released together
   (unstorable indexes, body, observation: the response as the request got it, [o_found] = the
   (index, document) hits of THAT request's documents after the one flush that follows the wave);
   [CDrop idxs] = the idle stores of these indexes were taken out of the store table between two
   waves.  Every wave is replayed under the round-robin interleaving (all requests look the stream
   up before any of them creates the store: what the harness's starting gate provokes) and under the
   sequential one; both must explain the observation, and the response must be the one the body gets
   on its own.  Document identities are unique over the round (request number * 1000 + line). ---- *)
Inductive cstep :=
| CWave (reqs : list (list N * list line * obs))
| CDrop (idxs : list N).

Definition resp_agrees (bad : list N) (b : list line) (o : obs) : bool :=
  let r := handle (store_of bad) b in
  list_eqb N.eqb (r_items r) (o_items o) &&
  Bool.eqb (r_errors r) (o_errors o) &&
  (r_processed r =? o_processed o) &&
  Bool.eqb (r_allfailed r) (o_allfailed o).

Definition conc_streams (st : cstate) : list N := nodup N.eq_dec (map fst (c_tbl st)).

(* the hits of the documents of body [b] after the flush: per stream, what the table's store holds *)
Definition conc_found (st : cstate) (b : list line) : list (N * N) :=
  flat_map (fun s => map (pair s) (filter (in_body b) (visible st s))) (conc_streams st).

Definition one_store_per_stream (st : cstate) : bool :=
  Nat.eqb (length (conc_streams st)) (length (c_tbl st)).

(* the response of every request is the one its body gets on its own (the response owns its items:
   what other requests of the same moment do cannot show in it) *)
Fixpoint wave_reqs_ok (f1 f2 : cstate) (reqs : list (list N * list line * obs)) : bool :=
  match reqs with
  | [] => true
  | (bad, b, o) :: r =>
    resp_agrees bad b o && self_check bad b &&
    same_multiset (conc_found f1 b) (o_found o) &&
    same_multiset (conc_found f2 b) (o_found o) &&
    wave_reqs_ok f1 f2 r
  end.

Definition wave_ok (st : cstate) (reqs : list (list N * list line * obs)) : bool * cstate :=
  let creqs := map (fun q => bulk_creq (store_of (fst (fst q))) (snd (fst q))) reqs in
  let f1 := crun true (c_arrive st creqs) (sched_round_robin creqs) in
  let f2 := crun true (c_arrive st creqs) (sched_sequential creqs) in
  (all_done f1 && all_done f2 && one_store_per_stream f1 && wave_reqs_ok f1 f2 reqs,
   mkC (c_tbl f1) (c_next f1) (c_ents f1) []).

Fixpoint round_ok (steps : list cstep) (st : cstate) : bool :=
  match steps with
  | [] => true
  | CWave reqs :: r => let w := wave_ok st reqs in fst w && round_ok r (snd w)
  | CDrop idxs :: r => round_ok r (fold_left c_drop (map stream_id idxs) st)
  end.

Fixpoint check_conc (rounds : list (list cstep)) (i : nat) : list nat :=
  match rounds with
  | [] => []
  | steps :: r => (if round_ok steps c_empty then [] else [i]) ++ check_conc r (S i)
  end.

(* stream "concurrent/response_slice": responses of requests that were served while the same few bodies
   were sent over and over by other goroutines: (own items of the body, the items of the other bodies,
   the items the response carried).  The model serves the request, then every other body into the
   same pool before anybody serialises (SigM.BulkConc.slice_response, with the copy the code makes) *)
Fixpoint check_slice (cases : list (list N * list (list N) * list N)) (i : nat) : list nat :=
  match cases with
  | [] => []
  | (own, peers, got) :: r =>
    (if list_eqb N.eqb (slice_response true own peers) got then [] else [i]) ++ check_slice r (S i)
  end.

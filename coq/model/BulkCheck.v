(* BulkCheck.v — executable comparison of the HandleBulkBody model with observations
   of the real function (used by the generated case files of C15). *)
From SigM Require Import Base Bulk BulkPool BulkAlias.
Open Scope N_scope.

Definition L := mkLine.

(* what the harness saw: items' status codes, the errors flag, processedCount,
   err != nil, and the (index, document) pairs found by searching every index after
   the flush, one entry per hit *)
Record obs := mkObs {
  o_items : list N; o_errors : bool; o_processed : N; o_allfailed : bool;
  o_found : list (N * N) }.

Definition count_key (k : N * N) (l : list (N * N)) : nat := length (filter (key_eqb k) l).
Definition same_multiset (a b : list (N * N)) : bool :=
  Nat.eqb (length a) (length b) &&
  forallb (fun k => Nat.eqb (count_key k a) (count_key k b)) a.

(* [bad]: indexes whose store call fails in this request *)
Definition store_of (bad : list N) (i : N) : bool := negb (existsb (N.eqb i) bad).

Definition agrees (bad : list N) (b : list line) (o : obs) : bool :=
  let r := handle (store_of bad) b in
  list_eqb N.eqb (r_items r) (o_items o) &&
  Bool.eqb (r_errors r) (o_errors o) &&
  (r_processed r =? o_processed o) &&
  Bool.eqb (r_allfailed r) (o_allfailed o) &&
  same_multiset (r_stored r) (o_found o).

(* model self-check on the case: the conclusions of the theorems, evaluated
   (redundant with the proofs; catches a stale .vo) *)
Definition self_check (bad : list N) (b : list line) : bool :=
  let r := handle (store_of bad) b in
  let A := actions (body_lines b) in
  list_eqb N.eqb (r_items r) (map expected_status A) &&
  Bool.eqb (r_errors r) (existsb (fun st => negb (created st)) (r_items r)) &&
  (if stores_ok (store_of bad) A
   then same_multiset (r_stored r) (flat_map act_doc (filter act_ok A)) else true).

Fixpoint check (cases : list (list N * list line * obs)) (i : nat) : list nat :=
  match cases with
  | [] => []
  | (bad, b, o) :: r =>
    (if agrees bad b o && self_check bad b then [] else [i]) ++ check r (S i)
  end.

(* ---- a bulk request served after other ingest requests of the same process (stream
   "after_other_ingest"): the history since the pools were last emptied is part of the
   case; [P proto docs] is a request of that entry point as the unchanged code releases
   its objects ---- *)
Definition P (p : proto) (ds : list (N * N * bool)) : hev := HReq (preq p ds).

Definition agrees_after (h : list hev) (bad : list N) (b : list line) (o : obs) : bool :=
  let r := handle_after h (store_of bad) b in
  list_eqb N.eqb (r_items r) (o_items o) &&
  Bool.eqb (r_errors r) (o_errors o) &&
  (r_processed r =? o_processed o) &&
  Bool.eqb (r_allfailed r) (o_allfailed o) &&
  same_multiset (r_stored r) (o_found o).

Fixpoint check_hist (cases : list (list hev * list N * list line * obs)) (i : nat) : list nat :=
  match cases with
  | [] => []
  | (h, bad, b, o) :: r =>
    (if forallb disciplined_ev h && agrees_after h bad b o && self_check bad b then [] else [i])
    ++ check_hist r (S i)
  end.

(* ---- stream "alias": one process, a history of alias definitions (PUT /<index>/_alias/<alias>)
   and bulk requests that address indexes by name and through aliases.  The model state (alias
   map, segment stores with their table names) is threaded through the steps.  Per bulk step:
   [names] = the names the harness searched after the flush (index names and aliases),
   [o_found o] = (name searched, document) per hit, [tables] = (name, growth of the record
   count of the unrotated segment stores whose VirtualTableName is that name, from
   writer.GetUnrotatedVTableCountsForAll before/after the request).  Document identities are
   unique over the whole history (step number * 1000 + line). ---- *)
Inductive astep :=
| SAlias (a i : N)
| SBulk (bad : list N) (b : list line) (names : list N) (o : obs) (tables : list (N * N)).

Definition in_body (b : list line) (id : N) : bool := existsb (fun l => l_id l =? id) b.

Definition alias_found (al : amap) (ss : list segstore) (b : list line) (names : list N) : list (N * N) :=
  flat_map (fun x => map (pair x) (filter (in_body b) (searchable al ss x))) names.

Definition tables_ok (ss ss' : list segstore) (tables : list (N * N)) : bool :=
  forallb (fun t => N.of_nat (length (table_docs ss' (fst t))) =?
                    N.of_nat (length (table_docs ss (fst t))) + snd t) tables.

Fixpoint check_alias (steps : list astep) (s : astate) (i : nat) : list nat :=
  match steps with
  | [] => []
  | SAlias a x :: r => check_alias r (run_aev s (EAlias a x)) (S i)
  | SBulk bad b names o tables :: r =>
    let so := store_of bad in
    let rs := handle so b in
    let ss' := bulk_after s so b in
    (if list_eqb N.eqb (r_items rs) (o_items o) &&
        Bool.eqb (r_errors rs) (o_errors o) &&
        (r_processed rs =? o_processed o) &&
        Bool.eqb (r_allfailed rs) (o_allfailed o) &&
        same_multiset (alias_found (fst s) ss' b names) (o_found o) &&
        tables_ok (snd s) ss' tables &&
        filed_ok ss' && self_check bad b
     then [] else [i]) ++ check_alias r (fst s, ss') (S i)
  end.

(* BulkConc.v — several ingest requests served AT THE SAME TIME: who creates the segment store
   of a stream, and which store the documents of a request end up in.  Definitions only.

   Every log ingest entry point hands its documents, group by group (one group per index name),
   to writer.AddEntryToInMemBuf(streamid, table, ...) (pkg/segment/writer/segwriter.go):

     segstore, err := getOrCreateSegStore(streamid, table, orgid)   // which store
     return segstore.AddEntry(...)                                  // under segstore.Lock

     getOrCreateSegStore:  segstore := getSegStore(streamid)        // allSegStoresLock.RLock
                           if segstore == nil { return createSegStore(streamid, table, orgid) }
     createSegStore:       allSegStoresLock.Lock()
                           ss, present := allSegStores[streamid]    // "now that we got the lock, check if
                           if present { return ss }                 //  someone else had already created ..."
                           segstore := NewSegStore(...); allSegStores[streamid] = segstore

   The three critical sections are the atomic steps of a request here (PLook, PCreate, PAdd); between
   them any other request may run.  FlushWipBufferToFile walks allSegStores: what the next flush
   makes searchable for a stream is what the store the TABLE holds for that stream contains; a
   store that is no longer (or never was) in the table is visited by nobody.

   [recheck] = the test after taking the write lock.  With it, every interleaving puts all
   accepted documents of a stream into ONE store, the table's (BulkConcProofs); without it two
   requests that both missed in PLook each create a store and the later one replaces the earlier
   one in the table.

   Not modelled: the maxAllowedSegStores error, AddEntry errors, a flush / rotation / removal of
   an idle store WHILE requests are in flight (removal happens between waves only: [c_drop]). *)
From Coq Require Import Permutation.
From SigM Require Import Base Bulk BulkAlias.
Open Scope N_scope.

(* one ingest request: the groups (stream, documents) it hands to AddEntryToInMemBuf, in order *)
Definition creq := list (N * list N).

(* where a request stands inside AddEntryToInMemBuf for its first remaining group *)
Inductive cpc := PLook | PCreate | PAdd (k : nat).

Record cstate := mkC {
  c_tbl : list (N * nat);      (* allSegStores: stream -> store object, latest binding first *)
  c_next : nat;                (* the next store object NewSegStore hands out *)
  c_ents : list (nat * N);     (* (store object, document) for every document AddEntry took *)
  c_thr : list (creq * cpc) }. (* the requests in flight: remaining groups, position *)

Fixpoint tbl_get (t : list (N * nat)) (s : N) : option nat :=
  match t with
  | [] => None
  | (s', k) :: r => if s' =? s then Some k else tbl_get r s
  end.

Fixpoint upd {T} (l : list T) (i : nat) (x : T) : list T :=
  match l, i with
  | [], _ => []
  | _ :: r, O => x :: r
  | y :: r, S j => y :: upd r j x
  end.

(* one atomic step of request number [i] (nothing happens when it has finished) *)
Definition cstep_thr (recheck : bool) (st : cstate) (i : nat) : cstate :=
  match nth_error (c_thr st) i with
  | None => st
  | Some ([], _) => st
  | Some ((s, ds) :: rest, PLook) =>               (* getSegStore under the read lock *)
    let pc := match tbl_get (c_tbl st) s with Some k => PAdd k | None => PCreate end in
    mkC (c_tbl st) (c_next st) (c_ents st) (upd (c_thr st) i ((s, ds) :: rest, pc))
  | Some ((s, ds) :: rest, PCreate) =>             (* createSegStore under the write lock *)
    match (if recheck then tbl_get (c_tbl st) s else None) with
    | Some k => mkC (c_tbl st) (c_next st) (c_ents st) (upd (c_thr st) i ((s, ds) :: rest, PAdd k))
    | None => mkC ((s, c_next st) :: c_tbl st) (S (c_next st)) (c_ents st)
                  (upd (c_thr st) i ((s, ds) :: rest, PAdd (c_next st)))
    end
  | Some ((s, ds) :: rest, PAdd k) =>              (* segstore.AddEntry under the store's lock *)
    mkC (c_tbl st) (c_next st) (c_ents st ++ map (pair k) ds) (upd (c_thr st) i (rest, PLook))
  end.

(* an interleaving = the list of request numbers in the order they take their steps *)
Definition crun (recheck : bool) (st : cstate) (sched : list nat) : cstate :=
  fold_left (cstep_thr recheck) sched st.

Definition thr_done (t : creq * cpc) : bool := match fst t with [] => true | _ => false end.
Definition all_done (st : cstate) : bool := forallb thr_done (c_thr st).

(* the requests arrive: every one at the look-up of its first group *)
Definition c_arrive (st : cstate) (reqs : list creq) : cstate :=
  mkC (c_tbl st) (c_next st) (c_ents st) (map (fun r => (r, PLook)) reqs).
Definition c_empty : cstate := mkC [] 0%nat [] [].
Definition c_start (reqs : list creq) : cstate := c_arrive c_empty reqs.

(* the documents a store object holds *)
Definition store_docs (ents : list (nat * N)) (k : nat) : list N :=
  map snd (filter (fun e => Nat.eqb (fst e) k) ents).

(* what the next flush makes searchable for a stream: the documents of the store the table holds *)
Definition visible (st : cstate) (s : N) : list N :=
  match tbl_get (c_tbl st) s with Some k => store_docs (c_ents st) k | None => [] end.

(* the documents of a request / of the requests in flight that are bound for stream [s] *)
Definition req_docs (r : creq) (s : N) : list N :=
  flat_map (fun g => if fst g =? s then snd g else []) r.
Definition pending (thr : list (creq * cpc)) (s : N) : list N :=
  flat_map (fun t => req_docs (fst t) s) thr.

(* an idle store leaves the table (removeStaleSegments; between waves, nothing in flight) *)
Definition c_drop (st : cstate) (s : N) : cstate :=
  mkC (filter (fun b => negb (fst b =? s)) (c_tbl st)) (c_next st) (c_ents st) (c_thr st).

(* ---- the invariant of the store table (proved in BulkConcProofs for the re-checking
   get-or-create, for every interleaving) ---- *)

(* a request that stands before AddEntry holds the store the table holds for its stream *)
Definition thr_ok (tbl : list (N * nat)) (t : creq * cpc) : Prop :=
  match t with
  | ((s, _) :: _, PAdd k) => In (s, k) tbl
  | _ => True
  end.

Record cinv (st : cstate) : Prop := mkInv {
  i_streams : NoDup (map fst (c_tbl st));       (* one binding per stream *)
  i_stores : NoDup (map snd (c_tbl st));        (* distinct streams, distinct stores *)
  i_tbl_lt : forall s k, In (s, k) (c_tbl st) -> (k < c_next st)%nat;
  i_ent_lt : forall k d, In (k, d) (c_ents st) -> (k < c_next st)%nat;
  i_thr : Forall (thr_ok (c_tbl st)) (c_thr st) }.

(* ---- the bulk request as such a request: the groups HandleBulkBody forms (index name as
   written = stream: no aliases in this model, utils.CreateStreamId is a function of the name) ---- *)
Definition bulk_creq (store_ok : N -> bool) (b : list line) : creq :=
  map (fun g => (stream_id (fst g), snd g)) (bulk_groups store_ok b).

(* two interleavings every round of the harness is replayed under:
   round robin — all look up (and miss), all go for the write lock, all add: what the starting gate
   of the harness provokes — and one request after the other *)
Definition steps_needed (reqs : list creq) : nat :=
  (3 * fold_right Nat.max 0 (map (@length _) reqs))%nat.
Definition sched_round_robin (reqs : list creq) : list nat :=
  concat (repeat (seq 0%nat (length reqs)) (steps_needed reqs)).
Definition sched_sequential (reqs : list creq) : list nat :=
  flat_map (fun i => repeat i (steps_needed reqs)) (seq 0%nat (length reqs)).

(* the (index, document) pairs of the write actions of a body *)
Definition body_docs (b : list line) : list (N * N) := flat_map act_doc (actions (body_lines b)).

(* [r] is what body [b] hands to the store: any grouping of its stored documents, in any order
   (Go map order of the group loop) *)
Definition creq_of (b : list line) (r : creq) : Prop :=
  Permutation (ungroup r) (r_stored (handle (fun _ => true) b)).


(* ---- the response items of concurrent requests: respItemsPool ----
   HandleBulkBody (esBulkHandler.go) takes the slice it collects the response items in from
   respItemsPool (`items := *respItemsPool.Get()`, `defer respItemsPool.Put(&origItems)`) and writes
   the status of action i to items[i-1].  After the fix "the bulk response owns its items" it returns
   response["items"] = a fresh copy of items[0:inCount]; before the fix it returned the view
   items[0:inCount] itself, i.e. a pointer into a slice that is back in the pool before the caller
   (ProcessBulkRequest -> utils.WriteJsonResponse) serialises the response, so that a request that
   starts in between gets the same slice and writes its own statuses over it.

   Slices are objects (numbers) with contents; [copy] = true is the code, false the code before the
   fix.  sync.Pool promises nothing about which pooled object a Get returns: SStart names it.
   Not modelled: a body with more than RESP_ITEMS_INITIAL_LEN = 4000 actions (the slice is extended
   by append; the original one goes back to the pool) - here a write beyond the capacity is dropped. *)
Record sstate := mkS {
  s_mem : list (nat * list N);   (* slice object -> contents, latest write first *)
  s_pool : list nat;             (* respItemsPool *)
  s_nexta : nat;                 (* the next slice object make() hands out *)
  s_run : list (nat * nat);      (* request in flight -> the pooled slice it writes its items to *)
  s_resp : list (nat * nat) }.   (* returned request -> the slice its response["items"] points into *)

Fixpoint aget {T} (l : list (nat * T)) (k : nat) : option T :=
  match l with
  | [] => None
  | (k', v) :: r => if Nat.eqb k' k then Some v else aget r k
  end.
Definition mget (mem : list (nat * list N)) (a : nat) : list N :=
  match aget mem a with Some c => c | None => [] end.

Fixpoint remove_at {T} (l : list T) (n : nat) : list T :=
  match l, n with
  | [], _ => []
  | _ :: r, O => r
  | x :: r, S k => x :: remove_at r k
  end.

Definition slice_cap : nat := 16.

Inductive sev :=
| SStart (j n : nat)            (* request j starts: Get = the n-th pooled slice, a new one if there is none *)
| SWrite (j i : nat) (st : N)   (* request j sets items[i] *)
| SReturn (j : nat).            (* request j builds its response, returns; the deferred Put *)

Definition sstep (copy : bool) (st : sstate) (e : sev) : sstate :=
  match e with
  | SStart j n =>
    match nth_error (s_pool st) n with
    | Some a => mkS (s_mem st) (remove_at (s_pool st) n) (s_nexta st) ((j, a) :: s_run st) (s_resp st)
    | None => mkS ((s_nexta st, repeat 0 slice_cap) :: s_mem st) (s_pool st) (S (s_nexta st))
                  ((j, s_nexta st) :: s_run st) (s_resp st)
    end
  | SWrite j i x =>
    match aget (s_run st) j with
    | Some b => mkS ((b, set_nth i x (mget (s_mem st) b)) :: s_mem st) (s_pool st) (s_nexta st) (s_run st) (s_resp st)
    | None => st
    end
  | SReturn j =>
    match aget (s_run st) j with
    | None => st
    | Some b =>
      let run' := filter (fun r => negb (Nat.eqb (fst r) j)) (s_run st) in
      if copy
      then mkS ((s_nexta st, mget (s_mem st) b) :: s_mem st) (b :: s_pool st) (S (s_nexta st)) run'
               ((j, s_nexta st) :: s_resp st)
      else mkS (s_mem st) (b :: s_pool st) (s_nexta st) run' ((j, b) :: s_resp st)
    end
  end.
Definition srun (copy : bool) (st : sstate) (evs : list sev) : sstate := fold_left (sstep copy) evs st.
Definition s_empty : sstate := mkS [] [] 0%nat [] [].

(* the slice a response points into is nobody else's: not in the pool, not held by a request in flight *)
Record sinv (st : sstate) : Prop := mkSInv {
  si_resp : forall j a, In (j, a) (s_resp st) ->
            (a < s_nexta st)%nat /\ ~ In a (s_pool st) /\ ~ In a (map snd (s_run st));
  si_pool : forall a, In a (s_pool st) -> (a < s_nexta st)%nat;
  si_run : forall b, In b (map snd (s_run st)) -> (b < s_nexta st)%nat }.

(* request j with the items [own], then the requests [peers] one after the other, each served after the
   previous one returned and before anybody serialised: what request j's response reads at the end *)
Definition serve_items (j : nat) (its : list N) : list sev :=
  SStart j 0 :: map (fun p => SWrite j (fst p) (snd p)) (combine (seq 0 (length its)) its) ++ [SReturn j].
Definition slice_response (copy : bool) (own : list N) (peers : list (list N)) : list N :=
  let st := srun copy s_empty (serve_items 0 own ++ concat (map (fun q => serve_items (S (fst q)) (snd q))
                                                         (combine (seq 0 (length peers)) peers))) in
  match aget (rev (s_resp st)) 0 with
  | Some a => firstn (length own) (mget (s_mem st) a)
  | None => []
  end.

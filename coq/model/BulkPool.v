(* BulkPool.v — the process-wide pool of ParsedLogEvent objects (segwriter.plePool, a
   sync.Pool, pkg/segment/writer/segwriter.go:61) that HandleBulkBody shares with every
   other log ingest entry point of the process, and what a bulk request stores when it
   runs AFTER a history of other requests.  Definitions only.

   Every log ingest entry point has the same shape (esBulkHandler.go:152-272,
   esDocIndexingHandler.go:118-147, splunk.go:64-92, loki.go:149-217 / 271-333,
   otlp/logs.go:106-220):
     1. for each document  GetNewPLE: plePool.Get(), Reset(), the document is parsed
        INTO that object (the object is consumed even when the parse fails; a failing
        object is dropped, not put back); the objects of the accepted documents are
        appended to the request's PLE array;
     2. ProcessIndexRequestPle copies the column values OUT of the objects of the array
        into the segment store — after ALL documents of the request were parsed;
     3. ReleasePLEs: plePool.Put for some of the objects of the array.
   The protocols differ only in (3): bulk and the single-document API release every
   object once (deferred closure); Splunk HEC, Loki and OTLP logs release nothing (their
   `defer ReleasePLEs(pleArray)` evaluates the still empty slice; the objects are left to
   the garbage collector).  A request is therefore (documents, release list).

   Objects are addresses (N).  The pool is a list; sync.Pool promises no order, so the
   position at which Put files an object is part of the release list, and a garbage
   collection (which empties a sync.Pool) is an event of the history. *)
From SigM Require Import Base Bulk.
Open Scope N_scope.

Definition doc := (N * N)%type.                  (* (index, document id), as Bulk.ples *)

Record pstate := mkP {
  p_free : list N;                               (* the objects lying in plePool *)
  p_next : N;                                    (* next address plePool.New hands out *)
  p_mem : list (N * doc)                         (* writes into objects, latest first *)
}.
Definition p_init : pstate := mkP [] 0 [].

Fixpoint lookup (o : N) (m : list (N * doc)) : doc :=
  match m with
  | [] => (0, 0)
  | (k, v) :: r => if k =? o then v else lookup o r
  end.

(* plePool.Get(): an object of the pool, or New() *)
Definition pool_get (s : pstate) : N * pstate :=
  match p_free s with
  | o :: f => (o, mkP f (p_next s) (p_mem s))
  | [] => (p_next s, mkP [] (p_next s + 1) (p_mem s))
  end.

(* GetNewPLE: Get, Reset, SetRawJson/SetTimestamp/SetIndexName, ParseRawJsonObject into the object *)
Definition acquire (s : pstate) (d : doc) : N * pstate :=
  let (o, s1) := pool_get s in
  (o, mkP (p_free s1) (p_next s1) ((o, d) :: p_mem s1)).

Fixpoint insert_at (k : nat) (o : N) (l : list N) : list N :=
  match k, l with
  | O, _ => o :: l
  | S _, [] => [o]
  | S k', x :: r => x :: insert_at k' o r
  end.

(* plePool.Put(o); [k]: where the pool files it *)
Definition pool_put (s : pstate) (o : N) (k : nat) : pstate :=
  mkP (insert_at k o (p_free s)) (p_next s) (p_mem s).

(* one ingest request: the documents handed to GetNewPLE in order, with the result of the
   parse, and the ReleasePLEs calls flattened: (position in the PLE array, position in the pool) *)
Record ireq := mkReq {
  q_docs : list (doc * bool);
  q_release : list (nat * nat)
}.

(* the documents the request acknowledges *)
Definition q_accepted (q : ireq) : list doc := map fst (filter snd (q_docs q)).

(* step 1: (the PLE array, state) *)
Fixpoint acquire_all (s : pstate) (ds : list (doc * bool)) : list N * pstate :=
  match ds with
  | [] => ([], s)
  | (d, ok) :: r =>
    let (o, s1) := acquire s d in
    let (os, s2) := acquire_all s1 r in
    (if ok then o :: os else os, s2)
  end.

(* step 3 *)
Definition release_all (s : pstate) (objs : list N) (rel : list (nat * nat)) : pstate :=
  fold_left (fun s pk => match nth_error objs (fst pk) with
                         | Some o => pool_put s o (snd pk)
                         | None => s
                         end) rel s.

(* the request: what the store receives (step 2 reads what the objects hold THEN), new state *)
Definition run_req (s : pstate) (q : ireq) : list doc * pstate :=
  let (objs, s1) := acquire_all s (q_docs q) in
  (map (fun o => lookup o (p_mem s1)) objs, release_all s1 objs (q_release q)).

(* history of the process before the bulk request under consideration *)
Inductive hev := HReq (q : ireq) | HGc.

Definition run_ev (s : pstate) (e : hev) : pstate :=
  match e with
  | HReq q => snd (run_req s q)
  | HGc => mkP [] (p_next s) (p_mem s)
  end.
Definition run_hist (s : pstate) (h : list hev) : pstate := fold_left run_ev h s.

(* ---- pool discipline: a request puts each object of its array back at most once ---- *)
Fixpoint nodupb (l : list nat) : bool :=
  match l with
  | [] => true
  | x :: r => negb (existsb (Nat.eqb x) r) && nodupb r
  end.
Definition disciplined (q : ireq) : bool := nodupb (map fst (q_release q)).
Definition disciplined_ev (e : hev) : bool :=
  match e with HReq q => disciplined q | HGc => true end.

(* the invariant it maintains: no object lies in the pool twice, every pooled object was allocated *)
Definition pool_ok (s : pstate) : Prop :=
  NoDup (p_free s) /\ Forall (fun o => o < p_next s) (p_free s).

(* ---- the entry points of the unchanged code ---- *)
Inductive proto := PSplunkHec | PLoki | POtlpLogs | PEsDoc | PBulk.

Definition release_once (n : nat) : list (nat * nat) := map (fun i => (i, O)) (seq 0 n).

Definition proto_release (p : proto) (n : nat) : list (nat * nat) :=
  match p with
  | PSplunkHec | PLoki | POtlpLogs => []          (* nothing is put back *)
  | PEsDoc | PBulk => release_once n               (* deferred closure over the final array *)
  end.

Definition preq (p : proto) (ds : list (doc * bool)) : ireq :=
  mkReq ds (proto_release p (length (filter snd ds))).

(* ---- the bulk request in that setting ----
   GetNewPLE is called by HandleBulkBody for the document line of every index/create
   action with a usable index name and a document below MAX_RECORD_SIZE (write_doc). *)
Definition bulk_gets (acts : list action) : list (doc * bool) :=
  flat_map (fun a => match a with
                     | AWrite l (Some d) =>
                       if l_safe l && (l_len d <? MAX_RECORD_SIZE)
                       then [((l_idx l, l_id d), get_new_ple d)] else []
                     | _ => []
                     end) acts.

Definition bulk_ireq (b : list line) : ireq := preq PBulk (bulk_gets (actions (body_lines b))).

(* HandleBulkBody after the history [h]: the response is computed from the body alone;
   the store receives what the request's objects hold when ProcessIndexRequestPle runs *)
Definition handle_after (h : list hev) (store_ok : N -> bool) (b : list line) : resp :=
  let r := handle store_ok b in
  let s := run_hist p_init h in
  mkResp (r_items r) (r_errors r) (r_processed r) (r_allfailed r)
         (filter (fun p => store_ok (fst p)) (fst (run_req s (bulk_ireq b)))).

(* CallOrder.v — call-order obligations over the skeletons gotrans writes (coq/gen/GenOrder.v).

   A skeleton (LockTrace.stm) generated in "calltrace" mode keeps the control structure of a function and,
   of its calls, the TRACKED ones as events (KCall, label); calls of other functions of the translated packages
   are inlined, all data is dropped (every branch may go either way, every loop may run any number of times).
   An obligation is a small automaton over the labels: it reads the events of a trace and may object.
   The analysis computes every automaton state a skeleton can reach; when it reports no objection, no trace
   of the skeleton makes the automaton object (SigP.CallOrderProofs.oanalyse_sound).
   Definitions only. *)
From Coq Require Import NArith List Bool.
From SigM Require Import LockTrace.
Import ListNotations.
Open Scope N_scope.

Section ORDER.
(* the automaton: state -> event -> next state, None = objection *)
Variable step : N -> ev -> option N.

Fixpoint orun (q : N) (t : list ev) : option N :=
  match t with
  | [] => Some q
  | e :: r => match step q e with Some q' => orun q' r | None => None end
  end.

Fixpoint nmem (q : N) (s : list N) : bool :=
  match s with [] => false | x :: r => (q =? x) || nmem q r end.
Fixpoint nunion (a b : list N) : list N :=
  match a with [] => b | x :: r => if nmem x b then nunion r b else x :: nunion r b end.
Definition nsubset (a b : list N) : bool := forallb (fun x => nmem x b) a.

(* an objection: the state in which and the event at which the automaton objected;
   ONoFix: the loop fuel did not suffice *)
Inductive objection := OAt (q : N) (e : ev) | ONoFix.

Record ores := mkO { o_norm : list N; o_ret : list N; o_brk : list N; o_cont : list N; o_bad : list objection }.

Fixpoint ostep_all (e : ev) (s : list N) : list N * list objection :=
  match s with
  | [] => ([], [])
  | q :: r =>
    let '(qs, vs) := ostep_all e r in
    match step q e with
    | Some q' => (nunion [q'] qs, vs)
    | None => (qs, OAt q e :: vs)
    end
  end.

Variable loop_fuel : nat.

Fixpoint opost (s : stm) (S : list N) {struct s} : ores :=
  match s with
  | SSkip => mkO S [] [] [] []
  | SEv k o => let '(qs, vs) := ostep_all (k, o) S in mkO qs [] [] [] vs
  | SSeq a b =>
      let ra := opost a S in
      let rb := opost b (o_norm ra) in
      mkO (o_norm rb) (nunion (o_ret ra) (o_ret rb)) (nunion (o_brk ra) (o_brk rb)) (nunion (o_cont ra) (o_cont rb))
          (o_bad ra ++ o_bad rb)
  | SAlt a b =>
      let x := opost a S in let y := opost b S in
      mkO (nunion (o_norm x) (o_norm y)) (nunion (o_ret x) (o_ret y)) (nunion (o_brk x) (o_brk y))
          (nunion (o_cont x) (o_cont y)) (o_bad x ++ o_bad y)
  | SRet => mkO [] S [] [] []
  | SBreak => mkO [] [] S [] []
  | SContinue => mkO [] [] [] S []
  | SCall b => let r := opost b S in
      mkO (nunion (o_norm r) (nunion (o_ret r) (nunion (o_brk r) (o_cont r)))) [] [] [] (o_bad r)
  | SBrk b => let r := opost b S in mkO (nunion (o_norm r) (o_brk r)) (o_ret r) [] (o_cont r) (o_bad r)
  | SCont b => let r := opost b S in mkO (nunion (o_norm r) (o_cont r)) (o_ret r) (o_brk r) [] (o_bad r)
  | SLoop a p =>
      let iter := fix iter (n : nat) (X : list N) {struct n} : list N * bool :=
        match n with
        | O => (X, false)
        | S n' =>
          let ra := opost a X in
          let rp := opost p (nunion (o_norm ra) (o_cont ra)) in
          let X' := nunion (o_norm rp) X in
          if nsubset X' X then (X, true) else iter n' X'
        end in
      let '(X, ok) := iter loop_fuel S in
      let ra := opost a X in
      let rp := opost p (nunion (o_norm ra) (o_cont ra)) in
      mkO (nunion X (o_brk ra)) (nunion (o_ret ra) (o_ret rp)) [] []
          ((if ok then [] else [ONoFix]) ++ o_bad ra ++ o_bad rp)
  end.

(* a function is entered in state 0 *)
Definition oanalyse (s : stm) : list objection := o_bad (opost s [0]).
Definition ok_order (s : stm) : bool := match oanalyse s with [] => true | _ => false end.
End ORDER.

(* ---------- the obligations in use ---------- *)
Definition is_call (e : ev) (l : N) : bool :=
  match e with (KCall, o) => o =? l | _ => false end.

(* "every call of b is preceded by a call of a":  0 = a not yet seen, 1 = a seen *)
Definition before_step (a b : N) (q : N) (e : ev) : option N :=
  if q =? 0 then
    if is_call e a then Some 1
    else if is_call e b then None
    else Some 0
  else Some q.

(* "after a call of a there is no call of b":  0 = a not yet seen, 1 = a seen *)
Definition never_after_step (a b : N) (q : N) (e : ev) : option N :=
  if q =? 0 then (if is_call e a then Some 1 else Some 0)
  else if is_call e b then None else Some q.

(* what the automata mean, on traces *)
Definition preceded (a b : N) (t : list ev) : Prop :=
  forall t1 t2, t = t1 ++ (KCall, b) :: t2 -> In (KCall, a) t1.
Definition not_followed (a b : N) (t : list ev) : Prop :=
  forall t1 t2, t = t1 ++ (KCall, a) :: t2 -> ~ In (KCall, b) t2.

(* does the skeleton contain a call with this label at all (an obligation about calls that are not there says nothing) *)
Fixpoint mentions (l : N) (s : stm) : bool :=
  match s with
  | SEv KCall o => o =? l
  | SSeq a b | SAlt a b | SLoop a b => mentions l a || mentions l b
  | SCall b | SBrk b | SCont b => mentions l b
  | _ => false
  end.

(* "every call of b is preceded by a call of a in the same iteration of the root function's loops":
   [it] is the label of the iteration marker; 0 = no check since the last marker, 1 = checked *)
Definition guard_step (a b it : N) (q : N) (e : ev) : option N :=
  if q =? 0 then
    if is_call e a then Some 1
    else if is_call e b then None
    else Some 0
  else if is_call e it then Some 0 else Some q.

Definition guarded (a b it : N) (t : list ev) : Prop :=
  forall t1 t2, t = t1 ++ (KCall, b) :: t2 ->
  exists u v, t1 = u ++ (KCall, a) :: v /\ ~ In (KCall, it) v.

(* ---------- "accessed only while the goroutine holds the lock" (guardtrace skeletons, coq/gen/GenGuard.v) ----------
   The automaton counts this goroutine's own Lock/RLock minus Unlock/RUnlock operations on lock [l], saturating at 3
   (saturation only ever under-counts), and objects to an access of [v] at count 0. *)
Definition is_op (e : ev) (k1 k2 : kind) (l : N) : bool :=
  match e with (k, o) => (o =? l) && (match k, k1, k2 with
    | KLock, KLock, _ | KRLock, _, KRLock | KUnlock, KUnlock, _ | KRUnlock, _, KRUnlock => true | _, _, _ => false end) end.
Definition is_acq (e : ev) (l : N) : bool := is_op e KLock KRLock l.
Definition is_rel (e : ev) (l : N) : bool := is_op e KUnlock KRUnlock l.

Definition held_step (l v : N) (q : N) (e : ev) : option N :=
  if is_acq e l then Some (N.min 3 (q + 1))
  else if is_rel e l then Some (N.pred q)
  else if is_call e v then (if q =? 0 then None else Some q)
  else Some q.

(* the exact count (no saturation) along a trace *)
Definition depth_step (l : N) (d : N) (e : ev) : N :=
  if is_acq e l then d + 1 else if is_rel e l then N.pred d else d.
Definition depth_from (l : N) (d : N) (t : list ev) : N := fold_left (depth_step l) t d.

Definition protected (l v : N) (t : list ev) : Prop :=
  forall t1 t2, t = t1 ++ (KCall, v) :: t2 -> 0 < depth_from l 0 t1.

(* ChecksumFile.v — checksummed chunk files (column blocks of log segments).
   Follows pkg/utils/checksumfile.go: AppendChunk, AppendPartialChunk, Flush,
   ReadAt, readChunkAt, readUint32At.

   Layout of one chunk (all fields little-endian uint32):
       magic 0x87654321 | crc32(data) | len(data) | data
   ReadAt(buf, offset): [offset] is the FILE offset of a chunk's magic number and
   len(buf) must be the sum of the data lengths of one or more consecutive chunks
   (a chunk longer than what is left of buf is an error, "buffer length mismatch").
   Every chunk that is touched is verified against its checksum.  If the 4 bytes at
   [offset] are not the magic number and the 4 bytes at offset 0 are not either, the
   file is taken for a legacy (unchecksummed) file and len(buf) raw bytes are returned. *)
From SigM Require Import Base Crc32.
Open Scope N_scope.

Definition MAGIC : N := 2271560481.          (* 0x87654321 *)
Definition HDR : nat := 12.                  (* dataOffset *)

(* ---------- writer ---------- *)

(* AppendChunk(data) with len(data) > 0; uint32(len(data)) wraps, as le32 does *)
Definition chunk (d : bytes) : bytes :=
  le32 MAGIC ++ le32 (crc32 d) ++ le32 (N.of_nat (length d)) ++ d.

Definition write_chunks (ds : list bytes) : bytes := concat (map chunk ds).

(* crc32.Update(crc, IEEETable, p) *)
Definition crc_update (c : N) (p : bytes) : N :=
  N.lxor (crc_raw (N.lxor c 4294967295) p) 4294967295.

(* fd.WriteAt(bs, pos): overwrites, zero-fills a gap, extends *)
Definition write_at (pos : nat) (bs f : bytes) : bytes :=
  firstn pos f ++ repeat 0 (pos - length f) ++ bs ++ skipn (pos + length bs) f.

Record wstate := { w_file : bytes; w_off : nat; w_crc : N; w_len : nat }.

Definition w_init (f : bytes) : wstate := {| w_file := f; w_off := 0; w_crc := 0; w_len := 0 |}.

Inductive wop := OpChunk (d : bytes) | OpPartial (d : bytes) | OpFlush.

(* None = the call returns an error and writes nothing *)
Definition w_step (s : wstate) (o : wop) : option wstate :=
  match o with
  | OpChunk d =>
      match d with
      | [] => Some s
      | _ => if Nat.eqb (w_len s) 0
             then Some {| w_file := w_file s ++ chunk d; w_off := w_off s; w_crc := w_crc s; w_len := w_len s |}
             else None                                    (* "Last chunk is not flushed" *)
      end
  | OpPartial d =>
      match d with
      | [] => Some s
      | _ =>
        let '(f, off) := if Nat.eqb (w_len s) 0
                         then (w_file s ++ repeat 0 HDR, length (w_file s))   (* placeholder header *)
                         else (w_file s, w_off s) in
        Some {| w_file := f ++ d; w_off := off; w_crc := crc_update (w_crc s) d;
                w_len := (w_len s + length d)%nat |}
      end
  | OpFlush =>
      let f1 := write_at (w_off s) (le32 MAGIC) (w_file s) in
      let f2 := write_at (w_off s + 4) (le32 (w_crc s)) f1 in
      let f3 := write_at (w_off s + 8) (le32 (N.of_nat (w_len s))) f2 in
      Some {| w_file := f3; w_off := 0; w_crc := 0; w_len := 0 |}
  end.

(* a failing call leaves the state unchanged; the run goes on (as the harness does) *)
Definition w_run (s : wstate) (ops : list wop) : wstate :=
  fold_left (fun s o => match w_step s o with Some s' => s' | None => s end) ops s.

(* writeWip: one block = AppendPartialChunk(encType); AppendPartialChunk(compressed); Flush *)
Definition write_block (f : bytes) (parts : list bytes) : bytes :=
  w_file (w_run (w_init f) (map OpPartial parts ++ [OpFlush])).

(* ---------- reader ---------- *)

(* why a read is refused: "checksum mismatch", "buffer length mismatch",
   "offset is not the start of a chunk"; WFuel: the model's loop ran out of fuel (dead branch) *)
Inductive why := WCrc | WLen | WAlign | WFuel.

Inductive res := Ok (d : bytes) | ErrShort | ErrBad (w : why).
(* ErrShort: a read hit the end of the file (io.EOF / "Cannot read ...");
   ErrBad w: integrity / usage error of kind w *)

Definition is_err (r : res) : bool := match r with Ok _ => false | _ => true end.
Definition is_bad (r : res) : bool := match r with ErrBad _ => true | _ => false end.

(* readUint32At(fd, off) on the bytes from [off] on *)
Definition rd32_here (x : bytes) : option N :=
  match rd32 x with Some (v, _) => Some v | None => None end.

(* readChunkAt(buf, offset): [x] = the file from [offset] on, [r] = len(buf),
   [m0] = readUint32At(fd, 0) (consulted only when the magic number is absent) *)
Definition read_chunk_here (m0 : option N) (x : bytes) (r : nat) : res :=
  match rd32 x with
  | None => ErrShort
  | Some (magic, x1) =>
    if negb (magic =? MAGIC) then
      match m0 with
      | None => ErrShort
      | Some g =>
        if g =? MAGIC then ErrBad WAlign                   (* not the start of a chunk *)
        else if Nat.leb r (length x) then Ok (firstn r x)  (* legacy file: raw, unverified *)
        else ErrShort                                      (* fd.ReadAt: short read, io.EOF *)
      end
    else
    match rd32 x1 with
    | None => ErrShort
    | Some (c, x2) =>
      match rd32 x2 with
      | None => ErrShort
      | Some (len, body) =>
        (* compared in N: the on-disk length may be anything below 2^32 *)
        if N.of_nat r <? len then ErrBad WLen              (* buffer length mismatch *)
        else
          let n := N.to_nat len in
          let data := firstn n body in
          if negb (crc32 data =? c) then ErrBad WCrc       (* checksum mismatch *)
          else if Nat.ltb (length data) n then ErrShort    (* verified, but io.EOF is passed on *)
          else Ok data
      end
    end
  end.

(* the loop of ReadAt: chunk i starts at offset + totalBytesRead + i*12, i.e. right
   after the data of the previous one; it ends when buf is full or on the first error *)
Fixpoint read_loop (fuel : nat) (m0 : option N) (x : bytes) (rem : nat) : res :=
  match fuel with
  | O => ErrBad WFuel  (* never reached with fuel > length x: see read_loop_fuel in the proofs *)
  | S k =>
    match read_chunk_here m0 x rem with
    | Ok d =>
      if Nat.leb rem (length d) then Ok d
      else match read_loop k m0 (skipn (HDR + length d) x) (rem - length d) with
           | Ok d' => Ok (d ++ d')
           | e => e
           end
    | e => e
    end
  end.

Definition read_at (off len : nat) (f : bytes) : res :=
  read_loop (S (length f)) (rd32_here f) (skipn off f) len.

(* ---------- locating a byte of a chunk file ---------- *)
Inductive field := FMagic | FCrc | FLen | FData.

Definition field_of (o : nat) : field :=
  if Nat.ltb o 4 then FMagic else if Nat.ltb o 8 then FCrc else if Nat.ltb o 12 then FLen else FData.

(* chunk index and offset inside that chunk of file position i *)
Fixpoint locate (ds : list bytes) (i : nat) : option (nat * nat) :=
  match ds with
  | [] => None
  | d :: r =>
    if Nat.ltb i (HDR + length d) then Some (O, i)
    else match locate r (i - (HDR + length d)) with
         | Some (j, o) => Some (S j, o)
         | None => None
         end
  end.

(* data slice helper for the specification side *)
Definition slice (off len : nat) (d : bytes) : bytes := firstn len (skipn off d).

(* the guard of the integrity theorem for the file [write_chunks ds] with byte i set to y:
   - not the magic number of the FIRST chunk (that one switches the reader to the
     unverified legacy read: defect first_chunk_magic_damage_unverified_read);
   - a damaged length field is caught by the checksum over the mis-sized span: all
     but a CRC-32 collision between the data and that span *)
Definition damage_guard (ds : list bytes) (i : nat) (y : N) : bool :=
  match locate ds i with
  | None => false
  | Some (j, o) =>
    match field_of o with
    | FMagic => negb (Nat.eqb j 0)
    | FCrc | FData => true
    | FLen =>
      let d := nth j ds [] in
      let body := concat (map chunk (skipn (S j) ds)) in
      let len' := le_dec (set_nth (o - 8) y (le32 (N.of_nat (length d)))) in
      let n := N.to_nat (N.min len' (N.of_nat (length (d ++ body)))) in
      negb (crc32 (firstn n (d ++ body)) =? crc32 d)
    end
  end.

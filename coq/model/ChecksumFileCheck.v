(* ChecksumFileCheck.v — executable comparison of the chunk-file model with
   observations of the real utils.ChecksumFile (generated case files of C18). *)
From SigM Require Import Base Crc32 ChecksumFile.
Open Scope N_scope.

Inductive mutation := Keep | Trunc (k : nat) | Flip (i : nat) (v : N).

Definition apply_mut (m : mutation) (f : bytes) : bytes :=
  match m with
  | Keep => f
  | Trunc k => firstn k f
  | Flip i v => set_nth i v f
  end.

(* observed result of ReadAt: 0 = nil error + the buffer, 1 = end of file
   (io.EOF / "Cannot read ..."), 2 = "checksum mismatch", 4 = "buffer length mismatch",
   5 = "offset is not the start of a chunk"; a panic or an unclassified error of the
   real code is 3 and matches nothing *)
Definition res_eqb (r : res) (code : N) (data : bytes) : bool :=
  match r with
  | Ok d => (code =? 0) && bytes_eqb d data
  | ErrShort => code =? 1
  | ErrBad WCrc => code =? 2
  | ErrBad WLen => code =? 4
  | ErrBad WAlign => code =? 5
  | ErrBad WFuel => false
  end.

(* one read: ((offset, length), (code, data)) *)
(* offsets and lengths are the harness's small request parameters (not on-disk values) *)
Definition read_obs := ((N * N) * (N * bytes))%type.

Fixpoint check_reads_of (f : bytes) (rs : list read_obs) (idx : nat) : list nat * nat :=
  match rs with
  | [] => ([], idx)
  | ((off, len), (code, data)) :: r =>
    let bad := if res_eqb (read_at (N.to_nat off) (N.to_nat len) f) code data then [] else [idx] in
    let '(rest, n) := check_reads_of f r (S idx) in
    (bad ++ rest, n)
  end.

(* observations grouped by mutation; indices count reads, starting at [idx] *)
Fixpoint check_muts (f : bytes) (obs : list (mutation * list read_obs)) (idx : nat) : list nat :=
  match obs with
  | [] => []
  | (m, rs) :: r =>
    let '(bad, n) := check_reads_of (apply_mut m f) rs idx in
    bad ++ check_muts f r n
  end.

(* index 0: the file the real writer produced differs from the model's layout;
   reads are numbered from 1 *)
Definition check_ops (ops : list wop) (file : bytes)
  (obs : list (mutation * list read_obs)) : list nat :=
  (if bytes_eqb (w_file (w_run (w_init []) ops)) file then [] else [O])
  ++ check_muts file obs 1.

(* a column file written by the real segment writer (writeWip): the blocks the
   real reader returned, re-chunked by the model, must give the file byte for byte *)
Definition check_blocks (blocks : list bytes) (file : bytes)
  (obs : list (mutation * list read_obs)) : list nat :=
  (if bytes_eqb (write_chunks blocks) file then [] else [O])
  ++ check_muts file obs 1.

(* ---------- model self-check (redundant with C18_never_altered_data_guarded) ---------- *)
(* data of every non-empty prefix of a chunk list *)
Fixpoint prefixes (ds : list bytes) : list bytes :=
  match ds with
  | [] => []
  | d :: r => d :: map (app d) (prefixes r)
  end.

(* every chunk-aligned run: (file offset, original data) *)
Fixpoint all_runs (off : nat) (ds : list bytes) : list (nat * bytes) :=
  match ds with
  | [] => []
  | d :: r => map (pair off) (prefixes ds) ++ all_runs (off + HDR + length d) r
  end.

(* where the boolean guard of the integrity theorem holds, the model's read of the
   damaged file is an error or the original data *)
Definition guard_holds (ds : list bytes) (i : nat) (y : N) (off : nat) (orig : bytes) : bool :=
  if damage_guard ds i y then
    match read_at off (length orig) (set_nth i y (write_chunks ds)) with
    | Ok d => bytes_eqb d orig
    | _ => true
    end
  else true.

Fixpoint self_check (ds : list bytes) (flips : list (N * N)) (idx : nat) : list nat :=
  match flips with
  | [] => []
  | (i, y) :: r =>
    (if forallb (fun '(off, orig) => guard_holds ds (N.to_nat i) y off orig) (all_runs 0 ds)
     then [] else [idx])
    ++ self_check ds r (S idx)
  end.

(* the chunk data of the file must also be what the ops wrote; self-check indices start at 4000 *)
Definition check_ops_self (ops : list wop) (ds : list bytes) (file : bytes)
  (obs : list (mutation * list read_obs)) (flips : list (N * N)) : list nat :=
  check_ops ops file obs
  ++ (if bytes_eqb (write_chunks ds) file then [] else [3999%nat])
  ++ self_check ds flips 4000.

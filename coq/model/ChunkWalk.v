(* ChunkWalk.v — a list walked in chunks of n by two nested index loops, as coded in
   pkg/segment/search/segsearch.go, RawSearchSegmentFileWrapper (C02):

       for i := 0; i < len(sortedAllBlks); {
           nm := make(map[uint16]struct{}, BLOCK_BATCH_SIZE)
           for j := 0; j < BLOCK_BATCH_SIZE && i < len(sortedAllBlks); {
               nm[sortedAllBlks[i]] = struct{}{}
               j++
               i++
           }
           req.AllBlocksToSearch = nm
           rawSearchColumnar(req, ...)
       }

   Both loops share the index i; only the inner loop advances it.  The model keeps the indices
   (nth_error, not structural recursion on the list), so that a change of the loop headers is a
   change of a parameter here: [step] is what the OUTER loop header adds to i after every chunk
   (0 in the code; 1 = the loop "tidied" to `for i := 0; i < len; i++`).
   Definitions only; proofs are in SigP.ChunkWalkProofs. *)
From Coq Require Import List Arith Bool.
Import ListNotations.

Section Walk.
Context {A : Type}.

(* the inner loop from the state (j, i, nm): returns the chunk and the index after it *)
Fixpoint go_inner (fuel n : nat) (l : list A) (j i : nat) (nm : list A) : list A * nat :=
  match fuel with
  | O => (nm, i)
  | S f =>
      if (j <? n) && (i <? length l)
      then match nth_error l i with
           | Some x => go_inner f n l (S j) (S i) (nm ++ [x])
           | None => (nm, i)
           end
      else (nm, i)
  end.

(* the outer loop from index i: the chunks in the order they are searched *)
Fixpoint go_outer (fuel step n : nat) (l : list A) (i : nat) : list (list A) :=
  match fuel with
  | O => []
  | S f =>
      if i <? length l
      then let r := go_inner (length l) n l 0 i [] in
           fst r :: go_outer f step n l (snd r + step)
      else []
  end.

(* the code: chunk size n >= 1 (with n = 0 the Go loop would not terminate; BLOCK_BATCH_SIZE = 100) *)
Definition go_chunks (n : nat) (l : list A) : list (list A) := go_outer (length l) 0 n l 0.

(* the variant with `i++` in the outer loop header as well *)
Definition go_chunks_skip (n : nat) (l : list A) : list (list A) := go_outer (length l) 1 n l 0.

(* specification: cut n elements off the front until nothing is left *)
Fixpoint chunks_of (fuel n : nat) (l : list A) : list (list A) :=
  match fuel with
  | O => []
  | S f => match l with
           | [] => []
           | _ => firstn n l :: chunks_of f n (skipn n l)
           end
  end.

End Walk.

(* CmiEvict.v — the in-memory micro indexes (block blooms / range indexes) of the OPEN segment under memory
   rebalancing, interleaved with flushes, rotation and searches.
   Follows pkg/segment/writer/unrotatedquery.go:
     updateUnrotatedBlockInfo  -> flush_open   (a new segment info starts with isCmiLoaded = true; a flush of block n
                                                calls addMicroIndicesToUnrotatedInfo only while isCmiLoaded:
                                                resizeUnrotatedBlockCmis pads the slice with EMPTY maps up to n+1
                                                entries, then entry n receives the indexes of the new block)
     RebalanceUnrotatedMetadata -> EvictOpen   (fits = the metadata is within the allowed size: nothing happens;
                                                otherwise removeInMemoryMetadata: the slice becomes empty and
                                                isCmiLoaded is cleared — [clear_flag] = true is the code)
     DoCMICheckForUnrotated / doBloomCheckForCols / doRangeCheckForCols -> block_verdict
                                               (every flushed block matches the time range here; match-all, wildcard
                                                value and negated filters do not ask the indexes: [consults] = false;
                                                not loaded: every block kept; bloom check: a block number >= the
                                                length of the slice is kept; range check: `blkNum > len` is kept and
                                                blkNum = len indexes the slice out of range = Panic in a goroutine;
                                                an entry that cannot match drops the block; a block kept WITHOUT
                                                a look at an index has no column marked as passed = KeepUnmarked:
                                                a query that searches only passed columns finds nothing in it)
     rotateSegment             -> Rotate       (the open segment becomes a rotated one; its micro indexes are read
                                                from the .cmi files, in memory or not: metadata.RebalanceInMemoryCmi
                                                = EvictRot / LoadRot)
   No proofs here. *)
From Coq Require Import List Bool Arith.
From SigM Require Import Base.
Import ListNotations.

Section CmiEvict.
Variables event query idx : Type.
Variable matches : query -> event -> bool.    (* the record-level filter *)
Variable consults : query -> bool.            (* does the block check ask the micro indexes for this query? *)
Variable is_range : query -> bool.            (* doRangeCheckForCols instead of doBloomCheckForCols *)
Variable index_of : list event -> idx.        (* the micro indexes built from a block at flush time *)
Variable empty_idx : idx.                     (* the empty map resizeUnrotatedBlockCmis pads with *)
Variable may : idx -> query -> bool.          (* can the block hold a match according to its indexes? *)
Variable clear_flag : bool.                   (* removeInMemoryMetadata clears isCmiLoaded (the code: true) *)
Variable needs_passed : query -> bool.        (* the record search looks only at the columns that PASSED the block check
                                                 (filterRecordsFromSearchQuery for SimpleExpressionAllColumns: `*=4`) *)
Variable mark_unloaded : bool.                (* without loaded indexes every column to check counts as passed
                                                 (the code since fix 7108dc6: true, markAllColsAsPassed; before it
                                                 false — the early return left the set empty) *)

Record oseg := mk_oseg { blocks : list (list event); cmis : list idx; loaded : bool }.
Record rseg := mk_rseg { rblocks : list (list event); rmem : option (list idx) }.
Record st := mk_st { rotated : list rseg; open : option oseg }.

Inductive op :=
| Flush (b : list event)
| EvictOpen (fits : bool)
| Rotate
| EvictRot
| LoadRot.

Definition pad (l : list idx) (n : nat) : list idx := l ++ repeat empty_idx (n - length l).
Definition assign (l : list idx) (n : nat) (v : idx) : list idx := firstn n l ++ v :: skipn (S n) l.

Definition flush_open (o : option oseg) (b : list event) : oseg :=
  match o with
  | None => mk_oseg [b] (assign (pad [] 1) 0 (index_of b)) true
  | Some s =>
      let n := length (blocks s) in
      mk_oseg (blocks s ++ [b])
              (if loaded s then assign (pad (cmis s) (S n)) n (index_of b) else cmis s)
              (loaded s)
  end.

Definition evict_open (s : oseg) : oseg :=
  mk_oseg (blocks s) [] (if clear_flag then false else loaded s).

Definition step (s : st) (o : op) : st :=
  match o with
  | Flush b => mk_st (rotated s) (Some (flush_open (open s) b))
  | EvictOpen fits => if fits then s else mk_st (rotated s) (option_map evict_open (open s))
  | Rotate => match open s with
              | None => s
              | Some o => mk_st (rotated s ++ [mk_rseg (blocks o) None]) None
              end
  | EvictRot => mk_st (map (fun r => mk_rseg (rblocks r) None) (rotated s)) (open s)
  | LoadRot => mk_st (map (fun r => mk_rseg (rblocks r) (Some (map index_of (rblocks r)))) (rotated s)) (open s)
  end.

Definition init : st := mk_st [] None.
Definition run (ops : list op) (s : st) : st := fold_left step ops s.

(* ---- search ---- *)
(* Keep = kept with the matching columns marked as passed; KeepUnmarked = kept, no column marked *)
Inductive verdict := Keep | KeepUnmarked | Drop | Panic.

Definition block_verdict (s : oseg) (q : query) (i : nat) : verdict :=
  if negb (consults q) then Keep
  else if negb (loaded s) then (if mark_unloaded then Keep else KeepUnmarked)
  else match nth_error (cmis s) i with
       | Some ix => if may ix q then Keep else Drop
       | None => if is_range q && Nat.eqb i (length (cmis s)) then Panic else KeepUnmarked
       end.

Fixpoint search_blocks (s : oseg) (q : query) (i : nat) (bs : list (list event)) : option (list event) :=
  match bs with
  | [] => Some []
  | b :: r =>
      match block_verdict s q i, search_blocks s q (S i) r with
      | Panic, _ => None
      | _, None => None
      | Keep, Some l => Some (filter (matches q) b ++ l)
      | KeepUnmarked, Some l => Some (if needs_passed q then l else filter (matches q) b ++ l)
      | Drop, Some l => Some l
      end
  end.

Definition search_open (o : option oseg) (q : query) : option (list event) :=
  match o with None => Some [] | Some s => search_blocks s q 0 (blocks s) end.

Definition rot_idx (r : rseg) : list idx :=
  match rmem r with Some l => l | None => map index_of (rblocks r) end.

Definition search_rot (q : query) (r : rseg) : list event :=
  flat_map (fun bi : list event * idx =>
              if negb (consults q) || may (snd bi) q then filter (matches q) (fst bi) else [])
           (combine (rblocks r) (rot_idx r)).

(* None = the process died (index out of range inside a search goroutine) *)
Definition search (s : st) (q : query) : option (list event) :=
  match search_open (open s) q with
  | None => None
  | Some l => Some (flat_map (search_rot q) (rotated s) ++ l)
  end.

(* ---- the specification: every event of every block flushed so far that matches, in flush order ---- *)
Definition flushed_blocks (ops : list op) : list (list event) :=
  flat_map (fun o => match o with Flush b => [b] | _ => [] end) ops.
Definition spec_answer (q : query) (bs : list (list event)) : list event :=
  flat_map (filter (matches q)) bs.

(* what the harness reads of the open segment: flag, number of blocks, which entries hold an index *)
Definition all_blocks (s : st) : list (list event) :=
  flat_map rblocks (rotated s) ++ match open s with Some o => blocks o | None => [] end.

End CmiEvict.


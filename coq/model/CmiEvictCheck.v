(* CmiEvictCheck.v — the op streams of harness/cmd/c11/evict.go evaluated on the model of CmiEvict.v.
   Instance: an event is its id; a query is (asks the indexes?, range check?, searches only passed columns?, ids of the
   events it matches);
   the index of a block is the list of its ids (the tightest sound index: a real bloom may say "maybe" more
   often, which cannot change an answer because the record-level filter runs on every kept block), the
   empty map of resizeUnrotatedBlockCmis is None. *)
From Coq Require Import List Bool Arith NArith.
From SigM Require Import Base CmiEvict.
Import ListNotations.

Definition iquery : Type := (bool * bool * bool * list N)%type.
Definition iidx : Type := option (list N).
Definition memN (x : N) (l : list N) : bool := existsb (N.eqb x) l.
Definition imatches (q : iquery) (e : N) : bool := memN e (snd q).
Definition iconsults (q : iquery) : bool := fst (fst (fst q)).
Definition irange (q : iquery) : bool := snd (fst (fst q)).
Definition ineeds (q : iquery) : bool := snd (fst q).
Definition iindex_of (b : list N) : iidx := Some b.
Definition imay (ix : iidx) (q : iquery) : bool :=
  match ix with None => false | Some ids => existsb (fun e => memN e (snd q)) ids end.

Definition ist := st N iidx.
Definition iop := op N.
Definition istep (clear : bool) : ist -> iop -> ist := step N iidx iindex_of None clear.
(* mark = true: the code since fix 7108dc6; false: before it (an open segment without loaded indexes passed no column) *)
Definition isearch_gen (mark : bool) (s : ist) (q : iquery) : option (list N) :=
  search N iquery iidx imatches iconsults irange iindex_of imay ineeds mark s q.
Definition code_marks_unloaded : bool := true.   (* fix 7108dc6: without loaded indexes every column to check counts as passed; false = the tree before it *)
Definition isearch : ist -> iquery -> option (list N) := isearch_gen code_marks_unloaded.
Definition iinit : ist := init N iidx.

(* one item of a trace: an operation, or a search with what the implementation answered and what the hook
   VerifC11UnrotatedCmiState showed of the open segment at that moment *)
Inductive titem :=
| TOp (o : iop)
| TObs (q : iquery) (ids : list N) (count : option N)
       (state : option (bool * nat * list bool)).   (* isCmiLoaded, flushed blocks, entry holds an index *)

Definition has_idx (ix : iidx) : bool := match ix with Some _ => true | None => false end.

Definition state_ok (s : ist) (obs : option (bool * nat * list bool)) : bool :=
  match obs, open N iidx s with
  | None, None => true
  | None, Some o => match blocks N iidx o with [] => true | _ => false end
  | Some _, None => false
  | Some (ld, nb, has), Some o =>
      Bool.eqb ld (loaded N iidx o) && Nat.eqb nb (length (blocks N iidx o))
      && list_eqb Bool.eqb has (map has_idx (cmis N iidx o))
  end.

Definition answer_ok (s : ist) (q : iquery) (ids : list N) (count : option N) : bool :=
  match isearch s q with
  | None => false
  | Some l => match count with
              | Some c => N.eqb c (N.of_nat (length l))
              | None => list_eqb N.eqb ids l
              end
  end.

Fixpoint trace_ok (clear : bool) (s : ist) (t : list titem) : bool :=
  match t with
  | [] => true
  | TOp o :: r => trace_ok clear (istep clear s o) r
  | TObs q ids count state :: r => answer_ok s q ids count && state_ok s state && trace_ok clear s r
  end.

Definition evict_case_ok (t : list titem) : bool := trace_ok true iinit t.

Fixpoint bad_idx (i : nat) (cs : list (list titem)) : list nat :=
  match cs with
  | [] => []
  | c :: r => if evict_case_ok c then bad_idx (S i) r else i :: bad_idx (S i) r
  end.
Definition check_evict_cases (cs : list (list titem)) : list nat := bad_idx 0 cs.

(* short forms for the case files *)
Definition F (b : list N) : titem := TOp (Flush N b).
Definition E0 : titem := TOp (EvictOpen N false).
Definition EB : titem := TOp (EvictOpen N true).
Definition RO : titem := TOp (Rotate N).
Definition RE : titem := TOp (EvictRot N).
Definition RL : titem := TOp (LoadRot N).

(* ColStore.v — the log writer's open block (WIP block) as per-column buffers, its
   flush (type consolidation, dictionary vs raw, PackDictEnc), and the readers
   (ReadDictEnc + per-record lookup, raw iteration with record lengths, the
   constant-record-length shortcut).  Follows
     writer/segwriter.go  doLogEventFilling, AddEntry
     writer/packer.go     initAndBackFillColumn, backFillPastRecords, checkAddDictEnc,
                          PackDictEnc, updateColValueSizeInAllSeenColumns
     writer/segstore.go   consolidateColumnTypes, convertColumnToNumbers/Strings,
                          AppendWipToSegfile (encoding choice), resetWipBlock
     reader/.../segreader.go ReadDictEnc, deGetRec, ReadRecord, iterateNextRecord,
                          getCurrentRecordLength
   Go maps are association lists in insertion order (the per-column effects are
   independent of the iteration order; PackDictEnc's entry order is the map order and is
   compared up to permutation by the harness).  Definitions only. *)
From SigM Require Import Base Tlv TsEnc.
Open Scope N_scope.

Definition key := bytes.

(* ---------- association lists keyed by byte strings ---------- *)
Fixpoint get {A} (k : bytes) (l : list (bytes * A)) : option A :=
  match l with
  | [] => None
  | (k', v) :: r => if bytes_eqb k' k then Some v else get k r
  end.

(* replace in place, else append *)
Fixpoint put {A} (k : bytes) (v : A) (l : list (bytes * A)) : list (bytes * A) :=
  match l with
  | [] => [(k, v)]
  | (k', v') :: r => if bytes_eqb k' k then (k', v) :: r else (k', v') :: put k v r
  end.

Definition mem (k : bytes) (l : list bytes) : bool := existsb (bytes_eqb k) l.
Definition add (k : bytes) (l : list bytes) : list bytes := if mem k l then l else l ++ [k].
Definition del (k : bytes) (l : list bytes) : list bytes := filter (fun x => negb (bytes_eqb k x)) l.

(* ---------- events ---------- *)
(* one flattened log event as ParseRawJsonObject hands it to the writer: the
   (column name, value) pairs in document order, and the millisecond timestamp *)
Definition fields := list (key * cval).
Record event := { ev_ts : N; ev_fields : fields }.

(* ---------- external number <-> text conversions ---------- *)
(* strconv.ParseFloat(s,64) / strconv.FormatFloat(f,'f',-1,64) are not modelled: they
   enter as parameters (the harness supplies the finite tables it observed) *)
Record fconv := { pf : bytes -> option N; ff : N -> bytes }.

Definition is_digit (c : N) : bool := (48 <=? c) && (c <=? 57).
Fixpoint digits_val (acc : Z) (s : bytes) : Z :=
  match s with [] => acc | c :: r => digits_val (10 * acc + Z.of_N (c - 48))%Z r end.

(* strconv.ParseInt(s, 10, 64) *)
Definition parse_int (s : bytes) : option Z :=
  let '(neg, ds) := match s with
                    | 45 :: r => (true, r)      (* '-' *)
                    | 43 :: r => (false, r)     (* '+' *)
                    | _ => (false, s)
                    end in
  match ds with
  | [] => None
  | _ =>
    if forallb is_digit ds then
      let m := digits_val 0 ds in
      if neg then (if (m <=? 9223372036854775808)%Z then Some (- m)%Z else None)
      else (if (m <? 9223372036854775808)%Z then Some m else None)
    else None
  end.

(* strconv.FormatInt(z, 10) *)
Fixpoint pos_digits (fuel : nat) (n : N) (acc : bytes) : bytes :=
  match fuel with
  | O => acc
  | S f => let acc' := (48 + n mod 10) :: acc in
           if n <? 10 then acc' else pos_digits f (n / 10) acc'
  end.
Definition dec_of_N (n : N) : bytes := pos_digits 20 n [].
Definition dec_of_Z (z : Z) : bytes :=
  if (z <? 0)%Z then 45 :: dec_of_N (Z.to_N (- z)) else dec_of_N (Z.to_N z).

Definition s_true : bytes := [116;114;117;101].
Definition s_false : bytes := [102;97;108;115;101].

(* ---------- one column of the open block ---------- *)
Record colwip := {
  cw_buf : bytes;                     (* cbuf[:cbufidx] : one TLV per record *)
  cw_dict : list (bytes * list N);    (* deData.deMap : TLV word -> record numbers *)
  cw_cnt : N                          (* deData.deCount *)
}.
Definition empty_cw : colwip := {| cw_buf := []; cw_dict := []; cw_cnt := 0 |}.

Definition W_BACKFILL : bytes := [T_BACKFILL].

(* checkAddDictEnc *)
Definition dict_add (card : N) (word : bytes) (rec : N) (cw : colwip) : colwip :=
  if cw_cnt cw <? card then
    match get word (cw_dict cw) with
    | None => {| cw_buf := cw_buf cw; cw_dict := cw_dict cw ++ [(word, [rec])]; cw_cnt := cw_cnt cw + 1 |}
    | Some recs => {| cw_buf := cw_buf cw; cw_dict := put word (recs ++ [rec]) (cw_dict cw); cw_cnt := cw_cnt cw |}
    end
  else cw.

(* append one encoded value as record number rec *)
Definition col_append (card : N) (v : cval) (rec : N) (cw : colwip) : colwip :=
  let w := enc_val v in
  dict_add card w rec {| cw_buf := cw_buf cw ++ w; cw_dict := cw_dict cw; cw_cnt := cw_cnt cw |}.

Fixpoint seqN (start : N) (len : nat) : list N :=
  match len with O => [] | S l => start :: seqN (start + 1) l end.

(* backFillPastRecords: rc null records, and the dictionary entry for them *)
Definition col_backfill_past (rc : N) (cw : colwip) : colwip :=
  {| cw_buf := cw_buf cw ++ repeat T_BACKFILL (N.to_nat rc);
     cw_dict := put W_BACKFILL (seqN 0 (N.to_nat rc)) (cw_dict cw);
     cw_cnt := cw_cnt cw + 1 |}.

(* ---------- the segment store (the parts that matter for column data) ---------- *)
Definition INCONSISTENT : N := 4294967295.

Record store := {
  st_cols : list (key * colwip);    (* wipBlock.colWips (kept across the blocks of a segment) *)
  st_inblock : list (key * bool);   (* wipBlock.columnsInBlock *)
  st_blooms : list key;             (* keys of wipBlock.columnBlooms (kept across blocks) *)
  st_ris : list key;                (* keys of wipBlock.columnRangeIndexes (per block) *)
  st_rc : N;                        (* wipBlock.blockSummary.RecCount *)
  st_ts : list N;                   (* wipBlock.blockTs[:RecCount] *)
  st_seen : list (key * N);         (* AllSeenColumnSizes *)
  st_total : N                      (* RecordCount of the segment *)
}.

Definition init_store (blooms : list key) : store :=
  {| st_cols := []; st_inblock := []; st_blooms := blooms; st_ris := []; st_rc := 0; st_ts := [];
     st_seen := []; st_total := 0 |}.

Definition get_cw (k : key) (cols : list (key * colwip)) : colwip :=
  match get k cols with Some cw => cw | None => empty_cw end.

(* updateColValueSizeInAllSeenColumns *)
Definition seen_update (k : key) (size : N) (total : N) (seen : list (key * N)) : list (key * N) :=
  match get k seen with
  | None => put k (if 0 <? total then INCONSISTENT else size) seen
  | Some cur =>
    if cur =? INCONSISTENT then seen
    else if cur =? size then seen else put k INCONSISTENT seen
  end.

Definition is_num (v : cval) : bool :=
  match v with VInt _ | VUint _ | VFloat _ => true | _ => false end.
Definition is_str (v : cval) : bool := match v with VStr _ => true | _ => false end.
Definition is_bool (v : cval) : bool := match v with VBool _ => true | _ => false end.

Definition k_type : key := [95;116;121;112;101].       (* "_type" *)
Definition k_index : key := [95;105;110;100;101;120].  (* "_index" *)

(* [pre] selects the behaviour BEFORE two repairs of the writer (kept as documentation, see the
   ..._prefix_..._refuted theorems); the code is [pre = false]:
   - doLogEventFilling skips a (column, value) pair when the event already gave that column a value
     (duplicate flattened key: the first value is kept);
   - AllSeenColumnSizes also records the null records written by backFillPastRecords and is set to
     INCONSISTENT for a column that convertColumnToStrings rewrote. *)

(* one (column, value) of an event: initAndBackFillColumn + the type switch of doLogEventFilling *)
Definition add_field_core (pre : bool) (card : N) (st : store) (kv : key * cval) : store :=
  let '(k, v) := kv in
  let rc := st_rc st in
  let cw0 := get_cw k (st_cols st) in
  let late := match get k (st_inblock st) with None => negb (rc =? 0) | Some _ => false end in
  (* backFillPastRecords -> initMicroIndices by the type of the first value *)
  let blooms1 := if late && (is_str v || is_bool v) then add k (st_blooms st) else st_blooms st in
  let ris1 := if late && is_num v then add k (st_ris st) else st_ris st in
  let cw1 := if late then col_backfill_past rc cw0 else cw0 in
  (* the value itself *)
  let blooms2 := if is_str v && negb (bytes_eqb k k_type) && negb (bytes_eqb k k_index) then add k blooms1 else blooms1 in
  let ris2 := if is_num v then add k ris1 else ris1 in
  let cw2 := col_append card v rc cw1 in
  {| st_cols := put k cw2 (st_cols st);
     st_inblock := put k true (st_inblock st);
     st_blooms := blooms2; st_ris := ris2;
     st_rc := rc; st_ts := st_ts st;
     st_seen := seen_update k (N.of_nat (length (enc_val v))) (st_total st)
                  (if late && negb pre then seen_update k 1 (st_total st) (st_seen st) else st_seen st);
     st_total := st_total st |}.

Definition add_field (pre : bool) (card : N) (st : store) (kv : key * cval) : store :=
  if negb pre && match get (fst kv) (st_inblock st) with Some true => true | _ => false end
  then st     (* columnsInBlock[cname] is already true: second value for the column in this event *)
  else add_field_core pre card st kv.

(* the loop over columnsInBlock at the end of doLogEventFilling *)
Fixpoint end_backfill (card rc total : N) (inb : list (key * bool))
  (cols : list (key * colwip)) (seen : list (key * N)) : list (key * bool) * list (key * colwip) * list (key * N) :=
  match inb with
  | [] => ([], cols, seen)
  | (k, found) :: r =>
    let '(cols1, seen1) :=
      if found then (cols, seen)
      else (put k (col_append card VNull rc (get_cw k cols)) cols, seen_update k 1 total seen) in
    let '(r', cols2, seen2) := end_backfill card rc total r cols1 seen1 in
    ((k, false) :: r', cols2, seen2)
  end.

(* doLogEventFilling + the counters of AddEntry *)
Definition add_event (pre : bool) (card : N) (st : store) (e : event) : store :=
  let st1 := fold_left (add_field pre card) (ev_fields e) st in
  let '(inb, cols, seen) := end_backfill card (st_rc st1) (st_total st1) (st_inblock st1) (st_cols st1) (st_seen st1) in
  {| st_cols := cols; st_inblock := inb; st_blooms := st_blooms st1; st_ris := st_ris st1;
     st_rc := st_rc st1 + 1; st_ts := st_ts st1 ++ [ev_ts e];
     st_seen := seen; st_total := st_total st1 + 1 |}.

(* ---------- consolidateColumnTypes ---------- *)
Section Conv.
Variable fc : fconv.

(* convertColumnToNumbers on the column buffer; None = "conversion failed" *)
Fixpoint to_numbers (fuel : nat) (b : bytes) : option bytes :=
  match fuel with
  | O => match b with [] => Some [] | _ => None end
  | S f =>
    match b with
    | [] => Some []
    | t :: r =>
      if t =? T_STR then
        match rd16 r with
        | Some (len, r') =>
          if N.of_nat (length r') <? len then None
          else
            let s := firstn (N.to_nat len) r' in
            let rest := skipn (N.to_nat len) r' in
            match parse_int s with
            | Some z => option_map (app (enc_val (VInt z))) (to_numbers f rest)
            | None =>
              match pf fc s with
              | Some bits => option_map (app (enc_val (VFloat bits))) (to_numbers f rest)
              | None => None
              end
            end
        | None => None
        end
      else if (t =? T_I64) || (t =? T_F64) then
        if Nat.ltb (length r) 8 then None
        else option_map (app (t :: firstn 8 r)) (to_numbers f (skipn 8 r))
      else if t =? T_BACKFILL then option_map (cons T_BACKFILL) (to_numbers f r)
      else None
    end
  end.

(* convertColumnToStrings on the column buffer *)
Fixpoint to_strings (fuel : nat) (b : bytes) : bytes :=
  match fuel with
  | O => []
  | S f =>
    match b with
    | [] => []
    | t :: r =>
      if t =? T_STR then
        match rd16 r with
        | Some (len, r') =>
          T_STR :: firstn 2 r ++ firstn (N.to_nat (N.min len (N.of_nat (length r')))) r'
            ++ to_strings f (skipn (N.to_nat (N.min len (N.of_nat (length r')))) r')
        | None => []
        end
      else if t =? T_I64 then
        enc_val (VStr (dec_of_Z (sext 8 (le_dec (firstn 8 r))))) ++ to_strings f (skipn 8 r)
      else if t =? T_F64 then
        enc_val (VStr (ff fc (le_dec (firstn 8 r)))) ++ to_strings f (skipn 8 r)
      else if t =? T_BACKFILL then T_BACKFILL :: to_strings f r
      else if t =? T_BOOL then
        match r with
        | bv :: r' => enc_val (VStr (if bv =? 0 then s_false else s_true)) ++ to_strings f r'
        | [] => []
        end
      else to_strings f r      (* unknown type: logged, only the type byte is skipped *)
    end
  end.

Definition fresh_cw (b : bytes) : colwip := {| cw_buf := b; cw_dict := []; cw_cnt := 0 |}.

Fixpoint consolidate (ks : list key) (cols : list (key * colwip)) (blooms ris : list key)
  : list (key * colwip) * list key * list key :=
  match ks with
  | [] => (cols, blooms, ris)
  | k :: r =>
    if mem k blooms && mem k ris then
      let b := cw_buf (get_cw k cols) in
      match to_numbers (S (length b)) b with
      | Some b' => consolidate r (put k (fresh_cw b') cols) (del k blooms) ris
      | None => consolidate r (put k (fresh_cw (to_strings (S (length b)) b)) cols) blooms (del k ris)
      end
    else consolidate r cols blooms ris
  end.

(* AllSeenColumnSizes after consolidateColumnTypes: INCONSISTENT for every column rewritten as text *)
Fixpoint consolidate_seen (ks : list key) (cols : list (key * colwip)) (blooms ris : list key)
  (seen : list (key * N)) : list (key * N) :=
  match ks with
  | [] => seen
  | k :: r =>
    if mem k blooms && mem k ris then
      let b := cw_buf (get_cw k cols) in
      match to_numbers (S (length b)) b with
      | Some b' => consolidate_seen r (put k (fresh_cw b') cols) (del k blooms) ris seen
      | None => consolidate_seen r (put k (fresh_cw (to_strings (S (length b)) b)) cols) blooms (del k ris)
                  (put k INCONSISTENT seen)
      end
    else consolidate_seen r cols blooms ris seen
  end.

(* ---------- block encodings ---------- *)
Definition ENC_RAW : N := 0.    (* ZSTD_COMLUNAR_BLOCK: payload = zstd(column buffer); the model keeps the buffer *)
Definition ENC_DICT : N := 1.   (* ZSTD_DICTIONARY_BLOCK *)

(* PackDictEnc *)
Definition pack_entry (e : bytes * list N) : bytes :=
  fst e ++ le16 (N.of_nat (length (snd e))) ++ concat (map le16 (snd e)).
Definition pack_dict (cnt : N) (d : list (bytes * list N)) : bytes :=
  le16 cnt ++ concat (map pack_entry d).

(* the choice in AppendWipToSegfile *)
Definition encode_col (card : N) (cw : colwip) : N * bytes :=
  if (0 <? cw_cnt cw) && (cw_cnt cw <? card) then (ENC_DICT, pack_dict (cw_cnt cw) (cw_dict cw))
  else (ENC_RAW, cw_buf cw).

Record fblock := {
  fb_n : N;                              (* block summary RecCount *)
  fb_ts : bytes;                         (* timestamp column block *)
  fb_cols : list (key * (N * bytes))     (* (encoding byte, payload) of every column that has a block *)
}.

Fixpoint encode_cols (card : N) (cols : list (key * colwip)) : list (key * (N * bytes)) :=
  match cols with
  | [] => []
  | (k, cw) :: r =>
    match cw_buf cw with
    | [] => encode_cols card r                 (* cbufidx = 0: no block for this column *)
    | _ => (k, encode_col card cw) :: encode_cols card r
    end
  end.

(* AppendWipToSegfile + resetWipBlock *)
Definition flush_block (pre : bool) (card : N) (st : store) : fblock * store :=
  let '(cols, blooms, ris) := consolidate (map fst (st_inblock st)) (st_cols st) (st_blooms st) (st_ris st) in
  ({| fb_n := st_rc st; fb_ts := ts_encode (st_ts st); fb_cols := encode_cols card cols |},
   {| st_cols := map (fun kc => (fst kc, empty_cw)) cols; st_inblock := []; st_blooms := blooms; st_ris := [];
      st_rc := 0; st_ts := [];
      st_seen := if pre then st_seen st
                 else consolidate_seen (map fst (st_inblock st)) (st_cols st) (st_blooms st) (st_ris st) (st_seen st);
      st_total := st_total st |}).

(* a segment = its blocks, each a non-empty list of events, flushed one after the other *)
Fixpoint ingest_blocks (pre : bool) (card : N) (st : store) (blocks : list (list event)) : list fblock * store :=
  match blocks with
  | [] => ([], st)
  | b :: r =>
    let '(fb, st1) := flush_block pre card (fold_left (add_event pre card) b st) in
    let '(fbs, st2) := ingest_blocks pre card st1 r in
    (fb :: fbs, st2)
  end.

(* ---------- readers ---------- *)
(* getCurrentRecordLength with the segment-level constant record length *)
Definition rec_len (csz : N) (b : bytes) : option N :=
  if (0 <? csz) && negb (csz =? INCONSISTENT) then Some csz else reclen b.

(* ReadRecord(0), ReadRecord(1), ... ReadRecord(n-1) on a raw block; b = buffer from the
   current offset.  None: an error return, or a slice beyond the buffer. *)
Fixpoint raw_records (csz : N) (n : nat) (b : bytes) : option (list bytes) :=
  match n with
  | O => Some []
  | S n' =>
    match rec_len csz b with
    | None => None
    | Some l =>
      if N.of_nat (length b) <? l then None
      else
        let r := firstn (N.to_nat l) b in
        let rest := skipn (N.to_nat l) b in
        match n' with
        | O => Some [r]
        | _ => match rest with
               | [] => None          (* iterateNextRecord: nextOff >= block length *)
               | _ => option_map (cons r) (raw_records csz n' rest)
               end
        end
    end
  end.

(* ReadDictEnc *)
Definition dict_word_len (b : bytes) : option N :=
  match b with
  | [] => None
  | t :: r =>
    if t =? T_STR then match rd16 r with Some (l, _) => Some (3 + l) | None => None end
    else if t =? T_BOOL then Some 2
    else if (t =? T_I64) || (t =? T_F64) then Some 9
    else if t =? T_BACKFILL then Some 1
    else None
  end.

(* the record numbers of one word: deRecToTlv[recNum] = w *)
Fixpoint rd_recs (k : nat) (b : bytes) (w : N) (tbl : list N) : option (list N * bytes) :=
  match k with
  | O => Some (tbl, b)
  | S k' =>
    match rd16 b with
    | None => None
    | Some (rn, b') =>
      if N.of_nat (length tbl) <=? rn then None     (* ErrRecordNotFound *)
      else rd_recs k' b' w (set_nth (N.to_nat rn) w tbl)
    end
  end.

Fixpoint rd_words (k : nat) (w : N) (b : bytes) (tlv : list bytes) (tbl : list N)
  : option (list bytes * list N) :=
  match k with
  | O => Some (tlv, tbl)
  | S k' =>
    match dict_word_len b with
    | None => None
    | Some l =>
      if N.of_nat (length b) <? l then None
      else
        let word := firstn (N.to_nat l) b in
        match rd16 (skipn (N.to_nat l) b) with
        | None => None
        | Some (nr, b2) =>
          match rd_recs (N.to_nat nr) b2 w tbl with
          | None => None
          | Some (tbl', b3) => rd_words k' (w + 1) b3 (tlv ++ [word]) tbl'
          end
        end
    end
  end.

Definition read_dict (n : nat) (payload : bytes) : option (list bytes * list N) :=
  match rd16 payload with
  | None => None
  | Some (nw, r) => rd_words (N.to_nat nw) 0 r [] (repeat 0 n)
  end.

(* deGetRec for every record of the block *)
Definition dict_records (n : nat) (payload : bytes) : option (list bytes) :=
  match read_dict n payload with
  | None => None
  | Some (tlv, tbl) => Some (map (fun wi => nth (N.to_nat wi) tlv []) tbl)
  end.

(* what the dictionary says about record i, directly on the abstract dictionary: the
   last entry that lists i (entry 0 if none does) *)
Fixpoint dict_lookup_from (d : list (bytes * list N)) (i : N) (cur : bytes) : bytes :=
  match d with
  | [] => cur
  | (w, recs) :: r => dict_lookup_from r i (if existsb (N.eqb i) recs then w else cur)
  end.
Definition dict_lookup (d : list (bytes * list N)) (i : N) : bytes :=
  dict_lookup_from d i (match d with [] => [] | (w, _) :: _ => w end).

(* the per-record TLVs of one column block *)
Definition read_col (csz : N) (n : nat) (blk : N * bytes) : option (list bytes) :=
  let '(enc, payload) := blk in
  if enc =? ENC_RAW then raw_records csz n payload
  else if enc =? ENC_DICT then dict_records n payload
  else None.

Fixpoint dec_all (recs : list bytes) : option (list cval) :=
  match recs with
  | [] => Some []
  | r :: rs =>
    match dec_val r, dec_all rs with
    | Some (v, _), Some vs => Some (v :: vs)
    | _, _ => None
    end
  end.

Fixpoint read_cols (n : nat) (cols : list (key * (N * bytes))) : option (list (key * list cval)) :=
  match cols with
  | [] => Some []
  | (k, blk) :: r =>
    (* the record fetch of a match-all search passes INCONSISTENT (recordreader.go) *)
    match read_col INCONSISTENT n blk with
    | None => None
    | Some recs =>
      match dec_all recs, read_cols n r with
      | Some vs, Some rest => Some ((k, vs) :: rest)
      | _, _ => None
      end
    end
  end.

(* match-all over one block: the timestamps and, per column, the value of every record *)
Definition read_block (fb : fblock) : option (list N * list (key * list cval)) :=
  let n := N.to_nat (fb_n fb) in
  match ts_decode n (fb_ts fb), read_cols n (fb_cols fb) with
  | Some ts, Some cols => Some (ts, cols)
  | _, _ => None
  end.

Fixpoint read_all (fbs : list fblock) : option (list (list N * list (key * list cval))) :=
  match fbs with
  | [] => Some []
  | fb :: r =>
    match read_block fb, read_all r with
    | Some x, Some xs => Some (x :: xs)
    | _, _ => None
    end
  end.

End Conv.

(* ---------- specification side ---------- *)
(* the value of column k in an event: absent = null *)
Definition fget (k : key) (f : fields) : cval :=
  match get k f with Some v => v | None => VNull end.
Definition colview (k : key) (evs : list event) : list cval := map (fun e => fget k (ev_fields e)) evs.

Fixpoint nodup_keys (f : fields) : bool :=
  match f with
  | [] => true
  | (k, _) :: r => negb (existsb (fun kv => bytes_eqb k (fst kv)) r) && nodup_keys r
  end.

(* values the JSON ingest path produces *)
Definition ingest_val (v : cval) : bool :=
  wf_val v && match v with VUint _ => false | _ => true end.

Definition event_ok (e : event) : bool :=
  forallb (fun kv => ingest_val (snd kv)) (ev_fields e) && ts_ok (ev_ts e).

(* the text a value has after convertColumnToStrings *)
Definition to_text (fc : fconv) (v : cval) : cval :=
  match v with
  | VInt z => VStr (dec_of_Z z)
  | VFloat b => VStr (ff fc b)
  | VBool b => VStr (if b then s_true else s_false)
  | _ => v
  end.

(* does this string convert in convertColumnToNumbers? *)
Definition numeric_str (fc : fconv) (s : bytes) : bool :=
  match parse_int s with Some _ => true | None => match pf fc s with Some _ => true | None => false end end.
Definition nonnumeric_string (fc : fconv) (v : cval) : bool :=
  match v with VStr s => negb (numeric_str fc s) | _ => false end.
Definition numeric_string (fc : fconv) (v : cval) : bool :=
  match v with VStr s => numeric_str fc s | _ => false end.

(* the guard of the round-trip theorem for one column of one block:
   no number together with a number-looking string, and no number together with a bool *)
Definition col_guard (fc : fconv) (vs : list cval) : bool :=
  negb (existsb is_num vs && existsb (numeric_string fc) vs) &&
  negb (existsb is_num vs && existsb is_bool vs).

(* what the property allows a column of a block to come back as *)
Definition col_allowed (fc : fconv) (sent got : list cval) : Prop :=
  got = sent \/
  (existsb (nonnumeric_string fc) sent = true /\ existsb is_bool sent = false /\ got = map (to_text fc) sent).

(* the boolean guard of the round-trip theorem for one block *)
Definition block_keys (evs : list event) : list key := concat (map (fun e => map fst (ev_fields e)) evs).
Definition block_ok (fc : fconv) (evs : list event) : bool :=
  match evs with [] => false | _ => true end &&
  (N.of_nat (length evs) <? 65536) &&
  forallb event_ok evs &&
  forallb (fun k => col_guard fc (colview k evs)) (block_keys evs).

(* ColStoreCheck.v — executable comparison of the column-store model with observations of
   the real writer / readers (used by the generated case files of C01). *)
From Coq Require Import Uint63.
From SigM Require Import Base Tlv TsEnc ColStore ReaderReuse.
Open Scope N_scope.

(* byte strings in the generated case files: 7 bytes per primitive integer, little-endian
   (a list of N literals of the same size takes coqc about ten times longer to read) *)
Definition byte_of (w : int) (k : nat) : N :=
  Z.to_N (Uint63.to_Z (Uint63.land (Uint63.lsr w (Uint63.of_Z (8 * Z.of_nat k))) 255%uint63)).
Definition unpack7 (w : int) : bytes := map (byte_of w) [0;1;2;3;4;5;6]%nat.
Definition bx (len : nat) (ws : list int) : bytes := firstn len (concat (map unpack7 ws)).

(* ---------- number/text conversion tables observed by the harness ---------- *)
Fixpoint assoc_bytes {A} (k : bytes) (tbl : list (bytes * A)) : option A :=
  match tbl with
  | [] => None
  | (a, b) :: r => if bytes_eqb a k then Some b else assoc_bytes k r
  end.
Fixpoint assoc_N {A} (k : N) (tbl : list (N * A)) : option A :=
  match tbl with
  | [] => None
  | (a, b) :: r => if a =? k then Some b else assoc_N k r
  end.

(* pft: string -> result of strconv.ParseFloat (None = error); strings not in the table
   are taken as errors.  fft: float bits -> strconv.FormatFloat(f,'f',-1,64) *)
Definition fc_of (pft : list (bytes * option N)) (fft : list (N * bytes)) : fconv :=
  {| pf := fun s => match assoc_bytes s pft with Some r => r | None => None end;
     ff := fun b => match assoc_N b fft with Some s => s | None => [63] end |}.

(* ---------- scenario ---------- *)
Inductive sop :=
| SBlock (evs : list event)     (* events ingested, then a flush *)
| SRotate                       (* segment rotation (resetSegStore): column buffers, seen sizes dropped; bloom keys kept *)
| SRestart.                     (* new process *)

Definition rotate_store (st : store) : store :=
  {| st_cols := []; st_inblock := []; st_blooms := st_blooms st; st_ris := []; st_rc := 0; st_ts := [];
     st_seen := []; st_total := 0 |}.

(* ---------- observations of one flushed block ---------- *)
Record colobs := mkco {
  co_name : key;
  co_pre : bytes;                       (* WIP buffer before consolidation *)
  co_predict : list (bytes * list N);   (* deMap before consolidation (any order) *)
  co_precnt : N;
  co_post_o : option bytes;             (* column buffer after consolidateColumnTypes (= the payload of a raw block; a
                                           rewritten column is always raw); None = unchanged *)
  co_enc : N;                           (* encoding byte on disk; 255 = the column has no block *)
  co_payload_o : option bytes;          (* payload on disk (raw blocks: after zstd decompression); None = equal to co_post *)
  co_seen : N;                          (* AllSeenColumnSizes after the flush; 0 = no entry *)
  (* records returned by the real SegmentFileReader, each given as (offset, length) of an occurrence
     of its bytes in the payload (the harness checks the bytes are there) *)
  co_recs_p : option (list (N * N));    (* constant length not passed (match-all path) *)
  co_recs_sc_p : option (list (N * N))  (* with the segment's constant length; None = not comparable *)
}.
Definition co_post (o : colobs) : bytes := match co_post_o o with Some b => b | None => co_pre o end.
Definition co_payload (o : colobs) : bytes := match co_payload_o o with Some b => b | None => co_post o end.
(* the records are mostly consecutive (raw blocks): the walk keeps its position and re-scans the payload only when
   a record does not start where the previous one ended *)
Fixpoint slices_from (full : bytes) (pos : N) (cur : bytes) (l : list (N * N)) : list bytes :=
  match l with
  | [] => []
  | (off, len) :: r =>
    let src := if off =? pos then cur else skipn (N.to_nat off) full in
    firstn (N.to_nat len) src :: slices_from full (off + len) (skipn (N.to_nat len) src) r
  end.
Definition slices (payload : bytes) (ps : option (list (N * N))) : option (list bytes) :=
  match ps with
  | None => None
  | Some l => Some (slices_from payload 0 payload l)
  end.
Definition co_recs (o : colobs) := slices (co_payload o) (co_recs_p o).
Definition co_recs_sc (o : colobs) := slices (co_payload o) (co_recs_sc_p o).

Record blockobs := mkbo {
  bo_n : N;
  bo_tsblock : bytes;
  bo_tsread : option (list N);
  bo_cols : list colobs
}.

Definition dict_same (a b : list (bytes * list N)) : bool :=
  Nat.eqb (length a) (length b) &&
  forallb (fun e => match get (fst e) b with Some r => list_eqb N.eqb (snd e) r | None => false end) a.

(* parse a packed dictionary into its entries *)
Fixpoint parse_recs (k : nat) (b : bytes) : option (list N * bytes) :=
  match k with
  | O => Some ([], b)
  | S k' => match rd16 b with
            | None => None
            | Some (rn, b') => match parse_recs k' b' with Some (l, r) => Some (rn :: l, r) | None => None end
            end
  end.
Fixpoint parse_entries (k : nat) (b : bytes) : option (list (bytes * list N)) :=
  match k with
  | O => match b with [] => Some [] | _ => None end
  | S k' =>
    match dict_word_len b with
    | None => None
    | Some l =>
      if N.of_nat (length b) <? l then None
      else match rd16 (skipn (N.to_nat l) b) with
           | None => None
           | Some (nr, b2) =>
             match parse_recs (N.to_nat nr) b2 with
             | None => None
             | Some (recs, b3) =>
               match parse_entries k' b3 with
               | Some es => Some ((firstn (N.to_nat l) b, recs) :: es)
               | None => None
               end
             end
           end
    end
  end.
Definition parse_dict (payload : bytes) : option (N * list (bytes * list N)) :=
  match rd16 payload with
  | None => None
  | Some (nw, r) => match parse_entries (N.to_nat nw) r with Some es => Some (nw, es) | None => None end
  end.

Definition opt_recs_eqb (a b : option (list bytes)) : bool :=
  match a, b with
  | Some x, Some y => list_eqb bytes_eqb x y
  | None, None => true
  | _, _ => false
  end.

Section Check.
Variable fc : fconv.
Variable card : N.

(* checks of one column; returns the numbers of the failed checks *)
Definition check_col (n : nat) (st1 st2 : store) (cols2 : list (key * colwip)) (o : colobs) : list nat :=
  let k := co_name o in
  let cw := get_cw k (st_cols st1) in
  let cw2 := get_cw k cols2 in
  (* 1: buffer before consolidation *)
  (if bytes_eqb (cw_buf cw) (co_pre o) then [] else [1%nat]) ++
  (* 2: dictionary state before consolidation *)
  (if (cw_cnt cw =? co_precnt o) && dict_same (cw_dict cw) (co_predict o) then [] else [2%nat]) ++
  (* 3: buffer after consolidateColumnTypes *)
  (if bytes_eqb (cw_buf cw2) (co_post o) then [] else [3%nat]) ++
  (* 4: encoding choice and payload *)
  (match cw_buf cw2 with
   | [] => if co_enc o =? 255 then [] else [4%nat]
   | _ =>
     let '(enc, payload) := encode_col card cw2 in
     if negb (enc =? co_enc o) then [4%nat]
     else if enc =? ENC_RAW then (if bytes_eqb payload (co_payload o) then [] else [4%nat])
     else match parse_dict (co_payload o) with
          | Some (cnt, es) => if (cnt =? cw_cnt cw2) && dict_same (cw_dict cw2) es then [] else [4%nat]
          | None => [4%nat]
          end
   end) ++
  (* 5: AllSeenColumnSizes after the flush *)
  (if (match get k (st_seen st2) with Some s => s | None => 0 end) =? co_seen o then [] else [5%nat]) ++
  (* 6: the real reader on the real block (no constant length) = the model's reader on the same bytes,
        and = the model's reader on the model's own block *)
  (if co_enc o =? 255 then []
   else
     (if opt_recs_eqb (read_col INCONSISTENT n (co_enc o, co_payload o)) (co_recs o) then [] else [6%nat]) ++
     (* 7: ... and = the model's reader on the model's own block, when the dictionary lists every record
           once (with a duplicated key a record is listed twice and Go's map order decides which word wins) *)
     (match cw_buf cw2 with
      | [] => []
      | _ => if negb (fst (encode_col card cw2) =? ENC_DICT)
                || Nat.eqb (fold_left (fun a e => (a + length (snd e))%nat) (cw_dict cw2) 0%nat) n
             then (if opt_recs_eqb (read_col INCONSISTENT n (encode_col card cw2)) (co_recs o) then [] else [7%nat])
             else []
      end) ++
     (* 8: the real reader with the segment's constant record length, where the model's reader stays
           inside the buffer *)
     (match co_recs_sc o with
      | None => []
      | Some r => match read_col (co_seen o) n (co_enc o, co_payload o) with
                  | Some m => if list_eqb bytes_eqb m r then [] else [8%nat]
                  | None => []
                  end
      end)).

Definition check_block (st : store) (evs : list event) (o : blockobs) : list nat * store :=
  let st1 := fold_left (add_event false card) evs st in
  let '(cols2, _, _) := consolidate fc (map fst (st_inblock st1)) (st_cols st1) (st_blooms st1) (st_ris st1) in
  let '(fb, st2) := flush_block fc false card st1 in
  let n := N.to_nat (st_rc st1) in
  let r :=
    (if (st_rc st1 =? bo_n o) then [] else [90%nat]) ++
    (* the same set of columns *)
    (if Nat.eqb (length (st_cols st1)) (length (bo_cols o)) then [] else [91%nat]) ++
    (* timestamps *)
    (if bytes_eqb (fb_ts fb) (bo_tsblock o) then [] else [92%nat]) ++
    (match ts_decode n (bo_tsblock o), bo_tsread o with
     | Some a, Some b => if list_eqb N.eqb a b then [] else [93%nat]
     | None, None => []
     | _, _ => [93%nat]
     end) ++
    concat (map (check_col n st1 st2 cols2) (bo_cols o)) in
  (r, st2).

Fixpoint check_ops (idx : nat) (st : store) (ops : list sop) (obs : list blockobs) : list nat :=
  match ops with
  | [] => match obs with [] => [] | _ => [4999%nat] end
  | SBlock evs :: r =>
    match obs with
    | [] => [4998%nat]
    | o :: obs' =>
      let '(bad, st2) := check_block st evs o in
      map (fun c => (100 * idx + c)%nat) bad ++ check_ops (S idx) st2 r obs'
    end
  | SRotate :: r => check_ops idx (rotate_store st) r obs
  | SRestart :: r => check_ops idx (init_store []) r obs
  end.

Definition check_scenario (ops : list sop) (obs : list blockobs) : list nat :=
  check_ops 0 (init_store []) ops obs.

(* ---------- end to end: the model's match-all result ---------- *)
Fixpoint run_ops (st : store) (ops : list sop) : list fblock :=
  match ops with
  | [] => []
  | SBlock evs :: r =>
    let '(fb, st2) := flush_block fc false card (fold_left (add_event false card) evs st) in
    fb :: run_ops st2 r
  | SRotate :: r => run_ops (rotate_store st) r
  | SRestart :: r => run_ops (init_store []) r
  end.

Fixpoint nth_fields (i : nat) (cols : list (key * list cval)) : fields :=
  match cols with
  | [] => []
  | (k, vs) :: r =>
    match nth i vs VNull with
    | VNull => nth_fields i r
    | v => (k, v) :: nth_fields i r
    end
  end.

Definition block_events (b : list N * list (key * list cval)) : list (N * fields) :=
  let '(ts, cols) := b in
  map (fun i => (nth i ts 0, nth_fields i cols)) (seq 0 (length ts)).

Definition model_events (ops : list sop) : option (list (N * fields)) :=
  match read_all (run_ops (init_store []) ops) with
  | Some bs => Some (concat (map block_events bs))
  | None => None
  end.

Definition fields_same (a b : fields) : bool :=
  Nat.eqb (length a) (length b) &&
  forallb (fun kv => match get (fst kv) b with Some v => cval_eqb (snd kv) v | None => false end) a.

Fixpoint find_ts (t : N) (l : list (N * fields)) : option fields :=
  match l with
  | [] => None
  | (t', f) :: r => if t' =? t then Some f else find_ts t r
  end.

Fixpoint e2e_mismatch (idx : nat) (m : list (N * fields)) (obs : list (N * fields)) : list nat :=
  match m with
  | [] => []
  | (t, f) :: r =>
    (match find_ts t obs with
     | Some g => if fields_same f g then [] else [idx]
     | None => [idx]
     end) ++ e2e_mismatch (S idx) r obs
  end.

(* observed records of a match-all query (timestamps are unique in these scenarios) vs the model *)
Definition check_e2e (ops : list sop) (obs : list (N * fields)) : list nat :=
  match model_events ops with
  | None => [4888%nat]
  | Some m =>
    (if Nat.eqb (length m) (length obs) then [] else [4777%nat]) ++ e2e_mismatch 0 m obs
  end.

End Check.

(* ---------- one reader set over a sequence of blocks (ReaderReuse.v) ---------- *)
Definition opt_ts_eqb (a b : option (list N)) : bool :=
  match a, b with
  | Some x, Some y => list_eqb N.eqb x y
  | None, None => true
  | _, _ => false
  end.

(* positions at which model and observation differ; the model's list may end early (reader no longer followed) *)
Fixpoint cmp_seq {A B} (eqb : A -> B -> bool) (i : nat) (m : list A) (o : list B) : list nat :=
  match m, o with
  | a :: m', b :: o' => (if eqb a b then [] else [i]) ++ cmp_seq eqb (S i) m' o'
  | _, _ => []
  end.

(* (record count, timestamp block on disk, what the real TimeRangeReader returned), in the order read *)
Definition check_reuse_ts (reqs : list (nat * bytes * option (list N))) : list nat :=
  cmp_seq opt_ts_eqb 0 (trr_read_seq [] (map (fun r => (fst (fst r), snd (fst r))) reqs)) (map snd reqs).

(* (record count, encoding byte, payload, records of the real SegmentFileReader as (offset, length), compare?)
   compare = false: the block takes part in the sequence (reader state) but its records are not compared
   (very large blocks; the Go oracle compares them with a fresh reader's) *)
Definition reuse_rec_eqb (m : option (list bytes)) (o : bool * bytes * option (list (N * N))) : bool :=
  let '(cmp, pl, ps) := o in
  if cmp then opt_recs_eqb m (slices pl ps) else true.
Definition check_reuse_col (reqs : list (nat * N * bytes * option (list (N * N)) * bool)) : list nat :=
  cmp_seq reuse_rec_eqb 0
    (sfr_read_seq INCONSISTENT (Some []) (map (fun r => let '(n, enc, pl, _, _) := r in (n, (enc, pl))) reqs))
    (map (fun r => let '(_, _, pl, o, cmp) := r in (cmp, pl, o)) reqs).

Fixpoint check_reuse_cols (ci : nat) (cols : list (list (nat * N * bytes * option (list (N * N)) * bool))) : list nat :=
  match cols with
  | [] => []
  | c :: r => map (fun x => (20 + 20 * ci + x)%nat) (check_reuse_col c) ++ check_reuse_cols (S ci) r
  end.

Definition check_reuse (ts : list (nat * bytes * option (list N)))
    (cols : list (list (nat * N * bytes * option (list (N * N)) * bool))) : list nat :=
  check_reuse_ts ts ++ check_reuse_cols 0 cols.

Definition mkev (t : N) (f : fields) : event := {| ev_ts := t; ev_fields := f |}.

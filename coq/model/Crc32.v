(* Crc32.v — CRC-32/IEEE (reflected, poly 0xEDB88320) as used by Go's
   hash/crc32.ChecksumIEEE.  Bit-serial definition over N. *)
From SigM Require Import Base.
Open Scope N_scope.

Definition POLY : N := 3988292384.   (* 0xEDB88320 *)

Definition bstep (s : N) : N :=
  N.lxor (N.shiftr s 1) (if N.testbit s 0 then POLY else 0).

Fixpoint iter (n : nat) (s : N) : N :=
  match n with O => s | S k => iter k (bstep s) end.

(* absorb one byte: xor into the low 8 bits, then 8 bit steps *)
Definition byte_step (s b : N) : N := iter 8 (N.lxor s b).

Definition crc_raw (s : N) (bs : bytes) : N := fold_left byte_step bs s.
Definition crc32 (bs : bytes) : N := N.lxor (crc_raw 4294967295 bs) 4294967295.

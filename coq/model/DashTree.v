(* DashTree.v — dashboards and folders of pkg/dashboards as a keyed store WITH A TREE.
   Definitions only; proofs are in SigP.DashTreeProofs.

   folder_structure[-<org>].json  = [tree]   : id -> (name, folder?, parent id)   (structure.Items;
                                               structure.Order is the inverse of the parent field)
   details/<id>.json              = [details]: dashboard id -> the folder info STORED with the dashboard
                                               {id, name, path, breadcrumbs} (createDashboard /
                                               updateDashboard / refreshFolderMetadata write it)
   Both are files that every operation reads and rewrites: a restart changes nothing (DRestart).

   What a read of a dashboard reports about its place in the tree depends on the dashboard's parent
   folder AND on every ancestor of it.  getDashboard returns the STORED info and refreshes it
   (refreshFolderMetadata) when it differs from the info computed from the tree (whole info since
   the fix; before it only the path strings were compared: *_prefix definitions);
   listItems / getFolderContents compute everything from the tree.
   Ids: 0 = "root-folder" (item {Name "Root", folder, ParentID ""}; cannot be updated or deleted),
   other ids = the uuids in the order the harness saw them.  Names are byte strings; 47 = '/'.
   Acceptance rules (name clashes, parent checks, circular moves) are not modelled: only accepted
   operations enter an op list. *)
From SigM Require Import Base.
Open Scope N_scope.

Definition name := list N.

Section NMap.
  Context {V : Type}.
  Fixpoint n_get (k : N) (m : list (N * V)) : option V :=
    match m with
    | [] => None
    | (k', v) :: r => if N.eqb k' k then Some v else n_get k r
    end.
  Fixpoint n_put (k : N) (v : V) (m : list (N * V)) : list (N * V) :=
    match m with
    | [] => [(k, v)]
    | (k', v') :: r => if N.eqb k' k then (k, v) :: r else (k', v') :: n_put k v r
    end.
  Fixpoint n_del (k : N) (m : list (N * V)) : list (N * V) :=
    match m with
    | [] => []
    | (k', v') :: r => if N.eqb k' k then n_del k r else (k', v') :: n_del k r
    end.
End NMap.

Record item := mkItem { it_name : name; it_folder : bool; it_parent : N }.
Definition tree := list (N * item).

Definition root_name : name := [82; 111; 111; 116].          (* "Root" *)
Definition root_item : item := mkItem root_name true 0.

(* structure.Items[id] *)
Definition look (tr : tree) (i : N) : option item :=
  if i =? 0 then Some root_item else n_get i tr.

Definition slash : N := 47.

(* strings.Join(names, "/") *)
Fixpoint join (l : list name) : name :=
  match l with
  | [] => []
  | [x] => x
  | x :: r => x ++ slash :: join r
  end.

(* the walk of buildFolderPath / getFullPath: from [f] upwards, stops below the root or at a
   missing item; nearest first.  Fuel = number of items + 1 (the real loops have none; a cycle
   cannot be created through the API since updateDashboard rejects folder ids, see notes) *)
Fixpoint chain (fuel : nat) (tr : tree) (f : N) : list (N * name) :=
  match fuel with
  | O => []
  | S k =>
    if f =? 0 then []
    else match n_get f tr with
         | Some it => (f, it_name it) :: chain k tr (it_parent it)
         | None => []
         end
  end.

(* the walk of generateBreadcrumbs: goes through the root item (whose parent is "") *)
Fixpoint crumbs_up (fuel : nat) (tr : tree) (f : N) : list (N * name) :=
  match fuel with
  | O => []
  | S k =>
    if f =? 0 then [(0, root_name)]
    else match n_get f tr with
         | Some it => (f, it_name it) :: crumbs_up k tr (it_parent it)
         | None => []
         end
  end.

Definition fuel_of (tr : tree) : nat := S (length tr).

Definition path_of (tr : tree) (f : N) : name := join (rev (map snd (chain (fuel_of tr) tr f))).
Definition crumbs_of (tr : tree) (f : N) : list (N * name) := rev (crumbs_up (fuel_of tr) tr f).

(* the "folder" object of a details file *)
Record finfo := mkInfo { fi_id : N; fi_name : name; fi_path : name; fi_crumbs : list (N * name) }.
Definition details := list (N * finfo).

(* what createDashboard / updateDashboard / refreshFolderMetadata write for parent folder [p] *)
Definition info_at (tr : tree) (p : N) (pf : item) : finfo :=
  mkInfo p (it_name pf) (path_of tr p) (crumbs_of tr p).

(* SPEC: the folder info of dashboard [i] that the tree determines *)
Definition info_of (tr : tree) (i : N) : option finfo :=
  match n_get i tr with
  | Some it =>
    if it_folder it then None
    else match look tr (it_parent it) with
         | Some pf => Some (info_at tr (it_parent it) pf)
         | None => None
         end
  | None => None
  end.

Record dstate := mkD { d_tree : tree; d_det : details }.
Definition d_init : dstate := mkD [] [].

Inductive dop :=
| MkFolder (i : N) (nm : name) (p : N)                      (* createFolder, accepted, new id i *)
| MkDash (i : N) (nm : name) (p : N)                        (* createDashboard *)
| UpdFolder (i : N) (nm : option name) (p : option N)       (* updateFolder {name?, parentId?} *)
| UpdDash (i : N) (nm : name) (p : option N)                (* updateDashboard (details.folder.id?) *)
| DelDash (i : N)
| DelFolder (i : N)                                         (* the folder and everything below it *)
| GetDash (i : N)
| ListAll
| Contents (f : N)
| DRestart.

(* one row of listItems: id, (name, folder?, parent, parent name, full path) *)
Definition lrow := (N * (name * bool * N * name * name))%type.

Inductive dout :=
| DAck
| DInfo (fi : option finfo)
| DList (l : list lrow)
| DCont (children : list (N * (bool * name))) (crumbs : list (N * name)).

(* ---- writes on the tree (they never look at the details files) ---- *)

(* collectItemsToDelete: closure of "parent is dead", [length tr] rounds suffice *)
Definition dead_step (tr : tree) (dead : list N) : list N :=
  dead ++ map fst (filter (fun kv => negb (existsb (N.eqb (fst kv)) dead) &&
                                     existsb (N.eqb (it_parent (snd kv))) dead) tr).
Fixpoint dead_iter (k : nat) (tr : tree) (dead : list N) : list N :=
  match k with O => dead | S k' => dead_iter k' tr (dead_step tr dead) end.
Definition dead_set (tr : tree) (f : N) : list N := dead_iter (length tr) tr [f].

Definition tree_apply (tr : tree) (o : dop) : tree :=
  match o with
  | MkFolder i nm p => n_put i (mkItem nm true p) tr
  | MkDash i nm p => n_put i (mkItem nm false p) tr
  | UpdFolder i nm p =>
    match n_get i tr with
    | Some it =>
      let p' := match p with Some q => q | None => it_parent it end in
      let nm' := match nm with Some n => n | None => it_name it end in
      n_put i (mkItem nm' (it_folder it) p') tr
    | None => tr
    end
  | UpdDash i nm p =>
    match n_get i tr with
    | Some it =>
      let p' := match p with Some q => q | None => it_parent it end in
      n_put i (mkItem nm (it_folder it) p') tr
    | None => tr
    end
  | DelDash i => n_del i tr
  | DelFolder f =>
    let dead := dead_set tr f in
    filter (fun kv => negb (existsb (N.eqb (fst kv)) dead)) tr
  | GetDash _ | ListAll | Contents _ | DRestart => tr
  end.

Definition tree_of_writes (ops : list dop) : tree := fold_left tree_apply ops [].

(* ---- reads ---- *)

Definition names_eqb := list_eqb (fun a b : N * name => N.eqb (fst a) (fst b) && bytes_eqb (snd a) (snd b)).
Definition finfo_eqb (a b : finfo) : bool :=
  N.eqb (fi_id a) (fi_id b) && bytes_eqb (fi_name a) (fi_name b) &&
  bytes_eqb (fi_path a) (fi_path b) && names_eqb (fi_crumbs a) (fi_crumbs b).
(* the freshness test before the fix: path STRINGS only *)
Definition same_path (a b : finfo) : bool := bytes_eqb (fi_path a) (fi_path b).

(* getDashboard + refreshFolderMetadata: answer and the (possibly rewritten) details.
   [same stored current] is the "already up-to-date" test: the fixed code compares the whole stored
   folder info (id, name, path, breadcrumb ids and names: storedFolderInfoMatches) = finfo_eqb;
   before the fix it compared the path strings only = same_path (kept as the _prefix definitions). *)
Definition get_dash_with (same : finfo -> finfo -> bool) (tr : tree) (det : details) (i : N)
  : option finfo * details :=
  match n_get i tr with
  | Some it =>
    if it_folder it then (None, det)                                   (* isDashboardOfOrg *)
    else match n_get i det with
         | None => (None, det)                                         (* no details file *)
         | Some fi =>
           match look tr (it_parent it) with
           | None => (Some fi, det)                                    (* "folder not found": as stored *)
           | Some pf =>
             let cur := info_at tr (it_parent it) pf in
             if same fi cur then (Some fi, det)                        (* "already up-to-date" *)
             else (Some cur, n_put i cur det)
           end
         end
  | None => (None, det)
  end.

(* listItems calls getDashboard for every item: every dashboard's details are refreshed *)
Definition refresh_all_with same (tr : tree) (det : details) : details :=
  fold_left (fun d kv => snd (get_dash_with same tr d (fst kv))) tr det.

Definition parent_name (tr : tree) (p : N) : name :=
  if p =? 0 then [] else match n_get p tr with Some pf => it_name pf | None => [] end.

Definition list_of (tr : tree) : list lrow :=
  map (fun kv => let it := snd kv in
         (fst kv, (it_name it, it_folder it, it_parent it, parent_name tr (it_parent it),
                   join (rev (map snd (chain (fuel_of tr) tr (fst kv))))))) tr.

Definition contents_of (tr : tree) (f : N) : dout :=
  DCont (map (fun kv => (fst kv, (it_folder (snd kv), it_name (snd kv))))
             (filter (fun kv => it_parent (snd kv) =? f) tr))
        (crumbs_of tr f).

Definition d_step_with same (s : dstate) (o : dop) : dstate * dout :=
  let tr := d_tree s in
  let tr' := tree_apply tr o in
  match o with
  | MkFolder _ _ _ | UpdFolder _ _ _ => (mkD tr' (d_det s), DAck)
  | MkDash i _ p =>
    match look tr' p with
    | Some pf => (mkD tr' (n_put i (info_at tr' p pf) (d_det s)), DAck)
    | None => (mkD tr' (d_det s), DAck)
    end
  | UpdDash i _ _ =>
    match n_get i tr' with
    | Some it =>
      match look tr' (it_parent it) with
      | Some pf => (mkD tr' (n_put i (info_at tr' (it_parent it) pf) (d_det s)), DAck)
      | None => (mkD tr' (d_det s), DAck)
      end
    | None => (mkD tr' (d_det s), DAck)
    end
  | DelDash i => (mkD tr' (n_del i (d_det s)), DAck)
  | DelFolder f =>
    let dead := dead_set tr f in
    (mkD tr' (filter (fun kv => negb (existsb (N.eqb (fst kv)) dead)) (d_det s)), DAck)
  | GetDash i => let r := get_dash_with same tr (d_det s) i in (mkD tr (snd r), DInfo (fst r))
  | ListAll => (mkD tr (refresh_all_with same tr (d_det s)), DList (list_of tr))
  | Contents f => (s, contents_of tr f)
  | DRestart => (s, DAck)
  end.

Fixpoint d_run_with same (ops : list dop) (s : dstate) : dstate :=
  match ops with
  | [] => s
  | o :: r => d_run_with same r (fst (d_step_with same s o))
  end.

Fixpoint d_outs_with same (ops : list dop) (s : dstate) : list dout :=
  match ops with
  | [] => []
  | o :: r => snd (d_step_with same s o) :: d_outs_with same r (fst (d_step_with same s o))
  end.

(* the code as it is *)
Definition get_dash := get_dash_with finfo_eqb.
Definition d_step := d_step_with finfo_eqb.
Definition d_run := d_run_with finfo_eqb.
Definition d_outs := d_outs_with finfo_eqb.
(* the code before the fix (documentation) *)
Definition get_dash_prefix := get_dash_with same_path.
Definition d_run_prefix := d_run_with same_path.

Definition is_read (o : dop) : bool :=
  match o with GetDash _ | ListAll | Contents _ | DRestart => true | _ => false end.

(* ---- what the acceptance rules of the handlers guarantee after every accepted operation (they are
   not modelled; the correspondence run evaluates this on every real history): every parent is the
   root or a present folder and the walk from it ends at the root — so the fuel of the walks is
   never what ends them ---- *)
Definition is_folder (tr : tree) (p : N) : bool :=
  if p =? 0 then true else match n_get p tr with Some it => it_folder it | None => false end.
Definition rooted (tr : tree) (f : N) : bool :=
  match crumbs_of tr f with (0, _) :: _ => true | _ => false end.
Definition wf_tree (tr : tree) : bool :=
  forallb (fun kv => is_folder tr (it_parent (snd kv)) && rooted tr (it_parent (snd kv))) tr.

Fixpoint wf_hist (tr : tree) (ops : list dop) : bool :=
  match ops with
  | [] => true
  | o :: r => wf_tree (tree_apply tr o) && wf_hist (tree_apply tr o) r
  end.

Definition slash_free (n : name) : bool := negb (existsb (N.eqb slash) n) && negb (match n with [] => true | _ => false end).
Definition names_of_op (o : dop) : list name :=
  match o with
  | MkFolder _ nm _ => [nm]
  | UpdFolder _ (Some nm) _ => [nm]
  | _ => []
  end.

(* DashTreeCheck.v — executable comparison of the dashboard/folder tree model (DashTree.v) with
   observations of the real pkg/dashboards handlers (used by the generated case files of C20). *)
From SigM Require Import Base DashTree.
Open Scope N_scope.

Definition oinfo_same (a b : option finfo) : bool :=
  match a, b with
  | None, None => true
  | Some x, Some y => finfo_eqb x y
  | _, _ => false
  end.

Definition lrow_eqb (a b : name * bool * N * name * name) : bool :=
  let '(an, af, ap, apn, afp) := a in
  let '(bn, bf, bp, bpn, bfp) := b in
  bytes_eqb an bn && Bool.eqb af bf && N.eqb ap bp && bytes_eqb apn bpn && bytes_eqb afp bfp.

(* listings are compared as maps id -> row (the real listing iterates a Go map) *)
Definition rows_same (a b : list lrow) : bool :=
  Nat.eqb (length a) (length b) &&
  forallb (fun r => match n_get (fst r) b with Some x => lrow_eqb (snd r) x | None => false end) a.

Definition child_eqb (a b : bool * name) : bool := Bool.eqb (fst a) (fst b) && bytes_eqb (snd a) (snd b).
Definition children_same (a b : list (N * (bool * name))) : bool :=
  Nat.eqb (length a) (length b) &&
  forallb (fun r => match n_get (fst r) b with Some x => child_eqb (snd r) x | None => false end) a.

Definition dout_same (m o : dout) : bool :=
  match m, o with
  | DAck, DAck => true
  | DInfo a, DInfo b => oinfo_same a b
  | DList a, DList b => rows_same a b
  | DCont ca ba, DCont cb bb => children_same ca cb && names_eqb ba bb
  | _, _ => false
  end.

Fixpoint douts_bad (m o : list dout) (idx : nat) : list nat :=
  match m, o with
  | [], [] => []
  | x :: m', y :: o' => (if dout_same x y then [] else [idx]) ++ douts_bad m' o' (S idx)
  | _, _ => [idx]
  end.

(* indices of the operations of one tenant's history whose observed answer differs from the model *)
Definition dt_bad (ops : list dop) (obs : list dout) : list nat :=
  douts_bad (d_outs ops d_init) obs O.

(* every real (accepted) history must keep the tree well formed (the fuel of the model's walks is
   then never what ends them), the model must reproduce every answer, and every GetDash answer of
   the model is the info the tree determines (redundant with C20_dash_tree_read_current) *)
Fixpoint spec_gets_bad (ops : list dop) (s : dstate) (idx : nat) : list nat :=
  match ops with
  | [] => []
  | o :: r =>
    (match o with
     | GetDash i =>
       match n_get i (d_det s), info_of (d_tree s) i with
       | Some _, Some cur =>
         if oinfo_same (fst (get_dash (d_tree s) (d_det s) i)) (Some cur) then [] else [idx]
       | _, _ => []
       end
     | _ => []
     end) ++ spec_gets_bad r (fst (d_step s o)) (S idx)
  end.

Definition dt_bad_wf (ops : list dop) (obs : list dout) : list nat :=
  if wf_hist [] ops then dt_bad ops obs ++ spec_gets_bad ops d_init O
  else [length ops].

(* Dte.v — typed comparison of a stored column value with a query literal (C02).

   Follows  pkg/segment/utils/segutils.go   CreateDtypeEnclosure / enclosureFromJsonNumber,
            pkg/segment/utils/numberutils.go GetNumberTypeAndVal,
            pkg/segment/writer/rawchecker.go filterOpOnDataType / fopOnString / fopOnNumber /
                                             getNumberRecDte / compareNumberDte,
            pkg/common/dtypeutils/dtypeutils.go AlmostEquals, ReplaceWildcardStarWithRegex, SPLToRegex,
            pkg/utils/segutils.go            IsSubWordPresent,
            pkg/segment/structs/evaluationstructs.go  BoolExpr.evaluateToCValueEnclosure (the `where` stage),
            dtypeutils.ConvertToSameType / CompareValues.

   Numbers are exact rationals (Q, compared by cross-multiplication in Z); float64 rounding,
   NaN, Inf, -0 are not modelled.  Definitions only. *)
From SigM Require Import Base.
From Coq Require Import QArith.
Open Scope Z_scope.

Inductive cop := Eq | Ne | Lt | Le | Gt | Ge.

Definition cop_eqb (a b : cop) : bool :=
  match a, b with
  | Eq, Eq | Ne, Ne | Lt, Lt | Le, Le | Gt, Gt | Ge, Ge => true
  | _, _ => false
  end.

(* ---------- exact comparison of rationals, in Z ---------- *)
Definition Qltb (a b : Q) : bool := Qnum a * QDen b <? Qnum b * QDen a.
Definition Qleb (a b : Q) : bool := Qnum a * QDen b <=? Qnum b * QDen a.
Definition Qeqb (a b : Q) : bool := Qnum a * QDen b =? Qnum b * QDen a.

Definition zcmp (o : cop) (a b : Z) : bool :=
  match o with
  | Eq => a =? b | Ne => negb (a =? b)
  | Lt => a <? b | Le => a <=? b | Gt => b <? a | Ge => b <=? a
  end.

(* comparison "by value" *)
Definition qcmp (o : cop) (a b : Q) : bool :=
  match o with
  | Eq => Qeqb a b | Ne => negb (Qeqb a b)
  | Lt => Qltb a b | Le => Qleb a b | Gt => Qltb b a | Ge => Qleb b a
  end.

(* ---------- integer widths ---------- *)
Definition two63 : Z := 9223372036854775808.
Definition two64 : Z := 18446744073709551616.
Definition wrap_i64 (z : Z) : Z := (z + two63) mod two64 - two63.   (* int64(uint64 value) *)
Definition wrap_u64 (z : Z) : Z := z mod two64.                     (* uint64(int64 value) *)
Definition in_i64 (z : Z) : bool := (- two63 <=? z) && (z <? two63).

(* Go conversions float64 -> int64 / uint64 as compiled for amd64 (observed, see notes):
   truncation toward zero when representable; otherwise int64 gives -2^63; uint64 of a
   negative value >= -2^63 wraps, anything else out of range gives 2^63. *)
Definition qtrunc (q : Q) : Z := Z.quot (Qnum q) (QDen q).
Definition f2i64 (q : Q) : Z := let t := qtrunc q in if in_i64 t then t else - two63.
Definition f2u64 (q : Q) : Z :=
  let t := qtrunc q in
  if (0 <=? t) && (t <? two64) then t
  else if (- two63 <=? t) && (t <? 0) then t + two64
  else two63.

Definition q_integral (q : Q) : bool := Qnum q mod QDen q =? 0.

(* ---------- literals ---------- *)
(* A number literal of the search clause arrives as json.Number(text).
   NLInt z : text is accepted by strconv.ParseInt (leading '-') resp. ParseUint (no sign):
             -2^63 <= z < 2^64  (z < 0 exactly when the text starts with '-' and is not -0)
   NLDec q : every other text accepted by ParseFloat: decimal point, leading '+',
             integers outside the range above.  q is the exact value. *)
Inductive numlit := NLInt (z : Z) | NLDec (q : Q).

Definition numlit_val (n : numlit) : Q :=
  match n with NLInt z => inject_Z z | NLDec q => q end.

Inductive dkind := DSigned | DUnsigned | DFloat.
Record dte := mkDte { d_kind : dkind; d_signed : Z; d_unsigned : Z; d_float : Q }.

(* enclosureFromJsonNumber (GetNumberTypeAndVal numstr) *)
Definition mk_dte (n : numlit) : dte :=
  match n with
  | NLInt z =>
      if z <? 0 then mkDte DSigned z (wrap_u64 z) (inject_Z z)
      else mkDte DUnsigned (wrap_i64 z) z (inject_Z z)
  | NLDec q =>
      if Qeqb q 0 then mkDte DUnsigned 0 0 0          (* getFloatTypeAndVal: fltval == 0 -> SS_UINT8 *)
      else mkDte DFloat (f2i64 q) (f2u64 q) q         (* SignedVal = int64(f), UnsignedVal = uint64(f) *)
  end.

Definition dkind_code (k : dkind) : N := match k with DSigned => 1%N | DUnsigned => 2%N | DFloat => 3%N end.

(* string literal: the pattern bytes after the SPL parser (lower-cased when case-insensitive),
   '*' (42) is the wildcard *)
Inductive literal := LNum (n : numlit) | LStr (pat : bytes).

(* ---------- stored values (one record of one column, after block type consolidation) ---------- *)
Inductive stored :=
| SInt (z : Z)        (* VALTYPE_ENC_INT8..64: signed *)
| SUint (u : Z)       (* VALTYPE_ENC_UINT8..64: unsigned *)
| SFloat (q : Q)      (* VALTYPE_ENC_FLOAT64 *)
| SStr (s : bytes)    (* VALTYPE_ENC_SMALL_STRING *)
| SBool (b : bool)    (* VALTYPE_ENC_BOOL *)
| SAbsent.            (* VALTYPE_ENC_BACKFILL: the event has no such field *)

Definition stored_num (s : stored) : option Q :=
  match s with
  | SInt z => Some (inject_Z z) | SUint u => Some (inject_Z u) | SFloat q => Some q
  | _ => None
  end.

(* ---------- AlmostEquals ---------- *)
Definition tol : Q := 1 # 10000.
Definition almost_equals (l r : Q) : bool :=
  let d := Qminus l r in Qltb (Qopp tol) d && Qltb d tol.        (* math.Abs(l-r) < 0.0001 *)

(* compareNumberDte, float branch *)
Definition fcmp (o : cop) (rec lit : Q) : bool :=
  match o with
  | Eq => almost_equals rec lit | Ne => negb (almost_equals rec lit)
  | Lt => Qltb rec lit | Le => Qleb rec lit | Gt => Qltb lit rec | Ge => Qleb lit rec
  end.

(* fopOnNumber: getNumberRecDte, then compareNumberDte switches on the RECORD's type and
   reads the literal's view of the same type (the conversion of the record to float when the
   literal is a float writes recDte.FloatVal, which the integer branches never read). *)
Definition cmp_number (o : cop) (st : stored) (d : dte) : bool :=
  match st with
  | SFloat r => fcmp o r (d_float d)
  | SUint u => zcmp o u (d_unsigned d)
  | SInt z => zcmp o z (d_signed d)
  | SStr _ | SBool _ | SAbsent => cop_eqb o Ne      (* not a number: only != matches *)
  end.

(* ---------- text ---------- *)
Definition lower (c : N) : N := if ((65 <=? c) && (c <=? 90))%N then (c + 32)%N else c.
Definition ceqb (ci : bool) (a b : N) : bool := if ci then (lower a =? lower b)%N else (a =? b)%N.
Definition bytes_ceqb (ci : bool) (a b : bytes) : bool := list_eqb (ceqb ci) a b.

Definition star : N := 42%N.
Definition newline : N := 10%N.
Definition has_star (p : bytes) : bool := existsb (N.eqb star) p.

(* the regex fragment SPLToRegex / ReplaceWildcardStarWithRegex produce:  ^ lit (.* lit)* $ *)
Inductive rx_item := RLit (l : bytes) | RAny.     (* RAny is ".*" : any bytes except newline *)

(* split the pattern at '*' : strings.Split(pattern, "*") interleaved with ".*" *)
Fixpoint rx_of_pat_aux (p acc : bytes) : list rx_item :=
  match p with
  | [] => [RLit (rev acc)]
  | c :: r => if (c =? star)%N then RLit (rev acc) :: RAny :: rx_of_pat_aux r []
              else rx_of_pat_aux r (c :: acc)
  end.
Definition rx_of_pat (p : bytes) : list rx_item := rx_of_pat_aux p [].

Fixpoint prefix_ceqb (ci : bool) (l s : bytes) : option bytes :=   (* strips l from the front of s *)
  match l, s with
  | [], _ => Some s
  | a :: l', b :: s' => if ceqb ci a b then prefix_ceqb ci l' s' else None
  | _ :: _, [] => None
  end.

(* anchored backtracking matcher for the fragment; any_nl = true lets ".*" cross newlines (glob) *)
Fixpoint rx_any (any_nl : bool) (k : bytes -> bool) (s : bytes) : bool :=
  k s || match s with
         | [] => false
         | c :: s' => (any_nl || negb (c =? newline)%N) && rx_any any_nl k s'
         end.

Fixpoint rx_match (any_nl ci : bool) (items : list rx_item) (s : bytes) : bool :=
  match items with
  | [] => match s with [] => true | _ => false end
  | RLit l :: r => match prefix_ceqb ci l s with Some s' => rx_match any_nl ci r s' | None => false end
  | RAny :: r => rx_any any_nl (rx_match any_nl ci r) s
  end.

(* pkg/regex/regex.go: a pattern of the shape  [(?i)] ^ [dot-star] word [dot-star] $  with word
   made of letters, digits and _ : / -  is not given to Go's regexp but evaluated with
   prefix / suffix / contains (these DO cross newlines); every other pattern goes to
   regexp.Compile *)
Definition word_char (c : N) : bool :=
  (((48 <=? c) && (c <=? 57)) || ((65 <=? c) && (c <=? 90)) || ((97 <=? c) && (c <=? 122))
   || (c =? 95) || (c =? 58) || (c =? 47) || (c =? 45))%N.
Definition simple_word (w : bytes) : bool :=
  match w with [] => false | _ => forallb word_char w end.

Definition has_prefix (ci : bool) (w s : bytes) : bool :=
  match prefix_ceqb ci w s with Some _ => true | None => false end.
Definition has_suffix (ci : bool) (w s : bytes) : bool :=
  Nat.leb (length w) (length s) && list_eqb (ceqb ci) (skipn (length s - length w) s) w.
Fixpoint contains (ci : bool) (w s : bytes) : bool :=
  has_prefix ci w s || match s with [] => false | _ :: s' => contains ci w s' end.

(* what the engine evaluates for a wildcard literal: regex.New on the SPLToRegex source;
   Go regexp on  (?i)^...$  is trusted to implement the fragment semantics above
   ('.' does not match a newline) *)
Definition wild_impl (ci : bool) (pat s : bytes) : bool :=
  let items := rx_of_pat pat in
  match items with
  | [RLit []; RAny; RLit w] => if simple_word w then has_suffix ci w s else rx_match false ci items s
  | [RLit w; RAny; RLit []] => if simple_word w then has_prefix ci w s else rx_match false ci items s
  | [RLit []; RAny; RLit w; RAny; RLit []] => if simple_word w then contains ci w s else rx_match false ci items s
  | _ => rx_match false ci items s
  end.

(* source text of the regular expression (compared byte for byte with SPLToRegex by the harness) *)
Definition rx_special (c : N) : bool :=    (* regexp.QuoteMeta: \.+*?()|[]{}^$ *)
  existsb (N.eqb c) [92; 46; 43; 42; 63; 40; 41; 124; 91; 93; 123; 125; 94; 36]%N.
Fixpoint quote_meta (l : bytes) : bytes :=
  match l with
  | [] => []
  | c :: r => if rx_special c then 92%N :: c :: quote_meta r else c :: quote_meta r
  end.
Fixpoint rx_render_items (items : list rx_item) : bytes :=
  match items with
  | [] => []
  | RLit l :: r => quote_meta l ++ rx_render_items r
  | RAny :: r => [46; 42]%N ++ rx_render_items r
  end.
Definition spl_to_regex (ci : bool) (pat : bytes) : bytes :=
  (if ci then [40; 63; 105; 41]%N else []) ++ [94%N] ++ rx_render_items (rx_of_pat pat) ++ [36%N].

(* fopOnString (non-regex): lengths equal and PerformBytesEqualityCheck *)
Definition str_equal (ci : bool) (rec lit : bytes) : bool :=
  Nat.eqb (length rec) (length lit) && bytes_ceqb ci rec lit.

(* filterOpOnDataType, qValDte.Dtype = SS_DT_STRING *)
Definition cmp_string (ci : bool) (o : cop) (st : stored) (pat : bytes) : bool :=
  match st with
  | SStr s =>
      if has_star pat then
        match o with Eq => wild_impl ci pat s | Ne => negb (wild_impl ci pat s) | _ => false end
      else
        match o with Eq => str_equal ci s pat | Ne => negb (bytes_ceqb ci s pat) | _ => false end
  | _ => false   (* rec[0] is not a string: no match, also for != ;
                    [a wildcard pattern against a numeric record is matched against the printed
                     number by the code: not modelled, the harness never sends it] *)
  end.

(* ApplySearchToExpressionFilterSimpleCsg = filterOpOnDataType *)
Definition impl_cmp (ci : bool) (o : cop) (st : stored) (l : literal) : bool :=
  match l with
  | LNum n => cmp_number o st (mk_dte n)
  | LStr p => cmp_string ci o st p
  end.

(* ---------- IsSubWordPresent ---------- *)
Definition space : N := 32%N.
Definition is_space_at (s : bytes) (i : nat) : bool :=
  match nth_error s i with Some c => (c =? space)%N | None => false end.

(* for i := 0; i <= haystackLen-needleLen; i++ *)
Fixpoint subword_loop (ci : bool) (hay needle : bytes) (i cnt : nat) : bool :=
  match cnt with
  | O => false
  | S cnt' =>
      (bytes_ceqb ci (firstn (length needle) (skipn i hay)) needle
       && (Nat.eqb i 0 || is_space_at hay (i - 1))
       && (Nat.eqb (i + length needle) (length hay) || is_space_at hay (i + length needle)))
      || subword_loop ci hay needle (S i) cnt'
  end.
Definition is_subword (ci : bool) (hay needle : bytes) : bool :=
  if Nat.ltb (length hay) (length needle) then false
  else subword_loop ci hay needle 0 (S (length hay - length needle)).

(* ---------- the `where` stage on a numeric field and a numeric literal ---------- *)
(* ValueExpr.EvaluateToNumber: a float that is integral becomes int64 *)
Inductive wval := WInt (z : Z) | WFloat (q : Q).
Definition w_number (q : Q) : wval :=
  if q_integral q && in_i64 (Qnum q / QDen q) then WInt (Qnum q / QDen q) else WFloat q.
Definition wval_q (w : wval) : Q := match w with WInt z => inject_Z z | WFloat q => q end.

(* "=": dtypeutils.ConvertToSameType(left, right) then Go's == on the two interfaces:
   same type -> compared directly; int64 vs float64 -> the left side is converted to the
   right side's type.  A float on the left that does not convert to int64 keeps its value
   and both sides are printed: the text of a value that is not an int64 ("2.5", "1e+19")
   against the decimal text of an int64 — never equal. *)
Definition where_eqb (l r : wval) : bool :=
  match l, r with
  | WInt a, WInt b => a =? b
  | WFloat a, WFloat b => Qeqb a b
  | WInt a, WFloat b => Qeqb (inject_Z a) b
  | WFloat _, WInt _ => false
  end.

(* PRE-FIX (no longer the code): the failed conversion
       leftType, err = ConvertExpToType(leftType, rightType)   // returned (int64(0), err)
   overwrote the left value with 0 before the error was looked at; both sides were then
   printed: "0" against the literal's text — equal exactly when the literal is 0. *)
Definition where_eqb_prefix (l r : wval) : bool :=
  match l, r with
  | WFloat _, WInt b => b =? 0
  | _, _ => where_eqb l r
  end.

(* None: the field is NULL for this row or not numeric (not modelled) *)
Definition where_cmp_gen (eqb : wval -> wval -> bool) (o : cop) (st : stored) (n : numlit) : option bool :=
  match st with
  | SAbsent => Some false                        (* NULL operand: the row is dropped *)
  | SInt _ | SUint _ | SFloat _ =>
      match stored_num st with
      | Some v =>
          let l := w_number v in let r := w_number (numlit_val n) in
          Some match o with
               | Eq => eqb l r | Ne => negb (eqb l r)
               | Lt => Qltb (wval_q l) (wval_q r) | Le => Qleb (wval_q l) (wval_q r)  (* CompareValues: both as float64 *)
               | Gt => Qltb (wval_q r) (wval_q l) | Ge => Qleb (wval_q r) (wval_q l)
               end
      | None => None
      end
  | _ => None
  end.
Definition where_cmp := where_cmp_gen where_eqb.
Definition where_cmp_prefix := where_cmp_gen where_eqb_prefix.

(* where the PRE-FIX where stage compared by value *)
Definition where_prefix_guard (o : cop) (st : stored) (n : numlit) : bool :=
  match o, stored_num st with
  | (Eq | Ne), Some v =>
      match w_number v with WInt _ => true | WFloat _ => negb (Qeqb (numlit_val n) 0) end
  | _, _ => true
  end.

(* ---------- specification: the property text ---------- *)
(* "numeric comparison by value independent of how the number or literal was written",
   "case-insensitive text match", wildcard '*' = any sequence of characters.
   A comparison with a value of another kind is not satisfied, except that a present value of
   another kind is "different" (!=); an absent field satisfies no comparison. *)
Definition glob_match (ci : bool) (pat s : bytes) : bool := rx_match true ci (rx_of_pat pat) s.

Definition spec_cmp (ci : bool) (o : cop) (st : stored) (l : literal) : bool :=
  match st, l with
  | SAbsent, _ => false
  | SStr s, LStr p =>
      match o with
      | Eq => glob_match ci p s | Ne => negb (glob_match ci p s)
      | _ => false
      end
  | SBool _, _ => cop_eqb o Ne
  | SStr _, LNum _ => cop_eqb o Ne
  | (SInt _ | SUint _ | SFloat _), LStr _ => cop_eqb o Ne
  | (SInt _ | SUint _ | SFloat _), LNum n =>
      match stored_num st with Some v => qcmp o v (numlit_val n) | None => false end
  end.

(* ---------- guards: where the implementation is claimed to follow the property text ---------- *)
(* well-formed operands: what the column encodings and the literal parser can produce *)
Definition stored_wf (st : stored) : bool :=
  match st with SInt z => in_i64 z | SUint u => (0 <=? u) && (u <? two64) | _ => true end.
Definition lit_wf (l : literal) : bool :=
  match l with LNum (NLInt k) => (- two63 <=? k) && (k <? two64) | _ => true end.

(* comparison guard, per stored value and literal *)
Definition cmp_guard (o : cop) (st : stored) (l : literal) : bool :=
  match st, l with
  | SInt z, LNum (NLInt k) => k <? two63                       (* literal fits int64 *)
  | SInt z, LNum (NLDec q) => q_integral q && in_i64 (qtrunc q) (* the literal is an integer written as a decimal *)
  | SUint u, LNum (NLInt k) => 0 <=? k
  | SUint u, LNum (NLDec q) => q_integral q && (0 <=? qtrunc q) && (qtrunc q <? two64)
  | SFloat r, LNum n =>
      match o with
      | Eq | Ne => Qeqb r (numlit_val n) || negb (almost_equals r (numlit_val n))   (* equal, or at least 1e-4 apart *)
      | _ => true
      end
  | SStr s, LStr p => negb (has_star p) || negb (existsb (N.eqb newline) s)   (* '.' of the generated regex does not match newline *)
  | SStr _, LNum _ => true
  | SBool _, LNum _ => true
  | SBool _, LStr _ => negb (cop_eqb o Ne)
  | (SInt _ | SUint _ | SFloat _), LStr p => negb (cop_eqb o Ne) && negb (has_star p)
  | SAbsent, LNum _ => negb (cop_eqb o Ne)
  | SAbsent, LStr _ => true
  end.

(* a negated comparison is the complement only when the value is present and of the literal's kind
   (text: only = and != exist) *)
Definition comparable (o : cop) (st : stored) (l : literal) : bool :=
  match st, l with
  | (SInt _ | SUint _ | SFloat _), LNum _ => true
  | SStr _, LStr _ => cop_eqb o Eq || cop_eqb o Ne
  | _, _ => false
  end.


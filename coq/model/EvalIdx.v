(* EvalIdx.v — index arithmetic of the eval function substr(str, start [, length]) as in
   TextExpr.EvaluateText, case "substr" (pkg/segment/structs/evaluationstructs.go), part of C17
   ("over any stored data the server answers with results or an error and keeps running":
   baseString[lo:hi] with invalid bounds panics in the query goroutine and ends the process).

     startIndex := int(start); if startIndex > 0 { startIndex-- }
     if startIndex < 0 { startIndex = len(base) + startIndex }
     if startIndex < 0 || startIndex >= len(base)  -> error "start index is out of range"
     substrLength := len(base) - startIndex
     if LengthExpr != nil { substrLength = int(length)
        if substrLength < 0 || startIndex+substrLength > len(base) -> error "length leads to out of range substring" }
     endIndex := startIndex + substrLength; if endIndex > len(base) { endIndex = len(base) }
     return base[startIndex:endIndex]

   Integers are Z (the grid and the data keep far away from the 64-bit limits; the float -> int
   conversion of huge or NaN arguments is not modelled).  No proofs in this file. *)
From SigM Require Import Base.
Open Scope Z_scope.

Inductive sres := SOk (lo hi : Z) | SErrStart | SErrLen.

Definition substr_start (n start : Z) : Z :=
  let s := if 0 <? start then start - 1 else start in
  if s <? 0 then n + s else s.

Definition substr_idx (n start : Z) (len : option Z) : sres :=
  let s := substr_start n start in
  if (s <? 0) || (n <=? s) then SErrStart else
  match len with
  | None => SOk s n
  | Some l =>
    if (l <? 0) || (n <? s + l) then SErrLen
    else SOk s (Z.min (s + l) n)
  end.

(* a Go slice expression b[lo:hi] is valid iff 0 <= lo <= hi <= len(b) *)
Definition slice_valid (n lo hi : Z) : bool := (0 <=? lo) && (lo <=? hi) && (hi <=? n).

Definition substr_bytes (b : list N) (start : Z) (len : option Z) : option (list N) :=
  match substr_idx (Z.of_nat (length b)) start len with
  | SOk lo hi => Some (firstn (Z.to_nat (hi - lo)) (skipn (Z.to_nat lo) b))
  | _ => None
  end.

(* A variant that validates the END index instead of the length (it looks like a complete range
   check, too; used by the documentation theorem C17_substr_endcheck_refuted) *)
Definition substr_idx_endcheck (n start : Z) (len : option Z) : sres :=
  let s := substr_start n start in
  if (s <? 0) || (n <=? s) then SErrStart else
  match len with
  | None => SOk s n
  | Some l =>
    let e := s + l in
    if (e <? 0) || (n <? e) then SErrLen else SOk s e
  end.

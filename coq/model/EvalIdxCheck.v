(* EvalIdxCheck.v — comparison of the substr index model with observations of the real
   TextExpr.EvaluateText on an exhaustive small grid (used by the generated case files of C17). *)
From SigM Require Import Base EvalIdx.
Open Scope Z_scope.

(* observation: 0 = returned this string, 1 = returned an error, 2 = panicked.
   The two error branches of the Go code build their error with utils.WrapErrorf(err, ...) where err
   is nil at that point, and WrapErrorf(nil, ...) is nil: the caller gets the empty string and NO
   error.  Both forms of "rejected" are accepted here (the property allows a result or an error). *)
Definition obs_ok (b : list N) (start : Z) (len : option Z) (code : N) (res : list N) : bool :=
  match substr_bytes b start len, code with
  | Some r, 0%N => list_eqb N.eqb r res
  | None, 1%N => true
  | None, 0%N => match res with [] => true | _ => false end
  | _, _ => false
  end.

(* the model's own answer must be a valid slice (redundant with the theorem) *)
Definition self_ok (b : list N) (start : Z) (len : option Z) : bool :=
  match substr_idx (Z.of_nat (length b)) start len with
  | SOk lo hi => slice_valid (Z.of_nat (length b)) lo hi
  | _ => true
  end.

Fixpoint check_grid (cs : list (list N * Z * option Z * N * list N)) (idx : nat) : list nat :=
  match cs with
  | [] => []
  | (b, st, ln, code, res) :: r =>
    (if obs_ok b st ln code res && self_ok b st ln then [] else [idx]) ++ check_grid r (S idx)
  end.

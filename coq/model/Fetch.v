(* Fetch.v (C03) — the block scheduler of the searcher seen as a LAYOUT dimension.
   The scheduler itself (Searcher.Fetch / fetchRRCs / getNextBlocks / getValidRRCs,
   pkg/segment/query/processor/searcher.go) is modelled in Sched.v (owned by C05, tied to the
   code there by its own correspondence).  This file adds what C03 needs on top of it:
   * a physical layout given as segments of blocks of matching records, with the block
     summaries (LowTs/HighTs) and the segment time ranges the writer derives from them;
   * the variant of Fetch whose end-of-stream test does not look at the records still held
     back in unsentRRCs (used for the refutation: that test is necessary);
   * the comparison function of the generated case files.
   Definitions only. *)
From SigM Require Import Base SortCmd Sched.
Open Scope N_scope.

(* ---------- a layout: segments of blocks; a block = its time range and its matching records ---------- *)
(* what the harness knows of one block: LowTs, HighTs of ALL records of the block (the block
   summary) and the records (timestamp, id) that match the query *)
Definition lblock := (N * N * list rec)%type.
Definition lseg := list lblock.

Definition to_block (b : lblock) : block := mkBlock (fst (fst b)) (snd (fst b)) (snd b).

(* segKeyTsRange of a segment = the hull of its block summaries *)
Definition seg_lo (s : lseg) : N :=
  match s with
  | [] => 0
  | b :: r => fold_left (fun a x => N.min a (fst (fst x))) r (fst (fst b))
  end.
Definition seg_hi (s : lseg) : N := fold_left (fun a x => N.max a (snd (fst x))) s 0.
Definition to_seg (s : lseg) : seg := mkSeg (seg_lo s) (seg_hi s) (map to_block s).
Definition to_queue (L : list lseg) : list seg := map to_seg L.

(* the summary of a block computed from its records alone (every record matches) *)
Definition recs_lo (rs : list rec) : N :=
  match rs with [] => 0 | r :: t => fold_left (fun a x => N.min a (rts x)) t (rts r) end.
Definition recs_hi (rs : list rec) : N := fold_left (fun a x => N.max a (rts x)) rs 0.
Definition block_of_recs (rs : list rec) : lblock := (recs_lo rs, recs_hi rs, rs).
Definition layout_of_recs (L : list (list (list rec))) : list lseg := map (map block_of_recs) L.

(* booleans of the well-formedness premises (Sched: wf_block / wf_seg) *)
Definition lblock_ok (b : lblock) : bool :=
  (fst (fst b) <=? snd (fst b)) &&
  forallb (fun r => (fst (fst b) <=? rts r) && (rts r <=? snd (fst b))) (snd b).
Definition layout_ok (L : list lseg) : bool := forallb (forallb lblock_ok) L.

(* the answer of the plain search (sort mode recentFirst) over a layout with GOMAXPROCS = procs:
   ids in the order released, and whether the stream ended with io.EOF *)
Definition fetch_answer (procs : nat) (L : list lseg) : list N * bool :=
  let '(out, eof) := run RecentFirst procs (to_queue L) in (map snd out, eof).

(* ---------- the variant without the final flush ---------- *)
Section NOFLUSH.
  Variable m : mode.
  Variable bsort : list block -> list block.
  Variable rsort : list rec -> list rec.
  Variable maxBlocks : nat.

  (* Searcher.Fetch with `len(remainingBlocksSorted) == 0 && gotAllSegments` as the end-of-stream
     test (no `len(unsentRRCs) == 0`); everything else as Sched.fetch *)
  Definition fetch_noflush (st : state) : option (list rec) * state :=
    let st1 :=
      if gotBlocks st then st
      else
        let '(bl, q', c, ga) := get_blocks m st in
        mkState q' (bsort (bl ++ remaining st)) (unsent st) c true ga true in
    match remaining st1, gotAll st1 with
    | [], true => (None, st1)
    | _, _ =>
      let '(next, e0) := get_next_blocks m maxBlocks (remaining st1) in
      let e := match m with
               | RecentFirst => N.max e0 (cutoff st1)
               | RecentLast => N.min e0 (cutoff st1)
               end in
      let rest := skipn (length next) (remaining st1) in
      let gb := if (match rest with [] => true | _ => false end) || (e =? cutoff st1)
                then false else gotBlocks st1 in
      let all := rsort (concat (map recs next) ++ unsent st1) in
      let valid := get_valid_rrcs m e all in
      (Some valid,
       mkState (queue st1) rest (skipn (length valid) all) (cutoff st1) gb (gotAll st1) true)
    end.

  Fixpoint run_loop_noflush (fuel : nat) (st : state) (acc : list rec) : list rec * bool * state :=
    match fuel with
    | O => (acc, false, st)
    | S f =>
      match fetch_noflush st with
      | (None, st') => (acc, true, st')
      | (Some out, st') => run_loop_noflush f st' (acc ++ out)
      end
    end.
End NOFLUSH.

Definition fetch_answer_noflush (procs : nat) (L : list lseg) : list N * bool * list N :=
  let q := to_queue L in
  let '(out, eof, st) :=
    run_loop_noflush RecentFirst (sort_blocks RecentFirst) (sort_recs RecentFirst) procs
                     (fuel_bound q) (init_state q) [] in
  (map snd out, eof, map snd (unsent st)).

(* ---------- comparison with the real system ---------- *)
Fixpoint listN_eqb (a b : list N) : bool :=
  match a, b with
  | [], [] => true
  | x :: a', y :: b' => (x =? y) && listN_eqb a' b'
  | _, _ => false
  end.

(* one case: GOMAXPROCS of the worker, the layout (block summaries + the records matching the
   query, per segment), the ids of the hits in the order the real system returned them *)
Definition fetch_case := (nat * list lseg * list N)%type.

Definition fetch_case_ok (c : fetch_case) : bool :=
  let '(procs, L, obs) := c in
  layout_ok L &&
  (let '(ids, eof) := fetch_answer procs L in eof && listN_eqb ids obs).

Fixpoint fetch_bad (l : list fetch_case) (i : nat) : list nat :=
  match l with
  | [] => []
  | c :: r => (if fetch_case_ok c then [] else [i]) ++ fetch_bad r (S i)
  end.
Definition check_fetch (l : list fetch_case) : list nat := fetch_bad l O.

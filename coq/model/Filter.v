(* Filter.v — search expressions over events (C02).

   Follows  pkg/ast/spl/spl.peg            ClauseLevel4..1, deMorgansLaw (NOT is pushed to the leaves at parse time),
            pkg/ast/pipesearch/searchQueryParser.go  SearchQueryToASTnode / parseANDCondition / parseORCondition
                                           (binary AND/OR node -> conditions with nested nodes and leaf queries),
            pkg/segment/search/segsearch.go  executeRawSearchOnNode / applyRawSearchToConditions,
            pkg/segment/search/searchstatus.go  updateMatchedRecords (And: intersect; Or: first search replaces,
                                           later searches are united) / ShouldProcessRecord,
            pkg/segment/search/filtersearch.go  per-record time check + ApplyColumnarSearchQuery,
            pkg/common/dtypeutils/dtypeutils.go TimeRange.CheckInRange / CheckRangeOverLap.
   Definitions only. *)
From SigM Require Import Base Dte.
From Coq Require Import QArith.
Open Scope Z_scope.

(* ---------- events ---------- *)
Record event := mkEv { ev_id : N; ev_ts : Z; ev_fields : list (N * stored) }.

Fixpoint lookup (f : N) (l : list (N * stored)) : stored :=
  match l with
  | [] => SAbsent
  | (k, v) :: r => if (k =? f)%N then v else lookup f r
  end.
Definition field (f : N) (ev : event) : stored := lookup f (ev_fields ev).

(* ---------- time range (uint64 arithmetic; no operation can overflow) ---------- *)
Record trange := mkTr { t_start : Z; t_end : Z }.

Definition check_in_range (tr : trange) (ts : Z) : bool :=
  (t_start tr <=? ts) && (ts <=? t_end tr).

Definition check_range_overlap (tr : trange) (earliest latest : Z) : bool :=
  ((t_start tr <=? earliest) && (earliest <=? t_end tr))
  || ((t_start tr <=? latest) && (latest <=? t_end tr))
  || ((earliest <=? t_start tr) && (t_end tr <=? latest)).

Definition times_fully_enclosed (tr : trange) (low high : Z) : bool :=
  (t_start tr <=? low) && (low <=? t_end tr) && (t_start tr <=? high) && (high <=? t_end tr).

(* ---------- expressions ---------- *)
Inductive atom :=
| ACmp (f : N) (o : cop) (l : literal) (ci : bool)   (* field op literal *)
| ATerm (w : bytes) (neg : bool)                     (* free-text word or phrase (any text column); neg = NegateMatch *)
| AAny (o : cop) (l : literal) (neg : bool).         (* all-column comparison: free-text NUMBER `404` = `*=404`, `*<5`, ...
                                                        (SearchType SimpleExpressionAllColumns); neg = ExpressionFilter.NegateMatch:
                                                        the records where NO column satisfies it (`NOT 404`, `*!=404` = AAny Eq 404 true) *)

Inductive expr :=
| EAtom (a : atom)
| EAnd (a b : expr)
| EOr (a b : expr)
| ENot (a : expr).

(* ---------- specification ---------- *)
(* a word or phrase occurs in a text value when the value splits into  pre ++ w' ++ post  with
   w' equal to the word up to case, pre empty or ending in a space, post empty or starting
   with a space *)
Definition ends_with_space (p : bytes) : bool :=
  match rev p with [] => true | c :: _ => (c =? space)%N end.
Definition starts_with_space (p : bytes) : bool :=
  match p with [] => true | c :: _ => (c =? space)%N end.
Definition word_at (ci : bool) (w s : bytes) (i : nat) : bool :=
  let pre := firstn i s in let rest := skipn i s in
  match prefix_ceqb ci w rest with
  | Some post => ends_with_space pre && starts_with_space post
  | None => false
  end.
Definition word_occurs (ci : bool) (w s : bytes) : bool :=
  existsb (word_at ci w s) (seq 0 (S (length s))).

Definition text_fields_any (p : bytes -> bool) (ev : event) : bool :=
  existsb (fun kv => match snd kv with SStr s => p s | _ => false end) (ev_fields ev).

Definition spec_atom (a : atom) (ev : event) : bool :=
  match a with
  | ACmp f o l ci => spec_cmp ci o (field f ev) l
  | ATerm w neg => xorb neg (text_fields_any (word_occurs true w) ev)
  | AAny o l neg => xorb neg (existsb (fun kv => spec_cmp true o (snd kv) l) (ev_fields ev))   (* some field of the event satisfies it *)
  end.

Fixpoint spec_eval (e : expr) (ev : event) : bool :=
  match e with
  | EAtom a => spec_atom a ev
  | EAnd a b => spec_eval a ev && spec_eval b ev
  | EOr a b => spec_eval a ev || spec_eval b ev
  | ENot a => negb (spec_eval a ev)
  end.

Definition spec_select (e : expr) (tr : trange) (evs : list event) : list event :=
  filter (fun ev => check_in_range tr (ev_ts ev) && spec_eval e ev) evs.

(* ---------- implementation ---------- *)
(* deMorgansLaw *)
Definition flip (o : cop) : cop :=
  match o with Eq => Ne | Ne => Eq | Gt => Le | Lt => Ge | Ge => Lt | Le => Gt end.

Definition neg_atom (a : atom) : atom :=
  match a with
  | ACmp f o l ci => ACmp f (flip o) l ci
  | ATerm w neg => ATerm w (negb neg)
  | AAny o l neg => AAny o l (negb neg)  (* the operator is kept, the result of the comparison is negated (Comparison.Negated) *)
  end.

(* NOT-free expressions as the parser hands them to the search *)
Inductive pexpr := PAtom (a : atom) | PAnd (a b : pexpr) | POr (a b : pexpr).

Fixpoint push_not (neg : bool) (e : expr) : pexpr :=
  match e with
  | EAtom a => PAtom (if neg then neg_atom a else a)
  | EAnd a b => if neg then POr (push_not neg a) (push_not neg b) else PAnd (push_not neg a) (push_not neg b)
  | EOr a b => if neg then PAnd (push_not neg a) (push_not neg b) else POr (push_not neg a) (push_not neg b)
  | ENot a => push_not (negb neg) a
  end.

(* one leaf query on one record: ApplyColumnarSearchQuery (MatchWordsAllColumns tries every
   string column with IsSubWordPresent; NegateMatch inverts).
   SimpleExpressionAllColumns reads only the columns the block plan lists for the block
   (filterRecordsFromSearchQuery: searchReq.CmiPassedCnames[blockNum]); [cs] is that list,
   None = no restriction (every column of the record); a negated query (SearchQuery.IsNegated)
   selects the records the positive filter does not match. *)
Definition colsel := option (list N).
Definition col_in (cs : colsel) (k : N) : bool :=
  match cs with None => true | Some l => existsb (N.eqb k) l end.

Definition impl_atom_in (cs : colsel) (a : atom) (ev : event) : bool :=
  match a with
  | ACmp f o l ci => impl_cmp ci o (field f ev) l
  | ATerm w neg => xorb neg (text_fields_any (fun s => is_subword true s w) ev)
  | AAny o l neg => xorb neg (existsb (fun kv => col_in cs (fst kv) && impl_cmp true o (snd kv) l) (ev_fields ev))
  end.
Definition impl_atom : atom -> event -> bool := impl_atom_in None.

(* record-level evaluation of a NOT-free expression *)
Fixpoint peval_in (cs : colsel) (e : pexpr) (ev : event) : bool :=
  match e with
  | PAtom a => impl_atom_in cs a ev
  | PAnd a b => peval_in cs a ev && peval_in cs b ev
  | POr a b => peval_in cs a ev || peval_in cs b ev
  end.
Definition peval : pexpr -> event -> bool := peval_in None.

(* --- the block search state machine, on a bit vector aligned with the record list --- *)
Definition bits := list bool.
Fixpoint map2 {A B C} (f : A -> B -> C) (a : list A) (b : list B) : list C :=
  match a, b with
  | x :: a', y :: b' => f x y :: map2 f a' b'
  | _, _ => []
  end.
Definition all_set (evs : list event) : bits := map (fun _ => true) evs.

(* RawSearchSingleQuery with op = And (also the first search of an Or condition): only records whose bit is set are
   processed; a record outside the time range is unset; updateMatchedRecords intersects *)
Definition query_and_in (cs : colsel) (tr : trange) (a : atom) (evs : list event) (cur : bits) : bits :=
  map2 (fun ev c => c && (check_in_range tr (ev_ts ev) && impl_atom_in cs a ev)) evs cur.

(* op = Or, not the first search: only records whose bit is clear are processed; matches are united *)
Definition query_or_in (cs : colsel) (tr : trange) (a : atom) (evs : list event) (cur : bits) : bits :=
  map2 (fun ev c => c || (negb c && (check_in_range tr (ev_ts ev) && impl_atom_in cs a ev))) evs cur.

Definition is_atom (e : pexpr) : bool := match e with PAtom _ => true | _ => false end.

(* executeRawSearchOnNode for the node the parser builds from a binary tree:
   PAtom a   -> AndFilterCondition = { queries [a] }
   PAnd l r  -> AndFilterCondition = { nested nodes: the non-leaf children, queries: the leaf children }
   POr  l r  -> OrFilterCondition  = { nested ..., queries ... }
   applyRawSearchToConditions runs the nested nodes first, then the queries.
   [cs] = the block's candidate columns (one list per block for the whole expression). *)
Fixpoint exec_in (cs : colsel) (tr : trange) (e : pexpr) (evs : list event) : bits :=
  match e with
  | PAtom a => query_and_in cs tr a evs (all_set evs)
  | PAnd l r =>
      let s0 := all_set evs in
      let s1 := if is_atom l then s0 else map2 andb s0 (exec_in cs tr l evs) in
      let s2 := if is_atom r then s1 else map2 andb s1 (exec_in cs tr r evs) in
      let s3 := match l with PAtom a => query_and_in cs tr a evs s2 | _ => s2 end in
      match r with PAtom a => query_and_in cs tr a evs s3 | _ => s3 end
  | POr l r =>
      (* (state, firstSearch) *)
      let st0 := (all_set evs, true) in
      let merge (st : bits * bool) (x : bits) :=
        (if snd st then map2 andb (fst st) x else map2 orb (fst st) x, false) in
      let query (st : bits * bool) (a : atom) :=
        (if snd st then query_and_in cs tr a evs (fst st) else query_or_in cs tr a evs (fst st), false) in
      let st1 := if is_atom l then st0 else merge st0 (exec_in cs tr l evs) in
      let st2 := if is_atom r then st1 else merge st1 (exec_in cs tr r evs) in
      let st3 := match l with PAtom a => query st2 a | _ => st2 end in
      let st4 := match r with PAtom a => query st3 a | _ => st3 end in
      fst st4
  end.
(* the search of a record list with every column available (one block whose plan lists every column) *)
Definition exec : trange -> pexpr -> list event -> bits := exec_in None.

Fixpoint pick {A} (xs : list A) (b : bits) : list A :=
  match xs, b with
  | x :: xs', c :: b' => if c then x :: pick xs' b' else pick xs' b'
  | _, _ => []
  end.

Definition impl_select (e : expr) (tr : trange) (evs : list event) : list event :=
  pick evs (exec tr (push_not false e) evs).

Definition ids (evs : list event) : list N := map ev_id evs.

(* ---------- guards: cmp_guard / comparable are in Dte.v ---------- *)
Definition atom_guard (neg : bool) (a : atom) (ev : event) : bool :=
  match a with
  | ACmp f o l ci =>
      cmp_guard (if neg then flip o else o) (field f ev) l && (negb neg || comparable o (field f ev) l)
  | ATerm _ _ => true
  | AAny o l _ =>
      (* "some field satisfies it": exact when every field is inside cmp_guard; a NOT negates the result *)
      forallb (fun kv => cmp_guard o (snd kv) l) (ev_fields ev)
  end.

Fixpoint expr_guard (neg : bool) (e : expr) (ev : event) : bool :=
  match e with
  | EAtom a => atom_guard neg a ev
  | EAnd a b | EOr a b => expr_guard neg a ev && expr_guard neg b ev
  | ENot a => expr_guard (negb neg) a ev
  end.

(* well-formedness: what the encodings / the literal parser can produce *)
Definition ev_wf (ev : event) : bool := forallb (fun kv => stored_wf (snd kv)) (ev_fields ev).
Definition atom_wf (a : atom) : bool := match a with ACmp _ _ l _ | AAny _ l _ => lit_wf l | ATerm _ _ => true end.
Fixpoint expr_wf (e : expr) : bool :=
  match e with
  | EAtom a => atom_wf a
  | EAnd a b | EOr a b => expr_wf a && expr_wf b
  | ENot a => expr_wf a
  end.

(* FilterCheck.v — executable comparison of the C02 models with observations of the real
   code (used by the generated case files of harness/cmd/c02).  Every check returns the
   indices of the cases on which model and observation differ. *)
From SigM Require Import Base Dte Filter FilterPlan ChunkWalk FilterChunk.
From Coq Require Import QArith.
Open Scope Z_scope.

Fixpoint mism {A} (ok : A -> bool) (l : list A) (idx : nat) : list nat :=
  match l with
  | [] => []
  | x :: r => (if ok x then [] else [idx]) ++ mism ok r (S idx)
  end.

(* ApplySearchToExpressionFilterSimpleCsg driven directly: (case-insensitive, op, record, literal, observed) *)
Definition check_cmp (cases : list (bool * cop * stored * literal * bool)) : list nat :=
  mism (fun c => match c with (ci, o, st, l, obs) => Bool.eqb (impl_cmp ci o st l) obs end) cases 0.

(* the same with the six operators = != < <= > >= observed at once *)
Definition all_ops : list cop := [Eq; Ne; Lt; Le; Gt; Ge].
Definition check_cmp6 (cases : list (bool * stored * literal * list bool)) : list nat :=
  mism (fun c => match c with (ci, st, l, obs) =>
          list_eqb Bool.eqb (map (fun o => impl_cmp ci o st l) all_ops) obs end) cases 0.

(* CreateDtypeEnclosure(json.Number(text)): (literal, (Dtype code, SignedVal, UnsignedVal), FloatVal exact) *)
Definition check_dte (cases : list (numlit * (N * Z * Z) * Q)) : list nat :=
  mism (fun c => match c with (n, (k, sg, us), fl) =>
          let d := mk_dte n in
          (dkind_code (d_kind d) =? k)%N && (d_signed d =? sg) && (d_unsigned d =? us) && Qeqb (d_float d) fl end) cases 0.

(* dtypeutils.AlmostEquals *)
Definition check_almost (cases : list (Q * Q * bool)) : list nat :=
  mism (fun c => match c with (l, r, obs) => Bool.eqb (almost_equals l r) obs end) cases 0.

(* TimeRange methods: (start, end, a, b, CheckInRange a, CheckRangeOverLap a b, AreTimesFullyEnclosed a b) *)
Definition check_time (cases : list (Z * Z * Z * Z * (bool * bool * bool))) : list nat :=
  mism (fun c => match c with (s, e, a, b, (ir, ov, en)) =>
          let tr := mkTr s e in
          Bool.eqb (check_in_range tr a) ir && Bool.eqb (check_range_overlap tr a b) ov
          && Bool.eqb (times_fully_enclosed tr a b) en end) cases 0.

(* utils.IsSubWordPresent *)
Definition check_subword (cases : list (bool * bytes * bytes * bool)) : list nat :=
  mism (fun c => match c with (ci, hay, w, obs) => Bool.eqb (is_subword ci hay w) obs end) cases 0.

(* dtypeutils.SPLToRegex source text, and the compiled regexp on a value *)
Definition check_regex_src (cases : list (bool * bytes * bytes)) : list nat :=
  mism (fun c => match c with (ci, pat, src) => bytes_eqb (spl_to_regex ci pat) src end) cases 0.
Definition check_wild (cases : list (bool * bytes * bytes * bool)) : list nat :=
  mism (fun c => match c with (ci, pat, s, obs) => Bool.eqb (wild_impl ci pat s) obs end) cases 0.

(* end to end: the ids a search returned *)
Definition ids_eqb (a b : list N) : bool := list_eqb N.eqb a b.

Definition check_select (evs : list event) (qs : list (expr * trange * list N)) : list nat :=
  mism (fun q => match q with (e, tr, obs) => ids_eqb (ids (impl_select e tr evs)) obs end) qs 0.

(* search clause followed by `| where f op n` *)
Definition where_keep (f : N) (o : cop) (n : numlit) (ev : event) : bool :=
  match where_cmp o (field f ev) n with Some true => true | _ => false end.
Definition check_where (evs : list event) (qs : list (expr * (N * cop * numlit) * trange * list N)) : list nat :=
  mism (fun q => match q with (e, (f, o, n), tr, obs) =>
          ids_eqb (ids (filter (where_keep f o n) (impl_select e tr evs))) obs end) qs 0.

(* model self-check (redundant with select_exact_guarded): where the guard holds on every
   record, the implementation model selects what the specification selects *)
Definition check_guarded (evs : list event) (qs : list (expr * trange * list N)) : list nat :=
  mism (fun q => match q with (e, tr, _) =>
          if expr_wf e && forallb (fun ev => ev_wf ev && expr_guard false e ev) evs
          then ids_eqb (ids (impl_select e tr evs)) (ids (spec_select e tr evs)) else true end) qs 0.

(* does the guard hold (reported by the harness as coverage) *)
Definition guard_holds (evs : list event) (e : expr) : bool :=
  expr_wf e && forallb (fun ev => ev_wf ev && expr_guard false e ev) evs.

(* ---------- the block / column plan (FilterPlan.v) ---------- *)
(* plans are compared as maps: same blocks, per block the same set of columns *)
Definition cols_eqb (a b : list N) : bool :=
  forallb (fun c => mem_col c b) a && forallb (fun c => mem_col c a) b.
Definition plan_sub (p q : plan) : bool :=
  forallb (fun bc : N * list N =>
             match lookup_b (fst bc) q with Some cq => cols_eqb (snd bc) cq | None => false end) p.
Definition plan_eqb (p q : plan) : bool := plan_sub p q && plan_sub q p.
Definition oplan_eqb (p q : option plan) : bool :=
  match p, q with
  | None, None => true
  | Some a, Some b => plan_eqb a b
  | _, _ => false
  end.

(* SegmentSearchRequest.JoinRequest driven directly: (op is And, receiver, toJoin, receiver afterwards) *)
Definition check_join (cases : list (bool * plan * plan * plan)) : list nat :=
  mism (fun c : bool * plan * plan * plan => match c with (isand, p, q, obs) =>
          plan_eqb (join_req (if isand then LAnd else LOr) p q) obs end) cases 0.

(* the plan ExtractSSRFromSearchNode / ExtractUnrotatedSSRFromSearchNode returned for a query on a block layout
   (queries whose leaves are all numeric: range entries are deterministic, blooms are not modelled) *)
Definition check_plan_of (blks : list blockrec) (qs : list (expr * trange * option plan)) : list nat :=
  mism (fun q => match q with (e, tr, obs) =>
          oplan_eqb (plan_of cmi_model tr (push_not false e) blks) obs end) qs 0.

(* end to end on a block layout: the ids a search returned = the search executed under the merged plan *)
Definition check_plan_select (blks : list blockrec) (qs : list (expr * trange * list N)) : list nat :=
  mism (fun q => match q with (e, tr, obs) =>
          ids_eqb (ids (plan_select cmi_model e tr blks)) obs end) qs 0.

(* model self-check (redundant with plan_select_exact where cmi_model is sound): the plan does not change the result *)
Definition check_plan_neutral (blks : list blockrec) (qs : list (expr * trange * list N)) : list nat :=
  mism (fun q => match q with (e, tr, _) =>
          ids_eqb (ids (plan_select cmi_model e tr blks)) (ids (impl_select e tr (all_events blks))) end) qs 0.

(* both of the above with ONE evaluation of the planned search per query: index i = the returned ids differ from the
   planned search, 1000 + i = the planned search differs from the unplanned one *)
Fixpoint check_plan_select2 (blks : list blockrec) (qs : list (expr * trange * list N)) (idx : nat) : list nat :=
  match qs with
  | [] => []
  | (e, tr, obs) :: r =>
      let got := ids (plan_select cmi_model e tr blks) in
      (if ids_eqb got obs then [] else [idx])
      ++ (if ids_eqb got (ids (impl_select e tr (all_events blks))) then [] else [(1000 + idx)%nat])
      ++ check_plan_select2 blks r (S idx)
  end.

(* ---------- segments with many blocks: the search executed chunk by chunk (FilterChunk.v) ---------- *)
(* the harness sorts the returned ids; the chunked search returns the events chunk by chunk (descending blocks) *)
(* (insertion sort; the reversal makes the runs of ascending ids cheap to insert) *)
Definition sorted_ids (evs : list event) : list N := rev (sort_desc (rev (ids evs))).

(* index i = the returned ids differ from the chunked search of the merged plan (chunks of n, descending block numbers),
   1000 + i = the chunked search differs from the record-level search of all events (the plan and the chunking change
   nothing; redundant with chunk_select_exact where cmi_model is sound).  The guard self-check (record-level search =
   specification) is left to the small layouts: three evaluations over ~500 records per query are the cost here *)
Fixpoint check_chunk_select2 (n : nat) (blks : list blockrec) (qs : list (expr * trange * list N)) (idx : nat) : list nat :=
  match qs with
  | [] => []
  | (e, tr, obs) :: r =>
      let evs := all_events blks in
      let got := sorted_ids (chunk_select n false cmi_model e tr blks) in
      (if ids_eqb got obs then [] else [idx])
      ++ (if ids_eqb got (sorted_ids (impl_select e tr evs)) then [] else [(1000 + idx)%nat])
      ++ check_chunk_select2 n blks r (S idx)
  end.

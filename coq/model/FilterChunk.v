(* FilterChunk.v — the raw search of a segment with many blocks: the candidate blocks are handed to the
   search in groups and searched in chunks (C02).

   Follows  pkg/segment/search/segsearch.go          RawSearchSegmentFileWrapper (BLOCK_BATCH_SIZE = 100: the keys of
                                                     req.AllBlocksToSearch sorted by descending block number, walked in
                                                     chunks, rawSearchColumnar once per chunk; queries without
                                                     group-by / time histogram),
            pkg/segment/query/processor/searcher.go  fetchRRCs / getNextBlocks / getSSRs (the searcher hands the blocks of
                                                     the plan to the search in groups: at most GOMAXPROCS blocks, but all
                                                     blocks that share the newest timestamp together).

   The block list of a request is a Go map (AllBlocksToSearch): its keys are distinct.  Every group / chunk becomes the
   AllBlocksToSearch of one rawSearchColumnar call, which searches exactly the blocks of the file whose number is in
   the map, with the whole tree, under the candidate columns of the merged plan (FilterPlan.plan_select does the same
   for all blocks of the plan at once).  The results of the calls are appended.
   Definitions only; proofs are in SigP.FilterChunkProofs. *)
From SigM Require Import Base Dte Filter FilterPlan ChunkWalk.
From Coq Require Import QArith.
Open Scope Z_scope.

(* the keys of the map AllBlocksToSearch of the merged plan *)
Definition plan_blocks (P : option plan) : list N :=
  match P with None => [] | Some p => dedup_n (map fst p) [] end.

(* sort.Slice(sortedAllBlks, func(i, j) bool { return sortedAllBlks[i] > sortedAllBlks[j] }) on distinct keys *)
Fixpoint insert_desc (b : N) (l : list N) : list N :=
  match l with
  | [] => [b]
  | x :: r => if (x <? b)%N then b :: l else x :: insert_desc b r
  end.
Definition sort_desc (l : list N) : list N := fold_right insert_desc [] l.
(* aggs.Sort.Ascending *)
Definition sort_asc (l : list N) : list N := rev (sort_desc l).

(* rawSearchColumnar with req.AllBlocksToSearch = nm *)
Definition search_blocks (P : option plan) (tr : trange) (pe : pexpr) (blks : list blockrec) (nm : list N) : list event :=
  flat_map (fun nb : blockrec =>
              if mem_col (fst nb) nm
              then match at_block P (fst nb) with
                   | None => []
                   | Some cs => pick (snd nb) (exec_in (Some cs) tr pe (snd nb))
                   end
              else []) blks.

(* the blocks of the merged plan handed to the raw search in batches; [batching] turns the key list into the batches *)
Definition batched_select (batching : list N -> list (list N)) (cmi : cmi_fn) (e : expr) (tr : trange)
                          (blks : list blockrec) : list event :=
  let pe := push_not false e in
  let P := plan_of cmi tr pe blks in
  flat_map (search_blocks P tr pe blks) (batching (plan_blocks P)).

(* a batching is lawful when every key is in exactly one batch *)
Definition lawful_batching (batching : list N -> list (list N)) : Prop :=
  forall bs, NoDup bs -> NoDup (concat (batching bs)) /\ (forall b, In b (concat (batching bs)) <-> In b bs).

(* RawSearchSegmentFileWrapper: chunks of n over the descending (ascending) block list *)
Definition chunk_batching (n : nat) (asc : bool) : list N -> list (list N) :=
  fun bs => go_chunks n (if asc then sort_asc bs else sort_desc bs).
Definition chunk_select (n : nat) (asc : bool) := batched_select (chunk_batching n asc).

(* the searcher's groups (any cut of the key list into consecutive groups whose sizes are given by [sizes], the rest in
   one last group), each group then searched in chunks: the two levels composed *)
Fixpoint cut_groups (sizes : list nat) (l : list N) : list (list N) :=
  match l with
  | [] => []
  | _ => match sizes with
         | [] => [l]
         | O :: r => cut_groups r l
         | k :: r => firstn k l :: cut_groups r (skipn k l)
         end
  end.
Definition grouped_chunk_batching (sizes : list nat) (n : nat) : list N -> list (list N) :=
  fun bs => flat_map (fun g => go_chunks n (sort_desc g)) (cut_groups sizes bs).

(* the variant of the chunk walk with `i++` in the outer loop header *)
Definition chunk_select_skip (n : nat) := batched_select (fun bs => go_chunks_skip n (sort_desc bs)).

(* FilterPlan.v — the block / column plan of a search and the search executed under it (C02).

   Follows  pkg/segment/structs/segsearchstructs.go   SegmentSearchRequest.JoinRequest (AllBlocksToSearch, CmiPassedCnames),
            pkg/segment/query/segqueryhelpers.go       ExtractSSRFromSearchNode / extractSSRFromCondition (rotated segments),
            pkg/segment/query/metadata/unrotatedmeta.go ExtractUnrotatedSSRFromSearchNode / extractUnrotatedSSRFromCondition,
            pkg/segment/query/metadata/blockmeta.go    RunCmiCheck / doRangeCheckAllCol / doRangeCheckForCol,
            pkg/segment/writer/unrotatedquery.go       DoCMICheckForUnrotated / doRangeCheckForCols,
            pkg/segment/query/metadata/metautils/metacheckers.go  FilterBlocksByTime, CheckRangeIndex (column "*"),
            pkg/segment/search/filtersearch.go         filterRecordsFromSearchQuery (cmiPassedCnames of the block).

   Every leaf query of the search tree gets, per segment file, a plan  block -> candidate columns
   (the blocks that survive the time filter and the micro-index check, with the columns whose
   micro index passed).  The plans of the operands of an AND / OR condition are merged by
   JoinRequest: blocks are intersected (AND) or united (OR), the candidate columns of a block
   kept by both are always united.  The raw search then runs the whole tree on every block of
   the merged plan; an all-column comparison (AAny) reads only the block's candidate columns.
   Definitions only; proofs are in SigP.FilterPlanProofs. *)
From SigM Require Import Base Dte Filter.
From Coq Require Import QArith.
Open Scope Z_scope.

(* ---------- SegmentSearchRequest: the part JoinRequest merges ---------- *)
(* block number -> CmiPassedCnames[block]; the keys are AllBlocksToSearch (both maps are built
   from the same map by convertBlocksToSearchRequest / createSearchRequestForUnrotated) *)
Definition plan := list (N * list N).

Fixpoint lookup_b (b : N) (p : plan) : option (list N) :=
  match p with
  | [] => None
  | (k, cs) :: r => if (k =? b)%N then Some cs else lookup_b b r
  end.
Definition has_block (b : N) (p : plan) : bool := match lookup_b b p with Some _ => true | None => false end.

Definition mem_col (c : N) (l : list N) : bool := existsb (N.eqb c) l.
Definition union_cols (a b : list N) : list N := a ++ filter (fun c => negb (mem_col c a)) b.

Inductive lop := LAnd | LOr.

(* op == And: a block that toJoin does not have is deleted (from both maps); the names of a kept block are united *)
Definition join_and (p q : plan) : plan :=
  flat_map (fun bc : N * list N =>
              match lookup_b (fst bc) q with
              | None => []
              | Some cq => [(fst bc, union_cols (snd bc) cq)]
              end) p.

(* otherwise: every block of toJoin is added; the names are united (created empty when the block is new) *)
Definition join_or (p q : plan) : plan :=
  map (fun bc : N * list N =>
         (fst bc, match lookup_b (fst bc) q with None => snd bc | Some cq => union_cols (snd bc) cq end)) p
  ++ filter (fun bc : N * list N => negb (has_block (fst bc) p)) q.

Definition join_req (o : lop) (p q : plan) : plan :=
  match o with LAnd => join_and p q | LOr => join_or p q end.

(* per segment file: the maps of extractSSRFromCondition / ExtractSSRFromSearchNode hold an entry only for a file that
   produced a request (a leaf whose every block was filtered out produces none); the first entry seen for a file is
   taken as it is, later ones are joined -- also under AND *)
Definition join_file (o : lop) (acc x : option plan) : option plan :=
  match acc, x with
  | None, _ => x
  | Some p, None => Some p
  | Some p, Some q => Some (join_req o p q)
  end.

(* ---------- blocks ---------- *)
Definition blockrec := (N * list event)%type.      (* block number, its records in order *)

Definition ts_low (evs : list event) : Z := fold_right (fun ev m => Z.min (ev_ts ev) m) (match evs with ev :: _ => ev_ts ev | [] => 0 end) evs.
Definition ts_high (evs : list event) : Z := fold_right (fun ev m => Z.max (ev_ts ev) m) (match evs with ev :: _ => ev_ts ev | [] => 0 end) evs.

(* FilterBlocksByTime on the block summary [LowTs, HighTs] *)
Definition block_overlaps (tr : trange) (evs : list event) : bool :=
  match evs with [] => false | _ => check_range_overlap tr (ts_low evs) (ts_high evs) end.

(* the micro-index check of ONE leaf query on ONE block: None = the block is dropped for this leaf,
   Some cs = kept, cs are the columns that passed *)
Definition cmi_fn := atom -> list event -> option (list N).

(* MicroIndexCheck / CheckMicroIndicesForUnrotated of one leaf over the blocks of a file *)
Definition leaf_plan (cmi : cmi_fn) (tr : trange) (a : atom) (blks : list blockrec) : option plan :=
  let p := flat_map (fun nb : blockrec =>
                       if block_overlaps tr (snd nb)
                       then match cmi a (snd nb) with Some cs => [(fst nb, cs)] | None => [] end
                       else []) blks in
  match p with [] => None | _ => Some p end.

(* ExtractSSRFromSearchNode on the node the parser builds from a binary tree (see Filter.exec_in): within a condition
   the leaf queries come first (in order), then the nested nodes *)
Fixpoint plan_of (cmi : cmi_fn) (tr : trange) (e : pexpr) (blks : list blockrec) : option plan :=
  match e with
  | PAtom a => leaf_plan cmi tr a blks
  | PAnd l r =>
      let pl := plan_of cmi tr l blks in
      let pr := plan_of cmi tr r blks in
      if is_atom r && negb (is_atom l) then join_file LAnd pr pl else join_file LAnd pl pr
  | POr l r =>
      let pl := plan_of cmi tr l blks in
      let pr := plan_of cmi tr r blks in
      if is_atom r && negb (is_atom l) then join_file LOr pr pl else join_file LOr pl pr
  end.

Definition at_block (P : option plan) (b : N) : option (list N) :=
  match P with None => None | Some p => lookup_b b p end.

(* the raw search: every block of the merged plan is searched with the whole tree, all-column comparisons read the
   block's candidate columns; the other blocks are not opened *)
Definition plan_select (cmi : cmi_fn) (e : expr) (tr : trange) (blks : list blockrec) : list event :=
  let pe := push_not false e in
  let P := plan_of cmi tr pe blks in
  flat_map (fun nb : blockrec =>
              match at_block P (fst nb) with
              | None => []
              | Some cs => pick (snd nb) (exec_in (Some cs) tr pe (snd nb))
              end) blks.

Definition all_events (blks : list blockrec) : list event := flat_map (fun nb : blockrec => snd nb) blks.

(* ---------- soundness of a micro-index check (premise of the plan theorem) ---------- *)
(* a dropped block holds no record the leaf matches, whatever columns are read; on a kept block the leaf evaluated on
   the passed columns, or on any larger column list, is the leaf evaluated on all columns *)
Definition cmi_sound_on (cmi : cmi_fn) (a : atom) (evs : list event) : Prop :=
  match cmi a evs with
  | None => forall cs ev, In ev evs -> impl_atom_in cs a ev = false
  | Some cs => forall cs', (forall c, mem_col c cs = true -> mem_col c cs' = true) ->
                           forall ev, In ev evs -> impl_atom_in (Some cs') a ev = impl_atom a ev
  end.

Fixpoint leaves (e : pexpr) : list atom :=
  match e with PAtom a => [a] | PAnd l r | POr l r => leaves l ++ leaves r end.

(* ---------- a concrete micro-index check: range entries of the numeric columns ---------- *)
(* updateRangeIndex over the values of one column of a block, JSON ingest (int64 / float64 only): all integers -> a
   signed entry, a float among them -> a float entry holding the integers as floats; a column that holds text or
   bools in the block has no range entry (bloom instead) *)
Inductive rentry := REInt (mn mx : Z) | REFloat (mn mx : Q).

Definition Qmin' (a b : Q) : Q := if Qleb a b then a else b.
Definition Qmax' (a b : Q) : Q := if Qleb a b then b else a.

Definition entry_add (e : option (option rentry)) (v : stored) : option (option rentry) :=
  (* outer None = no value seen yet; Some None = the column has no range entry *)
  match v with
  | SAbsent => e
  | SStr _ | SBool _ => Some None
  | SInt z | SUint z =>
      match e with
      | None => Some (Some (REInt z z))
      | Some None => Some None
      | Some (Some (REInt mn mx)) => Some (Some (REInt (Z.min mn z) (Z.max mx z)))
      | Some (Some (REFloat mn mx)) => Some (Some (REFloat (Qmin' mn (inject_Z z)) (Qmax' mx (inject_Z z))))
      end
  | SFloat q =>
      match e with
      | None => Some (Some (REFloat q q))
      | Some None => Some None
      | Some (Some (REInt mn mx)) => Some (Some (REFloat (Qmin' (inject_Z mn) q) (Qmax' (inject_Z mx) q)))
      | Some (Some (REFloat mn mx)) => Some (Some (REFloat (Qmin' mn q) (Qmax' mx q)))
      end
  end.

Definition col_entry (k : N) (evs : list event) : option rentry :=
  match fold_left (fun e ev => entry_add e (field k ev)) evs None with
  | Some (Some r) => Some r
  | _ => None
  end.

(* does{Int,Float}PassRangeFilter *)
Definition pass_z (o : cop) (l mn mx : Z) : bool :=
  match o with
  | Eq => (mn <=? l) && (l <=? mx)
  | Ne => negb ((mn =? mx) && (l =? mn))
  | Gt => (l <? mn) || (l <? mx)
  | Ge => (l <=? mn) || (l <=? mx)
  | Lt => (mn <? l) || (mx <? l)
  | Le => (mn <=? l) || (mx <=? l)
  end.
Definition pass_q (o : cop) (l mn mx : Q) : bool :=
  match o with
  | Eq => Qleb mn l && Qleb l mx
  | Ne => negb (Qeqb mn mx && Qeqb l mn)
  | Gt => Qltb l mn || Qltb l mx
  | Ge => Qleb l mn || Qleb l mx
  | Lt => Qltb mn l || Qltb mx l
  | Le => Qleb mn l || Qleb mx l
  end.

(* checkRangeIndexHelper: the literal is converted to the entry's type; a failed conversion does not pass *)
Definition entry_pass (r : rentry) (o : cop) (n : numlit) : bool :=
  match r, n with
  | REInt mn mx, NLInt z => if in_i64 z then pass_z o z mn mx else false
  | REInt _ _, NLDec _ => false
  | REFloat mn mx, _ => pass_q o (numlit_val n) mn mx
  end.

Fixpoint dedup_n (l : list N) (seen : list N) : list N :=
  match l with
  | [] => []
  | x :: r => if mem_col x seen then dedup_n r seen else x :: dedup_n r (x :: seen)
  end.
Definition block_cols (evs : list event) : list N :=
  dedup_n (flat_map (fun ev => map fst (ev_fields ev)) evs) [].

(* doRangeCheckAllCol / doRangeCheckForCols with the wildcard column: every column whose range entry passes is a
   candidate; no candidate = block dropped -- unless the query is negated: the block is then kept with the columns
   that pass (possibly none), all its records being wanted.  A named column: the block is kept when its entry passes;
   without an entry only != keeps it.  Text queries (bloom) are kept here on every block: dropping is an optimisation whose
   soundness is C03's subject, and a kept block is searched record by record *)
Definition cmi_model : cmi_fn := fun a evs =>
  match a with
  | AAny o (LNum n) neg =>
      let cs := filter (fun k => match col_entry k evs with Some r => entry_pass r o n | None => false end) (block_cols evs) in
      match cs with [] => if neg then Some [] else None | _ => Some cs end
  | AAny _ (LStr _) _ => Some (block_cols evs)
  | ACmp f o (LNum n) _ =>
      match col_entry f evs with
      | Some r => if entry_pass r o n then Some [f] else None
      | None => if cop_eqb o Ne then Some [f] else None
      end
  | ACmp f _ (LStr _) _ => Some [f]
  | ATerm _ _ => Some []
  end.

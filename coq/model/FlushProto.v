(* FlushProto.v — the on-disk protocol of log segment flush / rotation and what a restart
   makes searchable, at system-call granularity.
   Follows SegStore.AppendWipToSegfile (column files, then block summary, then .sst via
   tmp+rename, then the running .sfm), WriteSfm (tmp + rename since fix b3aeb7b; the
   in-place O_TRUNC variant is kept for the refuted theorem), rotation
   (sfm rewritten, then the segmeta.json line) and the start-up adoption of segments
   (syncSegMetaWithSegFullMeta: a directory is adopted iff its .sfm parses; its blocks are
   the records of its .bsu file; segment statistics come from the .sfm/.sst). *)
From SigM Require Import Base.
Open Scope nat_scope.

Inductive fop :=
| ColWrite (s : nat)                 (* any write to a column / micro-index / rollup file of segment s *)
| BsuAppend (s : nat)                (* one block summary appended to <s>.bsu *)
| SstWrite (s : nat) | SstRename (s : nat)
| SfmTmpTrunc (s : nat)              (* open(<s>.sfm.tmp, O_TRUNC) *)
| SfmTmpWrite (s nb : nat)           (* the JSON is written in one write(2); nb = its numBlocks field
                                        (index of the last flushed block while unrotated, block count at rotation) *)
| SfmRename (s : nat)                (* rename(<s>.sfm.tmp, <s>.sfm) *)
| SfmTruncate (s : nat)              (* pre-fix protocol: open(<s>.sfm, O_TRUNC) *)
| SfmWriteInPlace (s nb : nat)       (* pre-fix protocol: write into <s>.sfm *)
| SfmUnlink (s : nat)                (* unlink(<s>.sfm): never issued by the writer (no history contains it); observed
                                        traces that remove a segment's .sfm differ from [ops_of] and replay faithfully *)
| SegmetaAppend (s : nat)            (* the segment's line appended to segmeta.json *)
| PqmrWrite (s : nat).               (* one write(2) appending to <s>/pqmr/<pqid>.pqmr (persistent-query match results of
                                        the block just flushed; FlushPqmr runs after WriteRunningSegMeta; the content of
                                        that file and what a restart reads from it are modelled in PqmrProto.v) *)

(* content of a .sfm file *)
Inductive sfmfile := NoFile | Invalid | Valid (nb : nat).

Record segst := { bsu : nat; sfm : sfmfile; tmp : sfmfile }.
Definition seg0 : segst := {| bsu := 0; sfm := NoFile; tmp := NoFile |}.

Definition fs := nat -> segst.
Definition fs0 : fs := fun _ => seg0.
Definition upd (f : fs) (s : nat) (x : segst) : fs := fun t => if Nat.eqb t s then x else f t.

Definition step (f : fs) (o : fop) : fs :=
  match o with
  | ColWrite _ | SstWrite _ | SstRename _ | SegmetaAppend _ | PqmrWrite _ => f
  | BsuAppend s => upd f s {| bsu := S (bsu (f s)); sfm := sfm (f s); tmp := tmp (f s) |}
  | SfmTmpTrunc s => upd f s {| bsu := bsu (f s); sfm := sfm (f s); tmp := Invalid |}
  | SfmTmpWrite s nb => upd f s {| bsu := bsu (f s); sfm := sfm (f s); tmp := Valid nb |}
  | SfmRename s => upd f s {| bsu := bsu (f s); sfm := tmp (f s); tmp := NoFile |}
  | SfmTruncate s => upd f s {| bsu := bsu (f s); sfm := Invalid; tmp := tmp (f s) |}
  | SfmWriteInPlace s nb => upd f s {| bsu := bsu (f s); sfm := Valid nb; tmp := tmp (f s) |}
  | SfmUnlink s => upd f s {| bsu := bsu (f s); sfm := NoFile; tmp := tmp (f s) |}
  end.

Definition run (f : fs) (ops : list fop) : fs := fold_left step ops f.

(* what a restart makes searchable: the blocks listed in the .bsu of every segment whose .sfm parses *)
Definition seg_visible (f : fs) (s : nat) : list (nat * nat) :=
  match sfm (f s) with
  | Valid _ => map (pair s) (seq 0 (bsu (f s)))
  | _ => []
  end.
Definition visible (f : fs) (nseg : nat) : list (nat * nat) := flat_map (seg_visible f) (seq 0 nseg).

(* ---------- histories ---------- *)
(* a flush issues m writes to column/micro-index/rollup files and n writes to the .sst.tmp file *)
(* when persistent queries are active for the index, the flush goes on (after the .sfm) with p appending writes to the
   segment's pqmr files: four per persistent query (blkNum, size, bitset length, bitset words) *)
(* graceful shutdown (ForcedFlushToSegfile -> AppendWipToSegfile(forceRotate = true)) with events in the open block: the
   buffer flush (m column writes, block summary, n .sst writes, .sst rename, running .sfm, p pqmr appends) and, in the
   same call, the rotation of the segment (final .sfm, segmeta.json line).  With an empty buffer the call is a plain
   rotation ([Rotate]). *)
Inductive hstep := Flush (m n : nat) | Rotate | PqWrites (p : nat) | ForcedFlush (m n p : nat).

(* WriteSfm, current code *)
Definition sfm_ops (s nb : nat) : list fop := [SfmTmpTrunc s; SfmTmpWrite s nb; SfmRename s].
(* WriteSfm before the fix *)
Definition sfm_ops_inplace (s nb : nat) : list fop := [SfmTruncate s; SfmWriteInPlace s nb].

Section Proto.
  Variable wsfm : nat -> nat -> list fop.

  Definition flush_ops (s b m n : nat) : list fop :=
    repeat (ColWrite s) m ++ [BsuAppend s] ++ repeat (SstWrite s) n ++ [SstRename s] ++ wsfm s b.
  Definition rotate_ops (s b : nat) : list fop :=
    wsfm s b ++ [SegmetaAppend s].

  (* (current segment, blocks already flushed into it) *)
  Fixpoint ops_from (s b : nat) (h : list hstep) : list fop :=
    match h with
    | [] => []
    | Flush m n :: r => flush_ops s b m n ++ ops_from s (S b) r
    | Rotate :: r =>
        match b with
        | O => ops_from s b r                      (* nothing to rotate *)
        | S _ => rotate_ops s b ++ ops_from (S s) 0 r
        end
    | PqWrites p :: r => repeat (PqmrWrite s) p ++ ops_from s b r
    | ForcedFlush m n p :: r =>
        flush_ops s b m n ++ repeat (PqmrWrite s) p ++ rotate_ops s (S b) ++ ops_from (S s) 0 r
    end.
End Proto.

Definition ops_of (h : list hstep) : list fop := ops_from sfm_ops 0 0 h.
Definition ops_of_inplace (h : list hstep) : list fop := ops_from sfm_ops_inplace 0 0 h.

(* Specification: the blocks that must be searchable after a crash that happened after the
   first k system calls of the history: all blocks of completed flushes, plus the block of the
   flush in progress iff its block summary is already appended AND the segment already had a
   readable .sfm (i.e. it is not the segment's first flush). *)
Fixpoint expect_from (s b : nat) (h : list hstep) (k : nat) : list (nat * nat) :=
  match h with
  | [] => []
  | Flush m n :: r =>
      let len := m + n + 5 in
      if Nat.leb len k then (s, b) :: expect_from s (S b) r (k - len)
      else if Nat.ltb m k && negb (Nat.eqb b 0) then [(s, b)] else []
  | Rotate :: r =>
      match b with
      | O => expect_from s b r k
      | S _ => if Nat.leb 4 k then expect_from (S s) 0 r (k - 4) else []
      end
  | PqWrites p :: r => if Nat.leb p k then expect_from s b r (k - p) else []
  | ForcedFlush m n p :: r =>
      (* the buffer flush of the shutdown is complete after its .sfm rename (m + n + 5 calls); from then on, at EVERY
         call of the rest of the forced rotation (pqmr appends, final .sfm through tmp + rename, segmeta.json line), its
         block must be searchable *)
      let len := m + n + 5 in
      if Nat.leb len k then
        (s, b) :: (if Nat.leb (len + p + 4) k then expect_from (S s) 0 r (k - (len + p + 4)) else [])
      else if Nat.ltb m k && negb (Nat.eqb b 0) then [(s, b)] else []
  end.
Definition expect_visible (h : list hstep) (k : nat) : list (nat * nat) := expect_from 0 0 h k.

(* completed flushes only *)
Fixpoint completed_from (s b : nat) (h : list hstep) (k : nat) : list (nat * nat) :=
  match h with
  | [] => []
  | Flush m n :: r =>
      let len := m + n + 5 in
      if Nat.leb len k then (s, b) :: completed_from s (S b) r (k - len) else []
  | Rotate :: r =>
      match b with
      | O => completed_from s b r k
      | S _ => if Nat.leb 4 k then completed_from (S s) 0 r (k - 4) else []
      end
  | PqWrites p :: r => if Nat.leb p k then completed_from s b r (k - p) else []
  | ForcedFlush m n p :: r =>
      let len := m + n + 5 in
      if Nat.leb len k then
        (s, b) :: (if Nat.leb (len + p + 4) k then completed_from (S s) 0 r (k - (len + p + 4)) else [])
      else []
  end.

(* A forced flush that leaves the running .sfm to the rotation ("the rotation writes the final .sfm anyway"): the
   protocol of a single shutdown flush without the three .sfm calls of the buffer flush.  Kept for the refuted theorem. *)
Definition forced_ops_skip_running_sfm (s b m n p : nat) : list fop :=
  repeat (ColWrite s) m ++ [BsuAppend s] ++ repeat (SstWrite s) n ++ [SstRename s] ++
  repeat (PqmrWrite s) p ++ rotate_ops sfm_ops s (S b).

(* (current segment, blocks flushed into it) after all calls of a history *)
Fixpoint pos_from (s b : nat) (h : list hstep) : nat * nat :=
  match h with
  | [] => (s, b)
  | Flush _ _ :: r => pos_from s (S b) r
  | Rotate :: r => match b with O => pos_from s b r | S _ => pos_from (S s) 0 r end
  | PqWrites _ :: r => pos_from s b r
  | ForcedFlush _ _ _ :: r => pos_from (S s) 0 r
  end.
Definition pos_after (h : list hstep) : nat * nat := pos_from 0 0 h.

Definition nsegs (h : list hstep) : nat := S (length h).

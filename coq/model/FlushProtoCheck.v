(* FlushProtoCheck.v — comparison of the flush-protocol model with observations:
   (tokens of the system calls completed before the crash, blocks searchable after restart). *)
From SigM Require Import Base FlushProto.
Open Scope nat_scope.

Definition pair_eqb (a b : nat * nat) : bool := Nat.eqb (fst a) (fst b) && Nat.eqb (snd a) (snd b).

Fixpoint insert_pair (x : nat * nat) (l : list (nat * nat)) : list (nat * nat) :=
  match l with
  | [] => [x]
  | y :: r => if Nat.ltb (fst x) (fst y) || (Nat.eqb (fst x) (fst y) && Nat.leb (snd x) (snd y)) then x :: l else y :: insert_pair x r
  end.
Definition sort_pairs (l : list (nat * nat)) : list (nat * nat) := fold_right insert_pair [] l.

Fixpoint max_seg (ops : list fop) : nat :=
  match ops with
  | [] => 0
  | o :: r =>
    let s := match o with
             | ColWrite s | BsuAppend s | SstWrite s | SstRename s | SfmTmpTrunc s | SfmTmpWrite s _
             | SfmRename s | SfmTruncate s | SfmWriteInPlace s _ | SfmUnlink s | SegmetaAppend s | PqmrWrite s => s end in
    Nat.max s (max_seg r)
  end.

(* one crash case: model's visible set after the observed call prefix = observed visible blocks *)
Definition check_crash_case (c : list fop * list (nat * nat)) : bool :=
  let '(ops, obs) := c in
  list_eqb pair_eqb (sort_pairs (visible (run fs0 ops) (S (max_seg ops)))) (sort_pairs obs).

Fixpoint bad_cases (cs : list (list fop * list (nat * nat))) (i : nat) : list nat :=
  match cs with
  | [] => []
  | c :: r => (if check_crash_case c then [] else [i]) ++ bad_cases r (S i)
  end.
Definition check_crash_cases cs := bad_cases cs 0.

Definition fop_eqb (a b : fop) : bool :=
  match a, b with
  | ColWrite s, ColWrite t | BsuAppend s, BsuAppend t | SstWrite s, SstWrite t | SstRename s, SstRename t
  | SfmTmpTrunc s, SfmTmpTrunc t | SfmRename s, SfmRename t | SfmTruncate s, SfmTruncate t
  | SegmetaAppend s, SegmetaAppend t | PqmrWrite s, PqmrWrite t | SfmUnlink s, SfmUnlink t => Nat.eqb s t
  | SfmTmpWrite s n, SfmTmpWrite t m | SfmWriteInPlace s n, SfmWriteInPlace t m => Nat.eqb s t && Nat.eqb n m
  | _, _ => false
  end.

(* protocol order: the complete observed token sequence of a run is exactly ops_of of the
   history (with the observed numbers of column / sst writes per flush) *)
Definition check_protocol (h : list hstep) (observed : list fop) : bool :=
  list_eqb fop_eqb (ops_of h) observed.

(* FlushSlots.v -- scratch buffers of the parallel block flush
   (pkg/segment/writer/segstore.go, SegStore.AppendWipToSegfile).

   The block flush walks the columns of the open block in Go map order.  For each column that has
   data in this block (cbufidx > 0) it increments currentParallelism, starts a goroutine and hands it
   the scratch buffer workBufForCompression[currentParallelism-1]; after each column (with or without
   data) it checks currentParallelism >= flushParallelism and, if so, waits for all goroutines and
   resets currentParallelism to 0.  flushParallelism = P = 2 x GOMAXPROCS buffers exist.  Each
   goroutine first compresses its column into its scratch buffer and then writes the buffer content
   to the file of the column.  A wrong variant picks the buffer as compBufIdx mod P where compBufIdx
   is a counter incremented for every column, including the skipped ones.

   Definitions only; the proofs are in proofs/FlushSlotsProofs.v. *)
From Coq Require Import List Arith Bool PeanoNat.
Import ListNotations.
From SigM Require Import Base.
Local Open Scope nat_scope.

(* slot policy: P, currentParallelism AFTER its increment, compBufIdx -> buffer index *)
Definition policy := nat -> nat -> nat -> nat.
Definition slot_code : policy := fun _ cur _ => cur - 1.
Definition slot_modidx : policy := fun P _ idx => idx mod P.

Record launch := mkLaunch { l_col : nat; l_wave : nat; l_slot : nat }.

(* cols: the columns in iteration order, true = has data in this block.  every = the counter compBufIdx
   counts every column (true) or only the launched ones (false: the code).  pos = position of the
   head column, cur = currentParallelism, wave = number of waits so far, idx = compBufIdx *)
Fixpoint walk (pol : policy) (every : bool) (P : nat) (cols : list bool) (pos cur wave idx : nat) : list launch :=
  match cols with
  | [] => []
  | has :: rest =>
      let cur1 := if has then S cur else cur in
      let out := if has then [mkLaunch pos wave (pol P cur1 idx)] else [] in
      let idx1 := if has || every then S idx else idx in
      if P <=? cur1 then out ++ walk pol every P rest (S pos) 0 (S wave) idx1
      else out ++ walk pol every P rest (S pos) cur1 wave idx1
  end.

Definition flush_launches (pol : policy) (every : bool) (P : nat) (cols : list bool) : list launch :=
  walk pol every P cols 0 0 0 0.

Definition wave_of (w : nat) (ls : list launch) : list launch := filter (fun l => l_wave l =? w) ls.

(* positions of the columns with data *)
Fixpoint data_cols (cols : list bool) (pos : nat) : list nat :=
  match cols with [] => [] | h :: t => (if h then [pos] else []) ++ data_cols t (S pos) end.

(* executable check used by generated case files: the launches of every wave use pairwise different
   buffers that exist *)
Fixpoint slots_distinctb (ls : list launch) : bool :=
  match ls with
  | [] => true
  | l :: t => negb (existsb (fun m => (l_wave m =? l_wave l) && (l_slot m =? l_slot l)) t) && slots_distinctb t
  end.
Definition flush_slots_ok (pol : policy) (every : bool) (P : nat) (cols : list bool) : bool :=
  let ls := flush_launches pol every P cols in
  slots_distinctb ls && forallb (fun l => l_slot l <? P) ls.

(* ---- what the goroutines of one wave do with the buffers ---- *)
(* column c compresses into buffer s / writes buffer s to its file *)
Inductive gstep := GW (c s : nat) | GF (c s : nat).
Definition gcol (g : gstep) := match g with GW c _ | GF c _ => c end.
Definition gslot (g : gstep) := match g with GW _ s | GF _ s => s end.

Section Exec.
  Variable enc : nat -> bytes.            (* the compressed block of column c *)
  (* buffers, (column, bytes written to its file) *)
  Definition xstate := ((nat -> bytes) * list (nat * bytes))%type.
  Definition exec_step (st : xstate) (g : gstep) : xstate :=
    match g with
    | GW c s => (fun k => if k =? s then enc c else fst st k, snd st)
    | GF c s => (fst st, snd st ++ [(c, fst st s)])
    end.
  Definition exec (b0 : nat -> bytes) (sch : list gstep) : list (nat * bytes) :=
    snd (fold_left exec_step sch (b0, [])).
End Exec.

(* a schedule of the goroutines ls: every step belongs to a launched goroutine and uses its buffer; a
   goroutine writes its file after it compressed *)
Definition wf_sched (ls : list launch) (sch : list gstep) : Prop :=
  (forall g, In g sch -> exists l, In l ls /\ gcol g = l_col l /\ gslot g = l_slot l) /\
  (forall pre c s post, sch = pre ++ GF c s :: post -> In (GW c s) pre).

(* ---- comparison with one observed flush (generated case files) ----
   obs: per column of the open block, in the order of the harness snapshot: (the column has data in this
   block, a block of the column was stored by this flush).  The model's walk with the code's policy must
   give every goroutine of a wave its own existing buffer, and must start exactly one goroutine for
   every column with data and none for the others: the stored columns are the columns with data. *)
Definition check_flush_cols (P : nat) (obs : list (bool * bool)) : bool :=
  let cols := map fst obs in
  flush_slots_ok slot_code false P cols &&
  list_eqb Nat.eqb (map l_col (flush_launches slot_code false P cols)) (data_cols (map snd obs) 0).

Fixpoint check_flush_list_from (k : nat) (l : list (nat * list (bool * bool))) : list nat :=
  match l with
  | [] => []
  | (P, obs) :: t => (if check_flush_cols P obs then [] else [k]) ++ check_flush_list_from (S k) t
  end.
Definition check_flush_list (l : list (nat * list (bool * bool))) : list nat := check_flush_list_from 0 l.

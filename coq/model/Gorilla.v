(* Gorilla.v — the metric series codec of pkg/segment/writer/metrics/compress
   (compressor.go / decompressor.go / bit_writer.go / bit_reader.go).
   Bit streams are lists of booleans (MSB first); a float64 is its 64-bit pattern. *)
From SigM Require Import Base Bits.
Open Scope Z_scope.

Definition wrap32s (z : Z) : Z := (z + 2147483648) mod 4294967296 - 2147483648.   (* int32(z) *)
Definition wrap32u (z : Z) : Z := z mod 4294967296.                                 (* uint32(z) *)

(* low k bits of a (possibly negative) integer, as writeBits(uint64(i), k) / writeInt64Bits do for k < 64 *)
Definition zbits (k : nat) (z : Z) : list bool := N2bits k (Z.to_N (z mod 2 ^ Z.of_nat k)).

Definition vbits (v : N) : word := N2bits 64 v.

(* ---------- compressor ---------- *)
Record est := {
  e_hdr : Z;       (* int32(header) *)
  e_t : Z;         (* int32; 0 = nothing compressed yet *)
  e_td : Z;        (* int32 tDelta *)
  e_l : nat;       (* leadingZeros (255 = none yet) *)
  e_tz : nat;      (* trailingZeros *)
  e_v : word       (* previous value *)
}.

Definition enc_init (header : N) : est :=
  {| e_hdr := wrap32s (Z.of_N header); e_t := 0; e_td := 0; e_l := 255; e_tz := 0; e_v := zeros 64 |}.

Definition enc_header (header : N) : list bool := N2bits 32 header.

(* compressTimestamp: delta-of-delta buckets *)
Definition enc_ts (s : est) (t : N) : list bool * Z * Z :=
  let ti := wrap32s (Z.of_N t) in
  let delta := wrap32s (ti - e_t s) in
  let dod := delta - e_td s in
  let bits :=
    if dod =? 0 then [false]
    else if (-63 <=? dod) && (dod <=? 64) then [true; false] ++ zbits 7 dod
    else if (-255 <=? dod) && (dod <=? 256) then [true; true; false] ++ zbits 9 dod
    else if (-2047 <=? dod) && (dod <=? 2048) then [true; true; true; false] ++ zbits 12 dod
    else [true; true; true; true] ++ zbits 32 dod in
  (bits, ti, delta).

(* compressValue, with the leading-zero count clamped to 31 (5-bit field) *)
Definition enc_val (l0 t0 : nat) (prev v : word) : list bool * nat * nat :=
  let x := xorw prev v in
  if iszero x then ([false], l0, t0)
  else
    let l := Nat.min (lz x) 31 in
    let t := tz x in
    if Nat.leb l0 l && Nat.leb t0 t then
      (true :: false :: slice l0 t0 x, l0, t0)
    else
      let sig := (64 - l - t)%nat in
      (true :: true :: N2bits 5 (N.of_nat l) ++ N2bits 6 (N.of_nat sig) ++ slice l t x, l, t).

Definition compress (s : est) (t : N) (v : N) : list bool * est :=
  if e_t s =? 0 then
    let ti := wrap32s (Z.of_N t) in
    let d0 := wrap32s (ti - e_hdr s) in
    let delta := if d0 <? 0 then wrap32s (e_hdr s - ti) else d0 in
    (zbits 14 delta ++ vbits v,
     {| e_hdr := e_hdr s; e_t := ti; e_td := delta; e_l := e_l s; e_tz := e_tz s; e_v := vbits v |})
  else
    let '(tb, ti, delta) := enc_ts s t in
    let '(vb, l, tz') := enc_val (e_l s) (e_tz s) (e_v s) (vbits v) in
    (tb ++ vb,
     {| e_hdr := e_hdr s; e_t := ti; e_td := delta; e_l := l; e_tz := tz'; e_v := vbits v |}).

Definition finish (s : est) : list bool :=
  if e_t s =? 0 then N2bits 14 16383 ++ zeros 64
  else [true; true; true; true] ++ N2bits 32 4294967295 ++ [false].

Fixpoint compress_all (s : est) (pts : list (N * N)) : list bool * est :=
  match pts with
  | [] => ([], s)
  | (t, v) :: r =>
    let '(b, s') := compress s t v in
    let '(bs, s'') := compress_all s' r in
    (b ++ bs, s'')
  end.

(* the bit stream of a series: header, points, finish marker (before byte padding) *)
Definition encode_bits (header : N) (pts : list (N * N)) : list bool :=
  let '(bs, s) := compress_all (enc_init header) pts in
  enc_header header ++ bs ++ finish s.

Definition encode (header : N) (pts : list (N * N)) : bytes := pack (encode_bits header pts).

(* ---------- decompressor ---------- *)
Record dst := {
  d_hdr : Z;      (* uint32 *)
  d_t : Z;        (* uint32; 0 = nothing read yet *)
  d_delta : Z;    (* uint32 *)
  d_l : nat;
  d_tz : nat;
  d_v : word
}.

Definition dec_init (header : N) : dst :=
  {| d_hdr := Z.of_N header; d_t := 0; d_delta := 0; d_l := 0; d_tz := 0; d_v := zeros 64 |}.

Inductive dres (A : Type) := DOk (a : A) | DEof | DErr.
Arguments DOk {A}. Arguments DEof {A}. Arguments DErr {A}.

(* dodTimestampBitN: up to four header bits *)
Definition dec_dod_width (bs : list bool) : option (nat * list bool) :=
  match bs with
  | false :: r => Some (0%nat, r)
  | true :: false :: r => Some (7%nat, r)
  | true :: true :: false :: r => Some (9%nat, r)
  | true :: true :: true :: false :: r => Some (12%nat, r)
  | true :: true :: true :: true :: r => Some (32%nat, r)
  | _ => None
  end.

Definition dec_ts (s : dst) (bs : list bool) : dres (Z * Z * list bool) :=   (* new t, new delta, rest *)
  match dec_dod_width bs with
  | None => DErr
  | Some (O, r) =>
      let t' := wrap32u (d_t s + d_delta s) in DOk (t', d_delta s, r)
  | Some (n, r) =>
    match btake n r with
    | None => DErr
    | Some (fb, r') =>
      let bits := Z.of_N (bits2N fb) in
      if Nat.eqb n 32 && (bits =? 4294967295) then DEof
      else
        let dod := if negb (Nat.eqb n 32) && (2 ^ (Z.of_nat n - 1) <? bits) then bits - 2 ^ Z.of_nat n else bits in
        let delta' := wrap32u (d_delta s + dod) in
        let t' := wrap32u (d_t s + delta') in
        DOk (t', delta', r')
    end
  end.

Definition dec_val (l0 t0 : nat) (prev : word) (bs : list bool) : option (word * nat * nat * list bool) :=
  match bs with
  | false :: r => Some (prev, l0, t0, r)
  | true :: false :: r =>
      match btake (64 - l0 - t0) r with
      | Some (mid, r') => Some (xorw prev (rebuild l0 t0 mid), l0, t0, r')
      | None => None
      end
  | true :: true :: r =>
      match btake 5 r with
      | Some (lb, r1) =>
        match btake 6 r1 with
        | Some (sb, r2) =>
          let l := N.to_nat (bits2N lb) in
          let sig0 := N.to_nat (bits2N sb) in
          let sig := if Nat.eqb sig0 0 then 64%nat else sig0 in
          let t := (64 - sig - l)%nat in
          match btake (64 - l - t) r2 with
          | Some (mid, r3) => Some (xorw prev (rebuild l t mid), l, t, r3)
          | None => None
          end
        | None => None
        end
      | None => None
      end
  | _ => None
  end.

Definition decompress (s : dst) (bs : list bool) : dres (N * N * dst * list bool) :=
  if d_t s =? 0 then
    match btake 14 bs with
    | None => DErr
    | Some (db, r) =>
      let delta := Z.of_N (bits2N db) in
      if delta =? 16383 then DEof else
      match btake 64 r with
      | None => DErr
      | Some (vb, r') =>
        let t := wrap32u (d_hdr s + delta) in
        DOk (Z.to_N t, bits2N vb,
             {| d_hdr := d_hdr s; d_t := t; d_delta := delta; d_l := d_l s; d_tz := d_tz s; d_v := vb |}, r')
      end
    end
  else
    match dec_ts s bs with
    | DErr => DErr
    | DEof => DEof
    | DOk (t', delta', r) =>
      match dec_val (d_l s) (d_tz s) (d_v s) r with
      | None => DErr
      | Some (v, l, tz', r') =>
        DOk (Z.to_N t', bits2N v,
             {| d_hdr := d_hdr s; d_t := t'; d_delta := delta'; d_l := l; d_tz := tz'; d_v := v |}, r')
      end
    end.

Fixpoint decompress_all (fuel : nat) (s : dst) (bs : list bool) : list (N * N) :=
  match fuel with
  | O => []
  | S f =>
    match decompress s bs with
    | DOk (t, v, s', r) => (t, v) :: decompress_all f s' r
    | _ => []
    end
  end.

(* NewDecompressIterator + Next until it returns false; every point consumes at least 2 bits *)
Definition decode_bits (bs : list bool) : list (N * N) :=
  match btake 32 bs with
  | None => []
  | Some (hb, r) => decompress_all (S (length r)) (dec_init (bits2N hb)) r
  end.

Definition decode (b : bytes) : list (N * N) := decode_bits (unpack b).

(* GorillaCheck.v — executable comparison of the Gorilla model with the real compressor. *)
From SigM Require Import Base Bits Gorilla.
Open Scope N_scope.

Definition pt_eqb (a b : N * N) : bool := (fst a =? fst b) && (snd a =? snd b).

(* a case: header, points, the bytes the real Compressor produced, the points the real
   DecompressIterator returned from those bytes.
   result code per case: 0 ok, 1 encoded bytes differ, 2 decoded points differ (model decode of real bytes vs observed) *)
Definition check_series (c : N * list (N * N) * bytes * list (N * N)) : N :=
  let '(hdr, pts, real_bytes, real_dec) := c in
  if negb (bytes_eqb (encode hdr pts) real_bytes) then 1
  else if negb (list_eqb pt_eqb (decode real_bytes) real_dec) then 2
  else 0.

Fixpoint bad_indices {A} (f : A -> N) (l : list A) (i : nat) : list nat :=
  match l with
  | [] => []
  | x :: r => (if f x =? 0 then [] else [i]) ++ bad_indices f r (S i)
  end.

Definition check_all (cs : list (N * list (N * N) * bytes * list (N * N))) : list nat :=
  bad_indices check_series cs 0.

(* Handover.v — the open -> rotated hand-over of log segments against concurrent queries,
   at the granularity at which the code publishes its steps.
   Writer (SegStore.checkAndRotateColFiles): segmeta.json entry; metadata.AddSegMetaToMetadata
   (segment enters the rotated list); CleanupUnrotatedSegment (segment leaves the unrotated info).
   Reader (getAllSegmentsInQuery / getAllSegmentsInAggs): snapshot of the unrotated list, then
   snapshot of the rotated list, then every request is resolved and read (an unrotated request
   whose segment has meanwhile left the unrotated info is read from the rotated files;
   the searcher keeps processedBlocks per segment key, the stats path drops a rotated request
   whose key is also in the unrotated snapshot — fix 08e84b8). *)
From SigM Require Import Base.
Open Scope nat_scope.

Inductive phase := Absent | Open | Both | Rotated.

Record seg := { ph : phase; nb : nat }.           (* nb = blocks flushed so far *)

Inductive rstage := RIdle | RSnapU | RSnapR | RDone.
Record rst := { stage : rstage; snap_u : list nat; snap_r : list nat; result : list (nat * nat) }.

Record sys := { segs : nat -> seg; rds : nat -> rst }.

Definition seg_init : seg := {| ph := Absent; nb := 0 |}.
Definition rst_init : rst := {| stage := RIdle; snap_u := []; snap_r := []; result := [] |}.
Definition sys_init : sys := {| segs := fun _ => seg_init; rds := fun _ => rst_init |}.

Inductive ev :=
| Create (s : nat)      (* a new segment appears in the unrotated info *)
| Flush (s : nat)       (* one more block of an open segment becomes searchable *)
| Noop                  (* steps that do not touch either list (e.g. the segmeta.json entry) *)
| AddRot (s : nat)      (* the segment enters the rotated metadata *)
| DelUnrot (s : nat)    (* the segment leaves the unrotated info *)
| SnapU (r : nat) | SnapR (r : nat) | Resolve (r : nat).

Definition upds (f : nat -> seg) (s : nat) (x : seg) : nat -> seg := fun t => if Nat.eqb t s then x else f t.
Definition updr (f : nat -> rst) (r : nat) (x : rst) : nat -> rst := fun t => if Nat.eqb t r then x else f t.

Definition in_unrot (x : seg) : bool := match ph x with Open | Both => true | _ => false end.
Definition in_rot (x : seg) : bool := match ph x with Both | Rotated => true | _ => false end.

Section WithUniverse.
  Variable nseg : nat.                      (* segment ids 0 .. nseg-1 *)
  Variable stats_dedup : bool.              (* false = the statistics path before fix 08e84b8 *)

  Definition blocks_of (f : nat -> seg) (s : nat) : list (nat * nat) := map (pair s) (seq 0 (nb (f s))).

  Fixpoint mem (s : nat) (l : list nat) : bool :=
    match l with [] => false | x :: r => Nat.eqb x s || mem s r end.

  (* record query: every request is read; blocks already processed for a segment key are skipped *)
  Definition resolve_records (f : nat -> seg) (su sr : list nat) : list (nat * nat) :=
    flat_map (blocks_of f) su ++ flat_map (blocks_of f) (filter (fun s => negb (mem s su)) sr).

  (* statistics query: every request contributes its whole segment once per request *)
  Definition resolve_stats (f : nat -> seg) (su sr : list nat) : list (nat * nat) :=
    flat_map (blocks_of f) su ++
    flat_map (blocks_of f) (if stats_dedup then filter (fun s => negb (mem s su)) sr else sr).

  Variable is_stats : nat -> bool.          (* which readers are statistics queries *)

  Definition step (y : sys) (e : ev) : sys :=
    match e with
    | Noop => y
    | Create s =>
        match ph (segs y s) with
        | Absent => {| segs := upds (segs y) s {| ph := Open; nb := nb (segs y s) |}; rds := rds y |}
        | _ => y
        end
    | Flush s =>
        match ph (segs y s) with
        | Open => {| segs := upds (segs y) s {| ph := Open; nb := S (nb (segs y s)) |}; rds := rds y |}
        | _ => y
        end
    | AddRot s =>
        match ph (segs y s) with
        | Open => {| segs := upds (segs y) s {| ph := Both; nb := nb (segs y s) |}; rds := rds y |}
        | _ => y
        end
    | DelUnrot s =>
        match ph (segs y s) with
        | Both => {| segs := upds (segs y) s {| ph := Rotated; nb := nb (segs y s) |}; rds := rds y |}
        | _ => y
        end
    | SnapU r =>
        match stage (rds y r) with
        | RIdle => {| segs := segs y;
                      rds := updr (rds y) r {| stage := RSnapU;
                                               snap_u := filter (fun s => in_unrot (segs y s)) (seq 0 nseg);
                                               snap_r := []; result := [] |} |}
        | _ => y
        end
    | SnapR r =>
        match stage (rds y r) with
        | RSnapU => {| segs := segs y;
                       rds := updr (rds y) r {| stage := RSnapR; snap_u := snap_u (rds y r);
                                                snap_r := filter (fun s => in_rot (segs y s)) (seq 0 nseg);
                                                result := [] |} |}
        | _ => y
        end
    | Resolve r =>
        match stage (rds y r) with
        | RSnapR => {| segs := segs y;
                       rds := updr (rds y) r {| stage := RDone; snap_u := snap_u (rds y r); snap_r := snap_r (rds y r);
                                                result := (if is_stats r then resolve_stats else resolve_records)
                                                            (segs y) (snap_u (rds y r)) (snap_r (rds y r)) |} |}
        | _ => y
        end
    end.

  Definition run (y : sys) (evs : list ev) : sys := fold_left step evs y.
End WithUniverse.

Fixpoint count_pair (x : nat * nat) (l : list (nat * nat)) : nat :=
  match l with
  | [] => 0
  | y :: r => (if Nat.eqb (fst x) (fst y) && Nat.eqb (snd x) (snd y) then 1 else 0) + count_pair x r
  end.

(* Handover.v — the open -> rotated hand-over of log segments against concurrent queries,
   at the granularity at which the code publishes its steps.
   Writer (SegStore.checkAndRotateColFiles): segmeta.json entry; metadata.AddSegMetaToMetadata
   (segment enters the rotated list); CleanupUnrotatedSegment (segment leaves the unrotated info).
   Reader (getAllSegmentsInQuery / getAllSegmentsInAggs): snapshot of the unrotated list, then
   snapshot of the rotated list, then every request is resolved and read (an unrotated request
   whose segment has meanwhile left the unrotated info is read from the rotated files;
   the searcher keeps processedBlocks per (segment key, block number) — modelled below as it is
   coded, batch by batch —, the stats path drops a rotated request whose key is also in the
   unrotated snapshot — fix 08e84b8; the group-by path skips the second request of a segment key). *)
From SigM Require Import Base.
Open Scope nat_scope.

Inductive phase := Absent | Open | Both | Rotated.

Record seg := { ph : phase; nb : nat }.           (* nb = blocks flushed so far *)

Inductive rstage := RIdle | RSnapU | RSnapR | RDone.
Record rst := { stage : rstage; snap_u : list nat; snap_r : list nat; result : list (nat * nat) }.

Record sys := { segs : nat -> seg; rds : nat -> rst }.

Definition seg_init : seg := {| ph := Absent; nb := 0 |}.
Definition rst_init : rst := {| stage := RIdle; snap_u := []; snap_r := []; result := [] |}.
Definition sys_init : sys := {| segs := fun _ => seg_init; rds := fun _ => rst_init |}.

Inductive ev :=
| Create (s : nat)      (* a new segment appears in the unrotated info *)
| Flush (s : nat)       (* one more block of an open segment becomes searchable *)
| Noop                  (* steps that do not touch either list (e.g. the segmeta.json entry) *)
| AddRot (s : nat)      (* the segment enters the rotated metadata *)
| DelUnrot (s : nat)    (* the segment leaves the unrotated info *)
| SnapU (r : nat) | SnapR (r : nat) | Resolve (r : nat).

Definition upds (f : nat -> seg) (s : nat) (x : seg) : nat -> seg := fun t => if Nat.eqb t s then x else f t.
Definition updr (f : nat -> rst) (r : nat) (x : rst) : nat -> rst := fun t => if Nat.eqb t r then x else f t.

Definition in_unrot (x : seg) : bool := match ph x with Open | Both => true | _ => false end.
Definition in_rot (x : seg) : bool := match ph x with Both | Rotated => true | _ => false end.

(* ------------------------------------------------------------------------------------------
   The searcher's block list (pkg/segment/query/processor/searcher.go).
   A record query turns EVERY request of its plan into blocks (segment key, block number): a segment
   that the planner saw in both lists contributes every block twice.  Searcher.getBlocks is called
   once or several times (requests that are only partly inside the current time cut-off are submitted
   again); each call passes its batch through getFilteredBlocks, which skips a block whose
   (segment key, block number) is in processedBlocks and MARKS a block at the moment it accepts it.
   The accepted blocks are sorted (time-ordered searcher) or left as they are (any-order searcher of
   a pipeline split into GOMAXPROCS parallel chains) and handed out in groups (fetchRRCs: in any-order
   mode the next GOMAXPROCS blocks per Fetch); the blocks of one group are put into the block map of a
   segment search request (getSSRs), i.e. inside ONE group a repeated block is searched once. *)
Definition blk := (nat * nat)%type.
Definition blk_eqb (x y : blk) : bool := Nat.eqb (fst x) (fst y) && Nat.eqb (snd x) (snd y).
Fixpoint bmem (x : blk) (l : list blk) : bool :=
  match l with [] => false | y :: r => blk_eqb x y || bmem x r end.

(* getFilteredBlocks as it is: one pass, a block is marked when it is accepted.
   Result: (processedBlocks afterwards, accepted blocks in order). *)
Fixpoint fb_mark (proc batch : list blk) : list blk * list blk :=
  match batch with
  | [] => (proc, [])
  | b :: r => if bmem b proc then fb_mark proc r
              else let '(p, out) := fb_mark (b :: proc) r in (p, b :: out)
  end.
(* the variant "filter against processedBlocks first, record the accepted blocks afterwards":
   blocks handed out by EARLIER batches are skipped, two copies inside one batch are both accepted *)
Definition fb_two_pass (proc batch : list blk) : list blk * list blk :=
  let out := filter (fun b => negb (bmem b proc)) batch in (out ++ proc, out).
Definition filter_batch (in_batch : bool) := if in_batch then fb_mark else fb_two_pass.

Fixpoint searcher_filter (in_batch : bool) (proc : list blk) (batches : list (list blk)) : list blk :=
  match batches with
  | [] => []
  | b :: r => let '(p, out) := filter_batch in_batch proc b in out ++ searcher_filter in_batch p r
  end.

(* one group of blocks read through the block map of a segment search request *)
Fixpoint bdedup (l : list blk) : list blk :=
  match l with [] => [] | x :: r => if bmem x r then bdedup r else x :: bdedup r end.

(* batching: how the raw block list reaches getBlocks (any list of batches);
   grouping: how the accepted blocks are cut into groups (after any re-ordering) *)
Definition searcher_answer (in_batch : bool) (batching grouping : list blk -> list (list blk)) (raw : list blk) : list blk :=
  flat_map bdedup (grouping (searcher_filter in_batch [] (batching raw))).

(* the any-order searcher: everything in one batch, groups of P = GOMAXPROCS blocks *)
Definition one_batch (l : list blk) : list (list blk) := [l].
Fixpoint chunks_fuel (fuel P : nat) (l : list blk) : list (list blk) :=
  match fuel with
  | 0 => []
  | S k => match l with [] => [] | _ => firstn P l :: chunks_fuel k P (skipn P l) end
  end.
Definition chunks (P : nat) (l : list blk) : list (list blk) := chunks_fuel (length l) (Nat.max 1 P) l.

(* the three routes a query takes through the searcher *)
Inductive qkind :=
| QRecords    (* raw-record search (`*`, and everything in front of a later stats command) *)
| QStats      (* first command is a statistics command without by-clause: segment statistics *)
| QGroupBy.   (* first command is a statistics command with a by-clause: group-by buckets *)

Section WithUniverse.
  Variable nseg : nat.                      (* segment ids 0 .. nseg-1 *)
  Variable stats_dedup : bool.              (* false = the statistics path before fix 08e84b8 *)
  Variable dedup_in_batch : bool.           (* false = getFilteredBlocks recording the batch after its loop *)
  Variable groupby_protected : bool.        (* false = the group-by route before its repair *)
  Variable batching grouping : list blk -> list (list blk).

  Definition blocks_of (f : nat -> seg) (s : nat) : list (nat * nat) := map (pair s) (seq 0 (nb (f s))).

  Fixpoint mem (s : nat) (l : list nat) : bool :=
    match l with [] => false | x :: r => Nat.eqb x s || mem s r end.

  (* SPECIFICATION of the record query (what the searcher has to achieve): every request is read;
     blocks already processed for a segment key are skipped *)
  Definition resolve_records_spec (f : nat -> seg) (su sr : list nat) : list (nat * nat) :=
    flat_map (blocks_of f) su ++ flat_map (blocks_of f) (filter (fun s => negb (mem s su)) sr).

  (* record query as the searcher runs it: the plan lists the blocks of every unrotated request and of
     every rotated request (a segment in both lists twice); the searcher de-duplicates *)
  Definition raw_blocks (f : nat -> seg) (su sr : list nat) : list blk :=
    flat_map (blocks_of f) su ++ flat_map (blocks_of f) sr.
  Definition resolve_records (f : nat -> seg) (su sr : list nat) : list (nat * nat) :=
    searcher_answer dedup_in_batch batching grouping (raw_blocks f su sr).

  (* statistics query: every request contributes its whole segment once per request *)
  Definition resolve_stats (f : nat -> seg) (su sr : list nat) : list (nat * nat) :=
    flat_map (blocks_of f) su ++
    flat_map (blocks_of f) (if stats_dedup then filter (fun s => negb (mem s su)) sr else sr).

  (* group-by statistics as a first command (applyFopAllRequests walks the requests one by one).
     As repaired: the first request of a segment key is read where the segment is AT THAT MOMENT (an
     unrotated request re-tests IsSegKeyUnrotated and falls back to the rotated copy, as GetSSRsFromQSR /
     applyAggOpOnSegments do), every further request of the same key is skipped (searchedSegKeys).
     (The requests are sorted by time before they are walked; which keys are searched does not depend
     on the order.)
     Before the repair (groupby_protected = false): an unrotated request was looked up in the unrotated
     info without re-test (a segment that had left it yielded nothing), a rotated request was always
     read, and a segment in both snapshots was not de-duplicated. *)
  Fixpoint keys_once (seen l : list nat) : list nat :=
    match l with
    | [] => []
    | s :: r => if mem s seen then keys_once seen r else s :: keys_once (s :: seen) r
    end.
  Definition resolve_groupby (f : nat -> seg) (su sr : list nat) : list (nat * nat) :=
    if groupby_protected then flat_map (blocks_of f) (keys_once [] (su ++ sr))
    else flat_map (blocks_of f) (filter (fun s => in_unrot (f s)) su) ++ flat_map (blocks_of f) sr.

  Variable kind_of : nat -> qkind.          (* which route reader r takes *)
  Definition resolve_kind (k : qkind) :=
    match k with QRecords => resolve_records | QStats => resolve_stats | QGroupBy => resolve_groupby end.

  Definition step (y : sys) (e : ev) : sys :=
    match e with
    | Noop => y
    | Create s =>
        match ph (segs y s) with
        | Absent => {| segs := upds (segs y) s {| ph := Open; nb := nb (segs y s) |}; rds := rds y |}
        | _ => y
        end
    | Flush s =>
        match ph (segs y s) with
        | Open => {| segs := upds (segs y) s {| ph := Open; nb := S (nb (segs y s)) |}; rds := rds y |}
        | _ => y
        end
    | AddRot s =>
        match ph (segs y s) with
        | Open => {| segs := upds (segs y) s {| ph := Both; nb := nb (segs y s) |}; rds := rds y |}
        | _ => y
        end
    | DelUnrot s =>
        match ph (segs y s) with
        | Both => {| segs := upds (segs y) s {| ph := Rotated; nb := nb (segs y s) |}; rds := rds y |}
        | _ => y
        end
    | SnapU r =>
        match stage (rds y r) with
        | RIdle => {| segs := segs y;
                      rds := updr (rds y) r {| stage := RSnapU;
                                               snap_u := filter (fun s => in_unrot (segs y s)) (seq 0 nseg);
                                               snap_r := []; result := [] |} |}
        | _ => y
        end
    | SnapR r =>
        match stage (rds y r) with
        | RSnapU => {| segs := segs y;
                       rds := updr (rds y) r {| stage := RSnapR; snap_u := snap_u (rds y r);
                                                snap_r := filter (fun s => in_rot (segs y s)) (seq 0 nseg);
                                                result := [] |} |}
        | _ => y
        end
    | Resolve r =>
        match stage (rds y r) with
        | RSnapR => {| segs := segs y;
                       rds := updr (rds y) r {| stage := RDone; snap_u := snap_u (rds y r); snap_r := snap_r (rds y r);
                                                result := resolve_kind (kind_of r)
                                                            (segs y) (snap_u (rds y r)) (snap_r (rds y r)) |} |}
        | _ => y
        end
    end.

  Definition run (y : sys) (evs : list ev) : sys := fold_left step evs y.
End WithUniverse.

Fixpoint count_pair (x : nat * nat) (l : list (nat * nat)) : nat :=
  match l with
  | [] => 0
  | y :: r => (if Nat.eqb (fst x) (fst y) && Nat.eqb (snd x) (snd y) then 1 else 0) + count_pair x r
  end.

(* ------------------------------------------------------------------------------------------
   Lock discipline of the hand-over lists.
   The steps above are atomic because the code performs each of them inside a critical section
   of a reader/writer lock (globalMetadata.updateLock for the rotated list, UnrotatedInfoLock for
   the unrotated info).  What follows models ONE such lock as Go's sync.RWMutex behaves:
   writer-preferring — Lock() first announces the writer (from then on every new RLock() waits),
   then waits for the readers that are already inside to leave.  A goroutine is a program of lock
   actions; the programs of the real functions are read from the Go source on every run
   (harness/cmd/c11/locks.go) and judged by [nonreentrant] below. *)
Inductive lact := RAcq | RRel | WAcq | WRel.
Inductive lmode := LFree | LHeldR | LHeldW.

(* a program never acquires the lock while it holds it (in either mode), never releases what it
   does not hold, and ends with the lock released *)
Fixpoint lscan (m : lmode) (p : list lact) : bool :=
  match p with
  | [] => match m with LFree => true | _ => false end
  | a :: r =>
      match m, a with
      | LFree, RAcq => lscan LHeldR r
      | LHeldR, RRel => lscan LFree r
      | LFree, WAcq => lscan LHeldW r
      | LHeldW, WRel => lscan LFree r
      | _, _ => false
      end
  end.
Definition nonreentrant (p : list lact) : bool := lscan LFree p.

(* one goroutine: what it still has to do, how many read holds it has, whether it holds the
   write lock, whether it has announced Lock() and waits for the readers to drain *)
Record thr := { tprog : list lact; hr : nat; hw : bool; pend : bool }.
Definition thr_init (p : list lact) : thr := {| tprog := p; hr := 0; hw := false; pend := false |}.
Definition tfinished (t : thr) : bool := match tprog t with [] => true | _ => false end.

Definition wbusy (ts : list thr) : bool := existsb (fun t => hw t || pend t) ts.
Fixpoint readers (ts : list thr) : nat := match ts with [] => 0 | t :: r => hr t + readers r end.

(* can goroutine t take its next action in the state ts (t is one of ts)? *)
Definition enabled (ts : list thr) (t : thr) : bool :=
  match tprog t with
  | [] => false
  | RAcq :: _ => negb (wbusy ts)                       (* RLock waits while a writer holds OR waits *)
  | RRel :: _ => Nat.ltb 0 (hr t)
  | WAcq :: _ => if pend t then Nat.eqb (readers ts) 0 (* announced: waits for the readers inside *)
                 else negb (wbusy ts)                  (* writers exclude each other (w mutex) *)
  | WRel :: _ => hw t
  end.

Definition fire (t : thr) : thr :=
  match tprog t with
  | [] => t
  | RAcq :: p => {| tprog := p; hr := S (hr t); hw := hw t; pend := pend t |}
  | RRel :: p => {| tprog := p; hr := pred (hr t); hw := hw t; pend := pend t |}
  | WAcq :: p => if pend t then {| tprog := p; hr := hr t; hw := true; pend := false |}
                 else {| tprog := tprog t; hr := hr t; hw := hw t; pend := true |}
  | WRel :: p => {| tprog := p; hr := hr t; hw := false; pend := pend t |}
  end.

(* a schedule names the goroutine that moves next; naming one that cannot move changes nothing *)
Definition lstep (ts : list thr) (i : nat) : list thr :=
  match nth_error ts i with
  | Some t => if enabled ts t then set_nth i (fire t) ts else ts
  | None => ts
  end.
Definition lrun (ts : list thr) (sched : list nat) : list thr := fold_left lstep sched ts.

(* every goroutine runs any sequence of calls; a call is the lock program of one function *)
Definition linit (threads : list (list (list lact))) : list thr :=
  map (fun calls => thr_init (concat calls)) threads.

Definition all_finished (ts : list thr) : bool := forallb tfinished ts.
Definition stuck (ts : list thr) : bool := negb (all_finished ts) && negb (existsb (enabled ts) ts).

(* counting goroutines / holds (used to state mutual exclusion) *)
Fixpoint sumf (f : thr -> nat) (ts : list thr) : nat := match ts with [] => 0 | t :: r => f t + sumf f r end.
Definition busyn (t : thr) : nat := if hw t || pend t then 1 else 0.
Definition hwn (t : thr) : nat := if hw t then 1 else 0.
Definition writers_inside (ts : list thr) : nat := sumf hwn ts.

(* HandoverCheck.v — the forced interleavings of one rotation against one query, as run on the
   real code by harness/cmd/c11, evaluated on the hand-over model. *)
From SigM Require Import Base Handover.
Open Scope nat_scope.

Inductive tid := W | R.

(* the i-th step of the rotation / of the query *)
Definition wstep (i : nat) : ev := match i with 0 => Noop | 1 => AddRot 0 | 2 => DelUnrot 0 | _ => Noop end.
Definition rstep (i : nat) : ev := match i with 0 => SnapU 0 | 1 => SnapR 0 | _ => Resolve 0 end.

Fixpoint sched_events (s : list tid) (wi ri : nat) : list ev :=
  match s with
  | [] => []
  | W :: r => wstep wi :: sched_events r (S wi) ri
  | R :: r => rstep ri :: sched_events r wi (S ri)
  end.

(* one segment with one flushed block, then the schedule; how often is the block in the answer? *)
Definition sched_answer (stats : bool) (s : list tid) : nat :=
  let y := run 1 true (fun _ => stats) sys_init ([Create 0; Flush 0] ++ sched_events s 0 0) in
  count_pair (0, 0) (result (rds y 0)).

(* cases: (schedule, observed multiplicity of the segment's events in the answer); the first
   half of the list are record queries, the second half statistics queries *)
Fixpoint bad_sched (stats : bool) (cs : list (list tid * nat)) (i : nat) : list nat :=
  match cs with
  | [] => []
  | (s, obs) :: r => (if Nat.eqb (sched_answer stats s) obs then [] else [i]) ++ bad_sched stats r (S i)
  end.
Definition check_sched_cases (cs : list (list tid * nat)) : list nat :=
  let h := Nat.div (length cs) 2 in
  bad_sched false (firstn h cs) 0 ++ bad_sched true (skipn h cs) h.

(* ---- the lock programs read from the Go source (harness/cmd/c11/locks.go) ----
   One case = one function that takes a process-wide lock, with its callees expanded: a list of
   (action, lock number).  The model's verdict for a case: for every lock, the actions on that
   lock form a non-reentrant program (the premise of C11_lock_progress / C11_lock_completion).
   A case on which the verdict is "reentrant" is reported by its index. *)
Definition lproj (l : nat) (p : list (lact * nat)) : list lact :=
  map fst (filter (fun x => Nat.eqb (snd x) l) p).
Definition lock_prog_ok (nlocks : nat) (p : list (lact * nat)) : bool :=
  forallb (fun l => nonreentrant (lproj l p)) (seq 0 nlocks).
Fixpoint bad_lock_progs (nlocks : nat) (ps : list (list (lact * nat))) (i : nat) : list nat :=
  match ps with
  | [] => []
  | p :: r => (if lock_prog_ok nlocks p then [] else [i]) ++ bad_lock_progs nlocks r (S i)
  end.
Definition check_lock_progs (nlocks : nat) (ps : list (list (lact * nat))) : list nat :=
  bad_lock_progs nlocks ps 0.

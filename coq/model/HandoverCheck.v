(* HandoverCheck.v — the forced interleavings of one rotation against one query, as run on the
   real code by harness/cmd/c11, evaluated on the hand-over model. *)
From SigM Require Import Base Handover.
Open Scope nat_scope.

Inductive tid := W | R.

(* the i-th step of the rotation / of the query *)
Definition wstep (i : nat) : ev := match i with 0 => Noop | 1 => AddRot 0 | 2 => DelUnrot 0 | _ => Noop end.
Definition rstep (i : nat) : ev := match i with 0 => SnapU 0 | 1 => SnapR 0 | _ => Resolve 0 end.

Fixpoint sched_events (s : list tid) (wi ri : nat) : list ev :=
  match s with
  | [] => []
  | W :: r => wstep wi :: sched_events r (S wi) ri
  | R :: r => rstep ri :: sched_events r wi (S ri)
  end.

(* One segment with B flushed blocks, then the schedule; the query takes route k; record queries run
   the searcher as coded (getFilteredBlocks marking inside its loop) with everything in one batch and
   groups of P blocks.  How often is block b in the answer? *)
Definition qkind_of (k : nat) : qkind := match k with 1 => QStats | 3 => QGroupBy | _ => QRecords end.

Definition sched_result (k B P : nat) (s : list tid) : list (nat * nat) :=
  let y := run 1 true true true one_batch (chunks P) (fun _ => qkind_of k) sys_init
               (Create 0 :: repeat (Flush 0) B ++ sched_events s 0 0) in
  result (rds y 0).

Definition sched_answer (k B P : nat) (s : list tid) : list nat :=
  let res := sched_result k B P s in map (fun b => count_pair (0, b) res) (seq 0 B).

(* one case: (schedule, (blocks B, events per block, GOMAXPROCS P), (route, answer has only a total),
   observation) — observation = per block the multiplicity of its events in the answer, or [number of
   events in the answer] when the query only returns a total.
   Routes: 0 time-ordered record search, 1 segment statistics, 2 any-order record search in front of a
   later stats command, 3 group-by statistics as first command. *)
Definition sched_case := (list tid * (nat * nat * nat) * (nat * bool) * list nat)%type.

Definition sched_case_ok (c : sched_case) : bool :=
  let '(s, (B, per, P), (k, total), obs) := c in
  let m := sched_answer k B P s in
  if total then list_eqb Nat.eqb obs [per * fold_right Nat.add 0 m]
  else list_eqb Nat.eqb obs m.

Fixpoint bad_sched (cs : list sched_case) (i : nat) : list nat :=
  match cs with
  | [] => []
  | c :: r => (if sched_case_ok c then [] else [i]) ++ bad_sched r (S i)
  end.
Definition check_sched_cases (cs : list sched_case) : list nat := bad_sched cs 0.

(* ---- the lock programs read from the Go source (harness/cmd/c11/locks.go) ----
   One case = one function that takes a process-wide lock, with its callees expanded: a list of
   (action, lock number).  The model's verdict for a case: for every lock, the actions on that
   lock form a non-reentrant program (the premise of C11_lock_progress / C11_lock_completion).
   A case on which the verdict is "reentrant" is reported by its index. *)
Definition lproj (l : nat) (p : list (lact * nat)) : list lact :=
  map fst (filter (fun x => Nat.eqb (snd x) l) p).
Definition lock_prog_ok (nlocks : nat) (p : list (lact * nat)) : bool :=
  forallb (fun l => nonreentrant (lproj l p)) (seq 0 nlocks).
Fixpoint bad_lock_progs (nlocks : nat) (ps : list (list (lact * nat))) (i : nat) : list nat :=
  match ps with
  | [] => []
  | p :: r => (if lock_prog_ok nlocks p then [] else [i]) ++ bad_lock_progs nlocks r (S i)
  end.
Definition check_lock_progs (nlocks : nat) (ps : list (list (lact * nat))) : list nat :=
  bad_lock_progs nlocks ps 0.

(* KvStore.v — the keyed stores of siglens as state machines.
   Definitions only; proofs are in SigP.KvStoreProofs.

   (1) cached store: "in-memory map per tenant, mirrored to one JSON file per tenant,
       (re)loaded from the file on first use after a start"
       — pkg/usersavedqueries/usqueries.go (localUSQInfo + usqinfo[-<org>].bin);
   (2) direct store: every operation reads the tenant's file, changes it, writes it back
       — pkg/dashboards (folder_structure[-<org>].json + details/<id>.json),
         pkg/lookups (one file per lookup), forward alias files of pkg/virtualtable;
   (3) alias store: forward files index -> alias set plus the in-memory reverse map
       alias -> index set of pkg/virtualtable/virtualtable.go (AddAliases, RemoveAliases,
       initializeAliasToIndexMap, FlushAliasMapToFile) as of commit a69a617; the earlier restart
       behaviour is kept as astep_prefix.
   Keys and values are byte strings (values: canonical JSON text), tenants are numbers. *)
From SigM Require Import Base.
Open Scope N_scope.

(* ---- association lists (first match wins; put replaces in place) ---- *)
Section AMap.
  Context {K V : Type} (eqb : K -> K -> bool).

  Fixpoint a_get (k : K) (m : list (K * V)) : option V :=
    match m with
    | [] => None
    | (k', v) :: r => if eqb k' k then Some v else a_get k r
    end.

  Fixpoint a_put (k : K) (v : V) (m : list (K * V)) : list (K * V) :=
    match m with
    | [] => [(k, v)]
    | (k', v') :: r => if eqb k' k then (k, v) :: r else (k', v') :: a_put k v r
    end.

  Fixpoint a_del (k : K) (m : list (K * V)) : list (K * V) :=
    match m with
    | [] => []
    | (k', v') :: r => if eqb k' k then a_del k r else (k', v') :: a_del k r
    end.
End AMap.

Definition key := list N.
Definition value := list N.
Definition tenant := N.
Definition kvmap := list (key * value).

Definition kv_get := @a_get key value bytes_eqb.
Definition kv_put := @a_put key value bytes_eqb.
Definition kv_del := @a_del key value bytes_eqb.

Definition t_get {A} := @a_get tenant A N.eqb.
Definition t_put {A} := @a_put tenant A N.eqb.
Definition t_del {A} := @a_del tenant A N.eqb.

(* ---- (1) cached store ---- *)
Record store := mkStore {
  mem : list (tenant * kvmap);    (* localUSQInfo: tenant -> name -> value *)
  disk : list (tenant * kvmap)    (* one file per tenant; absent = no file *)
}.

Definition empty_store : store := mkStore [] [].

Inductive op :=
| Put (t : tenant) (k : key) (v : value)
| Del (t : tenant) (k : key)
| DelAll (t : tenant)
| Get (t : tenant) (k : key)
| ListAll (t : tenant)
| Search (t : tenant) (pat : key)
| Restart.

Inductive out :=
| OAck (ok : bool)
| OVal (v : option value)
| OList (l : kvmap).

(* readSavedQueries: if the tenant's file exists it replaces the in-memory map
   (the code skips the read when the file is not newer than the last read; the file never
   differs from memory then, see KvStoreProofs.inv) *)
Definition load (t : tenant) (s : store) : store :=
  match t_get t (disk s) with
  | Some m => mkStore (t_put t m (mem s)) (disk s)
  | None => s
  end.

Definition cur (t : tenant) (s : store) : kvmap :=
  match t_get t (mem s) with Some m => m | None => [] end.

(* substring test used by getUsqOne: strings.Index(k, qname) != -1 *)
Fixpoint is_prefix (p l : list N) : bool :=
  match p, l with
  | [], _ => true
  | _ :: _, [] => false
  | a :: p', b :: l' => N.eqb a b && is_prefix p' l'
  end.
Fixpoint contains (p l : list N) : bool :=
  is_prefix p l || match l with [] => false | _ :: l' => contains p l' end.

Definition step (s : store) (o : op) : store * out :=
  match o with
  | Put t k v =>                                  (* writeUsq *)
    let s1 := load t s in
    let m := kv_put k v (cur t s1) in
    (mkStore (t_put t m (mem s1)) (t_put t m (disk s1)), OAck true)
  | Del t k =>                                    (* deleteUsq *)
    let s1 := load t s in
    match t_get t (mem s1) with
    | None => (s1, OAck false)
    | Some m =>
      match kv_get k m with
      | None => (s1, OAck false)
      | Some _ =>
        let m' := kv_del k m in
        (mkStore (t_put t m' (mem s1)) (t_put t m' (disk s1)), OAck true)
      end
    end
  | DelAll t =>                                   (* deleteAllUsq: drop the map, remove the file *)
    let s1 := load t s in
    match t_get t (mem s1) with
    | None => (s1, OAck true)
    | Some _ => (mkStore (t_del t (mem s1)) (t_del t (disk s1)), OAck true)
    end
  | Get t k => let s1 := load t s in (s1, OVal (kv_get k (cur t s1)))
  | ListAll t => let s1 := load t s in (s1, OList (cur t s1))
  | Search t p => let s1 := load t s in (s1, OList (filter (fun kv => contains p (fst kv)) (cur t s1)))
  | Restart => (mkStore [] (disk s), OAck true)   (* process restart: memory is gone, files stay *)
  end.

Fixpoint run (ops : list op) (s : store) : store :=
  match ops with [] => s | o :: r => run r (fst (step s o)) end.

Fixpoint run_out (ops : list op) (s : store) : list out :=
  match ops with [] => [] | o :: r => snd (step s o) :: run_out r (fst (step s o)) end.

(* what a read of tenant t, key k returns in state s *)
Definition abs (s : store) (t : tenant) (k : key) : option value :=
  kv_get k (match t_get t (disk s) with Some m => m | None => cur t s end).

(* ---- (2) direct store: the file is the state ---- *)
Definition dstore := list (tenant * kvmap).

Definition dcur (t : tenant) (s : dstore) : kvmap :=
  match t_get t s with Some m => m | None => [] end.

Definition dstep (s : dstore) (o : op) : dstore * out :=
  match o with
  | Put t k v => (t_put t (kv_put k v (dcur t s)) s, OAck true)
  | Del t k =>
    match kv_get k (dcur t s) with
    | None => (s, OAck false)
    | Some _ => (t_put t (kv_del k (dcur t s)) s, OAck true)
    end
  | DelAll t => (t_del t s, OAck true)
  | Get t k => (s, OVal (kv_get k (dcur t s)))
  | ListAll t => (s, OList (dcur t s))
  | Search t p => (s, OList (filter (fun kv => contains p (fst kv)) (dcur t s)))
  | Restart => (s, OAck true)
  end.

Fixpoint drun (ops : list op) (s : dstore) : dstore :=
  match ops with [] => s | o :: r => drun r (fst (dstep s o)) end.

Fixpoint drun_out (ops : list op) (s : dstore) : list out :=
  match ops with [] => [] | o :: r => snd (dstep s o) :: drun_out r (fst (dstep s o)) end.

Definition dabs (s : dstore) (t : tenant) (k : key) : option value := kv_get k (dcur t s).

(* ---- specification: a map tenant -> key -> value ---- *)
Definition spec := tenant -> key -> option value.

Definition spec_step (f : spec) (o : op) : spec :=
  match o with
  | Put t k v => fun t' k' => if N.eqb t t' && bytes_eqb k k' then Some v else f t' k'
  | Del t k => fun t' k' => if N.eqb t t' && bytes_eqb k k' then None else f t' k'
  | DelAll t => fun t' k' => if N.eqb t t' then None else f t' k'
  | _ => f
  end.

Fixpoint spec_run (ops : list op) (f : spec) : spec :=
  match ops with [] => f | o :: r => spec_run r (spec_step f o) end.

Definition op_tenant (o : op) : option tenant :=
  match o with
  | Put t _ _ | Del t _ | DelAll t | Get t _ | ListAll t | Search t _ => Some t
  | Restart => None
  end.

(* does the operation write key k of tenant t? *)
Definition op_writes (t : tenant) (k : key) (o : op) : bool :=
  match o with
  | Put t' k' _ | Del t' k' => N.eqb t' t && bytes_eqb k' k
  | DelAll t' => N.eqb t' t
  | _ => false
  end.

(* ---- (3) alias store ---- *)
Definition nset := list (list N).                 (* set of names, no duplicates *)
Definition ns_mem (x : list N) (s : nset) : bool := existsb (bytes_eqb x) s.
Definition ns_add (x : list N) (s : nset) : nset := if ns_mem x s then s else s ++ [x].
Definition ns_del (x : list N) (s : nset) : nset := filter (fun y => negb (bytes_eqb x y)) s.

Definition nmap := list (list N * nset).
Definition nm_get (k : list N) (m : nmap) : nset :=
  match @a_get (list N) nset bytes_eqb k m with Some s => s | None => [] end.
Definition nm_put := @a_put (list N) nset bytes_eqb.
Definition nm_del := @a_del (list N) nset bytes_eqb.

Record astore := mkAStore {
  afiles : list (tenant * nmap);   (* aliases/[<org>/]<index>.json : index -> alias set *)
  arev : list (tenant * nmap)      (* aliasToIndexNames: alias -> index set (memory only) *)
}.
Definition empty_astore : astore := mkAStore [] [].

Definition t_nm (t : tenant) (m : list (tenant * nmap)) : nmap :=
  match t_get t m with Some x => x | None => [] end.

Inductive aop :=
| AAdd (t : tenant) (idx al : list N)      (* AddAliases(index, [alias], org) *)
| ARemove (t : tenant) (idx al : list N)   (* RemoveAliases(index, [alias], org) *)
| AGetIndex (t : tenant) (idx : list N)    (* GetAliases(index, org): forward read *)
| AIsAlias (t : tenant) (al : list N)      (* IsAlias(alias, org): reverse read *)
| ACrashRestart                            (* process killed, InitVTable *)
| AShutdownRestart.                        (* ShutdownSiglensServer (FlushAliasMapToFile), InitVTable *)

Inductive aout :=
| AAck (ok : bool)
| ASet (s : nset).      (* forward: the alias set; reverse: the set of indexes the answer is taken from *)

(* the alias files of tenant 0 lie in aliases/ itself (created by InitVTable); those of another
   tenant in aliases/<org>/, which siglens never creates: writeAliasFile fails for a tenant whose
   directory the deployment has not provided.  WHICH tenants have a directory is a fact of the
   environment: every definition below takes it as the (implicit) argument [D : Dirs], and every
   theorem about the alias store holds for ALL D (D = [] is the single-tenant deployment, D = [5; 7]
   one where the tenants 0, 5 and 7 can own aliases). *)
Class Dirs := alias_dirs : list tenant.
Definition adir_exists {D : Dirs} (t : tenant) : bool := N.eqb t 0 || existsb (N.eqb t) alias_dirs.

Definition rev_add_all (idx : list N) (als : nset) (r : nmap) : nmap :=
  fold_left (fun r al => nm_put al (ns_add idx (nm_get al r)) r) als r.

(* initializeAliasToIndexMap: every <index>.json of every tenant is loaded (sub-directories for
   tenants <> 0, the files lying in aliases/ itself for tenant 0): for each file name the aliases
   are read with GetAliases(index, org) and registered in memory *)
Definition rebuild_tenant (fm : nmap) : nmap :=
  fold_left (fun r ia => rev_add_all (fst ia) (nm_get (fst ia) fm) r) fm [].

Definition rebuild_rev (files : list (tenant * nmap)) : list (tenant * nmap) :=
  fold_left (fun acc tf => t_put (fst tf) (rebuild_tenant (t_nm (fst tf) files)) acc) files [].

(* FlushAliasMapToFile: the in-memory map alias -> indexes is inverted and the file <index>.json of
   every index that has an alias in memory is rewritten with its aliases *)
Definition inv_set (idx : list N) (rm : nmap) : nset :=
  filter (fun a => ns_mem idx (nm_get a rm)) (map fst rm).

Definition flush_targets (rm : nmap) : list (list N) := flat_map snd rm.

Definition flush_tenant (rm fm : nmap) : nmap :=
  fold_left (fun fm idx => nm_put idx (inv_set idx rm) fm) (flush_targets rm) fm.

Definition flush_rev {D : Dirs} (s : astore) : list (tenant * nmap) :=
  fold_left (fun files tr =>
    let t := fst tr in
    if adir_exists t then t_put t (flush_tenant (t_nm t (arev s)) (t_nm t files)) files
    else files)
    (arev s) (afiles s).

(* PRE-FIX (documentation): only sub-directories of aliases/ were scanned at start, i.e. tenants
   <> 0; and the shutdown flush wrote one file per ALIAS holding the INDEX names *)
Definition rebuild_rev_prefix (files : list (tenant * nmap)) : list (tenant * nmap) :=
  fold_left (fun acc tf =>
    let '(t, fm) := tf in
    if N.eqb t 0 then acc else
    t_put t (fold_left (fun r ia => rev_add_all (fst ia) (snd ia) r) fm (t_nm t acc)) acc)
    files [].

Definition flush_rev_prefix {D : Dirs} (s : astore) : list (tenant * nmap) :=
  fold_left (fun files tr =>
    let '(t, rm) := tr in
    if adir_exists t then
      t_put t (fold_left (fun fm ai => nm_put (fst ai) (snd ai) fm) rm (t_nm t files)) files
    else files)
    (arev s) (afiles s).

Definition astep {D : Dirs} (s : astore) (o : aop) : astore * aout :=
  match o with
  | AAdd t idx al =>
    let cur := ns_add al (nm_get idx (t_nm t (afiles s))) in
    if adir_exists t then
      (mkAStore (t_put t (nm_put idx cur (t_nm t (afiles s))) (afiles s))
                (t_put t (rev_add_all idx cur (t_nm t (arev s))) (arev s)), AAck true)
    else (s, AAck false)
  | ARemove t idx al =>
    let fm := t_nm t (afiles s) in
    let cur := ns_del al (nm_get idx fm) in
    let rm := t_nm t (arev s) in
    (* delete(aliasToIndexNames[org][alias], index): only if the alias has an entry *)
    let rev' := match @a_get (list N) nset bytes_eqb al rm with
                | Some ixs => t_put t (nm_put al (ns_del idx ixs) rm) (arev s)
                | None => arev s
                end in
    match cur with
    | [] =>
      (* removeAliasFile: error if the file does not exist *)
      match @a_get (list N) nset bytes_eqb idx fm with
      | Some _ => (mkAStore (t_put t (nm_del idx fm) (afiles s)) rev', AAck true)
      | None => (mkAStore (afiles s) rev', AAck false)
      end
    | _ =>
      if adir_exists t then (mkAStore (t_put t (nm_put idx cur fm) (afiles s)) rev', AAck true)
      else (mkAStore (afiles s) rev', AAck false)
    end
  | AGetIndex t idx => (s, ASet (nm_get idx (t_nm t (afiles s))))
  | AIsAlias t al => (s, ASet (nm_get al (t_nm t (arev s))))
  | ACrashRestart => (mkAStore (afiles s) (rebuild_rev (afiles s)), AAck true)
  | AShutdownRestart =>
    let files := flush_rev s in (mkAStore files (rebuild_rev files), AAck true)
  end.

Definition astep_prefix {D : Dirs} (s : astore) (o : aop) : astore * aout :=
  match o with
  | ACrashRestart => (mkAStore (afiles s) (rebuild_rev_prefix (afiles s)), AAck true)
  | AShutdownRestart =>
    let files := flush_rev_prefix s in (mkAStore files (rebuild_rev_prefix files), AAck true)
  | _ => astep s o
  end.

Fixpoint arun_prefix {D : Dirs} (ops : list aop) (s : astore) : astore :=
  match ops with [] => s | o :: r => arun_prefix r (fst (astep_prefix s o)) end.

Fixpoint arun {D : Dirs} (ops : list aop) (s : astore) : astore :=
  match ops with [] => s | o :: r => arun r (fst (astep s o)) end.

Fixpoint arun_out {D : Dirs} (ops : list aop) (s : astore) : list aout :=
  match ops with [] => [] | o :: r => snd (astep s o) :: arun_out r (fst (astep s o)) end.

(* specification of the alias store: forward map (tenant, index) -> alias set; the reverse
   lookup is derived from it *)
Definition aspec := tenant -> list N -> nset.

Definition aspec_step {D : Dirs} (f : aspec) (o : aop) : aspec :=
  match o with
  | AAdd t idx al =>
    if adir_exists t then
      fun t' i' => if N.eqb t t' && bytes_eqb idx i' then ns_add al (f t' i') else f t' i'
    else f
  | ARemove t idx al =>
    fun t' i' => if N.eqb t t' && bytes_eqb idx i' then ns_del al (f t' i') else f t' i'
  | _ => f
  end.

Fixpoint aspec_run {D : Dirs} (ops : list aop) (f : aspec) : aspec :=
  match ops with [] => f | o :: r => aspec_run r (aspec_step f o) end.

Definition aabs (s : astore) : aspec := fun t idx => nm_get idx (t_nm t (afiles s)).

Definition is_restart (o : aop) : bool :=
  match o with ACrashRestart | AShutdownRestart => true | _ => false end.
Definition is_shutdown (o : aop) : bool :=
  match o with AShutdownRestart => true | _ => false end.

(* the operations that concern tenant t: its own adds/removes/reads, and every restart *)
Definition aop_for (t : tenant) (o : aop) : bool :=
  match o with
  | AAdd t' _ _ | ARemove t' _ _ | AGetIndex t' _ | AIsAlias t' _ => N.eqb t' t
  | ACrashRestart | AShutdownRestart => true
  end.

(* VARIANT kept for the record (refuted in KvStoreProofs with a two-tenant witness): the scratch
   map index -> aliases of FlushAliasMapToFile allocated ONCE, outside the loop over the tenants.
   It is then not reset between tenants: the second, third, ... tenant of the loop also gets the
   <index>.json files of the tenants flushed before it (merged where two tenants share an index
   name).  [inv_merge] is the inner double loop `indexToAliases[index][alias] = true`, [write_all]
   the loop of writeAliasFile calls over the scratch map. *)
Definition inv_merge (rm scratch : nmap) : nmap :=
  fold_left (fun sc ai =>
    fold_left (fun sc idx => nm_put idx (ns_add (fst ai) (nm_get idx sc)) sc) (snd ai) sc) rm scratch.

Definition write_all (scratch fm : nmap) : nmap :=
  fold_left (fun fm ia => nm_put (fst ia) (snd ia) fm) scratch fm.

Definition flush_rev_shared {D : Dirs} (s : astore) : list (tenant * nmap) :=
  fst (fold_left (fun acc tr =>
    let t := fst tr in
    let scratch := inv_merge (t_nm t (arev s)) (snd acc) in
    (if adir_exists t then t_put t (write_all scratch (t_nm t (fst acc))) (fst acc) else fst acc, scratch))
    (arev s) (afiles s, [])).

(* the same loop with the scratch map allocated per tenant (what the code does), in the shape of
   the code; [flush_rev] above is the form the proofs use *)
Definition flush_rev_scoped {D : Dirs} (s : astore) : list (tenant * nmap) :=
  fold_left (fun files tr =>
    let t := fst tr in
    if adir_exists t then t_put t (write_all (inv_merge (t_nm t (arev s)) []) (t_nm t files)) files else files)
    (arev s) (afiles s).

Definition astep_shared {D : Dirs} (s : astore) (o : aop) : astore * aout :=
  match o with
  | AShutdownRestart =>
    let files := flush_rev_shared s in (mkAStore files (rebuild_rev files), AAck true)
  | _ => astep s o
  end.

Fixpoint arun_shared {D : Dirs} (ops : list aop) (s : astore) : astore :=
  match ops with [] => s | o :: r => arun_shared r (fst (astep_shared s o)) end.

Definition astep_scoped {D : Dirs} (s : astore) (o : aop) : astore * aout :=
  match o with
  | AShutdownRestart =>
    let files := flush_rev_scoped s in (mkAStore files (rebuild_rev files), AAck true)
  | _ => astep s o
  end.

Fixpoint arun_scoped {D : Dirs} (ops : list aop) (s : astore) : astore :=
  match ops with [] => s | o :: r => arun_scoped r (fst (astep_scoped s o)) end.

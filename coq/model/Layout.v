(* Layout.v — physical organisation of ingested events and the answer computed from it (C03).

   A layout is a list of segments (open or rotated) of blocks of events; every block is
   searched through one of three paths (record-level search, dictionary-word search, stored
   persistent-query bitset) after the micro-index check let it through; statistics are merged
   from per-block / per-segment partial results in whatever order the workers finish.
   The per-record predicate [matches] is abstract here (comparison semantics belong to C02);
   the pruning function is the one of Prune.v in the instantiation used by the theorems.
   Definitions only; proofs are in SigP.LayoutProofs. *)
From SigM Require Import Base.
From Coq Require Import Permutation.

Section Layout.
  Variables event query : Type.
  Variable matches : query -> event -> bool.

  (* how the surviving block is searched *)
  Inductive path := PRec | PDict | PPqs.

  Record block := mkBlock { b_events : list event; b_path : path }.
  Record segment := mkSeg { s_blocks : list block; s_open : bool }.
  Definition layout := list segment.

  (* micro-index check: query -> segment still open? -> block -> keep *)
  Variable prune : query -> bool -> block -> bool.

  (* the three search paths of a block *)
  Variable value : Type.
  Variable col : query -> event -> value.             (* the column the query looks at *)
  Variable veqb : value -> value -> bool.
  Variable mword : query -> value -> bool.            (* the check applied to one dictionary word *)
  Variable ingest_match : query -> event -> bool.     (* evaluated when the event was ingested *)

  Fixpoint nodupb (l : list value) : list value :=
    match l with
    | [] => []
    | x :: r => if existsb (veqb x) r then nodupb r else x :: nodupb r
    end.

  (* dictionary search: check every distinct word once, select the records holding a hit *)
  Definition dict_search (q : query) (evs : list event) : list event :=
    let hits := filter (mword q) (nodupb (map (col q) evs)) in
    filter (fun e => existsb (veqb (col q e)) hits) evs.

  Definition search_block (q : query) (b : block) : list event :=
    match b_path b with
    | PRec => filter (matches q) (b_events b)
    | PDict => dict_search q (b_events b)
    | PPqs => filter (ingest_match q) (b_events b)
    end.

  Definition answer_seg (q : query) (s : segment) : list event :=
    flat_map (fun b => if prune q (s_open s) b then search_block q b else []) (s_blocks s).

  Definition answer (L : layout) (q : query) : list event := flat_map (answer_seg q) L.

  Definition all_events (L : layout) : list event :=
    flat_map (fun s => flat_map b_events (s_blocks s)) L.

  (* the layout holds exactly the ingested events, in any order and any split *)
  Definition valid_layout (L : layout) (evs : list event) : Prop := Permutation (all_events L) evs.

  (* layout-free specification *)
  Definition spec_answer (evs : list event) (q : query) : list event := filter (matches q) evs.

  (* accelerators may only skip work: a block holding a matching event is never dropped *)
  Definition prune_sound (q : query) : Prop :=
    forall o b e, In e (b_events b) -> matches q e = true -> prune q o b = true.

  (* the same, asked only of the blocks of one layout *)
  Definition prune_sound_on (q : query) (L : layout) : Prop :=
    forall s b e, In s L -> In b (s_blocks s) -> In e (b_events b) -> matches q e = true ->
      prune q (s_open s) b = true.

  (* the dictionary and persistent-query paths are only taken where they evaluate the same predicate *)
  Definition paths_ok (q : query) (L : layout) : Prop :=
    forall s b, In s L -> In b (s_blocks s) ->
      match b_path b with
      | PRec => True
      | PDict => (forall e, In e (b_events b) -> matches q e = mword q (col q e))
                 /\ (forall x y, veqb x y = true <-> x = y)
      | PPqs => forall e, In e (b_events b) -> ingest_match q e = matches q e
      end.

  (* NegateMatch: the record-level loop of filterRecordsFromSearchQuery flips the result per record; the
     dictionary search marks the records that hold a hit and, for a negated match, the record loop is always
     run afterwards and flips those marks *)
  Definition rec_search_neg (neg : bool) (q : query) (evs : list event) : list event :=
    filter (fun e => xorb neg (mword q (col q e))) evs.
  Definition dict_search_neg (neg : bool) (q : query) (evs : list event) : list event :=
    let hits := filter (mword q) (nodupb (map (col q) evs)) in
    filter (fun e => xorb neg (existsb (veqb (col q e)) hits)) evs.
  (* PRE-FIX: when every searched column of the block was dictionary encoded the record loop was skipped and
     NegateMatch never applied *)
  Definition dict_search_neg_prefix (neg : bool) (q : query) (evs : list event) : list event :=
    dict_search q evs.
End Layout.

(* ---------- statistics: partial aggregates merged in any order ---------- *)
Section Agg.
  Variables event S : Type.
  Variable merge : S -> S -> S.
  Variable unit : S.
  Variable inj : event -> S.

  Definition agg (evs : list event) : S := fold_right (fun e a => merge (inj e) a) unit evs.
  Definition merge_all (parts : list S) : S := fold_right merge unit parts.

  (* per-block partial results (record-level or dictionary-based, same value), per-segment
     pre-aggregated statistics (.sst / agile tree) used for the segments flagged true *)
  Definition seg_stats (use_pre : bool) (blocks : list (list event)) : S :=
    if use_pre then agg (concat blocks) else merge_all (map agg blocks).
  Definition stats_answer (L : list (bool * list (list event))) : S :=
    merge_all (map (fun s => seg_stats (fst s) (snd s)) L).
  Definition stats_events (L : list (bool * list (list event))) : list event :=
    concat (map (fun s => concat (snd s)) L).
End Agg.

(* ---------- the column buffer window the ingest-time persistent-query evaluator looks at ----------
   pkg/segment/writer: every column of the open block has a buffer cbuf[0:cbufidx] of encoded records and
   cstartidx, "start index of last record, so cbuf[cstartidx:cbufidx] is the encoded last record".
   initAndBackFillColumn (value present) and the back-fill loop of doLogEventFilling (column absent from the
   event) both set cstartidx = cbufidx before appending; segstream.go evaluates persistent queries on
   getLastRecord() = cbuf[cstartidx:cbufidx]. *)
Section Window.
  Inductive wcell := WStr (s : bytes) | WInt (z : Z) | WFlt (bits : N).

  Definition enc_cell (c : wcell) : bytes :=
    match c with
    | WStr s => 2 :: le16 (N.of_nat (length s)) ++ s          (* VALTYPE_ENC_SMALL_STRING, len, bytes *)
    | WInt z => 16 :: le64 (Z.to_N (z mod 18446744073709551616)%Z)   (* VALTYPE_ENC_INT64 *)
    | WFlt b => 17 :: le64 b                                    (* VALTYPE_ENC_FLOAT64, bit pattern *)
    end.
  Definition backfill_rec : bytes := [19].                      (* VALTYPE_ENC_BACKFILL *)
  Definition rec_of (x : option wcell) : bytes :=
    match x with Some v => enc_cell v | None => backfill_rec end.

  Record colwip := mkCW { cw_buf : bytes; cw_start : nat }.
  (* cstartidx = cbufidx; append *)
  Definition cw_append (c : colwip) (r : bytes) : colwip := mkCW (cw_buf c ++ r) (length (cw_buf c)).
  (* append WITHOUT moving cstartidx (what the back-fill loop would do without its first line) *)
  Definition cw_append_nostart (c : colwip) (r : bytes) : colwip := mkCW (cw_buf c ++ r) (cw_start c).
  Definition cw_last (c : colwip) : bytes := skipn (cw_start c) (cw_buf c).     (* getLastRecord *)

  (* one column through the events of a block: Some = the event has the column, None = back-filled *)
  Definition cw_step (c : colwip) (x : option wcell) : colwip := cw_append c (rec_of x).
  Definition cw_empty : colwip := mkCW [] 0.
  Definition cw_run (xs : list (option wcell)) : colwip := fold_left cw_step xs cw_empty.

  Definition cw_step_nostart (c : colwip) (x : option wcell) : colwip :=
    match x with Some v => cw_append c (enc_cell v) | None => cw_append_nostart c backfill_rec end.
  Definition cw_run_nostart (xs : list (option wcell)) : colwip := fold_left cw_step_nostart xs cw_empty.
End Window.

(* ---------- the per-segment "has results" flag of a persistent query ----------
   segstore.go AppendWipToSegfile: after every block  pqNonEmptyResults[pqid] = pqNonEmptyResults[pqid] || pqResults.Any();
   at rotation a false flag deletes the segment's pqmr file and puts the segment on the empty-results list of the
   query (written by the background listener); applyFopAllRequests then skips the segment for that query, otherwise the
   stored per-block bitsets (= the ingest-time matches) are the segment's answer. *)
Section PqsFlag.
  Variable event : Type.
  Variable m : event -> bool.                 (* the ingest-time match of the persistent query *)

  Definition block_any (b : list event) : bool := existsb m b.
  Definition seg_nonempty (blocks : list (list event)) : bool :=
    fold_left (fun f b => f || block_any b) blocks false.
  (* the flag taken from the current block alone (what an assignment without the OR computes) *)
  Definition seg_nonempty_last (blocks : list (list event)) : bool :=
    fold_left (fun _ b => block_any b) blocks false.
  Definition pqs_seg_answer (flag : bool) (blocks : list (list event)) : list event :=
    if flag then flat_map (filter m) blocks else [].
End PqsFlag.

(* LockOrder.v — the order in which a goroutine nests mutexes: whenever it acquires l while holding o, that is an
   edge o -> l.  The edges of every skeleton are computed from the lock sets LockTrace.post reaches; a ranking of
   the mutexes that increases along every edge certifies that the union of all edges has no cycle, and without a
   cycle no set of goroutines can wait for each other in a ring (LockOrderProofs).  Definitions only. *)
From Coq Require Import NArith List Bool.
From SigM Require Import LockTrace.
Import ListNotations.
Open Scope N_scope.

Definition edge := (N * N)%type.              (* held, acquired *)
Definition edge_eqb (a b : edge) : bool := (fst a =? fst b) && (snd a =? snd b).
Fixpoint emem (e : edge) (l : list edge) : bool :=
  match l with [] => false | x :: r => edge_eqb e x || emem e r end.
Fixpoint eunion (a b : list edge) : list edge :=
  match a with [] => b | x :: r => if emem x b then eunion r b else x :: eunion r b end.

(* the edges one acquisition adds, from a lock set *)
Definition held_edges (o : N) (h : held) : list edge := map (fun x => (fst x, o)) h.
Definition is_acquire (k : kind) : bool := match k with KLock | KRLock => true | _ => false end.

(* the edges of a monitored run: what the goroutine actually nests on trace t from lock set h *)
Fixpoint run_edges (h : held) (t : list ev) : list edge :=
  match t with
  | [] => []
  | (k, o) :: r =>
      (if is_acquire k then held_edges o h else []) ++
      match mstep h (k, o) with inl h' => run_edges h' r | inr _ => [] end
  end.

(* the analysis: edges of every acquisition, from every lock set post computes at that point *)
Definition acq_edges (k : kind) (o : N) (S : list held) : list edge :=
  if is_acquire k then fold_right (fun h acc => eunion (held_edges o h) acc) [] S else [].

Section E.
Variable fuel : nat.
Fixpoint eedges (s : stm) (S : list held) {struct s} : list edge :=
  match s with
  | SSkip | SRet | SBreak | SContinue => []
  | SEv k o => acq_edges k o S
  | SSeq a b => eunion (eedges a S) (eedges b (r_norm (post fuel a S)))
  | SAlt a b => eunion (eedges a S) (eedges b S)
  | SCall b | SBrk b | SCont b => eedges b S
  | SLoop a p =>
      let X := r_norm (post fuel (SLoop a p) S) in      (* contains the loop-head sets (and what a break leaves) *)
      let ra := post fuel a X in
      eunion (eedges a X) (eedges p (union (r_norm ra) (r_cont ra)))
  end.
End E.

(* a function is entered with no lock of its own held *)
Definition fn_edges (fuel : nat) (s : stm) : list edge := eedges fuel s [[]].

(* ---------- no cycle: a ranking that increases along every edge ---------- *)
Definition rank_ok (rank : N -> N) (G : list edge) : bool := forallb (fun e => rank (fst e) <? rank (snd e)) G.

(* a ranking computed by relaxation (any function would do: rank_ok checks it) *)
Fixpoint lookup_rank (o : N) (r : list (N * N)) : N :=
  match r with [] => 0 | (x, v) :: t => if x =? o then v else lookup_rank o t end.
Fixpoint set_rank (o v : N) (r : list (N * N)) : list (N * N) :=
  match r with
  | [] => [(o, v)]
  | (x, w) :: t => if x =? o then (x, N.max v w) :: t else (x, w) :: set_rank o v t
  end.
Definition relax (G : list edge) (r : list (N * N)) : list (N * N) :=
  fold_left (fun acc e => set_rank (snd e) (lookup_rank (fst e) acc + 1) acc) G r.
Fixpoint relax_n (n : nat) (G : list edge) (r : list (N * N)) : list (N * N) :=
  match n with O => r | S k => relax_n k G (relax G r) end.
Definition compute_rank (G : list edge) : N -> N :=
  let r := relax_n (S (length G)) G [] in fun o => lookup_rank o r.
Definition acyclic (G : list edge) : bool := rank_ok (compute_rank G) G.

(* ---------- goroutines waiting for each other ---------- *)
(* a goroutine that holds the lock set and is about to acquire (or is blocked acquiring) the mutex *)
Definition waiter := (held * N)%type.
(* its nesting is recorded in G *)
Definition justified (G : list edge) (w : waiter) : Prop := forall o, holds (fst w) o = true -> emem (o, snd w) G = true.
(* a ring: each waits for a mutex the next one holds (the last waits for one the first holds) *)
Fixpoint chain (first : waiter) (l : list waiter) : Prop :=
  match l with
  | [] => False
  | [w] => holds (fst first) (snd w) = true
  | w :: ((w' :: _) as r) => holds (fst w') (snd w) = true /\ chain first r
  end.
Definition ring (l : list waiter) : Prop := match l with [] => False | w :: _ => chain w l end.

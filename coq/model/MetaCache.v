(* MetaCache.v — the lazily loaded, process-wide search metadata of a log segment
   (pkg/segment/metadata/segmentmicroindex.go: SegmentMicroIndex.{loadedSearchMetadata,
   BlockSummaries, BlockSearchInfo}), filled from the segment's block-summary file (.bsu).

   1. microreader.ReadBlockSummaries with its REAL return value: on "bad data" it returns the
      summaries of the blocks it could parse BEFORE the damage TOGETHER with the error
      ([read_bsu_p]; [MetaDecoders.read_bsu] is the same reader with the partial list dropped).
   2. The cache as a state machine.  Accesses:
        ALoad   GetLoadSsm / loadSearchMetadata / loadParallelSsm (ordinary search, memory rebalance):
                loaded -> cached value; else parse; error -> clearSearchMetadata, error returned
        AInfo   GetSearchInfoAndSummary (persistent-query path GetSearchInfoAndSummaryForPQS,
                ReadAllTimestampsForBlock, ReadAllRecords, multi-column / record reader):
                loaded -> cached value; else parse; error -> error returned, NOTHING stored;
                success -> stored "for future"
        AEvict  clearSearchMetadata (memory rebalance, GetTSRangeForMissingBlocks)
        AWrite b  the file on disk becomes b (damage happens while the process runs)
      [early = true] is the variant that stores the reader's result BEFORE looking at its error. *)
From SigM Require Import Base MetaDecoders.
Open Scope N_scope.

Fixpoint bsu_loop_p (chk : bool) (fuel : nat) (b : bytes) (off : nat) : list bsum * dres unit :=
  if Nat.leb (length b) off then ([], DOk tt) else
  match fuel with
  | O => ([], DErr)
  | S k =>
    if chk && Nat.ltb (remaining b off) 26 then ([], DErr) else
    let o := (off + 4)%nat in
    if negb chk && Nat.ltb (length b) o then ([], DPanic)
    else if negb chk && Nat.ltb (remaining b o) 22 then ([], DErr)
    else match rd_at 2 b o, rd_at 8 b (o + 2), rd_at 8 b (o + 10), rd_at 2 b (o + 18), rd_at 2 b (o + 20) with
    | Some num, Some high, Some low, Some rc, Some nc =>
      match bsu_cols b (N.to_nat nc) (o + 22) with
      | DOk (cs, o') =>
        let '(r, st) := bsu_loop_p chk k b o' in
        ({| bs_num := num; bs_high := high; bs_low := low; bs_rec := rc; bs_cols := cs |} :: r, st)
      | DErr => ([], DErr)
      | DPanic => ([], DPanic)
      end
    | _, _, _, _, _ => ([], DPanic)
    end
  end.

(* (blocks parsed before the end / the damage, status) *)
Definition read_bsu_p (chk : bool) (b : bytes) : list bsum * dres unit := bsu_loop_p chk (S (length b)) b 0.

Definition collapse (r : list bsum * dres unit) : dres (list bsum) :=
  match r with
  | (l, DOk _) => DOk l
  | (_, DErr) => DErr
  | (_, DPanic) => DPanic
  end.

(* what a load may hand out: the complete, error-free parse of the file *)
Definition full_parse (b : bytes) : option (list bsum) :=
  match read_bsu_p true b with
  | (l, DOk _) => Some l
  | _ => None
  end.

Inductive mstate := Unloaded | Loaded (l : list bsum).
Inductive access := ALoad | AInfo | AEvict | AWrite (b : bytes).
Inductive answer := NoAns | AnsErr | Ans (l : list bsum).

Definition mstep (early : bool) (f : bytes) (c : mstate) (a : access) : bytes * mstate * answer :=
  match a with
  | AEvict => (f, Unloaded, NoAns)
  | AWrite b => (b, c, NoAns)
  | ALoad =>
    match c with
    | Loaded l => (f, c, Ans l)
    | Unloaded =>
      match read_bsu_p true f with
      | (l, DOk _) => (f, Loaded l, Ans l)
      | _ => (f, Unloaded, AnsErr)
      end
    end
  | AInfo =>
    match c with
    | Loaded l => (f, c, Ans l)
    | Unloaded =>
      match read_bsu_p true f with
      | (l, DOk _) => (f, Loaded l, Ans l)
      | (l, _) => (f, if early then Loaded l else Unloaded, AnsErr)
      end
    end
  end.

(* the answers in order, and the final (file, cache) *)
Fixpoint mrun (early : bool) (f : bytes) (c : mstate) (ops : list access) : list answer * (bytes * mstate) :=
  match ops with
  | [] => ([], (f, c))
  | a :: r =>
    let '(f', c', ans) := mstep early f c a in
    let '(l, fin) := mrun early f' c' r in
    (ans :: l, fin)
  end.

(* the file versions that were on disk during a run *)
Fixpoint versions (f : bytes) (ops : list access) : list bytes :=
  f :: match ops with
       | [] => []
       | AWrite b :: r => versions b r
       | _ :: r => versions f r
       end.

Definition is_write (a : access) : bool := match a with AWrite _ => true | _ => false end.

(* the answer an access gives as the FIRST access of a fresh process on file f *)
Definition fresh_answer (f : bytes) (a : access) : answer :=
  match a with
  | ALoad | AInfo => match full_parse f with Some l => Ans l | None => AnsErr end
  | _ => NoAns
  end.

(* MetaCacheCheck.v — comparison of the cache model with observations of the real process
   (generated case files of C18, stream "seq").  One case = the bytes of a (damaged) .bsu and
   the accesses made on that segment in ONE process, in order.  Per access:
     op      0 = ALoad (GetLoadSsm, memory rebalance load, an ordinary query), 1 = AInfo
             (GetSearchInfoAndSummary and its callers), 2 = AEvict (memory rebalance to 0)
     answer  (1, _) error | (2, sums) answered with these block summaries | (8, _) answered, no
             summaries in the answer (timestamps / records) | (9, _) not observable (query, rebalance)
     after   (loaded?, cached block summaries) read from the real SegmentMicroIndex after the access
   The model runs from Unloaded (the harness checks that the real process starts unloaded). *)
From SigM Require Import Base MetaDecoders MetaDecodersCheck MetaCache.
Open Scope N_scope.

Definition sums_of (l : list bsum) : list (N * N * N) := map (fun s => (bs_high s, bs_low s, bs_rec s)) l.

Definition op_of (n : N) : access := if n =? 0 then ALoad else if n =? 1 then AInfo else AEvict.

Definition ok_answer (a : answer) (obs : N * list (N * N * N)) : bool :=
  let '(code, sums) := obs in
  if code =? 9 then true else
  match a with
  | NoAns => false
  | AnsErr => code =? 1
  | Ans l => if code =? 8 then true else (code =? 2) && list_eqb t3_eqb (sums_of l) sums
  end.

Definition ok_state (c : mstate) (obs : N * list (N * N * N)) : bool :=
  let '(ld, sums) := obs in
  match c with
  | Unloaded => ld =? 0
  | Loaded l => (ld =? 1) && list_eqb t3_eqb (sums_of l) sums
  end.

Fixpoint ok_run (f : bytes) (c : mstate) (ops : list (N * (N * list (N * N * N)) * (N * list (N * N * N)))) : bool :=
  match ops with
  | [] => true
  | (op, oa, os) :: r =>
    let '(f', c', ans) := mstep false f c (op_of op) in
    ok_answer ans oa && ok_state c' os && ok_run f' c' r
  end.

Definition ok_seq (c : bytes * list (N * (N * list (N * N * N)) * (N * list (N * N * N)))) : bool :=
  let '(f, ops) := c in ok_run f Unloaded ops.
Definition check_seq cs : list nat := idx_bad ok_seq cs 0.

(* the partial result of the stateless reader next to its error: (code, summaries) with
   code 0 = accepted, 1 = error; the summaries are compared in BOTH cases *)
Definition ok_bsu_partial (c : bytes * (N * list (N * N * N))) : bool :=
  let '(b, (code, sums)) := c in
  let '(l, st) := read_bsu_p true b in
  (code =? code_of st) && list_eqb t3_eqb (sums_of l) sums.
Definition check_bsu_partial cs : list nat := idx_bad ok_bsu_partial cs 0.

(* MetaDecoders.v — decoders of the segment files that carry NO checksum, as far as
   they were repaired for C18 (bounds checks that turn a panic into an error):
     microreader.ReadBlockSummaries          (.bsu)
     microreader.ReadMetricsBlockSummaries   (.mbsu)
     metadata.ReadMetricNames                (.mnm)
     metadata.readRangeIndexFromByteArray    (.cmi, range index record)
     metadata.checkBloomCmi + bloom/bitset ReadFrom (.cmi, bloom record)
   Every decoder takes [chk : bool]: [true] = the code with the added checks (the
   fixed code), [false] = the code before the fix.  Go's slice expressions and
   binary.LittleEndian readers are modelled by [rd_at]/[sl_at], which yield [None]
   exactly where Go panics (index or slice bounds out of range); the decoders turn
   that into [DPanic].  Offsets are absolute, as in the Go loops. *)
From SigM Require Import Base.
Open Scope N_scope.

Inductive dres (A : Type) := DOk (x : A) | DErr | DPanic.
Arguments DOk {A} x.
Arguments DErr {A}.
Arguments DPanic {A}.

Definition is_panic {A} (r : dres A) : bool := match r with DPanic => true | _ => false end.

(* binary.LittleEndian.UintK(b[off:]) / b[off:off+k]: panics unless off+k <= len(b) *)
Definition rd_at (k : nat) (b : bytes) (off : nat) : option N :=
  if Nat.leb (off + k) (length b) then Some (le_dec (firstn k (skipn off b))) else None.

Definition sl_at (b : bytes) (off n : nat) : option bytes :=
  if Nat.leb (off + n) (length b) then Some (firstn n (skipn off b)) else None.

(* len(b[off:]); the callers only use it with off <= len(b) *)
Definition remaining (b : bytes) (off : nat) : nat := (length b - off)%nat.

(* ---------- ReadMetricNames (.mnm): entries  len LE16 | name ---------- *)
Fixpoint mnm_loop (chk : bool) (fuel : nat) (b : bytes) (i : nat) : dres (list bytes) :=
  if Nat.leb (length b) i then DOk [] else
  match fuel with
  | O => DErr
  | S k =>
    if chk && Nat.ltb (remaining b i) 2 then DErr else
    match rd_at 2 b i with
    | None => DPanic
    | Some l =>
      let i1 := (i + 2)%nat in
      let n := N.to_nat l in                       (* a uint16 *)
      if chk && Nat.ltb (remaining b i1) n then DErr else
      match sl_at b i1 n with
      | None => DPanic
      | Some nm =>
        match mnm_loop chk k b (i1 + n) with
        | DOk ns => DOk (nm :: ns)
        | e => e
        end
      end
    end
  end.

Definition read_metric_names (chk : bool) (b : bytes) : dres (list bytes) :=
  mnm_loop chk (S (length b)) b 0.

Definition enc_metric_names (names : list bytes) : bytes :=
  concat (map (fun nm => le16 (N.of_nat (length nm)) ++ nm) names).

(* ---------- ReadMetricsBlockSummaries (.mbsu) ----------
   version byte 0x01, then records  blkNum LE16 | highTs (4 of 8 bytes read) | lowTs (4 of 8) *)
Definition VERSION_MBLOCKSUMMARY : N := 1.

Record mbs := { mb_num : N; mb_high : N; mb_low : N }.
Definition mbs_eqb (a b : mbs) : bool :=
  (mb_num a =? mb_num b) && (mb_high a =? mb_high b) && (mb_low a =? mb_low b).

Fixpoint mbsu_loop (chk : bool) (fuel : nat) (b : bytes) (off : nat) : dres (list mbs) :=
  if Nat.leb (length b) off then DOk [] else
  match fuel with
  | O => DErr
  | S k =>
    if chk && Nat.ltb (remaining b off) 18 then DErr else
    match rd_at 2 b off with
    | None => DPanic
    | Some num =>
      match rd_at 4 b (off + 2) with
      | None => DPanic
      | Some high =>
        match rd_at 4 b (off + 10) with
        | None => DPanic
        | Some low =>
          match mbsu_loop chk k b (off + 18) with
          | DOk r => DOk ({| mb_num := num; mb_high := high; mb_low := low |} :: r)
          | e => e
          end
        end
      end
    end
  end.

Definition read_mbsu (chk : bool) (b : bytes) : dres (list mbs) :=
  match b with
  | [] => DErr                                            (* "insufficient data in file" *)
  | v :: _ => if negb (v =? VERSION_MBLOCKSUMMARY) then DErr
              else mbsu_loop chk (S (length b)) b 1
  end.

Definition enc_mbs (m : mbs) : bytes := le16 (mb_num m) ++ le64 (mb_high m) ++ le64 (mb_low m).
Definition enc_mbsu (l : list mbs) : bytes := VERSION_MBLOCKSUMMARY :: concat (map enc_mbs l).

(* ---------- ReadBlockSummaries (.bsu) ----------
   per block: blkSumLen LE32 (skipped) | blkNum LE16 | highTs LE64 | lowTs LE64 | recCount LE16 |
   numCols LE16 | numCols x ( cnameLen LE16 | cname | blkOff LE64 | blkLen LE32 ) *)
Record bcol := { bc_name : bytes; bc_off : N; bc_len : N }.
Record bsum := { bs_num : N; bs_high : N; bs_low : N; bs_rec : N; bs_cols : list bcol }.

Fixpoint bsu_cols (b : bytes) (ncols : nat) (off : nat) : dres (list bcol * nat) :=
  match ncols with
  | O => DOk ([], off)
  | S c =>
    if Nat.ltb (length b) off then DPanic                 (* rbuf[offset:] *)
    else if Nat.ltb (remaining b off) 2 then DErr
    else match rd_at 2 b off with
    | None => DPanic
    | Some cl =>
      let o1 := (off + 2)%nat in
      let n := N.to_nat cl in
      if Nat.ltb (length b) (o1 + n + 12) then DErr       (* minLen check *)
      else match sl_at b o1 n, rd_at 8 b (o1 + n), rd_at 4 b (o1 + n + 8) with
      | Some nm, Some bo, Some bl =>
        match bsu_cols b c (o1 + n + 12) with
        | DOk (cs, o') => DOk ({| bc_name := nm; bc_off := bo; bc_len := bl |} :: cs, o')
        | DErr => DErr
        | DPanic => DPanic
        end
      | _, _, _ => DPanic
      end
    end
  end.

Fixpoint bsu_loop (chk : bool) (fuel : nat) (b : bytes) (off : nat) : dres (list bsum) :=
  if Nat.leb (length b) off then DOk [] else
  match fuel with
  | O => DErr
  | S k =>
    (* fixed: the 4 bytes of blkSumLen are part of the check; before: skipped first *)
    if chk && Nat.ltb (remaining b off) 26 then DErr else
    let o := (off + 4)%nat in
    if negb chk && Nat.ltb (length b) o then DPanic       (* rbuf[offset:] with offset > len *)
    else if negb chk && Nat.ltb (remaining b o) 22 then DErr
    else match rd_at 2 b o, rd_at 8 b (o + 2), rd_at 8 b (o + 10), rd_at 2 b (o + 18), rd_at 2 b (o + 20) with
    | Some num, Some high, Some low, Some rc, Some nc =>
      match bsu_cols b (N.to_nat nc) (o + 22) with
      | DOk (cs, o') =>
        match bsu_loop chk k b o' with
        | DOk r => DOk ({| bs_num := num; bs_high := high; bs_low := low; bs_rec := rc; bs_cols := cs |} :: r)
        | e => e
        end
      | DErr => DErr
      | DPanic => DPanic
      end
    | _, _, _, _, _ => DPanic
    end
  end.

Definition read_bsu (chk : bool) (b : bytes) : dres (list bsum) := bsu_loop chk (S (length b)) b 0.

(* ---------- range index record (after the type byte): entries
   keyLen LE16 | key | numType (1) | min (8) | max (8); an unknown numType consumes nothing ---------- *)
Record rentry := { re_key : bytes; re_type : N; re_minmax : option (N * N) }.

Fixpoint ri_loop (chk : bool) (fuel : nat) (b : bytes) (bc : nat) : dres (list rentry) :=
  if Nat.leb (length b) bc then DOk [] else
  match fuel with
  | O => DErr
  | S k =>
    if chk && Nat.ltb (remaining b bc) 2 then DErr else
    match rd_at 2 b bc with
    | None => DPanic
    | Some kl =>
      let c1 := (bc + 2)%nat in
      let n := N.to_nat kl in
      if chk && Nat.ltb (remaining b c1) (n + 17) then DErr else
      match sl_at b c1 n, rd_at 1 b (c1 + n) with
      | Some key, Some ty =>
        let c2 := (c1 + n + 1)%nat in
        if ty <? 3 then
          match rd_at 8 b c2, rd_at 8 b (c2 + 8) with
          | Some mn, Some mx =>
            match ri_loop chk k b (c2 + 16) with
            | DOk r => DOk ({| re_key := key; re_type := ty; re_minmax := Some (mn, mx) |} :: r)
            | e => e
            end
          | _, _ => DPanic
          end
        else
          match ri_loop chk k b c2 with
          | DOk r => DOk ({| re_key := key; re_type := ty; re_minmax := None |} :: r)
          | e => e
          end
      | _, _ => DPanic
      end
    end
  end.

Definition read_range_index (chk : bool) (b : bytes) : dres (list rentry) := ri_loop chk (S (length b)) b 0.

Definition enc_rentry (key : bytes) (ty mn mx : N) : bytes :=
  le16 (N.of_nat (length key)) ++ key ++ [ty] ++ le64 mn ++ le64 mx.

(* ---------- bloom record (after the type byte): m BE64 | k BE64 | bit-set length BE64 | words ---------- *)
Definition be_dec (bs : bytes) : N := le_dec (rev bs).
Definition rd_be8 (b : bytes) (off : nat) : option N :=
  if Nat.leb (off + 8) (length b) then Some (be_dec (firstn 8 (skipn off b))) else None.

(* bytes the bit set asks the allocator for: ceil(L / 64) words of 8 bytes *)
Definition bitset_bytes (L : N) : N := ((L + 63) / 64) * 8.

Record bloomhdr := { bl_m : N; bl_k : N; bl_len : N }.

(* result of loading the bloom + the number of bytes requested from the allocator before
   anything of the bit set is read (bitset.New(length)) *)
Definition read_bloom (chk : bool) (b : bytes) : dres bloomhdr * N :=
  match rd_be8 b 0, rd_be8 b 8, rd_be8 b 16 with
  | Some m, Some k, Some L =>
    if chk && ((m =? 0) || (N.of_nat (length b - 24) * 8 <? L)) then (DErr, 0)
    else if N.of_nat (length b - 24) <? bitset_bytes L then (DErr, bitset_bytes L)   (* binary.Read: EOF *)
    else (DOk {| bl_m := m; bl_k := k; bl_len := L |}, bitset_bytes L)
  | _, _, _ => (DErr, 0)                                                             (* header: EOF *)
  end.

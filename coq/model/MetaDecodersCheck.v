(* MetaDecodersCheck.v — comparison of the decoder models (fixed code, chk = true) with
   observations of the real readers (generated case files of C18, stream "decoders").
   Observed code: 0 = result, 1 = error returned, 2 = Go panic (recovered in the worker),
   3 = the worker process died (never equals a model result). *)
From SigM Require Import Base MetaDecoders.
Open Scope N_scope.

Definition code_of {A} (r : dres A) : N := match r with DOk _ => 0 | DErr => 1 | DPanic => 2 end.

Fixpoint idx_bad {A} (ok : A -> bool) (l : list A) (i : nat) : list nat :=
  match l with
  | [] => []
  | x :: r => (if ok x then [] else [i]) ++ idx_bad ok r (S i)
  end.

Definition incl_b {A} (eqb : A -> A -> bool) (a b : list A) : bool :=
  forallb (fun x => existsb (eqb x) b) a.
Definition seteq_b {A} (eqb : A -> A -> bool) (a b : list A) : bool := incl_b eqb a b && incl_b eqb b a.

Fixpoint distinct_b {A} (eqb : A -> A -> bool) (l : list A) : bool :=
  match l with
  | [] => true
  | x :: r => negb (existsb (eqb x) r) && distinct_b eqb r
  end.

(* ---- metric names: Go returns a set ---- *)
Definition ok_mnm (c : bytes * (N * list bytes)) : bool :=
  let '(b, (code, names)) := c in
  match read_metric_names true b with
  | DOk ns => (code =? 0) && seteq_b bytes_eqb ns names
  | r => code =? code_of r
  end.
Definition check_mnm (cs : list (bytes * (N * list bytes))) : list nat := idx_bad ok_mnm cs 0.

(* ---- metrics block summaries ---- *)
Definition t3_eqb (a b : N * N * N) : bool :=
  let '(a1, a2, a3) := a in let '(b1, b2, b3) := b in (a1 =? b1) && (a2 =? b2) && (a3 =? b3).
Definition ok_mbsu (c : bytes * (N * list (N * N * N))) : bool :=
  let '(b, (code, l)) := c in
  match read_mbsu true b with
  | DOk ms => (code =? 0) && list_eqb t3_eqb (map (fun m => (mb_num m, mb_high m, mb_low m)) ms) l
  | r => code =? code_of r
  end.
Definition check_mbsu (cs : list (bytes * (N * list (N * N * N)))) : list nat := idx_bad ok_mbsu cs 0.

(* ---- block summaries: summaries in order; per block number the set of (column, offset, length),
   compared when block numbers and column names are distinct (the Go maps keep the last one) ---- *)
Definition col_eqb (a b : bytes * N * N) : bool :=
  let '(n1, o1, l1) := a in let '(n2, o2, l2) := b in bytes_eqb n1 n2 && (o1 =? o2) && (l1 =? l2).
Definition nonzero_col (c : bytes * N * N) : bool := let '(_, o, l) := c in negb ((o =? 0) && (l =? 0)).
Definition cols_of (s : bsum) : list (bytes * N * N) :=
  filter nonzero_col (map (fun c => (bc_name c, bc_off c, bc_len c)) (bs_cols s)).
Fixpoint find_block (n : N) (obs : list (N * list (bytes * N * N))) : option (list (bytes * N * N)) :=
  match obs with
  | [] => None
  | (m, cs) :: r => if n =? m then Some cs else find_block n r
  end.
Definition ok_bsu (c : bytes * (N * (list (N * N * N) * list (N * list (bytes * N * N))))) : bool :=
  let '(b, (code, (sums, blocks))) := c in
  match read_bsu true b with
  | DOk ss =>
    (code =? 0)
    && list_eqb t3_eqb (map (fun s => (bs_high s, bs_low s, bs_rec s)) ss) sums
    && (if distinct_b N.eqb (map bs_num ss)
           && forallb (fun s => distinct_b bytes_eqb (map bc_name (bs_cols s))) ss
        then forallb (fun s => match find_block (bs_num s) blocks with
                               | Some cs => seteq_b col_eqb (cols_of s) (filter nonzero_col cs)
                               | None => false
                               end) ss
             && Nat.eqb (length ss) (length blocks)
        else true)
  | r => code =? code_of r
  end.
Definition check_bsu cs : list nat := idx_bad ok_bsu cs 0.

(* ---- range index record (bytes after the type byte) ---- *)
Definition rent_eqb (a b : bytes * option (N * N * N)) : bool :=
  let '(k1, v1) := a in let '(k2, v2) := b in
  bytes_eqb k1 k2 &&
  match v1, v2 with
  | Some x, Some y => t3_eqb x y
  | None, None => true
  | _, _ => false
  end.
Definition rent_of (e : rentry) : bytes * option (N * N * N) :=
  (re_key e, match re_minmax e with Some (mn, mx) => Some (re_type e, mn, mx) | None => None end).
Definition ok_ri (c : bytes * (N * list (bytes * option (N * N * N)))) : bool :=
  let '(b, (code, l)) := c in
  match read_range_index true b with
  | DOk es => (code =? 0) &&
              (if distinct_b bytes_eqb (map re_key es) then seteq_b rent_eqb (map rent_of es) l else true)
  | r => code =? code_of r
  end.
Definition check_ri cs : list nat := idx_bad ok_ri cs 0.

(* ---- bloom record (bytes after the type byte): (m, k, bit-set length) ---- *)
Definition ok_bloom (c : bytes * (N * (N * N * N))) : bool :=
  let '(b, (code, h)) := c in
  match fst (read_bloom true b) with
  | DOk x => (code =? 0) && t3_eqb (bl_m x, bl_k x, bl_len x) h
  | r => code =? code_of r
  end.
Definition check_bloom cs : list nat := idx_bad ok_bloom cs 0.

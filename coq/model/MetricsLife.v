(* MetricsLife.v — executable model of the life cycle of a METRICS request
   (pkg/segment/segexecution.go: ExecuteMetricsQuery, ExecuteMultipleMetricsQuery,
   manageStateForMetricsQuery), layered over the query tables of QueryLife.v.

   A PromQL request runs its vector selectors one after the other.  For every selector
   ("sub-query") the executor goroutine
       StartQuery(qid, forceRun=false)              -> PStart      (the qid goes to the waiting queue)
       signal := <-rQuery.StateChan ; must be READY -> PWaitReady  (blocked until the puller admits it)
       go manageStateForMetricsQuery(qid, ...)      -> the state manager of this qid is alive
       ApplyMetricsQuery(...)                       -> PApply      (the search; it polls mQuery.IsQueryCancelled)
       ExecuteMultipleMetricsQuery: if mQuery.IsQueryCancelled() { return "query is cancelled" }
                                                       (BEFORE SendQueryStateComplete)
       rQuery.SendQueryStateComplete()              -> COMPLETE on the state channel
       qid = GetNextQid(); next selector            -> PStart
   ExecuteMetricsQuery (one selector; otsdb and some PromQL endpoints) always sends COMPLETE.
   The state manager of a qid is the ONLY reader of the state channel after READY and the ONLY
   caller of DeleteQuery for a metrics query:
       CANCELLED | TIMEOUT : mQuery.SetQueryIsCancelled(); DeleteQuery(qid); return
       ERROR | COMPLETE    : DeleteQuery(qid); return
       anything else       : keep listening.
   [rule] = true is this code.  [rule] = false is the variant "on CANCELLED / TIMEOUT only flag the
   query and keep listening; the executor's final COMPLETE removes the query" — used by the refuted
   statements only (it is wrong exactly because of the early return of ExecuteMultipleMetricsQuery).

   Every effect on the tables is a sequence of QueryLife operations ([m_q] is a QueryLife state and
   is only changed through QueryLife.step), so every theorem about QueryLife.run holds for the
   tables of a metrics run ([mtrace]).  A schedule is a list of [mop]: which goroutine moves next.
   The manager handles one message atomically (receive, flag, DeleteQuery); the executor moves from
   one blocking point to the next.  No proofs in this file. *)
From SigM Require Import Base QueryLife.
Open Scope N_scope.

Inductive mkind := KSingle | KMulti.    (* ExecuteMetricsQuery | ExecuteMultipleMetricsQuery *)

(* how the request was answered *)
Inductive mres :=
| ROk           (* results *)
| RCancelled    (* "query is cancelled" (multi) / result with the error "query cancelled" (single) *)
| RNotReady     (* "Did not receive ready state" *)
| RInitErr.     (* "Error initializing query status" (qid already running / 500 queries waiting) *)

Inductive mpc :=
| PStart                (* about to call StartQuery for the next selector (or to finish when none is left) *)
| PWaitReady (q : N)    (* blocked in <-rQuery.StateChan *)
| PApply (q : N)        (* state manager started; inside ApplyMetricsQuery *)
| PDone (r : mres).     (* the request has been answered *)

Record mst := mkM {
  m_q : st;               (* allRunningQueries / waitingQueries / watchers *)
  m_pc : mpc;             (* the executor goroutine *)
  m_todo : list N;        (* qids of the selectors that have not been started yet *)
  m_mgrs : list N;        (* qids whose manageStateForMetricsQuery goroutine is alive *)
  m_flags : list N        (* qids whose MetricsQuery has been flagged cancelled *)
}.

Inductive mop :=
| XStep                 (* the executor runs to its next blocking point *)
| MStep (q : N)         (* the state manager of q takes one message from the channel and acts on it *)
| EPull                 (* one iteration of PullQueriesToRun *)
| ECancel (q : N)       (* CancelQuery(q), by anybody, at any moment *)
| EFire (q : N)         (* the deadline of q's timeout watcher passes *)
| EOther (o : op).      (* any table operation of the other queries of the server *)

Definition minit (qids : list N) : mst := mkM init PStart qids [] [].

Definition memN (q : N) (l : list N) : bool := existsb (N.eqb q) l.
Definition removeN (q : N) (l : list N) : list N := filter (fun x => negb (x =? q)) l.

Definition op_qid (o : op) : option N :=
  match o with
  | Start q _ _ | Cancel q | Fire q | Complete q | Fail q | Delete q | Recv q => Some q
  | Pull => None
  end.

(* an operation of the other queries: it names none of the request's qids, and a Start uses a qid
   that is not live (the server's qid counter never repeats; hypothesis live_fresh of QueryLife) *)
Definition other_ok (qids : list N) (t : st) (o : op) : bool :=
  match op_qid o with
  | None => true
  | Some q => negb (memN q qids) &&
              match o with Start _ _ _ => negb (in_table q (running t ++ waiting t)) | _ => true end
  end.

Definition chan_of (q : N) (t : st) : list msg :=
  match lookup q (running t) with Some e => e_chan e | None => [] end.

(* a send through the rQuery pointer: it waits while the channel is full *)
Definition room_for (q : N) (t : st) : bool :=
  match lookup q (running t) with Some e => has_room e | None => true end.

(* the table operations a step performs, and the new executor / manager state *)
Definition mdecide (rule : bool) (k : mkind) (qids : list N) (mx : nat) (s : mst) (o : mop)
  : list op * mpc * list N * list N * list N :=
  let t := m_q s in
  let same := ([], m_pc s, m_todo s, m_mgrs s, m_flags s) in
  match o with
  | XStep =>
    match m_pc s with
    | PDone _ => same
    | PStart =>
      match m_todo s with
      | [] => ([], PDone ROk, [], m_mgrs s, m_flags s)
      | q :: rest =>
        match snd (step mx t (Start q false false)) with
        | OOk => ([Start q false false], PWaitReady q, rest, m_mgrs s, m_flags s)
        | _ => ([], PDone RInitErr, rest, m_mgrs s, m_flags s)
        end
      end
    | PWaitReady q =>
      match lookup q (running t) with
      | Some e =>
        match e_chan e with
        | [] => same                                                         (* admitted, nothing sent yet: cannot happen *)
        | READY :: _ => ([Recv q], PApply q, m_todo s, q :: m_mgrs s, m_flags s)  (* go manageStateForMetricsQuery *)
        | _ :: _ => ([Recv q], PDone RNotReady, m_todo s, m_mgrs s, m_flags s)
        end
      | None =>
        if in_table q (waiting t) then same                                  (* not admitted yet *)
        else ([], PDone RNotReady, m_todo s, m_mgrs s, m_flags s)            (* cancelled while waiting: reads CANCELLED *)
      end
    | PApply q =>
      let flagged := memN q (m_flags s) in
      match k with
      | KMulti =>
        if flagged then ([], PDone RCancelled, m_todo s, m_mgrs s, m_flags s)      (* early return, no COMPLETE *)
        else if room_for q t then ([Complete q], PStart, m_todo s, m_mgrs s, m_flags s)
        else same
      | KSingle =>
        if room_for q t then
          ([Complete q], PDone (if flagged then RCancelled else ROk), m_todo s, m_mgrs s, m_flags s)
        else same
      end
    end
  | MStep q =>
    if memN q (m_mgrs s) then
      match chan_of q t with
      | [] => same
      | m :: _ =>
        match m with
        | CANCELLED | TIMEOUT =>
          if rule then ([Recv q; Delete q], m_pc s, m_todo s, removeN q (m_mgrs s), q :: m_flags s)
          else ([Recv q], m_pc s, m_todo s, m_mgrs s, q :: m_flags s)
        | ERROR | COMPLETE => ([Recv q; Delete q], m_pc s, m_todo s, removeN q (m_mgrs s), m_flags s)
        | _ => ([Recv q], m_pc s, m_todo s, m_mgrs s, m_flags s)
        end
      end
    else same
  | EPull => ([Pull], m_pc s, m_todo s, m_mgrs s, m_flags s)
  | ECancel q => ([Cancel q], m_pc s, m_todo s, m_mgrs s, m_flags s)
  | EFire q => ([Fire q], m_pc s, m_todo s, m_mgrs s, m_flags s)
  | EOther o' => if other_ok qids t o' then ([o'], m_pc s, m_todo s, m_mgrs s, m_flags s) else same
  end.

Definition mtrace_step (rule : bool) (k : mkind) (qids : list N) (mx : nat) (s : mst) (o : mop) : list op :=
  fst (fst (fst (fst (mdecide rule k qids mx s o)))).

Definition mstep (rule : bool) (k : mkind) (qids : list N) (mx : nat) (s : mst) (o : mop) : mst :=
  let '(tops, pc, todo, mg, fl) := mdecide rule k qids mx s o in
  mkM (run mx (m_q s) tops) pc todo mg fl.

Definition mrun (rule : bool) (k : mkind) (qids : list N) (mx : nat) (s : mst) (ops : list mop) : mst :=
  fold_left (mstep rule k qids mx) ops s.

(* the table operations of a whole schedule *)
Fixpoint mtrace (rule : bool) (k : mkind) (qids : list N) (mx : nat) (s : mst) (ops : list mop) : list op :=
  match ops with
  | [] => []
  | o :: r => mtrace_step rule k qids mx s o ++ mtrace rule k qids mx (mstep rule k qids mx s o) r
  end.

(* ---------- notions used by the theorems ---------- *)
Definition answered (s : mst) : bool := match m_pc s with PDone _ => true | _ => false end.

(* nobody has anything left to do: every live state manager waits on an empty channel *)
Definition quiescent (s : mst) : bool := forallb (fun q => match chan_of q (m_q s) with [] => true | _ => false end) (m_mgrs s).

(* nothing of the request is left: no table entry, no state-manager goroutine, no timeout watcher *)
Definition clean (qids : list N) (s : mst) : bool :=
  match m_mgrs s with [] => true | _ => false end &&
  forallb (fun q => negb (in_table q (running (m_q s))) && negb (in_table q (waiting (m_q s)))
                    && negb (has_watcher q (m_q s))) qids.

(* every live manager takes the messages that are in its channel *)
Definition drain_ops (s : mst) : list mop :=
  flat_map (fun q => repeat (MStep q) (length (chan_of q (m_q s)))) (m_mgrs s).

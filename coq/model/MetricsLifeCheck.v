(* MetricsLifeCheck.v — executable comparison of the metrics-request model (MetricsLife.v) with the
   observations of the real ExecuteMetricsQuery / ExecuteMultipleMetricsQuery runs of the C17 harness:
   the harness imposes a schedule (it plays the puller, holds the search of every selector at a gate,
   lets the state managers run until they wait on an empty channel) and records, at every checkpoint,
   the running table (qid, isCancelled, len(StateChan)) sorted by qid, the waiting queue, the number
   of live manageStateForMetricsQuery goroutines, the number of live timeout watchers and how the
   request was answered (0 = not yet). *)
From SigM Require Import Base QueryLife QueryLifeCheck MetricsLife.
Open Scope N_scope.

Definition res_code (pc : mpc) : N :=
  match pc with
  | PDone ROk => 1 | PDone RCancelled => 2 | PDone RNotReady => 3 | PDone RInitErr => 4
  | _ => 0
  end.

Record mobs := mkMO { mo_run : list (N * bool * N); mo_wait : list N; mo_mgrs : N; mo_watch : N; mo_res : N }.

Definition mobs_ok (s : mst) (o : mobs) : bool :=
  list_eqb rview_eqb (view_running (m_q s))
           (map (fun x => (fst (fst x), snd (fst x), N.to_nat (snd x))) (mo_run o))
  && list_eqb N.eqb (map e_qid (waiting (m_q s))) (mo_wait o)
  && (N.of_nat (length (m_mgrs s)) =? mo_mgrs o)
  && (N.of_nat (length (watchers (m_q s))) =? mo_watch o)
  && (res_code (m_pc s) =? mo_res o).

(* indices of the checkpoints at which model and implementation differ *)
Fixpoint mcheck_from (k : mkind) (qids : list N) (mx : nat) (s : mst) (cps : list (list mop * mobs)) (idx : nat) : list nat :=
  match cps with
  | [] => []
  | (ops, o) :: r =>
    let s' := mrun true k qids mx s ops in
    (if mobs_ok s' o then [] else [idx]) ++ mcheck_from k qids mx s' r (S idx)
  end.

(* one case = (single?, qids of the selectors in order, MAX_RUNNING_QUERIES, checkpoints);
   result = indices of the cases with a disagreeing checkpoint *)
Definition mcase := (bool * list N * N * list (list mop * mobs))%type.

Definition mcheck_case (c : mcase) : list nat :=
  let '(single, qids, mx, cps) := c in
  mcheck_from (if single then KSingle else KMulti) qids (N.to_nat mx) (minit qids) cps O.

Fixpoint mcheck_cases (cs : list mcase) (idx : nat) : list nat :=
  match cs with
  | [] => []
  | c :: r => (match mcheck_case c with [] => [] | _ => [idx] end) ++ mcheck_cases r (S idx)
  end.

(* model self-check on a case (redundant with the theorems): when the request has been answered and
   the managers have drained their channels, nothing of it is left *)
Definition mselfcheck (c : mcase) : bool :=
  let '(single, qids, mx, cps) := c in
  let k := if single then KSingle else KMulti in
  let s := mrun true k qids (N.to_nat mx) (minit qids) (flat_map fst cps) in
  negb (answered s) || clean qids (mrun true k qids (N.to_nat mx) s (drain_ops s)).

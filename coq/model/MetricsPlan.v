(* MetricsPlan.v — executable model of a metrics selector query that is planned on one state of a metrics
   segment (shard) and executed on a later one (C08: "before and after block and segment rotation", for a
   query that is caught by the rotation).

   Code followed (one shard = one MetricsSegment object, identified by its Mid):
     pkg/segment/writer/metrics/metricssegment.go
       EncodeDatapoint                      -> Ingest: the datapoints go to the in-memory block
       MetricsBlock.rotateBlock/flushBlock  -> the in-memory block is written to <suffix>_<blknum>.tso/.tsg and listed
                                               in <suffix>.mbsu; Blknum++ ; the block is emptied
       MetricsSegment.CheckAndRotate(false) -> RotBlock (block full) | RotSeg (segment full: block flushed if it holds
                                               anything, then rotateSegment: next suffix, block number back to 0,
                                               mBlockSummary.Reset); nothing happens on an empty block / empty segment
       CheckAndRotate(true), timeBasedMetricsFlush -> the block part only (RotForced = RotBlock here)
       GetUnrotatedMetricsSegmentRequests   -> plan, open segment: BlocksToSearch = the blocks listed in the .mbsu of
                                               the current suffix, UnrotatedBlkToSearch = {current block number} if the
                                               in-memory block holds data, MetricsKeyBaseDir = current suffix; no
                                               request when both are empty
     pkg/segment/metadata/tsmeta.go GetMetricsSegmentRequests -> plan, closed segments known to the query metadata
     pkg/segment/writer/metrics/unrotatedquery.go SearchUnrotatedMetricsBlock -> the fix-up: if the CURRENT block
                                               number of the shard is not in UnrotatedBlkToSearch, or the request
                                               was built for another segment than the one open now (block numbers
                                               start again at 0 in every segment), the planned in-memory block is
                                               assumed flushed and added to BlocksToSearch;
                                               then the shard's current in-memory block is read (whatever it is)
     pkg/segment/search/metricssearch.go RawSearchMetricsSegment -> fix-up and in-memory block first, THEN the block
                                               numbers of BlocksToSearch are handed to the block workers, which read
                                               <MetricsKeyBaseDir>_<blk> files.  [late = true] is the other order
                                               (workers' channel filled before the fix-up): used by the refutation only.

   A datapoint is an abstract id (N).  Time-range filters are not modelled (every block overlaps the query window).
   Before fix 5fd2cca the fix-up compared block NUMBERS only: exec_prefix, see the _prefix_ theorems.
   No proofs in this file. *)
From SigM Require Import Base.
Open Scope N_scope.

Inductive op :=
| Ingest (ids : list N)
| RotBlock
| RotSeg
| RotForced.

Definition entry := (N * N * list N)%type.          (* suffix, block number, datapoints *)
Definition e_suf (e : entry) : N := fst (fst e).
Definition e_blk (e : entry) : N := snd (fst e).
Definition e_ids (e : entry) : list N := snd e.

Record st := mkSt {
  disk : list entry;     (* flushed blocks: files + their lines in the .mbsu of the suffix *)
  meta : list N;         (* suffixes of the closed segments known to the query metadata *)
  suf : N;               (* MetricsSegment.Suffix *)
  cur : N;               (* mBlockSummary.Blknum = currBlockNum *)
  mem : list N           (* the in-memory block *)
}.

Definition init : st := mkSt [] [] 0 0 [].

Definition rot_block (s : st) : st :=
  match mem s with
  | [] => s
  | _ => mkSt (disk s ++ [(suf s, cur s, mem s)]) (meta s) (suf s) (cur s + 1) []
  end.

Definition seg_has_data (s : st) : bool := existsb (fun e => e_suf e =? suf s) (disk s).

Definition rot_seg (s : st) : st :=
  let s1 := rot_block s in
  if seg_has_data s1 then mkSt (disk s1) (meta s1 ++ [suf s1]) (suf s1 + 1) 0 [] else s1.

Definition step (s : st) (o : op) : st :=
  match o with
  | Ingest ids => mkSt (disk s) (meta s) (suf s) (cur s) (mem s ++ ids)
  | RotBlock => rot_block s
  | RotForced => rot_block s
  | RotSeg => rot_seg s
  end.

Definition run (ops : list op) (s : st) : st := fold_left step ops s.

(* ---- plan ---- *)
Record req := mkReq { r_open : bool; r_suf : N; r_blocks : list N; r_unrot : list N }.

Definition blocks_of (d : list entry) (f : N) : list N :=
  map e_blk (filter (fun e => e_suf e =? f) d).

Definition plan (s : st) : list req :=
  map (fun f => mkReq false f (blocks_of (disk s) f) []) (meta s)
  ++ (let bl := blocks_of (disk s) (suf s) in
      let un := match mem s with [] => [] | _ => [cur s] end in
      match bl, un with
      | [], [] => []
      | _, _ => [mkReq true (suf s) bl un]
      end).

(* ---- execution ---- *)
Definition read_blk (d : list entry) (f b : N) : list N :=
  concat (map e_ids (filter (fun e => (e_suf e =? f) && (e_blk e =? b)) d)).

(* [segaware = true] is the code: the planned in-memory block counts as "still the current one" only if the current
   block number is the planned one AND the request was built for the segment that is open now
   (searchReq.MetricsKeyBaseDir = mSegment.keyBaseDir()).  [segaware = false] is the comparison of block numbers only
   (the code before fix 5fd2cca): used by the _prefix_ refutation. *)
Definition fixup (segaware : bool) (s' : st) (r : req) : list N :=
  if existsb (N.eqb (cur s')) (r_unrot r) && (negb segaware || (r_suf r =? suf s'))
  then r_blocks r else r_blocks r ++ r_unrot r.

Definition exec_req (late segaware : bool) (s' : st) (r : req) : list N :=
  if r_open r then
    mem s' ++ concat (map (read_blk (disk s') (r_suf r)) (if late then r_blocks r else fixup segaware s' r))
  else concat (map (read_blk (disk s') (r_suf r)) (r_blocks r)).

Definition exec_gen (late segaware : bool) (pl : list req) (s' : st) : list N :=
  concat (map (exec_req late segaware s') pl).

(* the code (late = false) / the other order of fix-up and hand-over (late = true) *)
Definition exec (late : bool) (pl : list req) (s' : st) : list N := exec_gen late true pl s'.
(* the code's order with the block-number-only comparison *)
Definition exec_prefix (pl : list req) (s' : st) : list N := exec_gen false false pl s'.

(* every datapoint the shard holds *)
Definition all_ids (s : st) : list N := concat (map e_ids (disk s)) ++ mem s.

Definition ingested (ops : list op) : list N :=
  concat (map (fun o => match o with Ingest ids => ids | _ => [] end) ops).

Definition no_seg_rotation (ops : list op) : bool :=
  forallb (fun o => match o with RotSeg => false | _ => true end) ops.

(* exact condition under which the block-number-only fix-up (exec_prefix) recognises a flushed planned block:
   same segment, or a different block number, or nothing was planned in memory *)
Definition race_guard (s s' : st) : bool :=
  (suf s' =? suf s) || negb (cur s' =? cur s) || match mem s with [] => true | _ => false end.

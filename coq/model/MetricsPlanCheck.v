(* MetricsPlanCheck.v — comparison of the MetricsPlan model with the observed result of a selector query whose
   requests were built on one state of a shard and executed on a later one (harness/cmd/c08/race.go). *)
From SigM Require Import Base MetricsPlan.
Open Scope N_scope.

Fixpoint ins (x : N) (l : list N) : list N :=
  match l with
  | [] => [x]
  | y :: r => if x <=? y then x :: l else y :: ins x r
  end.
Definition sortN (l : list N) : list N := fold_right ins [] l.

(* a case: the operations on the shard before the requests were built, the operations between building and
   executing them, and the ids of the datapoints of this shard the real query returned (sorted).
   Datapoints the shard held when the requests were built: the model's result must be exactly the observed one.
   Datapoints accepted later (between building and
   executing): whether they are returned also depends on the tags tree the requests point to (a series that starts
   reporting after a tags-tree rotation is not in it) - not modelled; for them the model's result is an upper bound. *)
Definition race_case := (list op * list op * list N)%type.

Definition memb (x : N) (l : list N) : bool := existsb (N.eqb x) l.

Definition check_race_case (c : race_case) : bool :=
  let '(before, between, observed) := c in
  let s := run before init in
  let held := all_ids s in
  let r := exec false (plan s) (run between s) in
  list_eqb N.eqb (sortN (filter (fun x => memb x held) r)) (filter (fun x => memb x held) observed)
  && forallb (fun x => memb x r) observed.

Fixpoint bad_idx (l : list race_case) (i : nat) : list nat :=
  match l with
  | [] => []
  | c :: r => (if check_race_case c then [] else [i]) ++ bad_idx r (S i)
  end.

Definition check_race (cs : list race_case) : list nat := bad_idx cs 0.

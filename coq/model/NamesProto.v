(* NamesProto.v — virtualtablenames.txt (pkg/virtualtable/virtualtable.go), the list of index names the start-up recovery
   scan depends on: syncSegMetaWithSegFullMeta adopts the unrotated segments (a .sfm, no line in segmeta.json yet) of the
   indexes this file lists, and of no other.
     LoadVirtualTableNamesFromFile  bufio.Scanner: every ScanLines token (a trailing "\r" dropped) is a name; the final
                                    unterminated token is a name too; a token of 64 KiB or more is an error (ErrTooLong);
                                    a file that does not exist is the empty list
     addVirtualTableHelper          names that are not in the in-memory map (loaded from the file at start-up) are appended:
                                    open(O_APPEND|O_CREAT), the record(s), fsync
   Byte level.  The writer has two switches so that the tree before and after repair c07fix_1 are the same definitions:
     two  = true : name and "\n" in two write(2) calls            (false: one write per call of the helper)
     heal = true : when the file is not empty and does not end in "\n", a "\n" goes out first (false: nothing is checked) *)
From SigM Require Import Base SegmetaProto.
Open Scope nat_scope.

(* ---- the reader ---- *)
Definition names_of (b : bytes) : list bytes := map drop_cr (lines b).

(* bufio.MaxScanTokenSize; [mx] is a parameter so that proofs do not unfold a large numeral *)
Definition too_long (mx : nat) (b : bytes) : bool := existsb (fun l => mx <=? length l) (lines b).

(* None = the reader returns an error (GetVirtualTableNames fails for the whole org) *)
Definition read_scan (mx : nat) (f : option bytes) : option (list bytes) :=
  match f with
  | None => Some []
  | Some b => if too_long mx b then None else Some (names_of b)
  end.

(* does a non-empty file lack the final "\n" *)
Definition needs_nl (b : bytes) : bool := negb (N.eqb (last b 10%N) 10).

(* a reader that REQUIRES the terminating newline of the last line (ReadString('\n') with io.EOF on a pending
   fragment treated as an error) *)
Definition read_strict (f : option bytes) : option (list bytes) :=
  match f with
  | None => Some []
  | Some b => if needs_nl b then None else Some (lines b)
  end.

(* ---- start-up adoption ---- *)
Fixpoint memb (n : bytes) (l : list bytes) : bool :=
  match l with
  | [] => false
  | x :: r => bytes_eqb n x || memb n r
  end.

Definition listed (names : option (list bytes)) (ix : bytes) : bool :=
  match names with
  | None => false                      (* "Error in getting vtable names": the scan returns, nothing is adopted *)
  | Some ns => memb ix ns
  end.

(* unrotated segments: (index name, ordinal); adopted iff the index is listed *)
Definition adopt (names : option (list bytes)) (segs : list (bytes * nat)) : list (bytes * nat) :=
  filter (fun s => listed names (fst s)) segs.

(* ---- the writer ---- *)
(* what one call of addVirtualTableHelper appends for one new name *)
Definition name_record (heal : bool) (file n : bytes) : bytes :=
  (if heal && needs_nl file then [10%N] else []) ++ n ++ [10%N].

(* ... as write(2) calls *)
Definition name_chunks (two heal : bool) (file n : bytes) : list bytes :=
  if two then [(if heal && needs_nl file then [10%N] else []) ++ n; [10%N]] else [name_record heal file n].

(* one process: [mem] = the in-memory map (names loaded at start-up + registered since); a name that is in it is not
   appended again.  The bytes the process appends, in order. *)
Fixpoint proc_stream (heal : bool) (file : bytes) (mem regs : list bytes) : bytes :=
  match regs with
  | [] => []
  | n :: r => if memb n mem then proc_stream heal file mem r
              else let a := name_record heal file n in a ++ proc_stream heal (file ++ a) (n :: mem) r
  end.

(* the names whose record lies completely inside the first k appended bytes: their registration had completed *)
Fixpoint reg_done (heal : bool) (file : bytes) (mem regs : list bytes) (k : nat) : list bytes :=
  match regs with
  | [] => []
  | n :: r => if memb n mem then reg_done heal file mem r k
              else let a := name_record heal file n in
                   if length a <=? k then n :: reg_done heal (file ++ a) (n :: mem) r (k - length a) else []
  end.

(* one generation: the process starts on [file], registers [regs] and dies after k appended bytes (k >= the length of
   the stream: it ran to its end) *)
Definition gen_file (heal : bool) (file : bytes) (g : list bytes * nat) : bytes :=
  file ++ firstn (snd g) (proc_stream heal file (names_of file) (fst g)).

Definition names_gens (heal : bool) (file : bytes) (gs : list (list bytes * nat)) : bytes :=
  fold_left (gen_file heal) gs file.

(* a name the writer accepts that the line protocol can carry: no "\n" inside, not changed by dropCR *)
Definition name_ok (n : bytes) : Prop := ~ In 10%N n /\ drop_cr n = n.

(* NamesProtoCheck.v — comparison of the index-names model with observations of the real code (harness/cmd/c07/names.go). *)
From SigM Require Import Base SegmetaProto NamesProto.
Open Scope nat_scope.

(* the traced calls on virtualtablenames.txt *)
Inductive nop :=
| NOpen                 (* open(O_APPEND|O_CREAT) *)
| NWrite (b : bytes)    (* write(2) on the O_APPEND descriptor *)
| NSync
| NOther (k : nat).     (* anything else on the file (truncation, positioned write, rename): another protocol *)

Definition nop_eqb (a b : nop) : bool :=
  match a, b with
  | NOpen, NOpen | NSync, NSync => true
  | NWrite x, NWrite y => bytes_eqb x y
  | _, _ => false
  end.

Fixpoint proc_ops (two heal : bool) (file : bytes) (mem regs : list bytes) : list nop :=
  match regs with
  | [] => []
  | n :: r => if memb n mem then proc_ops two heal file mem r
              else (NOpen :: map NWrite (name_chunks two heal file n) ++ [NSync])
                   ++ proc_ops two heal (file ++ name_record heal file n) (n :: mem) r
  end.

Definition bmax : nat := 256 * 256.

Definition subset (a b : list bytes) : bool := forallb (fun x => memb x b) a.
Definition onames_eqb (a b : option (list bytes)) : bool :=
  match a, b with
  | Some x, Some y => subset x y && subset y x
  | None, None => true
  | _, _ => false
  end.

(* file bytes (None = absent) -> what the real LoadVirtualTableNamesFromFile returned (the keys of its map; None = error) *)
Definition check_read (c : option bytes * option (list bytes)) : bool :=
  onames_eqb (read_scan bmax (fst c)) (snd c).

(* the file a crash left, the indexes the next process flushes into (in order), the file when that process has finished *)
Definition check_gen (heal : bool) (c : option bytes * list bytes * option bytes) : bool :=
  let '(f0, regs, f1) := c in
  let b0 := dflt [] f0 in
  match read_scan bmax f0 with
  | Some mem => bytes_eqb (b0 ++ proc_stream heal b0 mem regs) (dflt [] f1)
  | None => true
  end.

(* the names file at a restart; per index with reg_done flushes in unrotated segments only: were they searchable *)
Definition check_adopt (c : option bytes * list (bytes * bool)) : bool :=
  let names := read_scan bmax (fst c) in
  forallb (fun p => Bool.eqb (listed names (fst p)) (snd p)) (snd c).

Fixpoint bad {A} (f : A -> bool) (cs : list A) (i : nat) : list nat :=
  match cs with
  | [] => []
  | c :: r => (if f c then [] else [i]) ++ bad f r (S i)
  end.

(* index 0: the traced calls of generation 0 (started without a file) are the model's calls for its registrations *)
Definition check_names (two heal : bool) (regs0 : list bytes) (obs0 : list nop)
           (reads : list (option bytes * option (list bytes)))
           (gens : list (option bytes * list bytes * option bytes))
           (adopts : list (option bytes * list (bytes * bool))) : list nat :=
  (if list_eqb nop_eqb (proc_ops two heal [] [] regs0) obs0 then [] else [0])
  ++ bad check_read reads 1
  ++ bad (check_gen heal) gens (1 + length reads)
  ++ bad check_adopt adopts (1 + length reads + length gens).

(* Paths.v — C19 path confinement: executable model of Go's path/filepath.Clean and
   filepath.Join on '/'-separated byte strings, plain string concatenation, and one
   definition per site of siglens where a client-controlled name becomes a file path.
   Definitions only (no proofs).

   Go sources followed:
     path/filepath.Clean, filepath.Join (unix)            go/src/path/filepath/path.go
     pkg/lookups/lookups.go                                UploadLookupFile, GetLookupFile, DeleteLookupFile
     pkg/segment/query/processor/inputlookupcommand.go     inputlookupProcessor.Process, isCSVFormat
     pkg/dashboards/dashboards.go, folders.go              getDashboardDetailsPath, deleteDashboardFile, ...
     pkg/scroll/scroll.go                                  getScrollResultsFilename, GetScrollRecord
     pkg/config/config.go                                  GetSuffixFile, GetBaseSegDir, GetLookupPath
     pkg/segment/writer/segwriter.go                       getActiveBaseDirVTable (DeleteVirtualTableSegStore)
     pkg/virtualtable/virtualtable.go                      AddMapping, GetAliases/writeAliasFile/removeAliasFile
     pkg/segment/writer/metrics/metricssegment.go          getBaseMetricsKey, ForceFlushMetricsBlock -> tagstree.go flushSingleTagsTree
     pkg/usersavedqueries/usqueries.go                     getUsqFileName *)
From SigM Require Import Base.
Open Scope N_scope.

Definition SL : N := 47.   (* '/' *)
Definition DOT : N := 46.  (* '.' *)
Definition DD : list N := [DOT; DOT].

(* ---------- strings.Split(s, "/") : k separators give k+1 segments ---------- *)
Fixpoint split (s : list N) : list (list N) :=
  match s with
  | [] => [[]]
  | c :: r =>
    if c =? SL then [] :: split r
    else match split r with
         | h :: t => (c :: h) :: t
         | [] => [[c]]
         end
  end.

(* strings.Join(l, "/") *)
Fixpoint join_slash (l : list (list N)) : list N :=
  match l with
  | [] => []
  | x :: r => match r with [] => x | _ => x ++ SL :: join_slash r end
  end.

Definition no_slash (s : list N) : bool := forallb (fun c => negb (c =? SL)) s.

Definition is_dot (s : list N) : bool := bytes_eqb s [DOT].
Definition is_dotdot (s : list N) : bool := bytes_eqb s DD.
Definition is_skip (s : list N) : bool := match s with [] => true | _ => is_dot s end.
Definition is_normal (s : list N) : bool := negb (is_skip s) && negb (is_dotdot s).

(* ---------- the element loop of filepath.Clean as a stack machine ----------
   [acc] is the output so far, most recent element first.
     ""  "."  : skipped
     ".."     : r > dotdot -> backtrack one element
                !rooted    -> append ".." (the leading run of a relative path)
                rooted     -> dropped at the root
     other    : appended *)
Fixpoint stack (rooted : bool) (acc : list (list N)) (l : list (list N)) : list (list N) :=
  match l with
  | [] => acc
  | s :: r =>
    if is_skip s then stack rooted acc r
    else if is_dotdot s then
      match acc with
      | top :: acc' => if is_dotdot top then stack rooted (s :: acc) r else stack rooted acc' r
      | [] => if rooted then stack rooted [] r else stack rooted [s] r
      end
    else stack rooted (s :: acc) r
  end.

Definition rooted (s : list N) : bool := match s with c :: _ => c =? SL | [] => false end.

(* cleaned element list of a path *)
Definition segs_of (s : list N) : list (list N) := rev (stack (rooted s) [] (split s)).

(* filepath.Clean *)
Definition clean (s : list N) : list N :=
  match s with
  | [] => [DOT]
  | _ =>
    let segs := segs_of s in
    if rooted s then SL :: join_slash segs
    else match segs with [] => [DOT] | _ => join_slash segs end
  end.

(* filepath.Join: leading empty elements are dropped, the rest is joined with "/" and cleaned;
   all-empty gives "" *)
Fixpoint gojoin (elems : list (list N)) : list N :=
  match elems with
  | [] => []
  | [] :: r => gojoin r
  | _ => clean (join_slash elems)
  end.

(* ---------- confinement ----------
   [abs_segs p]: where an absolute path p lands, as the list of directory entries below "/",
   when ".." is resolved lexically (= what the kernel does when no component is a symlink
   and the intermediate directories exist; if one does not exist the operation fails). *)
Definition abs_segs (p : list N) : list (list N) := rev (stack true [] (split p)).

Fixpoint seg_prefix (a b : list (list N)) : bool :=
  match a, b with
  | [], _ => true
  | x :: a', y :: b' => bytes_eqb x y && seg_prefix a' b'
  | _ :: _, [] => false
  end.

(* p is base itself or below it *)
Definition confined (base p : list N) : bool :=
  rooted p && seg_prefix (abs_segs base) (abs_segs p).

(* depth bookkeeping of a relative name: starting [d] levels below the directory that must
   not be left, never step above it *)
Fixpoint min_ok (d : nat) (l : list (list N)) : bool :=
  match l with
  | [] => true
  | s :: r =>
    if is_skip s then min_ok d r
    else if is_dotdot s then match d with O => false | S d' => min_ok d' r end
    else min_ok (S d) r
  end.

Definition stays_within (d : nat) (name : list N) : bool := min_ok d (split name).
Definition never_negative (name : list N) : bool := stays_within 0 name.

(* relative clean of a name: how many levels it climbs, and what it appends afterwards *)
Definition ups (name : list N) : nat := length (filter is_dotdot (stack false [] (split name))).
Definition body (name : list N) : list (list N) :=
  rev (filter (fun s => negb (is_dotdot s)) (stack false [] (split name))).

(* ---------- small string helpers used by the validators ---------- *)
Definition lower_c (c : N) : N := if (65 <=? c) && (c <=? 90) then c + 32 else c.
Definition lower (s : list N) : list N := map lower_c s.
Fixpoint has_prefix (s p : list N) : bool :=
  match p, s with
  | [], _ => true
  | x :: p', y :: s' => (x =? y) && has_prefix s' p'
  | _ :: _, [] => false
  end.
Definition has_suffix (s x : list N) : bool := has_prefix (rev s) (rev x).
Definition is_digit (c : N) : bool := (48 <=? c) && (c <=? 57).
(* strconv.FormatInt / FormatUint output: digits, optional '-' *)
Definition numeral (s : list N) : bool :=
  match s with [] => false | _ => forallb (fun c => is_digit c || (c =? 45)) s end.
(* uuid.New().String(): hex digits and '-' *)
Definition uuid_char (c : N) : bool := is_digit c || ((97 <=? c) && (c <=? 102)) || (c =? 45).
Definition uuid_like (s : list N) : bool := match s with [] => false | _ => forallb uuid_char s end.
Fixpoint mem (x : list N) (tbl : list (list N)) : bool :=
  match tbl with [] => false | y :: r => bytes_eqb x y || mem x r end.

(* utils.IsSafePathComponent (pkg/utils/fileutils.go, added by fix C19-validate-names):
   non-empty, not "." or "..", no '/', no '\', no NUL *)
Definition safe_char (c : N) : bool := negb (c =? SL) && negb (c =? 92) && negb (c =? 0).
Definition safe_component (s : list N) : bool :=
  match s with
  | [] => false
  | _ => negb (is_dot s) && negb (is_dotdot s) && forallb safe_char s
  end.

(* string literals *)
Definition s_lookups := [108;111;111;107;117;112;115].                 (* lookups *)
Definition s_csv := [46;99;115;118].                                   (* .csv *)
Definition s_csvgz := [46;99;115;118;46;103;122].                      (* .csv.gz *)
Definition s_json := [46;106;115;111;110].                             (* .json *)
Definition s_querynodes := [113;117;101;114;121;110;111;100;101;115].  (* querynodes *)
Definition s_ingestnodes := [105;110;103;101;115;116;110;111;100;101;115]. (* ingestnodes *)
Definition s_dashboards := [100;97;115;104;98;111;97;114;100;115].     (* dashboards *)
Definition s_details := [100;101;116;97;105;108;115].                  (* details *)
Definition s_scroll := [115;99;114;111;108;108].                       (* scroll *)
Definition s_suffix := [115;117;102;102;105;120].                      (* suffix *)
Definition s_dotsuffix := [46;115;117;102;102;105;120].                (* .suffix *)
Definition s_final := [102;105;110;97;108].                            (* final *)
Definition s_ts := [116;115].                                          (* ts *)
Definition s_tth := [116;116;104].                                     (* tth *)
Definition s_vtabledata := [118;116;97;98;108;101;100;97;116;97].      (* vtabledata *)
Definition s_mappings := [109;97;112;112;105;110;103;115].             (* mappings *)
Definition s_aliases := [97;108;105;97;115;101;115].                   (* aliases *)
Definition s_usq := [117;115;101;114;115;97;118;101;100;113;117;101;114;105;101;115]. (* usersavedqueries *)
Definition s_usqinfo := [117;115;113;105;110;102;111].                 (* usqinfo *)
Definition s_bin := [46;98;105;110].                                   (* .bin *)

(* ---------- derivation sites ----------
   D = configured data path; always ends in "/" (InitializeDefaultConfig / ExtractConfigData
   append one).  H = config.GetHostID() (server-chosen, a single path element). *)

(* config.GetLookupPath() = DataPath + "lookups/" *)
Definition lookups_dir (D : list N) : list N := D ++ s_lookups ++ [SL].

(* UploadLookupFile: the "name" form field gets the extension of the uploaded file appended
   unless it already ends (case-insensitively) in .csv / .csv.gz.
   Validator before the fix ([upload_ok_v0]): name <> "".  Since the fix: IsSafePathComponent. *)
Definition upload_name (name : list N) (gz : bool) : list N :=
  if has_suffix (lower name) s_csv || has_suffix (lower name) s_csvgz then name
  else name ++ (if gz then s_csvgz else s_csv).
Definition upload_ok_v0 (name : list N) : bool := match name with [] => false | _ => true end.
Definition upload_ok (name : list N) : bool := safe_component name.
Definition site_lookup_upload (D name : list N) (gz : bool) : list N :=
  gojoin [lookups_dir D; upload_name name gz].

(* the upload with all its client-controlled variants: extension of the uploaded file (gz),
   the form field overwrite, and whether the destination already exists (409 without overwrite) *)
Definition lookup_upload_open (D name : list N) (gz overwrite existed : bool) : option (list N) :=
  if upload_ok name then
    if existed && negb overwrite then None else Some (site_lookup_upload D name gz)
  else None.

(* GetLookupFile / DeleteLookupFile: filepath.Join(lookupsDir, route parameter), no validator
   in the handler; fasthttp/router hands over one raw path element (never contains '/') *)
Definition site_lookup_file (D name : list N) : list N := gojoin [lookups_dir D; name].

(* inputlookup: validators IsSafePathComponent (since the fix) and isCSVFormat (suffix .csv or
   .csv.gz), then filepath.Join *)
Definition inputlookup_ok_v0 (f : list N) : bool := has_suffix f s_csv || has_suffix f s_csvgz.
Definition inputlookup_ok (f : list N) : bool := safe_component f && inputlookup_ok_v0 f.
Definition site_inputlookup (D f : list N) : list N := gojoin [lookups_dir D; f].

(* Every client-controlled option of the inputlookup command (structs.InputLookup as the SPL
   parser fills it): start=, max=, append=, strict=, a where-clause present or not, first
   command of the query or not. *)
Record il_opts := mk_il {
  il_start : N; il_max : N; il_append : bool; il_strict : bool; il_where : bool; il_first : bool }.

(* Which file ONE call of inputlookupProcessor.Process (new pipeline; called once per result
   batch, re-opening the file each time) or of aggregations.PerformInputLookup (old pipeline)
   opens.  [cursor] is the processor's row cursor p.start at that call: il_start on the first
   batch (NewInputLookupDP / Rewind), the row reached so far on later batches.  The code
   validates the name before anything else and looks at neither the options nor the cursor. *)
Definition inputlookup_open (D : list N) (o : il_opts) (cursor : N) (f : list N) : option (list N) :=
  if inputlookup_ok f then Some (site_inputlookup D f) else None.

(* documentation of seeded defect C19b: "validate only before the first row is read" — the
   cursor starts at the client's start= option, so start>=1 skips the validation *)
Definition inputlookup_open_cursor0 (D : list N) (o : il_opts) (cursor : N) (f : list N) : option (list N) :=
  if cursor =? 0 then inputlookup_open D o cursor f else Some (site_inputlookup D f).

(* dashboards: DataPath + "querynodes/" + hostID + "/dashboards/details/" + id + ".json" *)
Definition site_dashboard (D H id : list N) : list N :=
  D ++ s_querynodes ++ [SL] ++ H ++ [SL] ++ s_dashboards ++ [SL] ++ s_details ++ [SL] ++ id ++ s_json.

(* scroll: DataPath + hostID + "/scroll/" + scroll_id + ".csv"; GetScrollRecord only uses a
   client id that is a key of the in-memory table (keys are uuid.New().String()) *)
Definition site_scroll (D H id : list N) : list N :=
  D ++ H ++ [SL] ++ s_scroll ++ [SL] ++ id ++ s_csv.
Definition scroll_ok (table : list (list N)) (id : list N) : bool := mem id table.

(* index names (bulk action line, ProcessIndexRequestPle, deleteIndex), index and alias names of
   AddAliases / RemoveAliases, tag keys at flushSingleTagsTree: no validator before the fix,
   IsSafePathComponent since *)
Definition index_ok (idx : list N) : bool := safe_component idx.
Definition alias_ok (idx : list N) : bool := safe_component idx.
Definition tagkey_ok (key : list N) : bool := safe_component key.

(* bulk ingest, index name from the action line:
   config.GetSuffixFile, config.GetBaseSegDir, getActiveBaseDirVTable *)
Definition site_suffix_file (D H idx sid : list N) : list N :=
  D ++ H ++ [SL] ++ s_suffix ++ [SL] ++ idx ++ [SL] ++ sid ++ s_dotsuffix.
Definition site_segdir (D H idx sid suf : list N) : list N :=
  D ++ H ++ [SL] ++ s_final ++ [SL] ++ idx ++ [SL] ++ sid ++ [SL] ++ suf ++ [SL].
Definition site_active_dir (D H idx : list N) : list N :=
  D ++ H ++ [SL] ++ s_final ++ [SL] ++ idx ++ [SL].

(* delete-index (pkg/es/writer/esBulkHandler.go deleteIndex): the requested name / pattern is
   EXPANDED first (vtable.ExpandAndReturnIndexNames: "*", wildcards, aliases, comma lists) against
   the org's virtual-table list L, and every expanded name that passes
       IsSafePathComponent(name) && IsVirtualTablePresent(name)
   has <data>/<host>/final/<name>/ removed with os.RemoveAll.  L is whatever the names file
   holds: names written before the validator existed, synced from other nodes, or registered by
   an entry point that did not validate — NOT necessarily safe components.  [expanded] is the
   result of the expansion, whatever its semantics. *)
Definition delete_index_removed (D H : list N) (L expanded : list (list N)) : list (list N) :=
  map (site_active_dir D H) (filter (fun n => index_ok n && mem n L) expanded).

(* documentation of seeded defect C19c: only the REQUESTED name is validated, once, up front *)
Definition delete_index_removed_reqonly (D H req : list N) (L expanded : list (list N)) : list (list N) :=
  if index_ok req then map (site_active_dir D H) (filter (fun n => mem n L) expanded) else [].

(* the expansion of the pattern forms the harness uses: "*" = the whole list, "*sfx" = names
   ending in sfx (sfx without regexp metacharacters), otherwise the name itself *)
Definition expand_simple (pat : list N) (L : list (list N)) : list (list N) :=
  match pat with
  | 42 :: sfx => filter (fun n => has_suffix n sfx) L
  | _ => [pat]
  end.

(* registration (vtable.AddVirtualTable / addVirtualTableHelper / AddMapping, since fix
   C19-validate-index-registration): a name that is not a safe component is never added to the
   list and never names a mapping file *)
Definition register_index (L : list (list N)) (name : list N) : list (list N) :=
  if index_ok name then (if mem name L then L else L ++ [name]) else L.

(* virtual table mapping / alias files: VTable{Mappings,Aliases}Dir + [orgid + "/"] + name + ".json"
   org = "" for orgid 0, else its decimal *)
Definition org_pfx (org : list N) : list N := match org with [] => [] | _ => org ++ [SL] end.
Definition site_mapping (D H org idx : list N) : list N :=
  D ++ s_ingestnodes ++ [SL] ++ H ++ [SL] ++ s_vtabledata ++ [SL] ++ s_mappings ++ [SL] ++ org_pfx org ++ idx ++ s_json.
Definition site_alias (D H org idx : list N) : list N :=
  D ++ s_ingestnodes ++ [SL] ++ H ++ [SL] ++ s_vtabledata ++ [SL] ++ s_aliases ++ [SL] ++ org_pfx org ++ idx ++ s_json.

(* metrics: DataPath + hostID + "/final/ts/" + mid + "/" + suffix + "/"; mid is the shard number
   xxhash(metric name) mod shards printed in decimal: the metric name itself never reaches a path *)
Definition site_metrics (D H mid suf : list N) : list N :=
  D ++ H ++ [SL] ++ s_final ++ [SL] ++ s_ts ++ [SL] ++ mid ++ [SL] ++ suf ++ [SL].

(* tags tree files (pkg/segment/writer/metrics/tagstree.go getTagsTreeFileName, flushed from
   metricssegment.go): GetFinalTagsTreeDir(mid, suffix) + tagKey — the TAG KEY of an ingested
   datapoint is the file name, no validator *)
Definition site_tagstree (D H mid suf key : list N) : list N :=
  D ++ H ++ [SL] ++ s_final ++ [SL] ++ s_tth ++ [SL] ++ mid ++ [SL] ++ suf ++ [SL] ++ key.

(* saved queries: one file per tenant; the query name is a JSON key, never a path element *)
Definition site_usq (D H org : list N) : list N :=
  D ++ s_querynodes ++ [SL] ++ H ++ [SL] ++ s_usq ++ [SL] ++ s_usqinfo ++
  (match org with [] => [] | _ => 45 :: org end) ++ s_bin.

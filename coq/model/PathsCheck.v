(* PathsCheck.v — executable comparison of the path model with observations of the real
   code (used by the generated case files of C19). *)
From SigM Require Import Base Paths.
Open Scope N_scope.

Fixpoint bad_indices {A} (ok : A -> bool) (l : list A) (i : nat) : list nat :=
  match l with
  | [] => []
  | x :: r => (if ok x then [] else [i]) ++ bad_indices ok r (S i)
  end.

(* Go's filepath.Clean(input) = output, byte for byte *)
Definition check_clean (cases : list (list N * list N)) : list nat :=
  bad_indices (fun c => bytes_eqb (clean (fst c)) (snd c)) cases O.

(* Go's filepath.Join(elems...) = output *)
Definition check_join (cases : list (list (list N) * list N)) : list nat :=
  bad_indices (fun c => bytes_eqb (gojoin (fst c)) (snd c)) cases O.

(* one call of a derivation site *)
Inductive call :=
| LookupUpload (name : list N) (gz : bool)
| LookupFile (name : list N)
| LookupUploadV (name : list N) (gz overwrite existed : bool)
| InputLookup (o : il_opts) (f : list N)
| Dashboard (id : list N)
| Scroll (id : list N)
| SuffixFile (idx sid : list N)
| SegDir (idx sid suf : list N)
| ActiveDir (idx : list N)
| Mapping (org idx : list N)
| Alias (org idx : list N)
| Metrics (mid suf : list N)
| TagsTree (mid suf key : list N)
| Usq (org : list N).

Definition site_path (D H : list N) (c : call) : list N :=
  match c with
  | LookupUpload n gz => site_lookup_upload D n gz
  | LookupFile n => site_lookup_file D n
  | LookupUploadV n gz ow ex => match lookup_upload_open D n gz ow ex with Some p => p | None => [] end
  (* first call: the cursor is the client's start= option; a refused name opens nothing *)
  | InputLookup o f => match inputlookup_open D o (il_start o) f with Some p => p | None => [] end
  | Dashboard id => site_dashboard D H id
  | Scroll id => site_scroll D H id
  | SuffixFile i s => site_suffix_file D H i s
  | SegDir i s u => site_segdir D H i s u
  | ActiveDir i => site_active_dir D H i
  | Mapping o i => site_mapping D H o i
  | Alias o i => site_alias D H o i
  | Metrics m u => site_metrics D H m u
  | TagsTree m u k => site_tagstree D H m u k
  | Usq o => site_usq D H o
  end.

(* observation: the absolute, symlink-free location the real operation touched (created,
   overwrote, read or removed) and whether the harness found it outside the data directory.
   The model must name the same location and give the same inside/outside verdict. *)
Definition check_sites (D H : list N) (cases : list (call * (list N * bool))) : list nat :=
  bad_indices (fun c =>
    let p := site_path D H (fst c) in
    bytes_eqb (clean p) (fst (snd c)) && Bool.eqb (negb (confined D p)) (snd (snd c))) cases O.

(* validators: (options, inputlookup file name, did the call get as far as opening a file) *)
Definition is_some {A} (x : option A) : bool := match x with Some _ => true | None => false end.
Definition check_inputlookup_guard (cases : list (il_opts * (list N * bool))) : list nat :=
  bad_indices (fun c => Bool.eqb (is_some (inputlookup_open [] (fst c) (il_start (fst c)) (fst (snd c)))) (snd (snd c))) cases O.

(* delete-index: (list L, pattern, [(name, was its directory removed)]) for names whose
   directory existed before the request *)
Definition check_delete (cases : list (list (list N) * (list N * list (list N * bool)))) : list nat :=
  bad_indices (fun c =>
    let L := fst c in let pat := fst (snd c) in
    let removed := filter (fun n => index_ok n && mem n L) (expand_simple pat L) in
    forallb (fun o => Bool.eqb (mem (fst o) removed) (snd o)) (snd (snd c))) cases O.

(* IsSafePathComponent: (name, was it accepted by the site's validator) *)
Definition check_safe (cases : list (list N * bool)) : list nat :=
  bad_indices (fun c => Bool.eqb (safe_component (fst c)) (snd c)) cases O.

(* model self-check, redundant with the theorems: a name the guard accepts is confined *)
Definition selfcheck_join (D : list N) (names : list (list N)) : list nat :=
  bad_indices (fun n => implb (stays_within 1 n) (confined D (site_lookup_file D n))) names O.

(* Pipe.v — executable model of the query pipeline commands of
   pkg/segment/query/processor (C06).  Definitions only, no proofs.

   Level A: a command is a batch-stream transformer {init; step; finish} that
   follows the Process() method of the Go processor (same case splits, same
   order of effects); [run] is what a consumer of the DataProcessor sees.
   Level B: the DataProcessor.Fetch loop itself (dataprocessor.go:229-283) with
   CachedStream (streamer.go), bottleneck suppression, two-pass rewind, EOF.

   Rows are association lists field -> value; a missing field and a null
   (SS_DT_BACKFILL) cell are the same thing ([get] returns VNull). *)
From SigM Require Import Base.
Open Scope N_scope.

(* ---------- rows ---------- *)
Definition field := list N.            (* column name, bytes *)
Inductive value := VNull | VNum (z : Z) | VStr (s : list N).
Definition row := list (field * value).
Definition batch := list row.

Definition field_eqb (a b : field) : bool := list_eqb N.eqb a b.
Definition value_eqb (a b : value) : bool :=
  match a, b with
  | VNull, VNull => true
  | VNum x, VNum y => Z.eqb x y
  | VStr x, VStr y => list_eqb N.eqb x y
  | _, _ => false
  end.
Definition is_null (v : value) : bool := match v with VNull => true | _ => false end.

Fixpoint get (r : row) (f : field) : value :=
  match r with
  | [] => VNull
  | (g, v) :: t => if field_eqb g f then v else get t f
  end.

Fixpoint set_field (r : row) (f : field) (v : value) : row :=
  match r with
  | [] => [(f, v)]
  | (g, w) :: t => if field_eqb g f then (g, v) :: t else (g, w) :: set_field t f v
  end.

Definition tuple := list value.
Definition tuple_eqb (a b : tuple) : bool := list_eqb value_eqb a b.
Definition proj (fields : list field) (r : row) : tuple := map (get r) fields.

(* ---------- level A: commands ---------- *)
(* step returns (state, output rows of this batch, EOF signalled with this output) *)
Record command := mkCmd {
  st : Type;
  init : st;
  step : st -> batch -> st * batch * bool;
  finish : st -> batch      (* Process(nil): what is emitted when the input has ended *)
}.

(* the successive outputs of a command fed with the batches bs; after an EOF
   from the command itself (head) nothing more is fetched and Process(nil) is
   not called *)
Fixpoint run_batches_from (c : command) (s : st c) (bs : list batch) : list batch :=
  match bs with
  | [] => [finish c s]
  | b :: r =>
    let '(s', o, e) := step c s b in
    if e then [o] else o :: run_batches_from c s' r
  end.
Definition run_batches (c : command) (bs : list batch) : list batch :=
  run_batches_from c (init c) bs.
Definition run (c : command) (bs : list batch) : batch := concat (run_batches c bs).

(* a chain of commands; between two stages the batches may be re-cut by any
   function that preserves the row sequence (CachedStream leftovers, nil outputs
   skipped by Fetch, merge of streams) *)
Inductive stage := Stage (c : command) (rb : list batch -> list batch).
Definition stage_cmd (s : stage) : command := match s with Stage c _ => c end.
Fixpoint run_chain (cs : list stage) (bs : list batch) : list batch :=
  match cs with
  | [] => bs
  | Stage c rb :: r => run_chain r (rb (run_batches c bs))
  end.
(* the meaning of a chain on the un-cut stream *)
Fixpoint chain_sem (cs : list stage) (rows : batch) : batch :=
  match cs with
  | [] => rows
  | Stage c _ :: r => chain_sem r (run c [rows])
  end.

(* commands that handle a batch row by row with no batch-level effect *)
Fixpoint rows_fold {S : Type} (f : S -> row -> S * list row) (s : S) (b : batch) : S * batch :=
  match b with
  | [] => (s, [])
  | r :: t =>
    let '(s1, o1) := f s r in
    let '(s2, o2) := rows_fold f s1 t in
    (s2, o1 ++ o2)
  end.
Definition row_cmd {S : Type} (i : S) (f : S -> row -> S * list row) (fin : S -> batch) : command :=
  mkCmd S i (fun s b => let '(s', o) := rows_fold f s b in (s', o, false)) fin.

(* ---------- head ---------- *)
Fixpoint takeN {A : Type} (k : N) (l : list A) : list A :=
  match l with
  | [] => []
  | x :: r => if k =? 0 then [] else x :: takeN (k - 1) r
  end.

(* headcommand.go Process, count form: numToKeep = limit - numRecordsSent;
   DiscardAfter(numToKeep); numRecordsSent += kept; EOF iff numRecordsSent >= limit *)
Definition head_cmd (n : N) : command :=
  mkCmd N 0
    (fun sent b =>
       let keep := takeN (n - sent) b in
       let sent' := sent + N.of_nat (length keep) in
       (sent', keep, n <=? sent'))
    (fun _ => []).

(* headcommand.go processHeadExpr: head <bool-expr> [limit=N] [null=b] [keeplast=b].
   cond r = Some true/false, None = the expression is null on this row. *)
Record head_opts := { h_max : N; h_null : bool; h_keeplast : bool }.

Fixpoint head_rows (cond : row -> option bool) (o : head_opts) (sent : N) (done : bool)
  (b : batch) : N * bool * batch :=
  match b with
  | [] => (sent, done, [])
  | r :: t =>
    if done || negb (sent <? h_max o) then (sent, done, [])
    else
      match cond r with
      | Some true =>
        let '(s2, d2, out) := head_rows cond o (sent + 1) false t in (s2, d2, r :: out)
      | Some false =>
        if h_keeplast o
        then let '(s2, d2, out) := head_rows cond o (sent + 1) true t in (s2, d2, r :: out)
        else (sent, true, [])
      | None =>
        if h_null o
        then let '(s2, d2, out) := head_rows cond o (sent + 1) false t in (s2, d2, r :: out)
        else if h_keeplast o
        then let '(s2, d2, out) := head_rows cond o (sent + 1) true t in (s2, d2, r :: out)
        else (sent, true, [])
      end
  end.

Definition head_expr_cmd (cond : row -> option bool) (o : head_opts) : command :=
  mkCmd (N * bool) (0, false)
    (fun s b =>
       let '(sent, done) := s in
       if done then (s, [], true)
       else
         let '(s2, d2, out) := head_rows cond o sent done b in
         let d3 := d2 || (s2 =? h_max o) in
         ((s2, d3), out, d3))
    (fun _ => []).

(* ---------- tail ---------- *)
Definition lastN {A : Type} (n : N) (l : list A) : list A :=
  skipn (N.to_nat (N.of_nat (length l) - n)) l.

(* tailcommand.go: finalIqr is replaced when it is nil or the batch alone has
   >= TailRows rows; otherwise the front of finalIqr is discarded so that the
   appended result has TailRows rows.  Output (reversed) only at end of input. *)
Definition tail_cmd (n : N) : command :=
  mkCmd (option batch) None
    (fun fin b =>
       let lb := N.of_nat (length b) in
       match fin with
       | None => (Some (lastN n b), [], false)
       | Some f =>
         if n <=? lb then (Some (lastN n b), [], false)
         else (Some (lastN (n - lb) f ++ b), [], false)
       end)
    (fun fin => match fin with None => [] | Some f => rev f end).

(* ---------- row-wise commands: where, eval, fields, rename, fillnull <fields>,
   rex, regex, makemv, mvexpand, bin span=..: a pure function of the row ---------- *)
Definition rowwise_cmd (f : row -> list row) : command :=
  row_cmd tt (fun s r => (s, f r)) (fun _ => []).

(* ---------- dedup ---------- *)
Record dedup_opts := {
  d_limit : N; d_fields : list field;
  d_consecutive : bool; d_keepempty : bool; d_keepevents : bool }.

Definition dstate := list (N * N).      (* combinationHashes: hash -> count *)
Fixpoint dget (m : dstate) (k : N) : option N :=
  match m with
  | [] => None
  | (k', c) :: t => if k' =? k then Some c else dget t k
  end.
Fixpoint dincr (m : dstate) (k : N) : dstate :=
  match m with
  | [] => [(k, 1)]
  | (k', c) :: t => if k' =? k then (k', c + 1) :: t else (k', c) :: dincr t k
  end.

(* the key of a row: the per-field hashes folded with [C] over the field list; a
   null/invalid field ends the row (continue RecordLoop) before the map is touched.
   dedupcommand.go: hash = (hash ^ value.Hash()) * dedupHashPrime  (uint64) *)
Fixpoint row_key (C : N -> N -> N) (H : value -> N) (fields : list field) (r : row) (acc : N) : option N :=
  match fields with
  | [] => Some acc
  | f :: t =>
    let v := get r f in
    if is_null v then None else row_key C H t r (C acc (H v))
  end.
(* the code: FNV-1a style step, order sensitive *)
Definition fnv_step (acc h : N) : N := (N.lxor acc h * 1099511628211) mod 18446744073709551616.

Definition clear_fields (fields : list field) (r : row) : row :=
  fold_left (fun r f => set_field r f VNull) fields r.

Definition dedup_row (C : N -> N -> N) (H : value -> N) (o : dedup_opts) (m : dstate) (r : row) : dstate * list row :=
  let dropped := if d_keepevents o then [clear_fields (d_fields o) r] else [] in
  match row_key C H (d_fields o) r 0 with
  | None => (m, if d_keepempty o then [r] else dropped)
  | Some h =>
    let out := match dget m h with
               | Some c => if d_limit o <=? c then dropped else [r]
               | None => [r]
               end in
    let m1 := dincr m h in
    let m2 := if d_consecutive o then filter (fun kc => fst kc =? h) m1 else m1 in
    (m2, out)
  end.

Definition dedup_cmd_gen (C : N -> N -> N) (H : value -> N) (o : dedup_opts) : command :=
  row_cmd [] (dedup_row C H o) (fun _ => []).
(* the code *)
Definition dedup_cmd : (value -> N) -> dedup_opts -> command := dedup_cmd_gen fnv_step.
(* the code before the fix "dedup combines the field hashes in order": hash ^= value.Hash() *)
Definition dedup_cmd_xor : (value -> N) -> dedup_opts -> command := dedup_cmd_gen N.lxor.

(* the documented meaning: the first [limit] rows of each distinct combination of
   field values, order kept (rows with a null field dropped) *)
Fixpoint count_tuple (k : tuple) (seen : list tuple) : N :=
  match seen with
  | [] => 0
  | x :: t => (if tuple_eqb x k then 1 else 0) + count_tuple k t
  end.
Fixpoint dedup_spec_from (limit : N) (fields : list field) (seen : list tuple) (rows : batch) : batch :=
  match rows with
  | [] => []
  | r :: t =>
    let k := proj fields r in
    if existsb is_null k then dedup_spec_from limit fields seen t
    else if count_tuple k seen <? limit
         then r :: dedup_spec_from limit fields (k :: seen) t
         else dedup_spec_from limit fields (k :: seen) t
  end.
Definition dedup_spec (limit : N) (fields : list field) (rows : batch) : batch :=
  dedup_spec_from limit fields [] rows.

(* key of a value combination as the code computes it *)
Definition comb_key (C : N -> N -> N) (H : value -> N) (k : tuple) : N := fold_left (fun a v => C a (H v)) k 0.
Definition xor_key : (value -> N) -> tuple -> N := comb_key N.lxor.
(* guard: on the combinations of this input the key separates distinct combinations
   (no collision of the 64-bit key) *)
Fixpoint keys_injective (C : N -> N -> N) (H : value -> N) (ks : list tuple) : bool :=
  match ks with
  | [] => true
  | k :: t =>
    forallb (fun k' => negb (comb_key C H k =? comb_key C H k') || tuple_eqb k k') t && keys_injective C H t
  end.
Definition nonnull_tuples (fields : list field) (rows : batch) : list tuple :=
  filter (fun k => negb (existsb is_null k)) (map (proj fields) rows).

(* ---------- top / rare: count per value combination, order by count ---------- *)
Definition tr_state := list (tuple * N).
Fixpoint tr_incr (m : tr_state) (k : tuple) : tr_state :=
  match m with
  | [] => [(k, 1)]
  | (k', c) :: t => if tuple_eqb k' k then (k', c + 1) :: t else (k', c) :: tr_incr t k
  end.
Fixpoint tr_insert (le : N -> N -> bool) (x : tuple * N) (l : tr_state) : tr_state :=
  match l with
  | [] => [x]
  | y :: t => if le (snd x) (snd y) then x :: y :: t else y :: tr_insert le x t
  end.
Definition tr_sort (le : N -> N -> bool) (l : tr_state) : tr_state :=
  fold_right (tr_insert le) [] l.
Definition tr_render (fields : list field) (countf : field) (kc : tuple * N) : row :=
  combine fields (fst kc) ++ [(countf, VNum (Z.of_N (snd kc)))].
(* is_top: most frequent first; otherwise least frequent first *)
Definition toprare_cmd (is_top : bool) (limit : N) (fields : list field) (countf : field) : command :=
  row_cmd [] (fun m r => (tr_incr m (proj fields r), []))
    (fun m => map (tr_render fields countf)
                (takeN limit (tr_sort (if is_top then fun a b => b <=? a else fun a b => a <=? b) m))).

(* ---------- stats: any monoid ---------- *)
Record monoid := { mcar : Type; mzero : mcar; mop : mcar -> mcar -> mcar }.
Definition magg (m : monoid) (inj : row -> mcar m) (b : batch) : mcar m :=
  fold_left (fun a r => mop m a (inj r)) b (mzero m).
Definition stats_cmd (m : monoid) (inj : row -> mcar m) (render : mcar m -> batch) : command :=
  mkCmd (mcar m) (mzero m) (fun s b => (mop m s (magg m inj b), [], false)) render.

(* concrete: stats count, sum(v) by <fields>  (groups in first-seen order) *)
Definition gs_state := list (tuple * (N * Z)).
Fixpoint gs_add (m : gs_state) (k : tuple) (dv : option Z) : gs_state :=
  match m with
  | [] => [(k, (1, match dv with Some z => z | None => 0%Z end))]
  | (k', (c, s)) :: t =>
    if tuple_eqb k' k then (k', (c + 1, match dv with Some z => (s + z)%Z | None => s end)) :: t
    else (k', (c, s)) :: gs_add t k dv
  end.
Definition gstats_cmd (by_fields : list field) (vf countf sumf : field) : command :=
  row_cmd [] (fun m r => (gs_add m (proj by_fields r) (match get r vf with VNum z => Some z | _ => None end), []))
    (fun m => map (fun kcs => combine by_fields (fst kcs)
                   ++ [(countf, VNum (Z.of_N (fst (snd kcs)))); (sumf, VNum (snd (snd kcs)))]) m).

(* ---------- streamstats ---------- *)
Inductive ssfunc := SCount | SSum.
Record ss_opts := {
  ss_func : ssfunc; ss_field : field; ss_out : field;
  ss_current : bool; ss_by : list field;
  ss_window : N;            (* 0 = no window *)
  ss_global : bool;
  ss_reset_on_change : bool }.

(* RunningStreamStatsResults of one bucket: Window (Index, Value), CurrResult, NumProcessedRecords *)
Record ss_res := { w_elems : list (Z * Z); w_curr : Z; w_nproc : N }.
Definition ss_res0 : ss_res := {| w_elems := []; w_curr := 0; w_nproc := 0 |}.
Definition ss_buckets := list (tuple * ss_res).
Fixpoint ss_get (m : ss_buckets) (k : tuple) : ss_res :=
  match m with
  | [] => ss_res0
  | (k', x) :: t => if tuple_eqb k' k then x else ss_get t k
  end.
Fixpoint ss_put (m : ss_buckets) (k : tuple) (x : ss_res) : ss_buckets :=
  match m with
  | [] => [(k, x)]
  | (k', y) :: t => if tuple_eqb k' k then (k', x) :: t else (k', y) :: ss_put t k x
  end.

(* value written when the function reports "no result yet" (streamstatscommand.go:204-219) *)
Definition ss_noresult (f : ssfunc) : value := match f with SCount => VNum 0 | SSum => VStr [] end.

(* PerformNoWindowStreamStatsOnSingleFunc for count / sum *)
Definition ss_nowindow_row (o : ss_opts) (x : ss_res) (v : value) : ss_res * value :=
  let valExist := 0 <? w_nproc x in
  let result := if valExist then VNum (w_curr x) else ss_noresult (ss_func o) in
  let upd (c : Z) := {| w_elems := []; w_curr := c; w_nproc := w_nproc x + 1 |} in
  match ss_func o, v with
  | SCount, _ =>
    let x' := upd (w_curr x + 1)%Z in (x', if ss_current o then VNum (w_curr x') else result)
  | SSum, VNum z =>
    let x' := upd (w_curr x + z)%Z in (x', if ss_current o then VNum (w_curr x') else result)
  | SSum, _ => (x, result)       (* non-numeric: returned before NumProcessedRecords++ *)
  end.

(* performCleanWindow + removeFrontElementFromWindow: drop front elements with
   Index + windowSize <= currIndex, taking them out of CurrResult *)
Fixpoint ss_clean (f : ssfunc) (w : Z) (idx : Z) (elems : list (Z * Z)) (curr : Z) : list (Z * Z) * Z :=
  match elems with
  | [] => ([], curr)
  | (i, v) :: t =>
    if (i + w <=? idx)%Z
    then ss_clean f w idx t (match f with SCount => curr - 1 | SSum => curr - v end)%Z
    else (elems, curr)
  end.

(* getResults for count / sum *)
Definition ss_getres (elems : list (Z * Z)) (curr : Z) : option Z :=
  match elems with [] => None | _ => Some curr end.

(* PerformWindowStreamStatsOnSingleFunc (window != 0, no time window) *)
Definition ss_window_row (o : ss_opts) (gidx : Z) (x : ss_res) (v : value) : ss_res * value :=
  let f := ss_func o in
  let w := Z.of_N (ss_window o) in
  let idx := if ss_global o then gidx else Z.of_N (w_nproc x) in
  (* !Current: cleanWindow(currIndex-1) then getResults *)
  let '(e0, c0) := if ss_current o then (w_elems x, w_curr x)
                   else ss_clean f w (idx - 1) (w_elems x) (w_curr x) in
  let before := match ss_getres e0 c0 with Some z => VNum z | None => ss_noresult f end in
  let '(e1, c1) := ss_clean f w idx e0 c0 in
  (* performMeasureFunc *)
  let default := match ss_getres e1 c1 with Some z => VNum z | None => VNull end in
  let np := w_nproc x + 1 in
  match f, v with
  | SCount, _ =>
    let c2 := (c1 + 1)%Z in
    ({| w_elems := e1 ++ [(idx, 0%Z)]; w_curr := c2; w_nproc := np |},
     if ss_current o then VNum c2 else before)
  | SSum, VNum z =>
    let c2 := (c1 + z)%Z in
    ({| w_elems := e1 ++ [(idx, z)]; w_curr := c2; w_nproc := np |},
     if ss_current o then VNum c2 else before)
  | SSum, _ =>
    ({| w_elems := e1; w_curr := c1; w_nproc := np |},
     if ss_current o then default else before)
  end.

(* state: p.currentIndex, p.currentBucketKey ("" = None) and RunningStreamStats[0]
   (bucket key -> results) *)
Definition ss_state := (Z * option tuple * ss_buckets)%type.
Definition optkey_eqb (a b : option tuple) : bool :=
  match a, b with
  | None, None => true
  | Some x, Some y => tuple_eqb x y
  | _, _ => false
  end.
Definition ss_row (o : ss_opts) (s : ss_state) (r : row) : ss_state * list row :=
  let '(gidx, ck, m) := s in
  let k := proj (ss_by o) r in
  (* bucketKey stays "" without a by-clause *)
  let bk := match ss_by o with [] => None | _ => Some k end in
  (* ResetOnChange && currentBucketKey != bucketKey: resetAccumulatedStreamStats, currentIndex = 0 *)
  let '(gidx0, m0) := if ss_reset_on_change o && negb (optkey_eqb ck bk)
                      then (0%Z, @nil (tuple * ss_res)) else (gidx, m) in
  let x := ss_get m0 k in
  let '(x', res) := if ss_window o =? 0 then ss_nowindow_row o x (get r (ss_field o))
                    else ss_window_row o gidx0 x (get r (ss_field o)) in
  ((gidx0 + 1)%Z, bk, ss_put m0 k x', [set_field r (ss_out o) res]).

(* streamstatscommand.go Process.  [reset_per_batch = false] is the code (after the
   fix "streamstats state runs across batches"): p.currentIndex and p.currentBucketKey
   keep their values from one Process() call to the next, like the window elements and
   the running statistics.  [reset_per_batch = true] is the code BEFORE that fix, kept
   as documentation: it set `p.currentBucketKey = ""` and `p.currentIndex = 0` at the
   start of EVERY call, i.e. of every batch, while the window elements kept the indices
   of the batches before. *)
Definition streamstats_cmd (reset_per_batch : bool) (o : ss_opts) : command :=
  mkCmd ss_state (0%Z, None, [])
    (fun s b =>
       let s0 := if reset_per_batch then (0%Z, None, snd s) else s in
       let '(s', out) := rows_fold (ss_row o) s0 b in (s', out, false))
    (fun _ => []).

(* the documented meaning of a global window over the full stream: the function
   over the last [w] rows up to and including the current one (current=true, no by) *)
Definition window_sum_spec (w : N) (vf outf : field) (rows : batch) : batch :=
  let vals := map (fun r => match get r vf with VNum z => z | _ => 0%Z end) rows in
  map (fun ir => let '(i, r) := ir in
         set_field r outf (VNum (fold_left Z.add (lastN w (firstn (S i) vals)) 0%Z)))
      (combine (seq 0 (length rows)) rows).

(* ---------- fillnull without a field list: two passes ---------- *)
Fixpoint add_field (cols : list field) (f : field) : list field :=
  match cols with
  | [] => [f]
  | g :: t => if field_eqb g f then cols else g :: add_field t f
  end.
Definition row_cols (cols : list field) (r : row) : list field :=
  fold_left (fun c fv => add_field c (fst fv)) r cols.
Definition batch_cols (cols : list field) (b : batch) : list field := fold_left row_cols b cols.
Definition fill_row (fillv : value) (cols : list field) (r : row) : row :=
  fold_left (fun r f => if is_null (get r f) then set_field r f fillv else r) cols r.

(* ---------- level B: DataProcessor.Fetch ---------- *)
(* the processor interface: Process(input or nil), GetFinalResultIfExists, Rewind *)
Record proc := mkProc {
  pst : Type;
  pinit : pst;
  pprocess : pst -> option batch -> pst * option batch * bool;   (* output or nil, err == io.EOF *)
  pfinal : pst -> option (option batch);                        (* Some out: a final result exists *)
  prewind : pst -> pst
}.

Record dpflags := { is_bottleneck : bool; is_twopass : bool }.

(* the single input stream: the batches [all]; eof_with = the source returns the
   last batch together with io.EOF (otherwise nil, io.EOF on the next call) *)
Record dpstate (p : proc) := mkDp {
  d_ps : pst p;
  d_rest : list batch;      (* what the source has not yet returned *)
  d_exhausted : bool;       (* CachedStream.isExhausted *)
  d_first_done : bool       (* finishedFirstPass *)
}.
Arguments mkDp {p}. Arguments d_ps {p}. Arguments d_rest {p}.
Arguments d_exhausted {p}. Arguments d_first_done {p}.

Inductive fetch_result (p : proc) :=
| FReturn (d : dpstate p) (out : option batch) (eof : bool)   (* return output, nil / io.EOF *)
| FPassEnd (d : dpstate p) (out : option batch)               (* gotEOF of a first pass: Rewind and continue *)
| FHang.                                                     (* the loop would spin: nil input, no EOF *)
Arguments FReturn {p}. Arguments FPassEnd {p}. Arguments FHang {p}.

(* CachedStream.Fetch over the list source *)
Definition cached_fetch (eof_with : bool) (rest : list batch) (exhausted : bool)
  : option batch * list batch * bool :=
  if exhausted then (None, rest, true)
  else match rest with
       | [] => (None, [], true)
       | b :: r => (Some b, r, match r with [] => eof_with | _ => false end)
       end.

(* one call of Fetch, up to the point where it returns or a pass ends; the
   iteration that consumes batch b recurses on the remaining batches *)
Fixpoint fetch_pass (p : proc) (fl : dpflags) (eof_with : bool) (ps : pst p)
  (rest : list batch) (exhausted first_done : bool) : fetch_result p :=
  let got_eof (ps' : pst p) (rest' : list batch) (exh' : bool) (out : option batch) :=
    if is_twopass fl && negb first_done
    then FPassEnd (mkDp ps' rest' exh' first_done) out
    else FReturn (mkDp ps' rest' exh' first_done) out true in
  match pfinal p ps with
  | Some out => got_eof ps rest exhausted out
  | None =>
    if exhausted then
      let '(ps', out, eof) := pprocess p ps None in
      if eof then got_eof ps' rest true out else
      match out with
      | Some o => if negb (is_bottleneck fl) || (is_twopass fl && first_done)
                  then FReturn (mkDp ps' rest true first_done) out false else FHang
      | None => FHang
      end
    else
    match rest with
    | [] =>
      let '(ps', out, eof) := pprocess p ps None in
      if eof then got_eof ps' [] true out else
      match out with
      | Some o => if negb (is_bottleneck fl) || (is_twopass fl && first_done)
                  then FReturn (mkDp ps' [] true first_done) out false else FHang
      | None => FHang
      end
    | b :: r =>
      let exh' := match r with [] => eof_with | _ => false end in
      let '(ps', out, eof) := pprocess p ps (Some b) in
      if eof then got_eof ps' r exh' out else
      match out with
      | Some o => if negb (is_bottleneck fl) || (is_twopass fl && first_done)
                  then FReturn (mkDp ps' r exh' first_done) out false
                  else fetch_pass p fl eof_with ps' r exh' first_done
      | None => fetch_pass p fl eof_with ps' r exh' first_done
      end
    end
  end.

(* Fetch(): a first pass that ends is followed by Rewind() (streams from the
   beginning, processor.Rewind) and the loop continues in the second pass *)
Definition fetch (p : proc) (fl : dpflags) (eof_with : bool) (all : list batch) (d : dpstate p)
  : fetch_result p :=
  match fetch_pass p fl eof_with (d_ps d) (d_rest d) (d_exhausted d) (d_first_done d) with
  | FPassEnd d1 _ =>
    fetch_pass p fl eof_with (prewind p (d_ps d1)) all false true
  | r => r
  end.

(* the consumer: Fetch until io.EOF, collecting the non-nil outputs *)
Fixpoint drive (p : proc) (fl : dpflags) (eof_with : bool) (all : list batch) (fuel : nat)
  (d : dpstate p) : option (list batch) :=
  match fuel with
  | O => None
  | S k =>
    match fetch p fl eof_with all d with
    | FReturn d' out eof =>
      let o := match out with Some x => [x] | None => [] end in
      if eof then Some o
      else match drive p fl eof_with all k d' with Some l => Some (o ++ l) | None => None end
    | _ => None
    end
  end.
Definition dp_run (p : proc) (fl : dpflags) (eof_with : bool) (all : list batch) : option (list batch) :=
  drive p fl eof_with all (S (S (length all + length all)))
        (mkDp (pinit p) all false false).

(* how the Go processors implement a level-A command: Process(iqr) = step,
   Process(nil) = (finish, io.EOF); GetFinalResultIfExists = false *)
Definition proc_of (c : command) : proc :=
  mkProc (st c) (init c)
    (fun s inp =>
       match inp with
       | Some b => let '(s', o, e) := step c s b in (s', Some o, e)
       | None => (s, Some (finish c s), true)
       end)
    (fun _ => None)
    (fun s => s).

(* bottleneck processors (tail, sort, stats, top, rare) return nil, nil per batch *)
Definition proc_of_bottleneck (c : command) : proc :=
  mkProc (st c) (init c)
    (fun s inp =>
       match inp with
       | Some b => let '(s', _, _) := step c s b in (s', None, false)
       | None => (s, Some (finish c s), true)
       end)
    (fun _ => None)
    (fun s => s).

(* fillnullcommand.go without a field list: first pass collects the columns,
   Rewind sets secondPass, second pass fills *)
Definition fillnull_proc (fillv : value) : proc :=
  mkProc (list field * bool) ([], false)
    (fun s inp =>
       let '(cols, second) := s in
       match inp with
       | None => (s, None, true)
       | Some b =>
         if second then (s, Some (map (fill_row fillv cols) b), false)
         else ((batch_cols cols b, second), Some b, false)
       end)
    (fun _ => None)
    (fun s => (fst s, true)).
Definition fillnull_flags : dpflags := {| is_bottleneck := true; is_twopass := true |}.

(* ====================================================================== *)
(* Several upstream streams: the parallel plan of SetupQueryParallelism     *)
(* ====================================================================== *)

(* ---------- two-pass commands in general: a summary of the WHOLE input (first
   pass), then a row function that uses it (second pass) ---------- *)
Record twopass := mkTp {
  tp_S : Type;
  tp_init : tp_S;
  tp_collect : tp_S -> row -> tp_S;
  tp_apply : tp_S -> row -> row }.
Definition tp_summary (t : twopass) (rows : batch) : tp_S t := fold_left (tp_collect t) rows (tp_init t).
Definition tp_sem (t : twopass) (rows : batch) : batch := map (tp_apply t (tp_summary t rows)) rows.

(* the processor shape of bincommand.go (no span) / fillnullcommand.go (no fields) *)
Definition twopass_proc (t : twopass) : proc :=
  mkProc (tp_S t * bool) (tp_init t, false)
    (fun s inp =>
       let '(a, second) := s in
       match inp with
       | None => (s, None, true)
       | Some b =>
         if second then (s, Some (map (tp_apply t a) b), false)
         else ((fold_left (tp_collect t) b a, second), Some b, false)
       end)
    (fun _ => None)
    (fun s => (fst s, true)).
Definition twopass_flags : dpflags := {| is_bottleneck := true; is_twopass := true |}.

(* a command that needs the whole input (level A form of a two-pass command) *)
Definition whole_cmd (g : batch -> batch) : command :=
  mkCmd batch [] (fun s b => (s ++ b, [], false)) g.

(* fillnull without a field list *)
Definition fillnull_tp (fillv : value) : twopass :=
  mkTp (list field) [] row_cols (fill_row fillv).

(* bin <field> without span: min / max of the numeric values, then findSpan *)
Definition bin_acc := option (Z * Z).
Definition bin_collect (f : field) (acc : bin_acc) (r : row) : bin_acc :=
  match get r f with
  | VNum z => match acc with
              | None => Some (z, z)
              | Some (lo, hi) => Some (Z.min lo z, Z.max hi z)
              end
  | _ => acc
  end.
(* least span * 10^k (k <= fuel) with span * den >= num *)
Fixpoint pow10_ge (fuel : nat) (span num den : Z) : Z :=
  match fuel with
  | O => span
  | S k => if (num <=? span * den)%Z then span else pow10_ge k (span * 10)%Z num den
  end.
(* getBinRange: lower = floor(v/span)*span, upper = ceil(v/span)*span, +span when equal *)
Definition bin_lower (v span : Z) : Z := ((v / span) * span)%Z.
Definition bin_upper (v span : Z) : Z := (bin_lower v span + span)%Z.
(* "verify if estimated span gives correct number of bins" loop *)
Fixpoint span_fit (fuel : nat) (span lo hi maxbins : Z) : Z :=
  match fuel with
  | O => span
  | S k => if (maxbins * span <? bin_upper hi span - bin_lower lo span)%Z
           then span_fit k (span * 10)%Z lo hi maxbins else span
  end.
(* findSpan for a non-time field, minspan/start/end not given.  None: the span would be
   below 1 ((hi-lo)/maxbins <= 1/10), which the integer model does not cover *)
Definition find_span (lo hi maxbins : Z) : option Z :=
  if (lo =? hi)%Z then Some 1%Z
  else if ((hi - lo) * 10 <=? maxbins)%Z then None
  else Some (span_fit 40 (pow10_ge 40 1 (hi - lo) maxbins) lo hi maxbins).

(* decimal digits of an integer as the bytes fmt "%v" prints for a float64 below 1e21
   (used below 1e6 only) *)
Fixpoint dec_pos (fuel : nat) (z : Z) (acc : list N) : list N :=
  match fuel with
  | O => acc
  | S k => let d := (Z.to_N (z mod 10) + 48)%N in
           if (z <? 10)%Z then d :: acc else dec_pos k (z / 10)%Z (d :: acc)
  end.
Definition dec_of_Z (z : Z) : list N :=
  if (z <? 0)%Z then 45 :: dec_pos 40 (- z)%Z [] else dec_pos 40 z [].

Definition bin_apply (f : field) (maxbins : Z) (acc : bin_acc) (r : row) : row :=
  match acc with
  | Some (lo, hi) =>
    match find_span lo hi maxbins, get r f with
    | Some span, VNum z =>
      set_field r f (VStr (dec_of_Z (bin_lower z span) ++ [45] ++ dec_of_Z (bin_upper z span)))
    | _, _ => r
    end
  | None => r
  end.
Definition bin_tp (f : field) (maxbins : Z) : twopass :=
  mkTp bin_acc None (bin_collect f) (bin_apply f maxbins).

(* ---------- the planner: CanParallelSearch over the DataProcessor flags ---------- *)
Record dpinfo := mkInfo {
  i_order_matters : bool;   (* DoesInputOrderMatter *)
  i_ignores_order : bool;   (* IgnoresInputOrder *)
  i_bottleneck : bool;      (* IsBottleneckCmd *)
  i_twopass : bool;         (* IsTwoPassCmd *)
  i_generates : bool }.     (* GeneratesData *)

(* queryprocessor.go CanParallelSearch: (canSplit, index of the first bottleneck) *)
Fixpoint can_parallel_from (can_split : bool) (i : nat) (cs : list dpinfo) : bool * nat :=
  match cs with
  | [] => (false, O)
  | d :: r =>
    if i_order_matters d then (false, O)
    else if i_generates d then (false, O)
    else
      let can_split' := can_split || i_ignores_order d in
      (* a two-pass command behind the merge point would rewind the merged chains: no split *)
      if i_bottleneck d then (can_split' && negb (existsb i_twopass r), i)
      else can_parallel_from can_split' (S i) r
  end.
Definition can_parallel (cs : list dpinfo) : bool * nat := can_parallel_from false O cs.

(* what the commands are, and the flags their New*DP constructors declare *)
Inductive kind :=
| KRowwise      (* where eval fields rename rex regex makemv mvexpand tojson, bin span=, fillnull <fields> *)
| KOrdered      (* head dedup streamstats transaction: the order of the input matters *)
| KOrderedAll   (* tail: order matters and the whole input is needed *)
| KTwoPass      (* bin without span, fillnull without fields: need the whole input first *)
| KAgg          (* stats sort top rare timechart: order-insensitive bottleneck *)
| KGenerator.   (* gentimes inputlookup *)
Definition flags_of (k : kind) : dpinfo :=
  match k with
  | KRowwise => mkInfo false false false false false
  | KOrdered => mkInfo true false false false false
  | KOrderedAll => mkInfo true false true false false
  | KTwoPass => mkInfo false false true true false
  | KAgg => mkInfo false true true false false
  | KGenerator => mkInfo false false false false true
  end.

(* ---------- the parallel plan ---------- *)
(* the row-wise front of the chain *)
Definition prefix_sem (fs : list (row -> list row)) (rows : batch) : batch :=
  fold_left (fun rs f => flat_map f rs) fs rows.

(* one upstream stream: the front and the aggregation in one chain *)
Definition single_stats_plan (m : monoid) (inj : row -> mcar m) (render : mcar m -> batch)
  (fs : list (row -> list row)) (bs : list batch) : batch :=
  concat (run_chain (map (fun f => Stage (rowwise_cmd f) (fun x => x)) fs
                     ++ [Stage (stats_cmd m inj render) (fun x => x)]) bs).

(* k chains: chain i gets the blocks [streams_i], runs its own copy of the front and of the
   aggregation (partial aggregate = IQR stats results), the merger DP combines the partial
   aggregates in the order in which the chains deliver them, the result is rendered once *)
Definition parallel_stats_plan (m : monoid) (inj : row -> mcar m) (render : mcar m -> batch)
  (fs : list (row -> list row)) (streams : list (list batch)) : batch :=
  render (fold_left (mop m)
            (map (fun s => magg m inj (prefix_sem fs (concat s))) streams) (mzero m)).

(* a planner that splits IN FRONT of a two-pass command gives every chain's copy only the
   rows of its own stream *)
Definition tp_split_sem (t : twopass) (streams : list batch) : batch :=
  flat_map (tp_sem t) streams.

(* ====================================================================== *)
(* Level C: chains of DataProcessors with Rewind                           *)
(* ====================================================================== *)
(* A two-pass DataProcessor ends its first pass with dp.Rewind(): every input stream is
   rewound (CachedStream.Rewind -> the upstream DataProcessor.Rewind -> its streams and its
   processor.Rewind(), down to the source) and the whole chain in front of it runs a second
   time.  What the commands in front deliver in that second run depends on what THEIR
   Rewind() and GetFinalResultIfExists() do with the state of the first run. *)

(* ---------- the processors with their real Rewind ---------- *)
(* streaming processors: Process as [proc_of], no final result, Rewind = [rw] *)
Definition proc_rw (c : command) (rw : st c -> st c) : proc :=
  mkProc (st c) (init c)
    (fun s inp =>
       match inp with
       | Some b => let '(s', o, e) := step c s b in (s', Some o, e)
       | None => (s, Some (finish c s), true)
       end)
    (fun _ => None)
    rw.
(* headcommand.go Rewind: p.numRecordsSent = 0 (and options.Done = false) *)
Definition head_proc (n : N) : proc := proc_rw (head_cmd n) (fun _ => 0).
Definition head_expr_proc (cond : row -> option bool) (o : head_opts) : proc :=
  proc_rw (head_expr_cmd cond o) (fun _ => (0, false)).
(* dedupcommand.go Rewind: p.combinationHashes = nil *)
Definition dedup_proc (H : value -> N) (o : dedup_opts) : proc := proc_rw (dedup_cmd H o) (fun _ => []).
(* streamstatscommand.go Rewind: currentIndex = 0, currentBucketKey = "", resetAccumulatedStreamStats *)
Definition streamstats_proc (o : ss_opts) : proc :=
  proc_rw (streamstats_cmd false o) (fun _ => (0%Z, None, [])).
(* where eval fields rename rex regex makemv mvexpand ..: Rewind has nothing to do *)
Definition rowwise_proc (f : row -> list row) : proc := proc_rw (rowwise_cmd f) (fun s => s).

(* bottleneck processors that keep their final result (tail, sort, stats, top, rare):
   Process(iqr) accumulates and returns nil, nil; the first Process(nil) seals the state
   (tail reverses finalIqr in place, sort/stats set hasFinalResult), returns the result with
   io.EOF; every later Process(nil) returns nil, io.EOF; GetFinalResultIfExists hands the result
   out again once it exists (tail: p.finalIqr itself, stats/top/rare: extracted again).
   Rewind = [rw]; in the code it does nothing for all five. *)
Definition proc_cached_gen (c : command) (seal : st c -> st c) (out : st c -> option batch)
  (rw : st c * bool -> st c * bool) : proc :=
  mkProc (st c * bool) (init c, false)
    (fun s inp =>
       let '(a, eof) := s in
       match inp with
       | Some b => let '(a', _, _) := step c a b in ((a', eof), None, false)
       | None => if eof then (s, None, true)
                 else let a' := seal a in ((a', true), out a', true)
       end)
    (fun s => if snd s then Some (out (fst s)) else None)
    rw.
Definition proc_cached (c : command) (seal : st c -> st c) (out : st c -> option batch) : proc :=
  proc_cached_gen c seal out (fun s => s).
(* tailcommand.go: the state IS finalIqr; ReverseRecords in place; nil finalIqr -> nil, io.EOF.
   Process(nil) and GetFinalResultIfExists give away COPIES of finalIqr (after the fix "tail keeps
   its result and gives away copies"), so what later commands write into the IQR they get does not
   reach the kept result: the value semantics of this model is the code *)
Definition tail_proc_gen (n : N) (rw : option batch * bool -> option batch * bool) : proc :=
  proc_cached_gen (tail_cmd n)
    (fun fin => match fin with Some f => Some (rev f) | None => None end)
    (fun fin => fin) rw.
Definition tail_proc (n : N) : proc := tail_proc_gen n (fun s => s).
(* stats / top / rare (and sort, whose order is not modelled): the result is extracted from the
   accumulated state every time it is asked for *)
Definition agg_proc (c : command) : proc := proc_cached c (fun a => a) (fun a => Some (finish c a)).

(* ---------- streams ---------- *)
(* A rewindable stream (Streamer behind a CachedStream).  [strace s] = the whole pass from the
   pass-start state s: the Fetch results without io.EOF in order, each with the state after it,
   then the Fetch that returns io.EOF (with a last IQR or with nil) and the state after it.
   After that Fetch the CachedStream is exhausted and the stream is not asked again before a
   Rewind.  None = some Fetch would never return.  A consumer that stops early (head) has used
   a prefix of the pass; the state it rewinds is the one recorded with the last event it saw. *)
Record stream := mkStream {
  sst : Type;
  sinit : sst;
  strace : sst -> option (list (batch * sst) * (option batch * sst));
  srewind : sst -> sst }.

(* the source: the batches [all]; eof_with = io.EOF comes together with the last batch *)
Fixpoint src_events (eof_with : bool) (rest : list batch)
  : list (batch * list batch) * (option batch * list batch) :=
  match rest with
  | [] => ([], (None, []))
  | b :: r =>
    match r with
    | [] => if eof_with then ([], (Some b, [])) else ([(b, [])], (None, []))
    | _ => let '(evs, fin) := src_events eof_with r in ((b, r) :: evs, fin)
    end
  end.
Definition src_stream (eof_with : bool) (all : list batch) : stream :=
  mkStream (list batch) all (fun rest => Some (src_events eof_with rest)) (fun _ => all).

(* the state of a DataProcessor and everything in front of it *)
Record dpst (p : proc) (U : Type) := mkDpst {
  c_ps : pst p;          (* the processor *)
  c_up : U;              (* the input stream *)
  c_first : bool }.      (* finishedFirstPass *)
Arguments mkDpst {p U}. Arguments c_ps {p U}. Arguments c_up {p U}. Arguments c_first {p U}.

Inductive pass_res (p : proc) (U : Type) :=
| RHang                                                             (* the loop of Fetch would spin *)
| RDone (evs : list (batch * dpst p U)) (fin : option batch * dpst p U)   (* .. output, io.EOF *)
| RPassEnd (evs : list (batch * dpst p U)) (ps : pst p) (u : U).        (* gotEOF of a first pass *)
Arguments RHang {p U}. Arguments RDone {p U}. Arguments RPassEnd {p U}.

Definition res_cons {p U} (e : batch * dpst p U) (r : pass_res p U) : pass_res p U :=
  match r with
  | RHang => RHang
  | RDone evs fin => RDone (e :: evs) fin
  | RPassEnd evs ps u => RPassEnd (e :: evs) ps u
  end.

Section DPStream.
  Variable p : proc.
  Variable fl : dpflags.
  Variable up : stream.

  (* `output != nil && (!isBottleneckCmd || (isTwoPassCmd && finishedFirstPass))` *)
  Definition emits (first : bool) : bool := negb (is_bottleneck fl) || (is_twopass fl && first).
  Definition got_eof (first : bool) (ps : pst p) (u : sst up) (out : option batch) : pass_res p (sst up) :=
    if is_twopass fl && negb first then RPassEnd [] ps u
    else RDone [] (out, mkDpst ps u first).
  Definition emit (first : bool) (ps : pst p) (u : sst up) (out : option batch)
    (k : pass_res p (sst up)) : pass_res p (sst up) :=
    match out with
    | Some o => if emits first then res_cons (o, mkDpst ps u first) k else k
    | None => k
    end.

  (* the input stream is exhausted: the iterations of the Fetch loop get nil *)
  Definition dp_drain (first : bool) (ps : pst p) (u : sst up) : pass_res p (sst up) :=
    match pfinal p ps with
    | Some out => got_eof first ps u out
    | None =>
      let '(ps', out, eof) := pprocess p ps None in
      if eof then got_eof first ps' u out else RHang
    end.

  (* the iterations of the Fetch loop (over as many Fetch calls as the consumer makes) up to the
     io.EOF of this pass, consuming the pass [tr, fin] of the input stream *)
  Fixpoint dp_pass (first : bool) (ps : pst p) (u : sst up) (tr : list (batch * sst up))
    (fin : option batch * sst up) : pass_res p (sst up) :=
    match pfinal p ps with
    | Some out => got_eof first ps u out
    | None =>
      match tr with
      | (b, u') :: r =>
        let '(ps', out, eof) := pprocess p ps (Some b) in
        if eof then got_eof first ps' u' out
        else emit first ps' u' out (dp_pass first ps' u' r fin)
      | [] =>
        match fst fin with
        | None => dp_drain first ps (snd fin)
        | Some b =>
          let '(ps', out, eof) := pprocess p ps (Some b) in
          if eof then got_eof first ps' (snd fin) out
          else emit first ps' (snd fin) out (dp_drain first ps' (snd fin))
        end
      end
    end.

  (* a whole pass as the consumer of this DataProcessor sees it; a first pass that ends is
     followed by dp.Rewind() (input stream and processor) and the second pass *)
  Definition dp_trace (s : dpst p (sst up))
    : option (list (batch * dpst p (sst up)) * (option batch * dpst p (sst up))) :=
    match strace up (c_up s) with
    | None => None
    | Some (tr, fin) =>
      match dp_pass (c_first s) (c_ps s) (c_up s) tr fin with
      | RHang => None
      | RDone evs f => Some (evs, f)
      | RPassEnd evs ps u =>
        let u2 := srewind up u in
        match strace up u2 with
        | None => None
        | Some (tr2, fin2) =>
          match dp_pass true (prewind p ps) u2 tr2 fin2 with
          | RDone evs2 f => Some (evs ++ evs2, f)
          | _ => None
          end
        end
      end
    end.

  (* DataProcessor.Rewind(): the streams, then processor.Rewind(); finishedFirstPass stays *)
  Definition dp_stream : stream :=
    mkStream (dpst p (sst up)) (mkDpst (pinit p) (sinit up) false) dp_trace
      (fun s => mkDpst (prewind p (c_ps s)) (srewind up (c_up s)) (c_first s)).
End DPStream.

(* what the consumer of the last DataProcessor collects until io.EOF *)
Definition opt_rows (o : option batch) : batch := match o with Some b => b | None => [] end.
Definition ev_rows {S : Type} (evs : list (batch * S)) (fin : option batch * S) : batch :=
  concat (map fst evs) ++ opt_rows (fst fin).
Definition stream_rows (s : stream) : option batch :=
  match strace s (sinit s) with
  | Some (evs, fin) => Some (ev_rows evs fin)
  | None => None
  end.
Definition stream_batches (s : stream) : option (list batch) :=
  match strace s (sinit s) with
  | Some (evs, fin) => Some (map fst evs ++ match fst fin with Some b => [b] | None => [] end)
  | None => None
  end.

(* a chain: DataProcessors connected in order behind the source *)
Inductive rstage := RStage (p : proc) (fl : dpflags).
Definition build_chain (src : stream) (stages : list rstage) : stream :=
  fold_left (fun s rs => match rs with RStage p fl => dp_stream p fl s end) stages src.

Definition streaming_flags : dpflags := {| is_bottleneck := false; is_twopass := false |}.
Definition bottleneck_flags : dpflags := {| is_bottleneck := true; is_twopass := false |}.

(* ---------- the IQR handed out twice ---------- *)
(* sort hands out p.resultsSoFar ITSELF (so did tail with p.finalIqr before the fix "tail keeps its
   result and gives away copies"), and commands like eval / rename / streamstats write into the
   IQR they are given.  With a row-wise command f between sort and a two-pass command the first
   pass leaves f(rows) in the kept IQR, GetFinalResultIfExists hands that out in the second
   pass and f is applied to it again: the two-pass command collects over f(rows) and transforms
   f(f(rows)). *)
Definition alias_two_pass (f : row -> row) (t : twopass) (cached : batch) : batch :=
  let pass1 := map f cached in
  map (tp_apply t (tp_summary t pass1)) (map f pass1).

(* ---------- the result extracted twice ---------- *)
(* BEFORE the fix "stats without BY merges its statistics once" (kept as documentation; the code
   is [agg_proc] now).  statsProcessor without a BY clause (processMeasureOperations): every extraction of the result
   - the first Process(nil), then GetFinalResultIfExists after a Rewind - merges the collected
   segment statistics into the search results once more (CreateSegmentStatsResults ->
   UpdateSegmentStats).  A two-pass command behind it collects over the aggregate of the input
   and transforms the aggregate of the input taken twice. *)
Definition stats_noby_two_pass (c : command) (t : twopass) (rows : batch) : batch :=
  map (tp_apply t (tp_summary t (run c [rows]))) (run c [rows ++ rows]).

(* ====================================================================== *)
(* Level D: a DataProcessor with SEVERAL input streams (merge + leftovers)  *)
(* ====================================================================== *)
(* dataprocessor.go getStreamInput, `default:` branch (more than one stream, not an order-ignoring
   bottleneck): every call fetches from every stream that is not exhausted
   (fetchFromAllStreamsWithData), merges the fetched IQRs with iqr.MergeIQRs until ONE of them is
   used up, applies mergeSettings.limit / numReturned, and hands the unused remainder of every
   other IQR back to its CachedStream (SetUnusedDataFromLastFetch), which returns it first at the
   next Fetch.  The leftovers are part of the state of the streams: a consumer that stops reading
   early (head) leaves them behind, and CachedStream.Rewind() has to drop them. *)

(* streamer.go CachedStream over a list source ([ew] = io.EOF comes with the last batch) *)
Record cstream := mkCs {
  cs_rest : list batch;        (* what the wrapped stream has not returned yet *)
  cs_unused : option batch;    (* unusedDataFromLastFetch *)
  cs_exh : bool }.             (* isExhausted *)

Definition cs_fetch (ew : bool) (c : cstream) : option batch * cstream :=
  if cs_exh c then (None, c)
  else match cs_unused c with
       | Some b => (Some b, mkCs (cs_rest c) None false)
       | None =>
         match cs_rest c with
         | [] => (None, mkCs [] None true)
         | b :: r => (Some b, mkCs r None (match r with [] => ew | _ => false end))
         end
       end.

(* SetUnusedDataFromLastFetch *)
Definition cs_set_unused (o : option batch) (c : cstream) : cstream :=
  mkCs (cs_rest c) o (match o with Some _ => false | None => cs_exh c end).

(* fetchFromAllStreamsWithData: what every stream returned (None: exhausted / nil with io.EOF).
   The code keeps the fetched IQRs in a slice `iqrs` with their `streamIndices`, in the order in
   which the fetching goroutines finish; the model keeps them by stream position *)
Fixpoint fetch_all (ew : bool) (cs : list cstream) : list (option batch) * list cstream :=
  match cs with
  | [] => ([], [])
  | c :: t =>
    let '(o, c') := cs_fetch ew c in
    let '(os, t') := fetch_all ew t in
    (o :: os, c' :: t')
  end.

Definition is_nil {A : Type} (l : list A) : bool := match l with [] => true | _ => false end.
Definition is_none {A : Type} (o : option A) : bool := match o with None => true | _ => false end.
Definition opt_list (o : option batch) : batch := match o with Some b => b | None => [] end.
Fixpoint upd_nth {A : Type} (i : nat) (f : A -> A) (l : list A) : list A :=
  match l, i with
  | [], _ => []
  | x :: r, O => f x :: r
  | x :: r, S j => x :: upd_nth j f r
  end.
(* remove the first record of the i-th list *)
Definition pop_at (i : nat) (its : list batch) : list batch := upd_nth i (@tl row) its.

Section MergeIQRs.
  Variable less : row -> row -> bool.

  (* utils.IndexOfMin over the next record of every list: the first minimal one (a later list
     replaces the candidate only if its record is strictly smaller); empty lists have no record *)
  Fixpoint min_head (i : nat) (its : list batch) (best : option (nat * row)) : option (nat * row) :=
    match its with
    | [] => best
    | b :: t =>
      match b with
      | [] => min_head (S i) t best
      | r :: _ =>
        match best with
        | None => min_head (S i) t (Some (i, r))
        | Some (_, br) => if less r br then min_head (S i) t (Some (i, r)) else min_head (S i) t best
        end
      end
    end.

  (* the loop of iqr.MergeIQRs: append the smallest next record until the IQR it came from is
     used up; result = merged records, position of the used-up IQR, what is left of every IQR
     (a stream that returned no IQR has the empty list and is never chosen) *)
  Fixpoint merge_loop (fuel : nat) (its : list batch) : batch * nat * list batch :=
    match fuel with
    | O => ([], O, its)
    | S f =>
      match min_head O its None with
      | None => ([], O, its)
      | Some (i, r) =>
        let its' := pop_at i its in
        if is_nil (nth i its' []) then ([r], i, its')
        else let '(m, j, its2) := merge_loop f its' in (r :: m, j, its2)
      end
    end.
  (* `for idx, iqrToCheck := range iqrs { if iqrToCheck.NumberOfRecords() == 0 { return iqr, idx, nil } }` *)
  Fixpoint first_nil (i : nat) (os : list (option batch)) : option nat :=
    match os with
    | [] => None
    | Some [] :: _ => Some i
    | _ :: t => first_nil (S i) t
    end.
  Definition merge_iqrs (os : list (option batch)) : batch * nat * list batch :=
    let its := map opt_list os in
    match first_nil O os with
    | Some i => ([], i, its)
    | None => merge_loop (length (concat its)) its
    end.

  (* the specification: the k-way merge of the WHOLE streams (always the first minimal next record) *)
  Fixpoint kmerge (fuel : nat) (ls : list batch) : batch :=
    match fuel with
    | O => []
    | S f => match min_head O ls None with
             | None => []
             | Some (i, r) => r :: kmerge f (pop_at i ls)
             end
    end.
  Definition kmerge_all (ls : list batch) : batch := kmerge (length (concat ls)) ls.

  Variable limit : option N.     (* mergeSettings.limit *)
  Variable ew : bool.

  Record mstate := mkMs { ms_cs : list cstream; ms_ret : N (* mergeSettings.numReturned *) }.

  (* every stream that returned an IQR gets SetUnusedDataFromLastFetch: nil for the used-up IQR,
     the remainder for every other one *)
  Fixpoint put_unused (j exh : nat) (os : list (option batch)) (rems : list batch) (cs : list cstream)
    : list cstream :=
    match os, rems, cs with
    | o :: os', r :: rems', c :: cs' =>
      (match o with
       | Some _ => cs_set_unused (if Nat.eqb j exh then None else Some r) c
       | None => c
       end) :: put_unused (S j) exh os' rems' cs'
    | _, _, _ => cs
    end.

  (* one call of getStreamInput; None = (nil, io.EOF) *)
  Definition get_stream_input (s : mstate) : option batch * mstate :=
    let '(os, cs1) := fetch_all ew (ms_cs s) in
    if forallb is_none os then (None, mkMs cs1 (ms_ret s))           (* len(iqrs) == 0 *)
    else
      let '(m, exh, rems) := merge_iqrs os in
      match limit with
      | Some L =>
        let this := L - ms_ret s in
        if this =? 0 then (None, mkMs cs1 (ms_ret s))     (* the fetched IQRs are dropped *)
        else let m' := takeN this m in
             (Some m', mkMs (put_unused O exh os rems cs1) (ms_ret s + N.of_nat (length m')))
      | None => (Some m, mkMs (put_unused O exh os rems cs1) (ms_ret s + N.of_nat (length m)))
      end.

  (* the whole pass from a state: the successive getStreamInput results with the state after each *)
  Fixpoint m_events (fuel : nat) (s : mstate) : list (batch * mstate) * (option batch * mstate) :=
    match fuel with
    | O => ([], (None, s))
    | S f =>
      match get_stream_input s with
      | (None, s') => ([], (None, s'))
      | (Some b, s') => let '(evs, fin) := m_events f s' in ((b, s') :: evs, fin)
      end
    end.
  (* every call with a result uses up one IQR (a batch or a leftover) of some stream *)
  Definition m_fuel (s : mstate) : nat :=
    S (S (fold_right (fun c a => S (length (cs_rest c)) + a)%nat O (ms_cs s))).

  (* DataProcessor.Rewind: numReturned = 0, every CachedStream.Rewind(): the wrapped stream from the
     beginning, isExhausted = false, unusedDataFromLastFetch = nil.  [keep = true] is a Rewind
     that forgets the last assignment (kept to show that it is needed) *)
  Fixpoint rewind_all (keep : bool) (srcs : list (list batch)) (cs : list cstream) : list cstream :=
    match srcs with
    | [] => []
    | a :: t =>
      mkCs a (if keep then match cs with c :: _ => cs_unused c | [] => None end else None) false
      :: rewind_all keep t (tl cs)
    end.

  (* the merged input of a DataProcessor with the streams [srcs], as a stream *)
  Definition merge_stream_gen (keep : bool) (srcs : list (list batch)) : stream :=
    mkStream mstate (mkMs (map (fun a => mkCs a None false) srcs) 0)
      (fun s => Some (m_events (m_fuel s) s))
      (fun s => mkMs (rewind_all keep srcs (ms_cs s)) 0).
  Definition merge_stream : list (list batch) -> stream := merge_stream_gen false.

  (* the rows of a whole pass over the merged input *)
  Definition merge_rows (srcs : list (list batch)) : batch :=
    let s := merge_stream srcs in
    let '(evs, fin) := m_events (m_fuel (sinit s)) (sinit s) in ev_rows evs fin.
End MergeIQRs.

(* PipeCheck.v — executable comparison of the pipeline-command models with what the
   real DataProcessor chains returned (used by the generated case files of C06). *)
From SigM Require Import Base Pipe.
Open Scope N_scope.

(* ---------- canonical rows: nulls removed, sorted by field name ---------- *)
Fixpoint bytes_ltb (a b : list N) : bool :=
  match a, b with
  | [], [] => false
  | [], _ => true
  | _, [] => false
  | x :: a', y :: b' => if x <? y then true else if y <? x then false else bytes_ltb a' b'
  end.
Fixpoint ins_field (fv : field * value) (r : row) : row :=
  match r with
  | [] => [fv]
  | gw :: t => if bytes_ltb (fst fv) (fst gw) then fv :: r else gw :: ins_field fv t
  end.
Definition canon_row (r : row) : row :=
  fold_right ins_field [] (filter (fun fv => negb (is_null (snd fv))) r).

Definition cell_eqb (a b : field * value) : bool :=
  field_eqb (fst a) (fst b) && value_eqb (snd a) (snd b).
Definition row_eqb (a b : row) : bool := list_eqb cell_eqb (canon_row a) (canon_row b).
Definition batch_eqb (a b : batch) : bool := list_eqb row_eqb a b.

Fixpoint remove_first (x : row) (l : batch) : option batch :=
  match l with
  | [] => None
  | y :: t => if row_eqb x y then Some t
              else match remove_first x t with Some t' => Some (y :: t') | None => None end
  end.
Fixpoint batch_perm_eqb (a b : batch) : bool :=
  match a with
  | [] => match b with [] => true | _ => false end
  | x :: t => match remove_first x b with Some b' => batch_perm_eqb t b' | None => false end
  end.

Definition drop_field (f : field) (r : row) : row := filter (fun fv => negb (field_eqb (fst fv) f)) r.

(* ---------- batching ---------- *)
Fixpoint cut_at {A : Type} (sizes : list nat) (l : list A) : list (list A) :=
  match sizes with
  | [] => []
  | n :: t => firstn n l :: cut_at t (skipn n l)
  end.

(* ---------- finite tables standing for external functions ---------- *)
(* CValueEnclosure.Hash() as observed *)
Fixpoint Hof (tbl : list (value * N)) (v : value) : N :=
  match tbl with
  | [] => 0
  | (w, h) :: t => if value_eqb w v then h else Hof t v
  end.
(* a row-wise command as observed on single rows *)
Fixpoint f_of_table (tbl : list (row * list row)) (r : row) : list row :=
  match tbl with
  | [] => []
  | (x, out) :: t => if row_eqb x r then out else f_of_table t r
  end.

(* ---------- checks ---------- *)
(* the model gives [expect] for every listed cut of the table *)
Definition chk (c : command) (tbl : batch) (cuts : list (list nat)) (expect : batch) : bool :=
  forallb (fun sizes => batch_eqb (run c (cut_at sizes tbl)) expect) cuts.
(* same, result compared as a multiset of rows (stats / top with ties) *)
Definition chk_perm (c : command) (tbl : batch) (cuts : list (list nat)) (expect : batch) : bool :=
  forallb (fun sizes => batch_perm_eqb (run c (cut_at sizes tbl)) expect) cuts.
(* a result per cut (batch-dependent behaviour that the model reproduces) *)
Definition chk_each (c : command) (tbl : batch) (cases : list (list nat * batch)) : bool :=
  forallb (fun sc => batch_eqb (run c (cut_at (fst sc) tbl)) (snd sc)) cases.
(* a chain of commands *)
Definition chk_chain (cs : list command) (tbl : batch) (cuts : list (list nat)) (expect : batch) : bool :=
  forallb (fun sizes =>
             batch_eqb (concat (run_chain (map (fun c => Stage c (fun x => x)) cs) (cut_at sizes tbl))) expect)
          cuts.

(* the Fetch loop: sizes of the non-empty outputs of the successive Fetch calls *)
Definition nonzero (l : list nat) : list nat := filter (fun n => negb (Nat.eqb n 0)) l.
Definition fetch_sizes (p : proc) (fl : dpflags) (ew : bool) (bs : list batch) : option (list nat) :=
  match dp_run p fl ew bs with Some l => Some (nonzero (map (@length row) l)) | None => None end.
Definition chk_fetch (p : proc) (fl : dpflags) (tbl : batch)
  (cases : list (list nat * bool * list nat)) : bool :=
  forallb (fun c => let '(sizes, ew, obs) := c in
             match fetch_sizes p fl ew (cut_at sizes tbl) with
             | Some l => list_eqb Nat.eqb l (nonzero obs)
             | None => false
             end) cases.

Definition streaming_fl : dpflags := {| is_bottleneck := false; is_twopass := false |}.
Definition bottleneck_fl : dpflags := {| is_bottleneck := true; is_twopass := false |}.

(* two-pass fillnull on a cut table *)
Definition fillnull_all_run (v : value) (ew : bool) (bs : list batch) : batch :=
  match dp_run (fillnull_proc v) fillnull_flags ew bs with Some l => concat l | None => [] end.
Definition chk_fillnull_all (v : value) (tbl : batch) (cuts : list (list nat)) (expect : batch) : bool :=
  forallb (fun sizes => batch_eqb (fillnull_all_run v false (cut_at sizes tbl)) expect
                        && batch_eqb (fillnull_all_run v true (cut_at sizes tbl)) expect) cuts.

(* indices of the failed checks *)
Fixpoint failing_from (i : nat) (l : list bool) : list nat :=
  match l with
  | [] => []
  | b :: t => (if b then [] else [i]) ++ failing_from (S i) t
  end.
Definition failing (l : list bool) : list nat := failing_from 0 l.

(* ---------- several upstream streams ---------- *)
Definition chk_chain_perm (cs : list command) (tbl : batch) (cuts : list (list nat)) (expect : batch) : bool :=
  forallb (fun sizes =>
             batch_perm_eqb (concat (run_chain (map (fun c => Stage c (fun x => x)) cs) (cut_at sizes tbl))) expect)
          cuts.

Definition info_eqb (a b : dpinfo) : bool :=
  Bool.eqb (i_order_matters a) (i_order_matters b) && Bool.eqb (i_ignores_order a) (i_ignores_order b)
  && Bool.eqb (i_bottleneck a) (i_bottleneck b) && Bool.eqb (i_twopass a) (i_twopass b)
  && Bool.eqb (i_generates a) (i_generates b).

(* the flags the real constructors declare = the table flags_of *)
Definition chk_flags (cases : list (kind * dpinfo)) : bool :=
  forallb (fun c => info_eqb (flags_of (fst c)) (snd c)) cases.

(* the decision of the real CanParallelSearch on a chain = can_parallel on its flags; the
   chain is given by the kinds of its commands, its observed flags must be those of the kinds *)
Definition chk_planner (cases : list (list kind * list dpinfo * (bool * nat))) : list nat :=
  let ok (c : list kind * list dpinfo * (bool * nat)) :=
    let '(ks, fl, (b, i)) := c in
    list_eqb info_eqb (map flags_of ks) fl
    && (let '(b', i') := can_parallel fl in Bool.eqb b b' && Nat.eqb i i') in
  (fix go (n : nat) (l : list (list kind * list dpinfo * (bool * nat))) : list nat :=
     match l with
     | [] => []
     | c :: t => (if ok c then [] else [n]) ++ go (S n) t
     end) O cases.
Definition chk_planner_ok (cases : list (list kind * list dpinfo * (bool * nat))) : bool :=
  match chk_planner cases with [] => true | _ => false end.

(* ---------- chains of DataProcessors with Rewind (Pipe.v level C) ---------- *)
(* the chain gives [expect] for every listed batching and EOF convention; [sizes] of the
   non-empty outputs of the successive Fetch calls of the last DataProcessor as observed *)
Definition chain_run (stages : list rstage) (ew : bool) (bs : list batch) : option (list batch) :=
  stream_batches (build_chain (src_stream ew bs) stages).
Definition chk_rewound_gen (eq : batch -> batch -> bool) (stages : list rstage) (tbl : batch)
  (cases : list (list nat * bool * list nat)) (expect : batch) : bool :=
  forallb (fun c => let '(sizes, ew, obs) := c in
             match chain_run stages ew (cut_at sizes tbl) with
             | Some l => eq (concat l) expect && list_eqb Nat.eqb (nonzero (map (@length row) l)) (nonzero obs)
             | None => false
             end) cases.
Definition chk_rewound := chk_rewound_gen batch_eqb.
Definition chk_rewound_perm := chk_rewound_gen batch_perm_eqb.

(* the IQR handed out twice (known defect): tail n, then the row function f as observed on single
   rows, then a two-pass command *)
Definition f1_of_table (tbl : list (row * list row)) (r : row) : row :=
  match f_of_table tbl r with x :: _ => x | [] => r end.
Definition chk_alias (n : N) (ftbl : list (row * list row)) (t : twopass) (tbl : batch)
  (cuts : list (list nat)) (expect : batch) : bool :=
  forallb (fun sizes =>
             batch_eqb (alias_two_pass (f1_of_table ftbl) t (run (tail_cmd n) (cut_at sizes tbl))) expect) cuts.

(* stats without a BY clause in front of a two-pass command (known defect) *)
Definition chk_noby (c : command) (t : twopass) (tbl : batch) (expect : batch) : bool :=
  batch_eqb (stats_noby_two_pass c t tbl) expect.

(* the kept rows given as observed (sort, which has no Coq model) *)
Definition chk_alias_rows (kept : batch) (ftbl : list (row * list row)) (t : twopass) (expect : batch) : bool :=
  batch_eqb (alias_two_pass (f1_of_table ftbl) t kept) expect.

(* ---------- several input streams merged by a DataProcessor (Pipe.v level D) ---------- *)
(* the order of the streams: a numeric column, ascending (the hook VerifOrderedLess) *)
Definition less_num (f : field) (a b : row) : bool :=
  match get a f, get b f with
  | VNum x, VNum y => (x <? y)%Z
  | _, _ => false
  end.
Definition merged_run (keep : bool) (kf : field) (limit : option N) (stages : list rstage) (ew : bool)
  (srcs : list (list batch)) : option (list batch) :=
  stream_batches (build_chain (merge_stream_gen (less_num kf) limit ew keep srcs) stages).
(* [streams] = the rows of every input stream; a case = (batch sizes of every stream, EOF convention,
   sizes of the non-empty outputs of the successive Fetch calls of the last DataProcessor) *)
Definition chk_merged_gen (eq : batch -> batch -> bool) (kf : field) (limit : option N) (stages : list rstage)
  (streams : list batch) (cases : list (list (list nat) * bool * list nat)) (expect : batch) : bool :=
  forallb (fun c => let '(cuts, ew, obs) := c in
             match merged_run false kf limit stages ew (map (fun ct => cut_at (fst ct) (snd ct)) (combine cuts streams)) with
             | Some l => eq (concat l) expect && list_eqb Nat.eqb (nonzero (map (@length row) l)) (nonzero obs)
             | None => false
             end) cases.
Definition chk_merged := chk_merged_gen batch_eqb.
Definition chk_merged_perm := chk_merged_gen batch_perm_eqb.
(* the merger DataProcessor (mergeProcessor without stats: Process passes its input on) *)
Definition merger_stage : rstage := RStage (rowwise_proc (fun r => [r])) streaming_flags.
(* the rows of a table with the given indices (the rows dealt to one stream) *)
Definition sel_rows (idx : list nat) (tbl : batch) : batch := map (fun i => nth i tbl []) idx.

(* PipeCols.v — C06: the per-record commands that WRITE columns, modelled at the level the Go
   processors work at: one Process() call handles one IQR (batch) column by column.
   Definitions only, no proofs.

   rexcommand.go Process():
       values = iqr.ReadColumn(FieldName)                 -- one cell per record of the batch
       if len(values) == 0 { return iqr }
       newColValues[g] = [BACKFILL; len(values)]  for every named group g
       for idx, value: MatchAndPopulateNamedGroups(str(value), regex, newColValues, idx, ..)
                        -- a record that matches gets the captured texts, the others keep BACKFILL
       iqr.AppendKnownValues(newColValues)                -- knownValues[g] = newColValues[g]:
                                                             the WHOLE column g of the batch is replaced
   The columns are therefore written for every batch, whether or not a record of the batch matched;
   a column of the input that has the name of a capture group is overwritten (null for a record that
   does not match).  [rex_batch true] is the variant with the per-batch shortcut "no record of this
   batch matched -> hand the IQR on untouched"; the code is [rex_batch false].

   Go's regexp and CValueEnclosure.GetValueAsString enter as [ext : value -> option (list value)]
   (None = no match; Some vs = the captured texts in the order of the named groups). *)
From SigM Require Import Base Pipe.
Open Scope N_scope.

(* ---------- an IQR seen as columns ---------- *)
(* IQR.ReadColumn: the cells of one column, one per record (missing = null) *)
Definition read_column (f : field) (b : batch) : list value := map (fun r => get r f) b.

(* IQR.AppendKnownValues for one column: knownValues[f] = vals replaces the column f of the batch.
   (Lengths differ: the code returns an error; the processors build their columns with one cell per
   record, so that branch is not reachable.) *)
Fixpoint write_column (f : field) (vals : list value) (b : batch) : batch :=
  match b, vals with
  | r :: b', v :: vals' => set_field r f v :: write_column f vals' b'
  | _, _ => b
  end.

Definition append_known_values (cols : list (field * list value)) (b : batch) : batch :=
  fold_left (fun acc c => write_column (fst c) (snd c) acc) cols b.

(* ---------- a stateless command given by what its Process() does to one batch ---------- *)
Definition batch_cmd (F : batch -> batch) : command :=
  mkCmd unit tt (fun s b => (s, F b, false)) (fun _ => []).

(* a per-batch shortcut: the batches for which [q] holds are handled by [G] instead of [F] *)
Definition shortcut (q : batch -> bool) (F G : batch -> batch) (b : batch) : batch :=
  if q b then G b else F b.

(* ---------- rex ---------- *)
Definition is_none {A : Type} (o : option A) : bool := match o with None => true | Some _ => false end.

(* the cell of group number j for a record with match result h *)
Definition rex_cell (j : nat) (h : option (list value)) : value :=
  match h with Some vs => nth j vs VNull | None => VNull end.

(* newColValues after the loop over the records *)
Fixpoint rex_columns (j : nat) (groups : list field) (hits : list (option (list value)))
  : list (field * list value) :=
  match groups with
  | [] => []
  | g :: gs => (g, map (rex_cell j) hits) :: rex_columns (S j) gs hits
  end.

Definition rex_batch (ext : value -> option (list value)) (skip : bool) (src : field)
  (groups : list field) (b : batch) : batch :=
  match read_column src b with
  | [] => b
  | values =>
    let hits := map ext values in
    if skip && forallb is_none hits then b
    else append_known_values (rex_columns 0 groups hits) b
  end.

Definition rex_cmd (skip : bool) (src : field) (groups : list field)
  (ext : value -> option (list value)) : command :=
  batch_cmd (rex_batch ext skip src groups).

(* the meaning of rex on ONE record: every named group is written - the captured text, or null when
   the record does not match, whatever the column held before *)
Fixpoint rex_set (j : nat) (groups : list field) (h : option (list value)) (r : row) : row :=
  match groups with
  | [] => r
  | g :: gs => rex_set (S j) gs h (set_field r g (rex_cell j h))
  end.
Definition rex_row (ext : value -> option (list value)) (src : field) (groups : list field) (r : row) : row :=
  rex_set 0 groups (ext (get r src)) r.

(* ---------- eval <f> = <expr>: one column computed from the records, then written ---------- *)
(* evalcommand.go Process(): knownValuesCvals[i] = EvaluateValueExpr(record i); AppendKnownValues *)
Definition eval_batch (e : row -> value) (f : field) (b : batch) : batch :=
  append_known_values [(f, map e b)] b.
Definition eval_cmd (e : row -> value) (f : field) : command := batch_cmd (eval_batch e f).

(* ---------- the extraction function as a finite table (case files) ---------- *)
Fixpoint ext_of_table (tbl : list (value * option (list value))) (v : value) : option (list value) :=
  match tbl with
  | [] => None
  | (w, o) :: t => if value_eqb w v then o else ext_of_table t v
  end.

(* two rows with the same cells (the order of the cells and explicit null cells do not count) *)
Definition row_equiv (a b : row) : Prop := forall f, get a f = get b f.

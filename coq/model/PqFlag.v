(* PqFlag.v — persistent-query bookkeeping of ONE tracked query across the open -> rotated hand-over
   (pkg/segment/writer/segstore.go, segmetarw.go; pkg/segment/query/segquery.go applyFopAllRequests).

   While a segment is open every buffer flush (AppendWipToSegfile) appends the block's match bits of every tracked
   persistent query to <segkey>/pqmr/<pqid>.pqmr and updates the per-query flag
       pqNonEmptyResults[pqid] = pqNonEmptyResults[pqid] || pqResults.Any()
   At rotation (checkAndRotateColFiles) a false flag means "this segment has no match": the pqmr file is deleted
   and the segment key is queued (go AddToEmptyPqmetaChan) for the query's empty-segments list; the writer's
   listener (listenBackFillAndEmptyPQSRequests, 10 s ticker) persists the queued notes (pqsmeta.BulkAddEmptyResults).
   A later search of the persistent query through applyFopAllRequests (group-by route, old record route) SKIPS
   every rotated segment that is on the persisted list; every other segment is answered from the match bits or by
   a raw search - both give the events of its blocks that match.

   Generic over the event type and the query's predicate.  [accumulate] = true is the code; false = a writer whose
   flag reflects only the block flushed last (kept for the refutation). *)
From Coq Require Import List Bool.
Import ListNotations.

Section PqFlag.
Variable event : Type.
Variable matches : event -> bool.

Definition block : Type := list event.
Definition any_match (b : block) : bool := existsb matches b.       (* pqResults.Any() of the flushed block *)

Definition flag_step (accumulate : bool) (flag : bool) (b : block) : bool :=
  if accumulate then flag || any_match b else any_match b.

(* open segment: the flushed blocks and pqNonEmptyResults[pqid] *)
Record oseg := { oblocks : list block; oflag : bool }.
(* rotated segment: its blocks, whether the pqmr file survived the rotation, whether the "no match" note is
   queued on pqsChan, whether the listener has written it to the query's empty-segments list *)
Record rseg := { rblocks : list block; has_pqmr : bool; queued : bool; noted : bool }.
Record st := { rot : list rseg; open : oseg }.

Definition fresh : oseg := {| oblocks := []; oflag := false |}.      (* resetSegStore: pqNonEmptyResults = make(map) *)
Definition init : st := {| rot := []; open := fresh |}.

Inductive op := Flush (b : block) | Rotate | Listen.

Definition rotate_seg (o : oseg) : rseg :=
  {| rblocks := oblocks o; has_pqmr := oflag o; queued := negb (oflag o); noted := false |}.

Definition step (accumulate : bool) (s : st) (o : op) : st :=
  match o with
  | Flush b => {| rot := rot s;
                  open := {| oblocks := oblocks (open s) ++ [b]; oflag := flag_step accumulate (oflag (open s)) b |} |}
  | Rotate => match oblocks (open s) with
              | [] => s                                               (* nothing flushed: nothing to rotate *)
              | _ => {| rot := rot s ++ [rotate_seg (open s)]; open := fresh |}
              end
  | Listen => {| rot := map (fun r => {| rblocks := rblocks r; has_pqmr := has_pqmr r; queued := false;
                                         noted := noted r || queued r |}) (rot s);
                 open := open s |}
  end.

Definition run (accumulate : bool) (ops : list op) : st := fold_left (step accumulate) ops init.

Definition hits (bs : list block) : list event := filter matches (concat bs).

(* the planner: a rotated segment on the persisted list is skipped; the open segment is searched block by block *)
Definition search_rot (r : rseg) : list event := if noted r then [] else hits (rblocks r).
Definition search (s : st) : list event := flat_map search_rot (rot s) ++ hits (oblocks (open s)).

(* what was flushed, in order *)
Fixpoint flushed (ops : list op) : list block :=
  match ops with
  | [] => []
  | Flush b :: t => b :: flushed t
  | _ :: t => flushed t
  end.

(* observable bookkeeping per rotated segment: (pqmr file exists, on the persisted empty list or queued for it) *)
Definition seg_books (r : rseg) : bool * bool := (has_pqmr r, noted r || queued r).
End PqFlag.

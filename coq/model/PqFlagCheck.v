(* PqFlagCheck.v — the persistent-query streams of harness/cmd/c11/pq.go replayed on the model of PqFlag.v.
   Instance: an event is its id, a tracked query is the list of the ids it matches.  One case = the op stream of one
   fresh index (several tracked queries); every observation names its query, the model is run for that query over
   the operations executed so far. *)
From Coq Require Import List Bool Arith NArith.
From SigM Require Import Base PqFlag.
Import ListNotations.

Definition memN (x : N) (l : list N) : bool := existsb (N.eqb x) l.
Definition qmatches (m : list N) (e : N) : bool := memN e m.

Definition pop := op N.
Definition prun (acc : bool) (m : list N) (ops : list pop) : st N := run N (qmatches m) acc ops.
(* the code: the flag accumulates over the flushed blocks *)
Definition code_accumulates : bool := true.

Inductive pitem :=
| POp (o : pop)
(* right after a rotation and one listener pass: the number of rotated segments of the index and, for the NEWEST one,
   (pqmr file of the query exists, segment is on the query's persisted empty-segments list).  Older segments are not
   compared: a raw-search fall-back of a later record query back-fills their files asynchronously. *)
| PBooks (m : list N) (nsegs : nat) (books : bool * bool)
(* a search of the tracked query: planner = the route goes through applyFopAllRequests (group-by); ids for record
   searches, count for statistics *)
| PObs (planner : bool) (m : list N) (ids : list N) (count : option N).

Definition pair_eqb (a b : bool * bool) : bool := Bool.eqb (fst a) (fst b) && Bool.eqb (snd a) (snd b).

Definition books_ok (acc : bool) (m : list N) (ops : list pop) (nsegs : nat) (books : bool * bool) : bool :=
  let rs := rot N (prun acc m ops) in
  Nat.eqb nsegs (length rs) &&
  match rev rs with
  | r :: _ => pair_eqb books (seg_books N r)
  | [] => false
  end.

Definition model_answer (acc : bool) (planner : bool) (m : list N) (ops : list pop) : list N :=
  if planner then search N (qmatches m) (prun acc m ops)
  else hits N (qmatches m) (flushed N ops).

Definition panswer_ok (acc : bool) (planner : bool) (m : list N) (ops : list pop) (ids : list N) (count : option N) : bool :=
  let l := model_answer acc planner m ops in
  match count with
  | Some c => N.eqb c (N.of_nat (length l))
  | None => list_eqb N.eqb ids l
  end.

(* [done] = the operations executed so far, oldest first *)
Fixpoint ptrace_ok (acc : bool) (done : list pop) (t : list pitem) : bool :=
  match t with
  | [] => true
  | POp o :: r => ptrace_ok acc (done ++ [o]) r
  | PBooks m n books :: r => books_ok acc m done n books && ptrace_ok acc done r
  | PObs pl m ids count :: r => panswer_ok acc pl m done ids count && ptrace_ok acc done r
  end.

Definition pq_case_ok (t : list pitem) : bool := ptrace_ok code_accumulates [] t.

Fixpoint pbad_idx (i : nat) (cs : list (list pitem)) : list nat :=
  match cs with
  | [] => []
  | c :: r => if pq_case_ok c then pbad_idx (S i) r else i :: pbad_idx (S i) r
  end.
Definition check_pq_cases (cs : list (list pitem)) : list nat := pbad_idx 0 cs.

(* short forms for the case files *)
Definition PF (b : list N) : pitem := POp (Flush N b).
Definition PR : pitem := POp (Rotate N).
Definition PL : pitem := POp (Listen N).

(* PqmrDamage.v — C18: damage to a segment's persistent-query match-result file <segkey>/pqmr/<pqid>.pqmr
   (pkg/segment/pqmr/pqmatchresults.go).  The file has no checksum.  Its reader and the searcher's rule are the
   definitions of PqmrProto.v (ReadPqmr with the reused buffer bsBlk, bitset.UnmarshalBinary, seg_answer), shared with
   C07, where they are tied to the code on every crash prefix; here they are tied to the code on every damaged file
   (truncation at every length, one replaced byte) of a store with four persistent queries.
   This file adds the vocabulary of damage: where the fields of a record lie, what a replaced byte makes of a block
   number / a bitset word, and what bitset.New allocates for a record before a single word has been read. *)
From SigM Require Import Base PqmrProto.
Open Scope N_scope.

(* the answer of a persistent query for block b of a segment with nblocks blocks whose pqmr file holds [file];
   truth b = the records of block b that match the filter (what a raw search returns) *)
Definition pq_answer (file : bytes) (nblocks : N) (truth : N -> list N) (b : N) : list N :=
  seg_answer (read_pqmr file) nblocks truth b.
(* the same with a reader that goes on after a short read of the bitset *)
Definition pq_answer_tolerant (file : bytes) (nblocks : N) (truth : N -> list N) (b : N) : list N :=
  seg_answer (read_pqmr_tolerant file) nblocks truth b.

(* record layout: blkNum at +0 (2, LE), size at +2 (2, LE), bitset length at +4 (8, BE), words from +12 (8 each, BE) *)
Definition rec_off (pre : list (N * bitset)) : nat := length (file_of pre).

(* one byte replaced in a little-endian block number / in a big-endian word / in the words of a bitset *)
Definition blk_set (i : nat) (v : N) (b : N) : N := le_dec (set_nth i v (le16 b)).
Definition word_set (i : nat) (v : N) (w : N) : N := be_dec (set_nth i v (be64 w)).
Definition words_set (i : nat) (v : N) (ws : list N) : list N :=
  set_nth (Nat.div i 8) (word_set (Nat.modulo i 8) v (nth (Nat.div i 8) ws 0)) ws.

(* bitset.ReadFrom: newset := New(uint(length)) allocates wordsNeeded(length) words BEFORE the words are read
   (payload = the size bytes of a record: bitset length, words) *)
(* runtime.makeslice refuses more than maxAlloc = 2^48 bytes (linux/amd64) with a panic that New recovers from (the
   result is an empty bitset, ReadFrom then reports a type mismatch); anything below is requested from the system *)
Definition max_alloc : N := 281474976710656.
Definition rec_alloc_words (payload : bytes) : N :=
  if Nat.ltb (length payload) 8 then 0
  else let nw := words_needed (be_dec (firstn 8 payload)) in
       if max_alloc <? 8 * nw then 0 else nw.
(* the guard of ReadPqmr since fix 3b911d3 (numBits > (bsSize-8)*8 => "corrupt record", no UnmarshalBinary): the
   announced bits fit into the words the record carries; rec_alloc_words is the request of the code before the fix *)
Definition len_fits (payload : bytes) : bool :=
  Nat.leb 8 (length payload) && (be_dec (firstn 8 payload) <=? 8 * N.of_nat (length payload - 8)).
Definition rec_alloc_words_guarded (payload : bytes) : N :=
  if len_fits payload then rec_alloc_words payload else 0.

(* PqmrDamageCheck.v — comparison of the model (PqmrProto reader + searcher rule) with what the real persistent query
   answered on damaged pqmr files (harness/cmd/c18/pq.go). *)
From SigM Require Import Base PqmrProto ChecksumFileCheck PqmrDamage.
Open Scope N_scope.

(* one answer: the bytes the pqmr file held when the query was asked, the records returned per block of the segment *)
Definition pq_run := (bytes * list (list N))%type.
(* one case: the undamaged file, the damage, the matching records per block, whether the first answer is among the
   runs (false: it was a reported error), the answers *)
Definition pq_case := (bytes * mutation * list (list N) * bool * list pq_run)%type.

Definition check_pq_run (truth : list (list N)) (r : pq_run) : bool :=
  list_eqb (list_eqb N.eqb) (answers_from (read_pqmr (fst r)) (N.of_nat (length truth)) 0 truth) (snd r).

Definition check_pq_case (c : pq_case) : bool :=
  let '(orig, m, truth, first, runs) := c in
  match runs with
  | r :: _ => if first then bytes_eqb (fst r) (apply_mut m orig) else true
  | [] => true
  end && forallb (check_pq_run truth) runs.

Fixpoint bad_pq_cases (cs : list pq_case) (i : nat) : list nat :=
  match cs with
  | [] => []
  | c :: r => (if check_pq_case c then [] else [i]) ++ bad_pq_cases r (S i)
  end.
Definition check_pq_cases cs := bad_pq_cases cs O.

(* the undamaged files satisfy the premises of the theorems: the writer's layout (file_of of well-formed blocks numbered
   0,1,2,...), one record per block of the segment, and the stored bits are the matching records *)
Fixpoint bits_are (bl : list (N * bitset)) (truth : list (list N)) : bool :=
  match bl, truth with
  | [], [] => true
  | x :: r, t :: tr => list_eqb N.eqb (set_bits (snd x)) t && bits_are r tr
  | _, _ => false
  end.
Definition check_pq_orig (c : bytes * list (list N)) : bool :=
  match read_pqmr (fst c) with
  | Some bl => wf_blocks bl && blknums_from 0 bl && bytes_eqb (file_of bl) (fst c) && bits_are bl (snd c)
  | None => false
  end.
Fixpoint bad_pq_origs (cs : list (bytes * list (list N))) (i : nat) : list nat :=
  match cs with
  | [] => []
  | c :: r => (if check_pq_orig c then [] else [i]) ++ bad_pq_origs r (S i)
  end.
Definition check_pq_origs cs := bad_pq_origs cs O.

(* a replaced byte in the bitset-length field: the payload of the damaged record and whether the process died in
   ReadPqmr with "out of memory".  Since fix 3b911d3 ReadPqmr refuses a record whose announced bits do not fit into
   its words BEFORE bitset.UnmarshalBinary allocates them (len_fits): the request is rec_alloc_words_guarded, bounded
   by the record size for any content (C18_pqmr_length_guard_bounds_alloc), so no death is explained any more: a
   death (>= 2^27 words = 1 GiB would be needed) is a disagreement, as is a survived request of 2^33 words *)
Definition check_pq_alloc (c : bytes * bool) : bool :=
  let a := rec_alloc_words_guarded (fst c) in
  if snd c then 134217728 <=? a else a <? 8589934592.
Fixpoint bad_pq_allocs (cs : list (bytes * bool)) (i : nat) : list nat :=
  match cs with
  | [] => []
  | c :: r => (if check_pq_alloc c then [] else [1000 + i])%nat ++ bad_pq_allocs r (S i)
  end.
Definition check_pq_allocs cs := bad_pq_allocs cs O.

(* PqmrProto.v — the persistent-query match-results file <segkey>/pqmr/<pqid>.pqmr at byte level:
   what FlushPqmr appends per flushed block (pkg/segment/pqmr/pqmatchresults.go: four write(2) calls:
   blkNum uint16 LE, size uint16 LE = BinaryStorageSize of the bitset, then bitset.WriteTo = length uint64 BE,
   words uint64 BE) and what ReadPqmr makes of a file after a crash (the loop over ReadAt with the reused buffer
   bsBlk, bitset.UnmarshalBinary), and how the searcher answers a persistent query per block (blocks reported by
   the file come from the stored bits, every other block is raw-searched: InitExclusionBlockTracker). *)
From SigM Require Import Base.
Open Scope N_scope.

Definition be64 (n : N) : bytes := rev (le_enc 8 n).
Definition be_dec (bs : bytes) : N := le_dec (rev bs).

(* bitset.BitSet: length in bits, 64-bit words *)
Definition bitset := (N * list N)%type.

(* bitset.wordsNeeded *)
Definition words_needed (len : N) : N :=
  if pow2_64 - 64 <? len then (pow2_64 - 1) / 64 else (len + 63) / 64.

Definition enc_words (ws : list N) : bytes := flat_map be64 ws.
Definition storage_size (bs : bitset) : N := 8 + 8 * N.of_nat (length (snd bs)).

(* FlushPqmr: the four writes of one block (uint16(...) truncation = le_enc 2) *)
Definition blk_chunks (b : N) (bs : bitset) : list bytes :=
  [le16 b; le16 (storage_size bs); be64 (fst bs); enc_words (snd bs)].
Definition enc_block (b : N) (bs : bitset) : bytes := concat (blk_chunks b bs).
Definition file_of (bl : list (N * bitset)) : bytes := flat_map (fun x => enc_block (fst x) (snd x)) bl.
Definition chunks_of (bl : list (N * bitset)) : list bytes := flat_map (fun x => blk_chunks (fst x) (snd x)) bl.

(* ---------- bitset.UnmarshalBinary (ReadFrom over a reader of the given bytes) ---------- *)
Fixpoint dec_words (n : nat) (d : bytes) : list N :=
  match n with
  | O => []
  | S n' => be_dec (firstn 8 d) :: dec_words n' (skipn 8 d)
  end.

Inductive ures := UOk (bs : bitset) | UEof | UErr.

Definition unmarshal (d : bytes) : ures :=
  match d with
  | [] => UEof                                       (* io.ReadFull read nothing: io.EOF *)
  | _ =>
    if Nat.ltb (length d) 8 then UErr                (* io.ErrUnexpectedEOF *)
    else
      let len := be_dec (firstn 8 d) in
      let nw := words_needed len in
      let r := skipn 8 d in
      if nw =? 0 then UOk (len, [])
      else match r with
           | [] => UEof
           | _ => if N.of_nat (length r) <? 8 * nw then UErr
                  else UOk (len, dec_words (N.to_nat nw) r)
           end
  end.

(* ---------- ReadPqmr ---------- *)
(* utils.ResizeSlice on the capacity-long array: grows with zeros, never forgets old bytes *)
Definition resize (buf : bytes) (size : nat) : bytes :=
  if Nat.leb size (length buf) then buf else buf ++ repeat 0 (size - length buf).

(* tol = false: the code (a short ReadAt ends the loop); tol = true: a reader that tolerates the short read of the
   bitset and goes on with whatever the buffer holds *)
Fixpoint read_loop (tol : bool) (fuel : nat) (buf rest : bytes) (acc : list (N * bitset)) : option (list (N * bitset)) :=
  match fuel with
  | O => Some (rev acc)
  | S f =>
    if Nat.ltb (length rest) 2 then Some (rev acc)
    else
      let blk := le_dec (firstn 2 rest) in
      let r2 := skipn 2 rest in
      if Nat.ltb (length r2) 2 then Some (rev acc)
      else
        let size := N.to_nat (le_dec (firstn 2 r2)) in
        let r3 := skipn 2 r2 in
        let buf1 := resize buf size in
        let got := firstn size r3 in
        let buf2 := got ++ skipn (length got) buf1 in   (* ReadAt copies what it gets into bsBlk[:bsSize] *)
        if Nat.ltb (length got) size && negb tol then Some (rev acc)
        else match unmarshal (firstn size buf2) with
             | UErr => None
             | UEof => Some (rev acc)
             | UOk bs => read_loop tol f buf2 (skipn size r3) ((blk, bs) :: acc)
             end
  end.

Definition buf0 : bytes := repeat 0 500.   (* make([]byte, WIP_NUM_RECS/8) *)
Definition read_pqmr (file : bytes) : option (list (N * bitset)) := read_loop false (S (length file)) buf0 file [].
Definition read_pqmr_tolerant (file : bytes) : option (list (N * bitset)) := read_loop true (S (length file)) buf0 file [].

(* res[blkNum] = pqmr : the last record of a block number wins *)
Fixpoint lookup_last (b : N) (l : list (N * bitset)) : option bitset :=
  match l with
  | [] => None
  | (b', bs) :: r => match lookup_last b r with
                     | Some x => Some x
                     | None => if b' =? b then Some bs else None
                     end
  end.

(* record numbers the bitset marks (bitset.Test: below length and bit set) *)
Definition word_bits (len j w : N) : list N :=
  filter (fun i => (i <? len) && N.testbit w (i - 64 * j)) (map (fun t => 64 * j + N.of_nat t) (seq 0 64)).
Fixpoint set_bits_from (len j : N) (ws : list N) : list N :=
  match ws with
  | [] => []
  | w :: r => word_bits len j w ++ set_bits_from len (j + 1) r
  end.
Definition set_bits (bs : bitset) : list N := set_bits_from (fst bs) 0 (snd bs).

(* distinct block numbers of a result *)
Definition keys_of (l : list (N * bitset)) : list N := nodup N.eq_dec (map fst l).

(* Searcher.getBlocks, per block b of a segment with nblocks blocks (one block summary per block) that carries the
   pqid: the blocks the file reports (and the segment has) come from the stored bits; the remaining blocks are
   raw-searched UNLESS the number of blocks taken from the file equals [total] ("all blocks in the segment are covered
   by the PQMR, so we can skip the raw search") - then they are not searched at all.
   The code: total = len(blockSummaries) = nblocks.  Before the fix total was SegMeta.NumBlocks, which in a running
   .sfm (segment adopted after a crash, never rotated) is the INDEX of the last flushed block. *)
Definition covered (l : list (N * bitset)) (nblocks : N) : N :=
  N.of_nat (length (filter (fun b => b <? nblocks) (keys_of l))).
Definition seg_answer_by (total : N) (r : option (list (N * bitset))) (nblocks : N) (truth : N -> list N) (b : N) : list N :=
  match r with
  | None => truth b
  | Some l => match lookup_last b l with
              | Some bs => set_bits bs
              | None => if covered l nblocks =? total then [] else truth b
              end
  end.
Definition seg_answer (r : option (list (N * bitset))) (nblocks : N) := seg_answer_by nblocks r nblocks.
(* the rule before the fix: recorded = NumBlocks of the segment meta *)
Definition seg_answer_numblocks (recorded : N) (r : option (list (N * bitset))) (nblocks : N) := seg_answer_by recorded r nblocks.

(* ---------- what the writer produces ---------- *)
Definition wf_bitset (bs : bitset) : bool :=
  (fst bs <? pow2_64) && forallb (fun w => w <? pow2_64) (snd bs)
  && (N.of_nat (length (snd bs)) =? words_needed (fst bs)) && (storage_size bs <? 65536).
Definition wf_block (x : N * bitset) : bool := (fst x <? 65536) && wf_bitset (snd x).
Definition wf_blocks (bl : list (N * bitset)) : bool := forallb wf_block bl.

(* number of leading blocks whose bytes lie completely inside the first k bytes of the file *)
Fixpoint complete (k : nat) (bl : list (N * bitset)) : nat :=
  match bl with
  | [] => O
  | x :: r => let n := length (enc_block (fst x) (snd x)) in
              if Nat.leb n k then S (complete (k - n) r) else O
  end.

(* ---------- comparison with observations ---------- *)
(* observed form of a reported block: (blkNum, number of bits, record numbers that match) *)
Definition obs_block := (N * (N * list N))%type.
Definition obs_eqb (a b : obs_block) : bool :=
  (fst a =? fst b) && (fst (snd a) =? fst (snd b)) && list_eqb N.eqb (snd (snd a)) (snd (snd b)).

Fixpoint insert_obs (x : obs_block) (l : list obs_block) : list obs_block :=
  match l with
  | [] => [x]
  | y :: r => if fst x <? fst y then x :: l else if fst x =? fst y then x :: r else y :: insert_obs x r
  end.
(* the map ReadPqmr returns, as a list sorted by block number *)
Definition result_map (l : list (N * bitset)) : list obs_block :=
  fold_left (fun m x => insert_obs (fst x, (fst (snd x), set_bits (snd x))) m) l [].

(* one crash state: the bytes of a pqmr file and what the real ReadPqmr returned for it (None = error) *)
Definition check_read_case (c : bytes * option (list obs_block)) : bool :=
  match read_pqmr (fst c), snd c with
  | None, None => true
  | Some l, Some o => list_eqb obs_eqb (result_map l) o
  | _, _ => false
  end.
Fixpoint bad_read_cases (cs : list (bytes * option (list obs_block))) (i : nat) : list nat :=
  match cs with
  | [] => []
  | c :: r => (if check_read_case c then [] else [i]) ++ bad_read_cases r (S i)
  end.
Definition check_read_cases cs := bad_read_cases cs O.

(* the writer: the traced write(2) payloads of one pqmr file (empty writes dropped) are the model's chunks of the
   blocks the complete file decodes to, block numbers 0,1,2,...; the file after the last call holds exactly these bytes *)
Definition nonempty (l : list bytes) : list bytes := filter (fun c => negb (Nat.eqb (length c) O)) l.
Fixpoint blknums_from (b : N) (l : list (N * bitset)) : bool :=
  match l with
  | [] => true
  | x :: r => (fst x =? b) && blknums_from (b + 1) r
  end.
Definition check_writer (c : list bytes * bytes) : bool :=
  let '(chunks, file) := c in
  bytes_eqb (concat chunks) file &&          (* O_APPEND: the file is the concatenation of everything written to it *)
  match read_pqmr (concat chunks) with
  | Some bl => list_eqb bytes_eqb (nonempty (chunks_of bl)) (nonempty chunks) && wf_blocks bl && blknums_from 0 bl
  | None => false
  end.
Fixpoint bad_writers (cs : list (list bytes * bytes)) (i : nat) : list nat :=
  match cs with
  | [] => []
  | c :: r => (if check_writer c then [] else [i]) ++ bad_writers r (S i)
  end.
Definition check_writers cs := bad_writers cs O.

(* one crash state of a segment that start-up adopted: the bytes of its pqmr file, per searchable block the records
   that match the query (from the events sent) and the records the real persistent query returned after the restart *)
Definition answer_case := (bytes * (list (list N) * list (list N)))%type.
Fixpoint answers_from (r : option (list (N * bitset))) (nblocks : N) (b : N) (truth : list (list N)) : list (list N) :=
  match truth with
  | [] => []
  | t :: rest => seg_answer r nblocks (fun _ => t) b :: answers_from r nblocks (b + 1) rest
  end.
Definition check_answer_case (c : answer_case) : bool :=
  let '(file, (truth, got)) := c in
  list_eqb (list_eqb N.eqb) (answers_from (read_pqmr file) (N.of_nat (length truth)) 0 truth) got.
Fixpoint bad_answer_cases (cs : list answer_case) (i : nat) : list nat :=
  match cs with
  | [] => []
  | c :: r => (if check_answer_case c then [] else [i]) ++ bad_answer_cases r (S i)
  end.
Definition check_answer_cases cs := bad_answer_cases cs O.

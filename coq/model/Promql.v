(* Promql.v — executable model of the PromQL selector / aggregation path of siglens
   (C09).  Definitions only.

   Followed code:
     promql/parser.go            parsePromQLQuery, handleAggregateExpr, handleVectorSelector  -> [flags], [query_filters]
     query/metricsquery.go       ApplyMetricsQuery (star filters for all remaining tag keys)   -> [apply_filters]   (FIXED code)
     structs/metricsstructs.go   ReorderTagFilters (sort by key, value filters before stars)   -> [reorder]
     tagstree/tagstreereader.go  runTSIDSearch, processExactFilter, processWildcardOrRegexFilter -> [step_filter]
     mresults/tsid/tsidtracker.go BulkAdd, BulkAddStar, AddTSID (id STRINGS "name{k:v,k:v,")    -> [bulk_add], [bulk_add_star]
     mresults/seriesresult.go    Downsample, reduceEntries, reduceRunningEntries                -> [ds_entries], [reduce_running]
     mresults/metricresults.go   DownsampleResults, AggregateResults, computeAggCount,
                                 getAggSeriesId, ExtractGroupByFieldsFromSeriesId,
                                 GetSeriesIdWithoutFields (substring search on the id string)   -> [agg_series_id] ...
   Strings are byte lists; values are integers (the harness only uses integer values whose
   sums and averages are exact in binary64); avg is an exact rational. *)
From SigM Require Import Base.
From Coq Require Import QArith.
Open Scope N_scope.

Definition str := list N.
Definition str_eqb : str -> str -> bool := list_eqb N.eqb.

Definition c_colon : N := 58.
Definition c_comma : N := 44.
Definition c_lbrace : N := 123.
Definition c_star : N := 42.

(* ---------- strings: the Go library functions the id manipulation uses ---------- *)
Fixpoint is_prefix (p s : str) : bool :=
  match p, s with
  | [], _ => true
  | _ :: _, [] => false
  | x :: p', y :: s' => (x =? y) && is_prefix p' s'
  end.

(* strings.Index: (text before the first occurrence, text after it) *)
Fixpoint find_sub (pat s : str) : option (str * str) :=
  if is_prefix pat s then Some ([], skipn (length pat) s)
  else match s with
       | [] => None
       | c :: s' => match find_sub pat s' with
                    | Some (b, a) => Some (c :: b, a)
                    | None => None
                    end
       end.

(* strings.Split(s, sep) for a one-byte separator *)
Fixpoint split_on (sep : N) (s : str) : list str :=
  match s with
  | [] => [[]]
  | c :: s' =>
    if c =? sep then [] :: split_on sep s'
    else match split_on sep s' with
         | [] => [[c]]
         | h :: t => (c :: h) :: t
         end
  end.

(* strings.SplitN(s, sep, 2) *)
Fixpoint split2 (sep : N) (s : str) : str * option str :=
  match s with
  | [] => ([], None)
  | c :: s' =>
    if c =? sep then ([], Some s')
    else let '(a, b) := split2 sep s' in (c :: a, b)
  end.

Fixpoint join (sep : N) (l : list str) : str :=
  match l with
  | [] => []
  | [x] => x
  | x :: r => x ++ sep :: join sep r
  end.

(* text up to the first separator (or all of it) *)
Definition upto (sep : N) (s : str) : str := fst (split2 sep s).

(* byte-wise lexicographic order (Go string <) *)
Fixpoint str_ltb (a b : str) : bool :=
  match a, b with
  | _, [] => false
  | [], _ :: _ => true
  | x :: a', y :: b' => if x <? y then true else if y <? x then false else str_ltb a' b'
  end.

Fixpoint mem_str (k : str) (l : list str) : bool :=
  match l with [] => false | x :: r => str_eqb x k || mem_str k r end.

(* ---------- data ---------- *)
Definition labels := list (str * str).

Fixpoint lookup (k : str) (l : labels) : option str :=
  match l with
  | [] => None
  | (a, v) :: r => if str_eqb a k then Some v else lookup k r
  end.

Definition pt := (Z * Z)%type.   (* (timestamp in seconds, value) *)

(* a series and its datapoints as they lie in the store: one list per block / segment
   (open or rotated) that holds part of the series *)
Record series := { s_name : str; s_labels : labels; s_chunks : list (list pt) }.

Definition s_points (s : series) : list pt := concat (s_chunks s).

Inductive mop := MEq | MNe | MRe | MNre.
Record matcher := { m_key : str; m_op : mop; m_val : str }.

Inductive aggfn := ASum | AMin | AMax | AAvg | ACount.
Inductive grouping := GNone | GBy (l : list str) | GWithout (l : list str).

Inductive query :=
| QSel (name : str) (ms : list matcher)
| QAgg (f : aggfn) (g : grouping) (name : str) (ms : list matcher).

Definition q_name (q : query) : str := match q with QSel n _ => n | QAgg _ _ n _ => n end.
Definition q_matchers (q : query) : list matcher := match q with QSel _ ms => ms | QAgg _ _ _ ms => ms end.

(* ---------- the time range of a query (dtypeutils.go, metricssearch.go, unrotatedquery.go) ----------
   MetricsTimeRange.CheckInRange: both ends inclusive *)
Definition in_range (lo hi t : Z) : bool := (lo <=? t)%Z && (t <=? hi)%Z.

(* MetricsTimeRange.CheckRangeOverLap(earliest, latest): the three disjuncts of the Go code, in order.
   Decides whether a block (block summary LowTs/HighTs) or a segment is read at all. *)
Definition range_overlap (lo hi earliest latest : Z) : bool :=
  ((lo <=? earliest)%Z && (earliest <=? hi)%Z) ||
  ((lo <=? latest)%Z && (latest <=? hi)%Z) ||
  ((earliest <=? lo)%Z && (hi <=? latest)%Z).

(* blockWorker (rotated blocks) and SearchUnrotatedMetricsBlock (open block): the iterator yields EVERY
   datapoint of the series in the block, in arrival order (the writer appends datapoints as they
   arrive, timestamps need not increase); a datapoint outside the range is skipped, the loop goes on *)
Definition clip_pts (lo hi : Z) (pts : list pt) : list pt :=
  filter (fun p => in_range lo hi (fst p)) pts.

(* a block whose summary does not overlap the range is not read *)
Definition read_block (lo hi : Z) (bounds : Z * Z) (pts : list pt) : list pt :=
  if range_overlap lo hi (fst bounds) (snd bounds) then clip_pts lo hi pts else [].

Definition clip_series (lo hi : Z) (s : series) : series :=
  {| s_name := s_name s; s_labels := s_labels s; s_chunks := map (clip_pts lo hi) (s_chunks s) |}.

(* what the query engine sees of the store for the range [lo, hi]: the tags trees are unchanged
   (a series without a datapoint in the range is still found by the tag search), the datapoints are clipped *)
Definition clip_db (lo hi : Z) (db : list series) : list series := map (clip_series lo hi) db.

(* ---------- PromQL specification (absent label = empty string) ---------- *)
Section WithRegex.
(* the regular-expression engine (Go regexp, fully anchored): pattern -> value -> matched *)
Variable rmatch : str -> str -> bool.

Definition label_val (k : str) (l : labels) : str :=
  match lookup k l with Some v => v | None => [] end.

Definition spec_match (m : matcher) (l : labels) : bool :=
  let v := label_val (m_key m) l in
  match m_op m with
  | MEq => str_eqb v (m_val m)
  | MNe => negb (str_eqb v (m_val m))
  | MRe => rmatch (m_val m) v
  | MNre => negb (rmatch (m_val m) v)
  end.

Definition spec_selected (name : str) (ms : list matcher) (s : series) : bool :=
  str_eqb (s_name s) name && forallb (fun m => spec_match m (s_labels s)) ms.

Definition spec_select (name : str) (ms : list matcher) (db : list series) : list series :=
  filter (spec_selected name ms) db.

(* ---------- tag filters as the query engine sees them ---------- *)
Record tfilter := { f_key : str; f_op : mop; f_val : str; f_ignore : bool; f_groupkey : bool }.

Definition star_val : str := [c_star].
Definition star_filter (k : str) (ign grp : bool) : tfilter :=
  {| f_key := k; f_op := MEq; f_val := star_val; f_ignore := ign; f_groupkey := grp |}.
Definition of_matcher (m : matcher) : tfilter :=
  {| f_key := m_key m; f_op := m_op m; f_val := m_val m; f_ignore := false; f_groupkey := false |}.

Definition f_is_regex (f : tfilter) : bool := match f_op f with MRe | MNre => true | _ => false end.
Definition f_is_star (f : tfilter) : bool := str_eqb (f_val f) star_val.           (* isStarValue *)
Definition f_is_wild (f : tfilter) : bool := f_is_star f || f_is_regex f.          (* isWildcardOrRegex *)

Definition name_label : str := [95;95;110;97;109;101;95;95].  (* "__name__" *)

(* parser.go: the flags a query gets.  (select_all, get_all_labels) *)
Definition group_list (g : grouping) : list str :=
  match g with GNone => [] | GBy l => l | GWithout l => l end.
Definition is_without (g : grouping) : bool := match g with GWithout _ => true | _ => false end.

Definition query_filters (q : query) : list tfilter :=
  match q with
  | QSel _ ms => map of_matcher ms
  | QAgg _ g _ ms =>
    map of_matcher ms ++
    map (fun k => star_filter k (is_without g) true)
        (filter (fun k => negb (str_eqb k name_label)) (group_list g))
  end.

Definition flags (q : query) : bool * bool :=
  match q with
  | QSel _ _ => (true, true)                       (* handleVectorSelector: no aggregation, no group by *)
  | QAgg f g _ ms =>
    let gal0 := match f with ACount => true | _ => false end in
    let grouped := negb (Nat.eqb (length (group_list g)) 0) in
    let by_name := mem_str name_label (group_list g) in
    let sel0 := if grouped then false else gal0 in          (* AggWithoutGroupBy: SelectAllSeries = GetAllLabels *)
    let '(sel1, gal1) := if is_without g then (true, true) else (sel0, gal0) in
    if sel1 then (sel1, gal1)
    else
      let tfs := query_filters q in
      let sel2 :=
        if (negb grouped || by_name) && negb (Nat.eqb (length tfs) 0) then false
        else negb (existsb (fun t => f_groupkey t) tfs) in
      (sel2, gal1)   (* GetAllLabels is only forced for queries without aggregation *)
  end.

(* the aggregation applied by AggregateResults: (function, fields, without) *)
Definition first_agg (q : query) : aggfn * list str * bool :=
  match q with
  | QSel _ _ => (AAvg, [], true)
  | QAgg f g _ _ => (f, group_list g, is_without g)
  end.

Definition ds_fn (q : query) : aggfn := match q with QSel _ _ => AAvg | QAgg f _ _ _ => f end.

(* ---------- the tag-key universe of the tags tree ---------- *)
Definition has_key (k : str) (s : series) : bool :=
  match lookup k (s_labels s) with Some _ => true | None => false end.

Fixpoint add_keys (ks : list str) (acc : list str) : list str :=
  match ks with [] => acc | k :: r => add_keys r (if mem_str k acc then acc else acc ++ [k]) end.

Definition all_keys (db : list series) : list str :=
  fold_left (fun acc s => add_keys (map fst (s_labels s)) acc) db [].

(* ApplyMetricsQuery: with SelectAllSeries every tag key not mentioned by the query gets a key=*
   filter.  The key=* filters of a without-clause stay in the search (fixes/C09-without-all-labels);
   the labels are removed from the id by GetSeriesIdWithoutFields at aggregation time. *)
Definition apply_filters (sel_all : bool) (tfs : list tfilter) (db : list series) : list tfilter :=
  if sel_all then
    tfs ++
    map (fun k => star_filter k false false)
        (filter (fun k => negb (mem_str k (map f_key tfs))) (all_keys db))
  else tfs.

(* PRE-FIX (documentation only): ignored (without) filters were dropped before the search, so a
   series whose labels are all named in the without-clause was never found *)
Definition apply_filters_prefix (sel_all : bool) (tfs : list tfilter) (db : list series) : list tfilter :=
  if sel_all then
    filter (fun t => negb (f_ignore t)) tfs ++
    map (fun k => star_filter k false false)
        (filter (fun k => negb (mem_str k (map f_key tfs))) (all_keys db))
  else tfs.

(* ReorderTagFilters: stable sort by key (sort.Slice is an insertion sort below 12 elements),
   then: a key is queried once; a value filter displaces a star filter of the same key and a
   later value filter of an already-queried key is DROPPED; value filters first, then stars *)
Fixpoint insert_by_key (f : tfilter) (l : list tfilter) : list tfilter :=
  match l with
  | [] => [f]
  | g :: r => if str_ltb (f_key g) (f_key f) then g :: insert_by_key f r else f :: l   (* before equal keys: stable with fold_right *)
  end.
Definition sort_by_key (l : list tfilter) : list tfilter := fold_right insert_by_key [] l.

Definition has_fkey (k : str) (l : list tfilter) : bool := existsb (fun f => str_eqb (f_key f) k) l.

Definition reorder_step (st : list tfilter * list tfilter) (f : tfilter) : list tfilter * list tfilter :=
  let '(others, stars) := st in
  if f_is_star f then
    if has_fkey (f_key f) others || has_fkey (f_key f) stars then st else (others, stars ++ [f])
  else
    if has_fkey (f_key f) others then st
    else (others ++ [f], filter (fun g => negb (str_eqb (f_key g) (f_key f))) stars).

Definition reorder (tfs : list tfilter) : list tfilter * list tfilter :=
  fold_left reorder_step (sort_by_key tfs) ([], []).

(* ---------- the TSID tracker: series index -> id string under construction ---------- *)
Definition tracker := list (nat * str).

Fixpoint tr_mem (i : nat) (tr : tracker) : bool :=
  match tr with [] => false | (j, _) :: r => Nat.eqb i j || tr_mem i r end.

Fixpoint cand_val (i : nat) (c : list (nat * str)) : option str :=
  match c with [] => None | (j, v) :: r => if Nat.eqb i j then Some v else cand_val i r end.

Definition kv (k v : str) : str := k ++ c_colon :: v ++ [c_comma].

(* BulkAdd *)
Definition bulk_add (first : bool) (name : str) (k : str) (cand : list (nat * str)) (tr : tracker) : tracker :=
  if first then map (fun iv => (fst iv, name ++ c_lbrace :: kv k (snd iv))) cand
  else flat_map (fun e => match cand_val (fst e) cand with
                          | Some v => [(fst e, snd e ++ kv k v)]
                          | None => []
                          end) tr.

(* BulkAddStar *)
Fixpoint bulk_add_star (nvf : bool) (name : str) (k : str) (cand : list (nat * str)) (tr : tracker) : tracker :=
  match cand with
  | [] => tr
  | (i, v) :: r =>
    let tr' :=
      if tr_mem i tr then map (fun e => if Nat.eqb (fst e) i then (fst e, snd e ++ kv k v) else e) tr
      else if nvf then tr
      else tr ++ [(i, name ++ c_lbrace :: kv k v)] in
    bulk_add_star nvf name k r tr'
  end.

(* addToTracker / AddTSID(addToBuf = false) *)
Fixpoint add_plain (name : str) (cand : list (nat * str)) (tr : tracker) : tracker :=
  match cand with
  | [] => tr
  | (i, _) :: r => add_plain name r (if tr_mem i tr then tr else tr ++ [(i, name ++ [c_lbrace])])
  end.

(* tags tree of key k restricted to the metric: (series index, value) *)
Fixpoint tree_vals_from (name k : str) (db : list series) (i : nat) : list (nat * str) :=
  match db with
  | [] => []
  | s :: r =>
    (if str_eqb (s_name s) name then
       match lookup k (s_labels s) with Some v => [(i, v)] | None => [] end
     else []) ++ tree_vals_from name k r (S i)
  end.
Definition tree_vals (name k : str) (db : list series) := tree_vals_from name k db O.

Definition key_file_exists (k : str) (db : list series) : bool := existsb (has_key k) db.

Definition accept_val (f : tfilter) (v : str) : bool :=
  match f_op f with
  | MEq => str_eqb v (f_val f)               (* hash equality; collisions outside the model *)
  | MNe => negb (str_eqb v (f_val f))
  | MRe => match v with [] => true | _ => rmatch (f_val f) v end     (* "len(tagRawValue) > 0" *)
  | MNre => match v with [] => true | _ => negb (rmatch (f_val f) v) end
  end.

(* one iteration of the loop in runTSIDSearch *)
Definition step_filter (sel_all gal nvf : bool) (name : str) (db : list series)
           (st : bool * tracker) (f : tfilter) : bool * tracker :=
  let '(first, tr) := st in
  let vals := tree_vals name (f_key f) db in
  let tr' :=
    if negb (key_file_exists (f_key f) db) then tr               (* tags-tree file of the key missing: filter skipped *)
    else if f_is_wild f then
      match vals with
      | [] => tr                                                  (* metric not in this tree: filter skipped *)
      | _ =>
        let cand := if f_is_regex f then filter (fun iv => accept_val f (snd iv)) vals else vals in
        if negb gal && sel_all then add_plain name cand tr
        else if f_is_regex f then bulk_add first name (f_key f) cand tr
        else bulk_add_star nvf name (f_key f) cand tr
      end
    else bulk_add first name (f_key f) (filter (fun iv => accept_val f (snd iv)) vals) tr in
  (false, tr').

Definition tracked (q : query) (db : list series) : tracker :=
  let '(sel_all, gal) := flags q in
  let '(others, stars) := reorder (apply_filters sel_all (query_filters q) db) in
  let nvf := negb (Nat.eqb (length others) 0) in
  snd (fold_left (step_filter sel_all gal nvf (q_name q) db) (others ++ stars) (true, [])).

Definition tracked_prefix (q : query) (db : list series) : tracker :=
  let '(sel_all, gal) := flags q in
  let '(others, stars) := reorder (apply_filters_prefix sel_all (query_filters q) db) in
  let nvf := negb (Nat.eqb (length others) 0) in
  snd (fold_left (step_filter sel_all gal nvf (q_name q) db) (others ++ stars) (true, [])).

(* ---------- group ids (metricresults.go) ---------- *)
(* ExtractMetricNameFromGroupID: Split(id, "{") must give exactly two parts *)
Definition metric_of_id (id : str) : str :=
  match split_on c_lbrace id with
  | [a; _] => a
  | _ => id
  end.

(* ExtractGroupByFieldsFromSeriesId: strings.Index(seriesId, field+":") on the whole id *)
Definition extract_field (id field : str) : option str :=
  match find_sub (field ++ [c_colon]) id with
  | None => None
  | Some (_, after) => Some (upto c_comma after)
  end.

Definition extract_pairs (id : str) (fields : list str) : list str :=
  flat_map (fun f => match extract_field id f with
                     | Some v => [f ++ c_colon :: v]
                     | None => []
                     end) fields.

(* GetSeriesIdWithoutFields *)
Definition without_fields (id : str) (fields : list str) : str :=
  match fields with
  | [] => id
  | _ =>
    match split_on c_comma id with
    | [] => id
    | p0 :: rest =>
      let '(mname, body) := split2 c_lbrace p0 in
      let first_part := match body with Some b => b | None => p0 end in
      let keep (part : str) : bool :=
        match split2 c_colon part with
        | (k, Some _) => negb (mem_str k fields)
        | (_, None) => true
        end in
      mname ++ c_lbrace :: join c_comma (filter keep (first_part :: rest))
    end
  end.

(* getAggSeriesId *)
Definition agg_series_id (id : str) (fields : list str) (without : bool) : str :=
  if without then without_fields id fields
  else
    match fields with
    | [] => metric_of_id id ++ [c_lbrace]
    | _ => metric_of_id id ++ c_lbrace :: join c_comma (extract_pairs id fields)
    end.

(* ---------- downsampling (step 1 s) and aggregation ---------- *)
Definition vals_at (t : Z) (pts : list pt) : list Z :=
  map snd (filter (fun p => Z.eqb (fst p) t) pts).

Definition zmin_list (l : list Z) : Z := match l with [] => 0%Z | x :: r => fold_left Z.min r x end.
Definition zmax_list (l : list Z) : Z := match l with [] => 0%Z | x :: r => fold_left Z.max r x end.
Definition zsum (l : list Z) : Z := fold_left Z.add l 0%Z.

(* reduceEntries with the converted function (avg -> sum): one running entry (value, count) *)
Definition ds_entry (fn : aggfn) (vals : list Z) : Z * Z :=
  (match fn with
   | ASum | AAvg => zsum vals
   | AMin => zmin_list vals
   | AMax => zmax_list vals
   | ACount => 0%Z
   end, Z.of_nat (length vals)).

(* running entries of one series at time t: none when the series has no point there *)
Definition series_entry (fn : aggfn) (pts : list pt) (t : Z) : list (Z * Z) :=
  match vals_at t pts with [] => [] | vs => [ds_entry fn vs] end.

(* reduceRunningEntries *)
Definition reduce_running (fn : aggfn) (es : list (Z * Z)) : Q :=
  match fn with
  | AAvg => match zsum (map snd es) with
            | Zpos c => Qmake (zsum (map fst es)) c
            | _ => 0%Q
            end
  | ASum => inject_Z (zsum (map fst es))
  | AMin => inject_Z (zmin_list (map fst es))
  | AMax => inject_Z (zmax_list (map fst es))
  | ACount => 0%Q
  end.

Definition nth_series (db : list series) (i : nat) : list pt :=
  match nth_error db i with Some s => s_points s | None => [] end.

(* distinct values in first-appearance order *)
Fixpoint dedup_str (l : list str) : list str :=
  match l with [] => [] | x :: r => x :: filter (fun y => negb (str_eqb x y)) (dedup_str r) end.
Fixpoint dedup_z (l : list Z) : list Z :=
  match l with [] => [] | x :: r => x :: filter (fun y => negb (Z.eqb x y)) (dedup_z r) end.

(* DownsampleResults / AggregateResults: the running entries that reach output group [gid] at time t.
   (The Go code walks maps keyed by tracker id and then by output id; map order is unspecified and the
   reductions do not depend on it, the model walks the tracker in its own order.) *)
Definition gid_entries (dsfn : aggfn) (fields : list str) (without : bool)
           (db : list series) (tr : tracker) (gid : str) (t : Z) : list (Z * Z) :=
  flat_map (fun e => if str_eqb (agg_series_id (snd e) fields without) gid
                     then series_entry dsfn (nth_series db (fst e)) t else []) tr.

(* computeAggCount without group by: the tracker ids (DsResults keys) that have an entry at t *)
Definition ids_with_entry (dsfn : aggfn) (db : list series) (tr : tracker) (t : Z) : list str :=
  filter (fun g => existsb (fun e => str_eqb (snd e) g &&
                                     negb (Nat.eqb (length (series_entry dsfn (nth_series db (fst e)) t)) 0)) tr)
         (dedup_str (map snd tr)).

(* the aggregation stage for an arbitrary set of selected series (tracker) *)
Definition agg_at (name : str) (fn : aggfn) (fields : list str) (without : bool)
           (db : list series) (tr : tracker) (gid : str) (t : Z) : option Q :=
  match fn, fields with
  | ACount, [] =>
    if str_eqb gid (name ++ [c_lbrace]) then
      match ids_with_entry fn db tr t with
      | [] => None
      | l => Some (inject_Z (Z.of_nat (length l)))
      end
    else None
  | ACount, _ =>
    match gid_entries fn fields without db tr gid t with
    | [] => None
    | es => Some (inject_Z (Z.of_nat (length es)))
    end
  | _, _ =>
    match gid_entries fn fields without db tr gid t with
    | [] => None
    | es => Some (reduce_running fn es)
    end
  end.

(* value of output group [gid] at time [t] (None: no sample) *)
Definition result_at (q : query) (db : list series) (gid : str) (t : Z) : option Q :=
  let '(fn, fields, without) := first_agg q in
  agg_at (q_name q) fn fields without db (tracked q db) gid t.

Definition out_ids (q : query) (db : list series) : list str :=
  let tr := tracked q db in
  let '(fn, fields, without) := first_agg q in
  match fn, fields with
  | ACount, [] => [q_name q ++ [c_lbrace]]
  | _, _ => dedup_str (map (fun e => agg_series_id (snd e) fields without) tr)
  end.

Definition all_times (db : list series) (tr : tracker) : list Z :=
  dedup_z (flat_map (fun e => map fst (nth_series db (fst e))) tr).

(* the whole answer: output id -> samples; ids without any sample are not reported *)
Definition run_query (q : query) (db : list series) : list (str * list (Z * Q)) :=
  let ts := all_times db (tracked q db) in
  flat_map (fun gid =>
    match flat_map (fun t => match result_at q db gid t with Some v => [(t, v)] | None => [] end) ts with
    | [] => []
    | l => [(gid, l)]
    end) (out_ids q db).

(* ---------- specification of aggregation ---------- *)
Definition spec_agg (fn : aggfn) (vals : list Z) : Q :=
  match fn with
  | ASum => inject_Z (zsum vals)
  | AMin => inject_Z (zmin_list vals)
  | AMax => inject_Z (zmax_list vals)
  | AAvg => match vals with [] => 0%Q | _ => Qmake (zsum vals) (Pos.of_nat (length vals)) end
  | ACount => inject_Z (Z.of_nat (length vals))
  end.

(* ---------- arithmetic between two instant vectors (segexecution.go, HelperQueryArithmeticAndLogical) ----------
   Both operands are plain selectors (GetAllLabels is already set for them).  A left series is
   paired with the right series whose id STRING equals rightName ++ (leftId minus leftName); an output
   sample exists where BOTH series have a sample (fixes/C09-arith-missing-sample); a pair without
   any common timestamp yields no series. *)
Inductive binop := BAdd | BSub | BMul.
Definition bin_apply (op : binop) (x y : Q) : Q :=
  match op with BAdd => Qred (x + y) | BSub => Qred (x - y) | BMul => Qred (x * y) end.

Definition run_arith (op : binop) (q1 q2 : query) (db : list series) : list (str * list (Z * Q)) :=
  let r2 := run_query q2 db in
  flat_map (fun e =>
    let rid := q_name q2 ++ skipn (length (q_name q1)) (fst e) in
    match find (fun e2 => str_eqb (fst e2) rid) r2 with
    | None => []
    | Some e2 =>
      match flat_map (fun tv =>
              match find (fun tv2 => Z.eqb (fst tv2) (fst tv)) (snd e2) with
              | Some tv2 => [(fst tv, bin_apply op (snd tv) (snd tv2))]
              | None => []
              end) (snd e) with
      | [] => []
      | l => [(fst e, l)]
      end
    end) (run_query q1 db).

(* PRE-FIX (documentation only): a right-hand sample missing at a timestamp was read from a Go map as 0 *)
Definition run_arith_prefix (op : binop) (q1 q2 : query) (db : list series) : list (str * list (Z * Q)) :=
  let r2 := run_query q2 db in
  flat_map (fun e =>
    let rid := q_name q2 ++ skipn (length (q_name q1)) (fst e) in
    match find (fun e2 => str_eqb (fst e2) rid) r2 with
    | None => []
    | Some e2 =>
      [(fst e, map (fun tv =>
          let y := match find (fun tv2 => Z.eqb (fst tv2) (fst tv)) (snd e2) with
                   | Some tv2 => snd tv2
                   | None => 0%Q
                   end in
          (fst tv, bin_apply op (snd tv) y)) (snd e))]
    end) (run_query q1 db).

(* ---------- queries over a time range [lo, hi] ---------- *)
Definition result_at_range (lo hi : Z) (q : query) (db : list series) (gid : str) (t : Z) : option Q :=
  result_at q (clip_db lo hi db) gid t.
Definition run_query_range (lo hi : Z) (q : query) (db : list series) : list (str * list (Z * Q)) :=
  run_query q (clip_db lo hi db).
Definition run_arith_range (lo hi : Z) (op : binop) (q1 q2 : query) (db : list series) : list (str * list (Z * Q)) :=
  run_arith op q1 q2 (clip_db lo hi db).

(* ---------- nested aggregations:  f2 g2 (f1 g1 (name{ms}))  ----------
   parser.go walks the expression with parser.Inspect, OUTER aggregation first.  Every AggregateExpr
   runs handleAggregateExpr on the one shared MetricsQuery: the flags accumulate, every grouping label
   appends a key=* filter (NotInitialGroup = "an aggregation is nested below this one"), and the
   aggregation is put at the HEAD of the SubsequentAggs chain, so the chain runs innermost first.
   [pstate] is that shared MetricsQuery: GetAllLabels, SelectAllSeries, Groupby, AggWithoutGroupBy,
   GroupByMetricName, TagsFilters (with NotInitialGroup). *)
Record pstate := { p_gal : bool; p_sel : bool; p_groupby : bool; p_nogrp : bool; p_byname : bool;
                   p_tfs : list (tfilter * bool) }.

(* parsePromQLQuery: the matchers of the selector come first (extractSelectors) *)
Definition p_init (ms : list matcher) : pstate :=
  {| p_gal := false; p_sel := false; p_groupby := false; p_nogrp := false; p_byname := false;
     p_tfs := map (fun m => (of_matcher m, false)) ms |}.

Definition is_count (f : aggfn) : bool := match f with ACount => true | _ => false end.

(* handleAggregateExpr *)
Definition agg_step (f : aggfn) (g : grouping) (nested : bool) (p : pstate) : pstate :=
  let gal1 := p_gal p || is_count f in
  let grouped := negb (Nat.eqb (length (group_list g)) 0) in
  let sel1 := if grouped then p_sel p else gal1 in            (* else: AggWithoutGroupBy, SelectAllSeries = GetAllLabels *)
  let w := is_without g in
  {| p_gal := gal1 || w; p_sel := sel1 || w;
     p_groupby := p_groupby p || grouped; p_nogrp := p_nogrp p || negb grouped;
     p_byname := p_byname p || mem_str name_label (group_list g);
     p_tfs := p_tfs p ++ map (fun k => (star_filter k w true, nested))
                             (filter (fun k => negb (str_eqb k name_label)) (group_list g)) |}.

(* handleVectorSelector: (SelectAllSeries, GetAllLabels) *)
Definition vs_step (p : pstate) : bool * bool :=
  if p_sel p then (true, p_gal p)
  else
    let sel := if (p_nogrp p || p_byname p) && negb (Nat.eqb (length (p_tfs p)) 0) then false
               else negb (existsb (fun t => f_groupkey (fst t) && negb (snd t)) (p_tfs p)) in
    (sel, p_gal p || (sel && negb (p_groupby p) && negb (p_nogrp p))).

Record nquery := { n_f2 : aggfn; n_g2 : grouping; n_f1 : aggfn; n_g1 : grouping; n_name : str; n_ms : list matcher }.

Definition nest_state (q : nquery) : pstate :=
  agg_step (n_f1 q) (n_g1 q) false (agg_step (n_f2 q) (n_g2 q) true (p_init (n_ms q))).
Definition nest_flags (q : nquery) : bool * bool := vs_step (nest_state q).
(* matchers ++ key=* filters of the OUTER clause ++ key=* filters of the INNER clause: a label named in
   both clauses is filtered twice, ReorderTagFilters keeps one filter per key *)
Definition nest_filters (q : nquery) : list tfilter := map fst (p_tfs (nest_state q)).

(* ApplyMetricsQuery + runTSIDSearch for given flags and filters ([tracked] is the instance for one layer) *)
Definition tracked_with (sel_all gal : bool) (tfs : list tfilter) (name : str) (db : list series) : tracker :=
  let '(others, stars) := reorder (apply_filters sel_all tfs db) in
  let nvf := negb (Nat.eqb (length others) 0) in      (* numValueFilters > 0: counted AFTER duplicates are dropped *)
  snd (fold_left (step_filter sel_all gal nvf name db) (others ++ stars) (true, [])).

Definition tracked_nest (q : nquery) (db : list series) : tracker :=
  let '(sel_all, gal) := nest_flags q in
  tracked_with sel_all gal (nest_filters q) (n_name q) db.

(* first layer = DownsampleResults + AggregateResults with the head of the chain (the INNERMOST aggregation,
   which is also the down-sampler's function): the answer of one aggregation over a tracker *)
Definition layer1 (name : str) (fn : aggfn) (fields : list str) (without : bool)
           (db : list series) (tr : tracker) : list (str * list (Z * Q)) :=
  let ts := all_times db tr in
  let ids := match fn, fields with
             | ACount, [] => [name ++ [c_lbrace]]
             | _, _ => dedup_str (map (fun e => agg_series_id (snd e) fields without) tr)
             end in
  flat_map (fun gid =>
    match flat_map (fun t => match agg_at name fn fields without db tr gid t with Some v => [(t, v)] | None => [] end) ts with
    | [] => []
    | l => [(gid, l)]
    end) ids.

(* further layers = ProcessMQueryAggsChain / ApplyAggregationToResults: the aggregation is applied to the
   RESULT of the layer below (id string -> timestamp -> value); every sample becomes a running entry
   (count 1, value); the group id is cut out of the lower layer's OUTPUT id by the same getAggSeriesId *)
Definition sample_at (t : Z) (pts : list (Z * Q)) : list Q :=
  map snd (filter (fun p => Z.eqb (fst p) t) pts).

Definition qsum (l : list Q) : Q := fold_left Qplus l 0%Q.
Definition qmin2 (ret v : Q) : Q := if Qle_bool ret v then ret else v.     (* if v < ret { ret = v } *)
Definition qmax2 (ret v : Q) : Q := if Qle_bool v ret then ret else v.     (* if v > ret { ret = v } *)
Definition qmin_list (l : list Q) : Q := match l with [] => 0%Q | x :: r => fold_left qmin2 r x end.
Definition qmax_list (l : list Q) : Q := match l with [] => 0%Q | x :: r => fold_left qmax2 r x end.

(* reduceRunningEntries on entries with runningCount = 1 *)
Definition reduce_q (fn : aggfn) (vs : list Q) : Q :=
  match fn with
  | ASum => Qred (qsum vs)
  | AAvg => Qred (qsum vs / inject_Z (Z.of_nat (length vs)))
  | AMin => qmin_list vs
  | AMax => qmax_list vs
  | ACount => 0%Q
  end.

(* the samples at time t of the lower-layer series that fall into output group [gid] *)
Definition layer2_vals (fields : list str) (without : bool) (r1 : list (str * list (Z * Q))) (gid : str) (t : Z) : list Q :=
  flat_map (fun e => if str_eqb (agg_series_id (fst e) fields without) gid then sample_at t (snd e) else []) r1.

Definition layer2_at (name : str) (fn : aggfn) (fields : list str) (without : bool)
           (r1 : list (str * list (Z * Q))) (gid : str) (t : Z) : option Q :=
  match fn, fields with
  | ACount, [] =>                                   (* computeAggCount without fields: series of the lower layer with a sample at t *)
    if str_eqb gid (name ++ [c_lbrace]) then
      match flat_map (fun e => sample_at t (snd e)) r1 with
      | [] => None
      | l => Some (inject_Z (Z.of_nat (length l)))
      end
    else None
  | ACount, _ =>
    match layer2_vals fields without r1 gid t with
    | [] => None
    | l => Some (inject_Z (Z.of_nat (length l)))
    end
  | _, _ =>
    match layer2_vals fields without r1 gid t with
    | [] => None
    | l => Some (reduce_q fn l)
    end
  end.

Definition layer2 (name : str) (fn : aggfn) (fields : list str) (without : bool)
           (r1 : list (str * list (Z * Q))) : list (str * list (Z * Q)) :=
  let ts := dedup_z (flat_map (fun e => map fst (snd e)) r1) in
  let ids := match fn, fields with
             | ACount, [] => [name ++ [c_lbrace]]
             | _, _ => dedup_str (map (fun e => agg_series_id (fst e) fields without) r1)
             end in
  flat_map (fun gid =>
    match flat_map (fun t => match layer2_at name fn fields without r1 gid t with Some v => [(t, v)] | None => [] end) ts with
    | [] => []
    | l => [(gid, l)]
    end) ids.

(* the answer of the inner aggregation inside the nested query (its tracker is the nested query's tracker) *)
Definition nest_inner (q : nquery) (db : list series) : list (str * list (Z * Q)) :=
  layer1 (n_name q) (n_f1 q) (group_list (n_g1 q)) (is_without (n_g1 q)) db (tracked_nest q db).

Definition run_nest (q : nquery) (db : list series) : list (str * list (Z * Q)) :=
  layer2 (n_name q) (n_f2 q) (group_list (n_g2 q)) (is_without (n_g2 q)) (nest_inner q db).

Definition run_nest_range (lo hi : Z) (q : nquery) (db : list series) : list (str * list (Z * Q)) :=
  run_nest q (clip_db lo hi db).

End WithRegex.

(* ---------- guards of the selection theorem (exact, executable) ---------- *)
Fixpoint nodup_strb (l : list str) : bool :=
  match l with [] => true | x :: r => negb (mem_str x r) && nodup_strb r end.

(* a series of the queried metric carries every matched label, has at least one label, and no empty label value *)
Definition series_ok (name : str) (ms : list matcher) (s : series) : bool :=
  negb (str_eqb (s_name s) name) ||
  (forallb (fun m => has_key (m_key m) s) ms &&
   negb (Nat.eqb (length (s_labels s)) 0) &&
   forallb (fun kv => negb (Nat.eqb (length (snd kv)) 0)) (s_labels s)).

(* no matcher value is the literal "*" (read as a wildcard), one matcher per label, labels present *)
Definition select_guard (name : str) (ms : list matcher) (db : list series) : bool :=
  forallb (fun m => negb (str_eqb (m_val m) star_val)) ms &&
  nodup_strb (map m_key ms) &&
  forallb (series_ok name ms) db.

(* ---------- the shape of tracker ids, and the guard of group-key extraction ---------- *)
Definition body (ls : labels) : str := concat (map (fun p => kv (fst p) (snd p)) ls).
Definition render_id (name : str) (ls : labels) : str := name ++ c_lbrace :: body ls.

Definition has_byte (c : N) (s : str) : bool := existsb (N.eqb c) s.
Definition clean (s : str) : bool :=
  negb (has_byte c_colon s) && negb (has_byte c_comma s) && negb (has_byte c_lbrace s).

Fixpoint is_suffix (f k : str) : bool :=
  str_eqb f k || match k with [] => false | _ :: k' => is_suffix f k' end.

Definition labels_clean (ls : labels) : bool := forallb (fun p => clean (fst p) && clean (snd p)) ls.

(* searching "field:" in the id finds the label [field] itself: no OTHER key of the id ends with the field *)
Definition extract_guard (name : str) (ls : labels) (f : str) : bool :=
  clean name && labels_clean ls && clean f && negb (Nat.eqb (length f) 0) &&
  forallb (fun p => str_eqb (fst p) f || negb (is_suffix f (fst p))) ls.

(* guard of the selection theorem for  fn without (l) (name{ms}) : distinct labels in l, none of them matched *)
Definition without_guard (l : list str) (ms : list matcher) : bool :=
  nodup_strb l && negb (mem_str name_label l) &&
  forallb (fun k => negb (mem_str k (map m_key ms))) l.

(* ---------- guard of the selection theorem for nested aggregations ---------- *)
Definition nest_keys (q : nquery) : list str :=
  filter (fun k => negb (str_eqb k name_label)) (group_list (n_g2 q)) ++
  filter (fun k => negb (str_eqb k name_label)) (group_list (n_g1 q)).

(* the selector's guard; not the mode "all series, no labels" of  fn (fn (m))  (ids are just "name{");
   every series of the metric carries every label named in a grouping clause.
   NOT required: distinct labels across or inside the two clauses, clauses disjoint from the matchers. *)
Definition nest_guard (q : nquery) (db : list series) : bool :=
  select_guard (n_name q) (n_ms q) db &&
  negb (negb (snd (nest_flags q)) && fst (nest_flags q)) &&
  forallb (fun k => forallb (fun s => negb (str_eqb (s_name s) (n_name q)) || has_key k s) db) (nest_keys q).

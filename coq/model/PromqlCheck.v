(* PromqlCheck.v — executable comparison of the PromQL model with observations of the real
   parser + metrics query engine (used by the generated case files of C09). *)
From SigM Require Import Base Promql PromqlFormula.
From Coq Require Import QArith Qabs.
Open Scope N_scope.

(* the regular-expression fragment the harness generates: alternatives separated by '|',
   each a literal (letters and digits) optionally followed by ".*"; fully anchored *)
Definition ends_any (s : str) : option str :=
  match rev s with
  | 42 :: 46 :: r => Some (rev r)
  | _ => None
  end.

Definition alt_match (alt v : str) : bool :=
  match ends_any alt with
  | Some p => is_prefix p v
  | None => str_eqb alt v
  end.

Definition frag_match (pat v : str) : bool := existsb (fun a => alt_match a v) (split_on 124 pat).

Definition obs := list (str * list (Z * Q)).

Fixpoint lookup_id (id : str) (r : obs) : option (list (Z * Q)) :=
  match r with
  | [] => None
  | (a, ps) :: t => if str_eqb a id then Some ps else lookup_id id t
  end.

Definition pts_eqb (a b : list (Z * Q)) : bool :=
  Nat.eqb (length a) (length b) &&
  forallb (fun p => existsb (fun p' => Z.eqb (fst p) (fst p') && Qeq_bool (snd p) (snd p')) b) a.

(* the model's ids are pairwise distinct and so are the implementation's (map keys), hence
   equal length + every model id found with equal samples = equal answers; ids are compared
   as exact byte strings (label order inside the id included) *)
Definition res_eqb (m o : obs) : bool :=
  Nat.eqb (length m) (length o) &&
  forallb (fun e => match lookup_id (fst e) o with
                    | Some ps => pts_eqb (snd e) ps
                    | None => false
                    end) m.

Inductive qcase := CQ (q : query) | CA (op : binop) (q1 q2 : query) | CN (q : nquery).

(* nested aggregations can produce non-dyadic rationals (avg of counts: 5/3) that binary64 rounds; all
   other generated values are exact.  Equal, or within 2^-50 relative of the model's exact value. *)
Definition q_close (m o : Q) : bool :=
  Qeq_bool m o || Qle_bool (Qabs (m - o) * inject_Z (2 ^ 50)) (Qabs m).
Definition pts_close (a b : list (Z * Q)) : bool :=
  Nat.eqb (length a) (length b) &&
  forallb (fun p => existsb (fun p' => Z.eqb (fst p) (fst p') && q_close (snd p) (snd p')) b) a.
Definition res_close (m o : obs) : bool :=
  Nat.eqb (length m) (length o) &&
  forallb (fun e => match lookup_id (fst e) o with
                    | Some ps => pts_close (snd e) ps
                    | None => false
                    end) m.
Definition case_eqb (c : qcase) : obs -> obs -> bool :=
  match c with CN _ => res_close | _ => res_eqb end.

Definition run_case (db : list series) (c : qcase) : obs :=
  match c with
  | CQ q => run_query frag_match q db
  | CA op q1 q2 => run_arith frag_match op q1 q2 db
  | CN q => run_nest frag_match q db
  end.

Definition check_case (db : list series) (q : qcase) (o : obs) : bool :=
  case_eqb q (run_case db q) o.

(* idx is an N: case numbers are dataset*10000 + stage*1000 + query *)
Fixpoint check_cases (db : list series) (cs : list (qcase * obs)) (idx : N) : list N :=
  match cs with
  | [] => []
  | (q, o) :: r => (if check_case db q o then [] else [idx]) ++ check_cases db r (idx + 1)
  end.

(* cases with a query time range: ((lo, hi), query, observation); offsets relative to the dataset's t0 *)
Definition run_case_w (db : list series) (w : Z * Z) (c : qcase) : obs :=
  match c with
  | CQ q => run_query_range frag_match (fst w) (snd w) q db
  | CA op q1 q2 => run_arith_range frag_match (fst w) (snd w) op q1 q2 db
  | CN q => run_nest_range frag_match (fst w) (snd w) q db
  end.

Fixpoint check_cases_w (db : list series) (cs : list ((Z * Z) * qcase * obs)) (idx : N) : list N :=
  match cs with
  | [] => []
  | (w, q, o) :: r => (if case_eqb q (run_case_w db w q) o then [] else [idx]) ++ check_cases_w db r (idx + 1)
  end.

Definition mk_series (n : str) (l : labels) (c : list (list pt)) : series :=
  {| s_name := n; s_labels := l; s_chunks := c |}.
Definition mk_m (k : str) (op : mop) (v : str) : matcher := {| m_key := k; m_op := op; m_val := v |}.
Definition mk_nq (f2 : aggfn) (g2 : grouping) (f1 : aggfn) (g1 : grouping) (n : str) (ms : list matcher) : nquery :=
  {| n_f2 := f2; n_g2 := g2; n_f1 := f1; n_g1 := g1; n_name := n; n_ms := ms |}.

(* ---------- formulas (trees of binary operations over operand queries and numbers) ----------
   init = opLabelsDoNotNeedToMatch of the caller (true: formula API, false: Prometheus endpoints); the observation is
   an error or a vector.  Series without samples are not part of an observation; values are compared like nested
   aggregations (division yields non-dyadic rationals that binary64 rounds) *)
Inductive fobs := FoErr | FoVec (o : obs).
Definition nonempty_series (v : vec) : vec := filter (fun e => negb (Nat.eqb (length (snd e)) 0)) v.
Definition check_formula (db : list series) (w : Z * Z) (init : bool) (t : ftree) (o : fobs) : bool :=
  match run_formula_range frag_match (fst w) (snd w) init t db, o with
  | None, FoErr => true
  | Some v, FoVec ob => res_close (nonempty_series v) ob
  | _, _ => false
  end.
Fixpoint check_formulas_w (db : list series) (cs : list ((Z * Z) * bool * ftree * fobs)) (idx : N) : list N :=
  match cs with
  | [] => []
  | (w, init, t, o) :: r => (if check_formula db w init t o then [] else [idx]) ++ check_formulas_w db r (idx + 1)
  end.

(* PromqlFormula.v — executable model of formula evaluation (C09): a tree of binary operations over
   operand queries and number literals, as it is run by

     segment/segexecution.go   ExecuteMultipleMetricsQuery  (operand loop: one run per distinct query hash,
                               multiSeriesResultCount, opLabelsDoNotNeedToMatch)                      -> [exec_step], [exec_loop], [exec_flag]
                               processQueryArithmeticNodeOp / processNodeExpr (nested operations;
                               an EMPTY intermediate vector is an empty operand, FIXED code 962cee9)                               -> [feval], [fside_of]
                               HelperQueryArithmeticAndLogical (ConstantOp, vector op vector with
                               and without label matching)                                             -> [scalar_pts], [vv_match], [vv_free]
     prometheus/utils          SetFinalResult (+ - * /, swapped operands, x / 0 gives no sample)      -> [fop_apply], [fop_sw]
     promql/parser.go          handleBinaryExpr (operands in left-to-right order, hash = hash of the operand's
                               text; GetAllLabels forced on every operand below a vector-vector node)  -> [leaves]

   The two callers differ in one bit: promql.ProcessMetricsQueryRequest (metrics explorer / formula API, alert
   evaluation) passes opLabelsDoNotNeedToMatch = true, the Prometheus /query and /query_range handlers pass false.
   Definitions only. *)
From SigM Require Import Base Promql.
From Coq Require Import QArith.
Open Scope N_scope.

Definition vec := list (str * list (Z * Q)).          (* MetricsResult.Results: id string -> timestamp -> value *)
Definition named := (str * vec)%type.                  (* (MetricsResult.MetricName, Results) *)

Inductive fop := FAdd | FSub | FMul | FDiv.

(* SetFinalResult: LetDivide returns without writing a sample when the divisor is 0 *)
Definition fop_apply (op : fop) (x y : Q) : option Q :=
  match op with
  | FAdd => Some (Qred (x + y))
  | FSub => Some (Qred (x - y))
  | FMul => Some (Qred (x * y))
  | FDiv => if Qeq_bool y 0 then None else Some (Qred (x / y))
  end.
(* "if swapped { valueLHS, valueRHS = valueRHS, valueLHS }" *)
Definition fop_sw (op : fop) (swapped : bool) (l r : Q) : option Q :=
  if swapped then fop_apply op r l else fop_apply op l r.

(* a formula: operands (hash of the operand text, the operand query), binary nodes, and nodes with a number
   literal on one side ("ConstantOp") *)
Inductive ftree :=
| FLeaf (h : N) (q : query)
| FBin (op : fop) (l r : ftree)
| FConstR (op : fop) (l : ftree) (c : Q)          (* l op c *)
| FConstL (op : fop) (c : Q) (r : ftree).         (* c op r *)

(* handleBinaryExpr: mQueryReqs = requests of the left side ++ requests of the right side; when both sides are
   vectors, GetAllLabels is set on every request gathered so far (the bool: "has a vector-vector node above") *)
Fixpoint leaves_g (g : bool) (t : ftree) : list (N * query * bool) :=
  match t with
  | FLeaf h q => [(h, q, g)]
  | FBin _ l r => leaves_g true l ++ leaves_g true r
  | FConstR _ l _ => leaves_g g l
  | FConstL _ _ r => leaves_g g r
  end.
Definition leaves (t : ftree) : list (N * query * bool) := leaves_g false t.

(* ---------- the operand loop of ExecuteMultipleMetricsQuery ---------- *)
Fixpoint rm_find (h : N) (rm : list (N * vec)) : option vec :=
  match rm with
  | [] => None
  | (k, v) :: r => if k =? h then Some v else rm_find h r
  end.

Definition multi (v : vec) : bool := Nat.ltb 1 (length v).      (* len(res.Results) > 1 *)

Section Exec.
(* the execution of one operand query (ApplyMetricsQuery); the bool is the forced GetAllLabels *)
Variable run : query -> bool -> vec.

(* one iteration: an operand whose hash is already in resMap is not run again, but it IS counted when its
   result has more than one series *)
Definition exec_step (st : list (N * vec) * nat) (o : N * query * bool) : list (N * vec) * nat :=
  let '(rm, cnt) := st in
  let '(h, q, g) := o in
  match rm_find h rm with
  | Some v => (rm, if multi v then S cnt else cnt)
  | None => let v := run q g in ((h, v) :: rm, if multi v then S cnt else cnt)
  end.

Definition exec_loop (ops : list (N * query * bool)) : list (N * vec) * nat :=
  fold_left exec_step ops ([], O).

(* "if multiSeriesResultCount > 1 { opLabelsDoNotNeedToMatch = false }" *)
Definition exec_flag (init : bool) (ops : list (N * query * bool)) : bool :=
  if Nat.ltb 1 (snd (exec_loop ops)) then false else init.

(* VARIANT (documentation only, refuted in the proofs): counting distinct query texts instead of operand
   positions -- an operand whose result is already in resMap is skipped without being counted *)
Definition exec_step_distinct (st : list (N * vec) * nat) (o : N * query * bool) : list (N * vec) * nat :=
  let '(rm, cnt) := st in
  let '(h, q, g) := o in
  match rm_find h rm with
  | Some v => (rm, cnt)
  | None => let v := run q g in ((h, v) :: rm, if multi v then S cnt else cnt)
  end.
Definition exec_flag_distinct (init : bool) (ops : list (N * query * bool)) : bool :=
  if Nat.ltb 1 (snd (fold_left exec_step_distinct ops ([], O))) then false else init.

(* the result an operand position works with: the result of the FIRST operand with the same hash *)
Fixpoint first_run (h : N) (ops : list (N * query * bool)) : option vec :=
  match ops with
  | [] => None
  | (k, q, g) :: r => if k =? h then Some (run q g) else first_run h r
  end.
Definition pos_multi (ops : list (N * query * bool)) (o : N * query * bool) : bool :=
  match first_run (fst (fst o)) ops with Some v => multi v | None => false end.
End Exec.

(* ---------- one node: HelperQueryArithmeticAndLogical ---------- *)
Definition sample_find (t : Z) (pts : list (Z * Q)) : option (Z * Q) :=
  find (fun tv => Z.eqb (fst tv) t) pts.

(* the samples of one output series: a sample where both series have one (and the operation yields a value) *)
Definition pair_pts (op : fop) (sw : bool) (l r : list (Z * Q)) : list (Z * Q) :=
  flat_map (fun tv => match sample_find (fst tv) r with
                      | Some tv2 => match fop_sw op sw (snd tv) (snd tv2) with Some v => [(fst tv, v)] | None => [] end
                      | None => []
                      end) l.

(* vector op number *)
Definition scalar_pts (op : fop) (sw : bool) (c : Q) (l : list (Z * Q)) : list (Z * Q) :=
  flat_map (fun tv => match fop_sw op sw (snd tv) c with Some v => [(fst tv, v)] | None => [] end) l.
(* ConstantOp: every series of the vector side stays in the result (also one left without samples) *)
Definition scalar_node (op : fop) (sw : bool) (c : Q) (v : vec) : vec :=
  map (fun e => (fst e, scalar_pts op sw c (snd e))) v.

(* label sets must match (opLabelsDoNotNeedToMatch = false, no on/ignoring): a left series is paired with the right
   series whose id is rightName ++ (leftId minus leftName); series left without samples are deleted *)
Definition vv_match (op : fop) (L R : named) : vec :=
  flat_map (fun e =>
    let rid := if Nat.leb (length (fst L)) (length (fst e))
               then fst R ++ skipn (length (fst L)) (fst e) else [] in
    match find (fun e2 => str_eqb (fst e2) rid) (snd R) with
    | None => []
    | Some e2 => match pair_pts op false (snd e) (snd e2) with [] => [] | l => [(fst e, l)] end
    end) (snd L).

(* opLabelsDoNotNeedToMatch = true: the side with more series goes to the left; one-to-one and many-to-one pair every
   left series with THE right series whatever the labels are; with several series on both sides no matching table is
   built and every left series is skipped *)
Definition vv_free (op : fop) (L R : named) : vec :=
  let sw := Nat.ltb (length (snd L)) (length (snd R)) in
  let L' := if sw then R else L in
  let R' := if sw then L else R in
  match snd R' with
  | [e2] =>
    if Nat.leb 1 (length (snd L')) then
      flat_map (fun e => match pair_pts op sw (snd e) (snd e2) with [] => [] | l => [(fst e, l)] end) (snd L')
    else []
  | _ => []
  end.

Definition node_vv (flag : bool) (op : fop) (L R : named) : vec :=
  if flag then vv_free op L R else vv_match op L R.

(* ---------- the tree: processQueryArithmeticNodeOp ---------- *)
(* one side of a node.  An operand: its entry in resMap (MetricName = the query's metric).  A nested operation
   (processNodeExpr): the result is stored with the metric name cut out of one of its ids; an EMPTY result is an empty
   operand with MetricName "" (fix 962cee9) -- the enclosing operation then has nothing to pair with *)
Definition fside_of (t : ftree) (r : option vec) : option named :=
  match t with
  | FLeaf _ q => match r with Some v => Some (q_name q, v) | None => None end
  | _ => match r with
         | Some v => Some (match v with e :: _ => metric_of_id (fst e) | [] => [] end, v)
         | None => None
         end
  end.

(* PRE-FIX (documentation only): an empty nested result was the error "result is empty and scalarValuePtr is nil" *)
Definition fside_of_prefix (t : ftree) (r : option vec) : option named :=
  match t with
  | FLeaf _ q => match r with Some v => Some (q_name q, v) | None => None end
  | _ => match r with
         | Some ((e :: _) as v) => Some (metric_of_id (fst e), v)
         | _ => None
         end
  end.

(* None = the request fails with an error (a missing resMap entry; before the fix also an empty nested result) *)
Fixpoint feval_with (side : ftree -> option vec -> option named) (flag : bool) (rm : list (N * vec)) (t : ftree) : option vec :=
  match t with
  | FLeaf h _ => rm_find h rm
  | FBin op l r =>
    match side l (feval_with side flag rm l), side r (feval_with side flag rm r) with
    | Some L, Some R => Some (node_vv flag op L R)
    | _, _ => None
    end
  | FConstR op l c =>
    match side l (feval_with side flag rm l) with
    | Some L => Some (scalar_node op false c (snd L))
    | None => None
    end
  | FConstL op c r =>
    match side r (feval_with side flag rm r) with
    | Some R => Some (scalar_node op true c (snd R))
    | None => None
    end
  end.
Definition feval := feval_with fside_of.
Definition feval_prefix := feval_with fside_of_prefix.

(* MetricsResult.Results of an operand.  A query's answer reports only series with samples, with one exception that
   matters to the enclosing operation: count without grouping clause (computeAggCount) always writes the entry
   "name{", also when it has no sample at all (nothing selected, or no datapoint in the time range) -- one series
   for len(Results), and a non-empty result for processNodeExpr *)
Definition count_all (q : query) : bool :=
  match first_agg q with (ACount, [], _) => true | _ => false end.
Definition leaf_shape (q : query) (r : vec) : vec :=
  match r with
  | [] => if count_all q then [(q_name q ++ [c_lbrace], [])] else []
  | _ => r
  end.

Section WithRegex.
Variable rmatch : str -> str -> bool.

(* an operand query as ApplyMetricsQuery runs it; handleBinaryExpr may have overwritten GetAllLabels after the
   operand was parsed (SelectAllSeries keeps the value the parser gave it) *)
Definition run_leaf (db : list series) (q : query) (force_gal : bool) : vec :=
  let '(sel, gal) := flags q in
  let '(fn, fields, without) := first_agg q in
  leaf_shape q (layer1 (q_name q) fn fields without db
                       (tracked_with rmatch sel (gal || force_gal) (query_filters q) (q_name q) db)).

(* init = the caller's opLabelsDoNotNeedToMatch: true for the formula API, false for the Prometheus endpoints.
   A formula that is a single operand returns that operand's result (same value: feval of a leaf) *)
Definition run_formula (init : bool) (t : ftree) (db : list series) : option vec :=
  let ops := leaves t in
  let st := exec_loop (run_leaf db) ops in
  feval (if Nat.ltb 1 (snd st) then false else init) (fst st) t.

(* VARIANT (documentation only): the operand loop that counts distinct query texts *)
Definition run_formula_distinct (init : bool) (t : ftree) (db : list series) : option vec :=
  let st := fold_left (exec_step_distinct (run_leaf db)) (leaves t) ([], O) in
  feval (if Nat.ltb 1 (snd st) then false else init) (fst st) t.

(* PRE-FIX (documentation only) *)
Definition run_formula_prefix (init : bool) (t : ftree) (db : list series) : option vec :=
  let st := exec_loop (run_leaf db) (leaves t) in
  feval_prefix (if Nat.ltb 1 (snd st) then false else init) (fst st) t.

Definition run_formula_range (lo hi : Z) (init : bool) (t : ftree) (db : list series) : option vec :=
  run_formula init t (clip_db lo hi db).
End WithRegex.

(* ---------- PromQL specification of one vector-vector node (one-to-one matching on the whole label set) ----------
   ids are "name{labels": the label text after the name identifies the label set *)
Definition label_text (name id : str) : str := skipn (length name) id.

(* Proto.v — C16: ingest protocols preserve content and time.
   Executable model of
     - the timestamp unit logic of pkg/utils/dateutils.go (IsTimeInMilli, IsTimeInNano,
       ExtractTimeStamp, ConvertTimestampToMillis, normalizeIntToSeconds) and of the metric
       timestamp readers (ExtractOTSDBPayload / ExtractOTLPPayload in metricssegment.go,
       parseTimestamp in prometheus/ingest/putmetrics.go), thresholds and integer widths as coded;
     - the time pipeline of a log event: GetNewPLE -> (decoder may set the time) ->
       ProcessIndexRequestPle (re-extraction by timestamp key, arrival time when zero);
     - the per-protocol record builders from a logical event to the flattened stored event
       (ES bulk, Splunk HEC, Loki JSON push, OTLP logs, OTLP traces) or datapoint
       (OpenTSDB put, Prometheus remote write, OTLP metrics).
   Definitions only; proofs are in SigP.ProtoProofs. *)
From SigM Require Import Base.
From Coq Require Import String Ascii.
Open Scope N_scope.

(* ---------- strings as byte lists ---------- *)
Definition s2b (s : string) : bytes := map N_of_ascii (list_ascii_of_string s).

Fixpoint prefix_eqb (p s : bytes) : bool :=
  match p, s with
  | [], _ => true
  | a :: p', b :: s' => (a =? b) && prefix_eqb p' s'
  | _ :: _, [] => false
  end.

(* ---------- 1. unit logic (pkg/utils/dateutils.go) ---------- *)
Definition MILLI_T : N := 99999999999.                 (* IsTimeInMilli: tval >= 99999999999 *)
Definition NANO_T  : N := 1000000000000000000.         (* IsTimeInNano:  tval >= 1e18 *)
Definition is_time_in_milli (t : N) : bool := MILLI_T <=? t.
Definition is_time_in_nano  (t : N) : bool := NANO_T <=? t.

Definition u64 (z : Z) : N := Z.to_N (z mod 18446744073709551616).   (* uint64(int64) *)
Definition u32 (z : Z) : N := Z.to_N (z mod 4294967296).             (* uint32(int64) *)
Definition wrap64 (n : N) : N := n mod 18446744073709551616.

(* ExtractTimeStamp, jp.Number branch, integer literal inside the int64 range *)
Definition num_ts_ms (z : Z) : N :=
  let t := u64 z in
  if is_time_in_milli t then t else wrap64 (t * 1000).

(* ConvertTimestampToMillis on a digit string with value v (strconv.ParseUint succeeded) *)
Definition str_ts_ms (v : N) : N :=
  let v1 := if is_time_in_nano v then v / 1000000 else v in
  if is_time_in_milli v1 then v1 else wrap64 (v1 * 1000).

(* strconv.ParseUint(s, 10, 64): non-empty, decimal digits only, value below 2^64 *)
Definition is_digit (b : N) : bool := (48 <=? b) && (b <=? 57).
Definition digits_val (s : bytes) : N := fold_left (fun acc b => acc * 10 + (b - 48)) s 0.
Definition parse_uint (s : bytes) : option N :=
  match s with
  | [] => None
  | _ => if forallb is_digit s
         then (let v := digits_val s in if v <? 18446744073709551616 then Some v else None)
         else None
  end.

(* normalizeIntToSeconds (query side, ParseTimeForPromQL) *)
Definition norm_int_to_seconds (z : Z) : option N :=
  if (1000000000000000000 <? z)%Z then Some (u32 (Z.quot z 1000000000))
  else if (1000000000000 <? z)%Z then Some (u32 (Z.quot z 1000))
  else if (0 <? z)%Z then Some (u32 z)
  else None.

(* metric timestamps are uint32 seconds *)
(* ExtractOTSDBPayload: number (ParseInt ok) and digit-string (strconv.ParseInt ok) branches *)
Definition otsdb_ts (z : Z) : N :=
  if is_time_in_milli (u64 z) then u32 (Z.quot z 1000) else u32 z.
(* parseTimestamp (Prometheus remote write) = integer branch of ExtractOTLPPayload *)
Definition prom_ts (z : Z) : N :=
  if is_time_in_nano (u64 z) then u32 (Z.quot z 1000000000)
  else if is_time_in_milli (u64 z) then u32 (Z.quot z 1000)
  else u32 z.
Definition otlp_metric_ts (z : Z) : N := prom_ts z.

(* the unit classes of the log path, used in the partition theorem *)
Inductive tunit := USec | UMilli | UNano.
Definition str_unit_class (v : N) : tunit :=
  if is_time_in_nano v then UNano else if is_time_in_milli v then UMilli else USec.
Definition num_unit_class (v : N) : tunit :=
  if is_time_in_milli v then UMilli else USec.
(* the instant, in epoch milliseconds, denoted by value v in unit u *)
Definition instant_ms (u : tunit) (v : N) : N :=
  match u with USec => v * 1000 | UMilli => v | UNano => v / 1000000 end.

(* ---------- 2. flattened events ---------- *)
Inductive sval :=
| SStr (s : bytes)
| SInt (z : Z)
| SFlt (bits : N)          (* float64 bit pattern of a non-integral number *)
| SDec (m : Z) (e : Z)     (* a JSON number spelled with a fraction or an exponent: m * 10^e *)
| SBool (b : bool).

Definition sval_eqb (a b : sval) : bool :=
  match a, b with
  | SStr x, SStr y => bytes_eqb x y
  | SInt x, SInt y => (x =? y)%Z
  | SFlt x, SFlt y => x =? y
  | SDec m e, SDec m' e' => (m =? m')%Z && (e =? e')%Z
  | SBool x, SBool y => Bool.eqb x y
  | _, _ => false
  end.

Definition field := (bytes * sval)%type.
Definition event := list field.       (* root keys in document order; nested keys dotted *)

Fixpoint lookup (k : bytes) (e : event) : option sval :=
  match e with
  | [] => None
  | (k', v) :: r => if bytes_eqb k' k then Some v else lookup k r
  end.

(* Go map assignment m[k] = v on an association list *)
Fixpoint map_set (k : bytes) (v : sval) (m : event) : event :=
  match m with
  | [] => [(k, v)]
  | (k', v') :: r => if bytes_eqb k' k then (k, v) :: r else (k', v') :: map_set k v r
  end.
Definition map_set_all (kvs : event) (m : event) : event :=
  fold_left (fun m kv => map_set (fst kv) (snd kv) m) kvs m.

Definition add_prefix (p : bytes) (e : event) : event := map (fun kv => (p ++ fst kv, snd kv)) e.

(* jp.ParseFloat + uint64(): the decimal p/q (p/q < 2^64) rounded to the nearest float64
   (53-bit significand, ties to even), then truncated *)
Definition f64_ratio_trunc (p q : N) : N :=
  if p =? 0 then 0 else
  let s0 := (Z.of_N (N.size p) - Z.of_N (N.size q) - 53)%Z in
  let scaled (s : Z) : N * N :=
    if (0 <=? s)%Z then (p, q * 2 ^ Z.to_N s) else (p * 2 ^ Z.to_N (- s), q) in
  let s := if fst (scaled s0) / snd (scaled s0) <? 9007199254740992 then s0 else (s0 + 1)%Z in
  let n := fst (scaled s) in
  let d := snd (scaled s) in
  let m0 := n / d in
  let r := n mod d in
  let m := if (d <? 2 * r) || ((2 * r =? d) && N.odd m0) then m0 + 1 else m0 in
  if (0 <=? s)%Z then m * 2 ^ Z.to_N s else m / 2 ^ Z.to_N (- s).
(* the positive JSON number m * 10^e read through the float fall-back *)
Definition dec_u64 (m e : Z) : N :=
  if (0 <=? e)%Z then f64_ratio_trunc (Z.to_N m * 10 ^ Z.to_N e) 1
  else f64_ratio_trunc (Z.to_N m) (10 ^ Z.to_N (- e)).
(* ExtractTimeStamp, jp.Number branch, after either reader: the unit step on a uint64 *)
Definition flt_ts_ms (t : N) : N := if is_time_in_milli t then t else wrap64 (t * 1000).
Definition in_int64 (z : Z) : bool := ((-9223372036854775808 <=? z) && (z <? 9223372036854775808))%Z.
(* an integer literal: jp.ParseInt when it fits int64, else the float fall-back *)
Definition int_lit_ts (z : Z) : N := if in_int64 z then num_ts_ms z else flt_ts_ms (dec_u64 z 0).
(* the instant a positive decimal m * 10^e denotes, exactly: seconds with their fraction, or milliseconds *)
Definition dec_floor (m e : Z) : N :=
  if (0 <=? e)%Z then Z.to_N m * 10 ^ Z.to_N e else Z.to_N m / 10 ^ Z.to_N (- e).
Definition dec_true_ms (m e : Z) : N :=
  if is_time_in_milli (dec_floor m e) then dec_floor m e else dec_floor m (e + 3).

(* external, un-modelled readers of a timestamp value *)
Record ts_ext := {
  time_fmt : bytes -> option N;     (* time.Parse over the five layouts, result in ms *)
  flt_u64  : N -> N                 (* uint64(float64) of a non-integral JSON number *)
}.
Definition no_ext : ts_ext := {| time_fmt := fun _ => None; flt_u64 := fun _ => 0 |}.

Definition k_timestamp : bytes := s2b "timestamp".
Definition k_jaeger_ts : bytes := s2b "startTimeMillis".
Definition p_jaeger    : bytes := s2b "jaeger-".

(* utils.ExtractTimeStamp(raw, &key); [clock] = GetCurrentTimeInMs() at the failed string parse *)
Definition extract_ts (x : ts_ext) (e : event) (key : bytes) (clock : N) : N :=
  match lookup key e with
  | None => 0
  | Some (SStr s) =>
      match parse_uint s with
      | Some v => str_ts_ms v
      | None => match time_fmt x s with Some t => t | None => clock end
      end
  | Some (SInt z) => int_lit_ts z
  | Some (SDec m e) => flt_ts_ms (dec_u64 m e)
  | Some (SFlt b) => let t := flt_u64 x b in if is_time_in_milli t then t else wrap64 (t * 1000)
  | Some (SBool _) => 0
  end.

(* GetNewPLE *)
Definition ple_new (x : ts_ext) (e : event) (key : bytes) (now0 clock : N) : N :=
  let t := extract_ts x e key clock in if t =? 0 then now0 else t.
(* a decoder may overwrite the time of the PLE (OTLP logs: TimeUnixNano/1e6 when > 0) *)
Definition decoder_set (dec : option N) (t : N) : N :=
  match dec with Some d => if 0 <? d then d else t | None => t end.
(* ProcessIndexRequestPle: key chosen by index name, time re-extracted unconditionally *)
Definition index_ts_key (index : bytes) : bytes :=
  if prefix_eqb p_jaeger index then k_jaeger_ts else k_timestamp.
Definition index_req_ts (x : ts_ext) (e : event) (index : bytes) (tsNow clock : N) (prev : N) : N :=
  let t := extract_ts x e (index_ts_key index) clock in if t =? 0 then tsNow else t.

(* AddAndGetRealIndexName: a requested name that is an alias stands for the index it points to
   (aliases of one index; the key of the event time is decided by the REAL index) *)
Fixpoint real_index (al : list (bytes * bytes)) (name : bytes) : bytes :=
  match al with
  | [] => name
  | (a, ix) :: r => if bytes_eqb a name then ix else real_index r name
  end.

Definition final_ts (x : ts_ext) (e : event) (index : bytes) (dec : option N) (now0 tsNow clock : N) : N :=
  index_req_ts x e index tsNow clock (decoder_set dec (ple_new x e k_timestamp now0 clock)).

(* what a match-all search (includeNulls) returns for the event: the timestamp column
   carries the final time; a root field named like the timestamp column is not stored as
   a field *)
Definition visible (f : field) : bool := negb (bytes_eqb (fst f) k_timestamp).
Definition stored_fields (e : event) : event := filter visible e.

(* ---------- 3. protocol builders (logs) ---------- *)
(* wire form of a time value *)
Inductive twire := WNone | WNum (z : Z) | WStr (s : bytes) | WDec (m e : Z).
Definition ts_field (t : twire) : event :=
  match t with
  | WNone => [] | WNum z => [(k_timestamp, SInt z)] | WStr s => [(k_timestamp, SStr s)]
  | WDec m e => [(k_timestamp, SDec m e)]
  end.

(* 3.1 Elasticsearch bulk / doc: the document is stored as sent *)
Definition es_build (t : twire) (attrs : event) : event := ts_field t ++ attrs.

(* 3.2 Splunk HEC: the whole envelope is decoded into map[string]interface{} (numbers
   become float64) and marshalled again; keys of [event] get the prefix "event." *)
Definition f64_round_pos (p : N) : N :=
  let l := N.size p in
  if l <=? 53 then p else
  let sh := l - 53 in
  let q := N.shiftr p sh in
  let r := p - N.shiftl q sh in
  let half := N.shiftl 1 (sh - 1) in
  let q' := if (half <? r) || ((r =? half) && N.odd q) then q + 1 else q in
  N.shiftl q' sh.
(* float64(z) for an integer z, as the integer it denotes *)
Definition f64_round (z : Z) : Z :=
  match z with
  | Z0 => 0%Z
  | Zpos p => Z.of_N (f64_round_pos (Npos p))
  | Zneg p => (- Z.of_N (f64_round_pos (Npos p)))%Z
  end.
(* encoding/json prints a float64 with the shortest digit string that parses back to it
   (strconv 'f', -1), zero-padded to the decimal point: for an integer-valued float v the
   text is the closest number with the fewest significant digits that still rounds to v *)
Fixpoint ndig (fuel : nat) (n : N) : N :=
  match fuel with O => 0 | S f => if n =? 0 then 0 else 1 + ndig f (n / 10) end.
Fixpoint shortest_try (ds : list N) (L v : N) : N :=
  match ds with
  | [] => v
  | d :: r =>
    if L <=? d then v else
    let p := 10 ^ (L - d) in
    let lo := (v / p) * p in
    let hi := lo + p in
    let oklo := f64_round_pos lo =? v in
    let okhi := f64_round_pos hi =? v in
    if oklo && okhi then (if v - lo <=? hi - v then lo else hi)
    else if oklo then lo else if okhi then hi else shortest_try r L v
  end.
Definition f64_text_pos (p : N) : N :=
  if p <? 9007199254740992 then p
  else let v := f64_round_pos p in
       shortest_try [1;2;3;4;5;6;7;8;9;10;11;12;13;14;15;16;17] (ndig 30 v) v.
(* the integer read back from the JSON text of float64(z) *)
Definition f64_text (z : Z) : Z :=
  match z with
  | Z0 => 0%Z
  | Zpos p => Z.of_N (f64_text_pos (Npos p))
  | Zneg p => (- Z.of_N (f64_text_pos (Npos p)))%Z
  end.
Definition via_f64 (v : sval) : sval :=
  match v with SInt z => SInt (f64_text z) | _ => v end.

(* 3.1b Elasticsearch single-document requests (ProcessPutPostSingleDocRequest): PUT/POST /{index}/_doc[/{id}],
   /{index}/_create/{id}, /{index}/_update/{id} and the pre-7.x routes with a document type.  The body is decoded
   into a map[string]interface{} by a decoder that KEEPS every number literal (UseNumber: a json.Number is the
   literal's text), "_id" (the id of the URL, a generated one when the URL has none or an empty one) and "_type"
   (when the route names a document type) are assigned in that map, and the map is marshalled again: the text
   handed to GetNewPLE carries the literals of the body verbatim.  The route (_doc / _create / _update) and the
   refresh argument only change the response and the flush.  [num] is the decoder's treatment of a number. *)
Inductive doc_route := RDoc | RCreate | RUpdate.
Record doc_req := { dq_route : doc_route; dq_id : option bytes; dq_type : bytes; dq_refresh : bool }.
Definition k_id : bytes := s2b "_id".
Definition k_type : bytes := s2b "_type".
(* [gen]: the identifier uuid.New() produces for this request *)
Definition doc_id (gen : bytes) (q : doc_req) : bytes :=
  match dq_id q with Some (b :: i) => b :: i | _ => gen end.
Definition doc_decode (num : sval -> sval) (doc : event) : event :=
  map_set_all (map (fun kv => (fst kv, num (snd kv))) doc) [].
Definition keep_literal (v : sval) : sval := v.
Definition doc_build_with (num : sval -> sval) (gen : bytes) (q : doc_req) (t : twire) (attrs : event) : event :=
  let m := map_set k_id (SStr (doc_id gen q)) (doc_decode num (es_build t attrs)) in
  match dq_type q with [] => m | ty => map_set k_type (SStr ty) m end.
Definition doc_build := doc_build_with keep_literal.
(* NOT the code: the same handler with a decoder that turns every number into a float64 (json.Unmarshal into
   interface{} without UseNumber), used to state that carrying the literal is what makes the two ES protocols agree *)
Definition doc_build_f64 := doc_build_with via_f64.
(* "_id" and "_type" are ES metadata: the record reader leaves them out of the records a search returns *)
Definition doc_visible (f : field) : bool :=
  visible f && negb (bytes_eqb (fst f) k_id) && negb (bytes_eqb (fst f) k_type).
Definition stored_fields_doc (e : event) : event := filter doc_visible e.

(* the JSON reader of the segment writer (parseRawJsonObject / parseJsonInt): an integer literal is stored as an
   int64 when it fits, any other number as a float64 (an integral float64 is written here as the integer it
   denotes): integers in [2^63, 2^64) and beyond are rounded to 53 significant bits *)
Definition store_val (v : sval) : sval :=
  match v with SInt z => if in_int64 z then v else SInt (f64_round z) | _ => v end.
Definition store_cols (e : event) : event := map (fun f => (fst f, store_val (snd f))) e.

Inductive hec_event := HText (s : bytes) | HObj (fs : event).
Record hec := {
  h_time : option sval;            (* "time": seconds, number (SInt / SFlt) or string *)
  h_index : bytes;
  h_meta : event;                  (* host, source, sourcetype: strings *)
  h_root : event;                  (* other root keys of the envelope (non-standard) *)
  h_event : hec_event
}.
Definition k_time := s2b "time".
Definition k_index := s2b "index".
Definition k_event := s2b "event".
Definition p_event := s2b "event.".
Definition hec_build (h : hec) : event :=
  match h_time h with Some v => [(k_time, via_f64 v)] | None => [] end ++
  [(k_index, SStr (h_index h))] ++
  map (fun kv => (fst kv, via_f64 (snd kv))) (h_meta h) ++
  map (fun kv => (fst kv, via_f64 (snd kv))) (h_root h) ++
  match h_event h with
  | HText s => [(k_event, SStr s)]
  | HObj fs => map (fun kv => (p_event ++ fst kv, via_f64 (snd kv))) fs
  end.

(* 3.3 Loki JSON push: every line gets its own map: the stream labels, then the line's
   timestamp and text, then its structured metadata *)
Record loki_line := { ll_ts : bytes; ll_line : bytes; ll_meta : event }.
Definition k_line := s2b "line".
Definition loki_apply (m : event) (l : loki_line) : event :=
  map_set_all (ll_meta l) (map_set k_line (SStr (ll_line l)) (map_set k_timestamp (SStr (ll_ts l)) m)).
Definition loki_line_spec (labels : event) (l : loki_line) : event :=
  loki_apply (map_set_all labels []) l.
Definition loki_build (labels : event) (ls : list loki_line) : list event :=
  map (loki_line_spec labels) ls.
(* PRE-FIX code (no longer the code): ONE map per stream, filled with the labels, then
   reused for every line *)
Fixpoint loki_stream (m : event) (ls : list loki_line) : list event :=
  match ls with
  | [] => []
  | l :: r => let m' := loki_apply m l in m' :: loki_stream m' r
  end.
Definition loki_build_prefix (labels : event) (ls : list loki_line) : list event :=
  loki_stream (map_set_all labels []) ls.

(* 3.4 OTLP logs: recordInfo marshalled by encoding/json, nested keys flattened with dots *)
Record otlp_res := { r_attrs : event; r_dropped : N; r_schema : bytes }.
Record otlp_scope := { sc_name : bytes; sc_version : bytes; sc_attrs : event; sc_dropped : N; sc_schema : bytes }.
Record otlp_rec := {
  o_time : N; o_observed : N; o_sevnum : Z; o_sevtext : bytes; o_body : sval;
  o_attrs : event; o_dropped : N; o_flags : N; o_trace : bytes; o_span : bytes   (* ids in hex *)
}.

(* fmt.Sprintf("%v") of an attribute value, for the trace_id / span_id fall-back *)
Fixpoint dec_digits (fuel : nat) (n : N) (acc : bytes) : bytes :=
  match fuel with
  | O => acc
  | S f => let acc' := (48 + n mod 10) :: acc in
           if n / 10 =? 0 then acc' else dec_digits f (n / 10) acc'
  end.
Definition N_dec (n : N) : bytes := dec_digits 80 n [].
Definition Z_dec (z : Z) : bytes :=
  match z with Zneg p => 45 :: N_dec (Npos p) | _ => N_dec (Z.to_N z) end.
Definition fmt_v (v : sval) : bytes :=
  match v with
  | SStr s => s
  | SInt z => Z_dec z
  | SBool true => s2b "true"
  | SBool false => s2b "false"
  | SFlt _ => []                 (* outside the modelled fragment *)
  | SDec _ _ => []
  end.
Definition id_or_attr (id : bytes) (name : bytes) (attrs : event) : bytes :=
  match id with
  | [] => match lookup name (map_set_all attrs []) with Some v => fmt_v v | None => [] end
  | _ => id
  end.

Definition otlp_log_build (res : otlp_res) (sc : otlp_scope) (r : otlp_rec) : event :=
  add_prefix (s2b "resource.attributes.") (map_set_all (r_attrs res) []) ++
  [(s2b "resource.dropped_attributes_count", SInt (Z.of_N (r_dropped res)));
   (s2b "resource.schema_url", SStr (r_schema res));
   (s2b "scope.name", SStr (sc_name sc));
   (s2b "scope.version", SStr (sc_version sc))] ++
  add_prefix (s2b "scope.attributes.") (map_set_all (sc_attrs sc) []) ++
  [(s2b "scope.dropped_attributes_count", SInt (Z.of_N (sc_dropped sc)));
   (s2b "scope.schema_url", SStr (sc_schema sc));
   (s2b "time_unix_nano", SInt (Z.of_N (o_time r)));
   (s2b "observed_time_unix_nano", SInt (Z.of_N (o_observed r)));
   (s2b "severity_number", SInt (o_sevnum r));
   (s2b "severity_text", SStr (o_sevtext r));
   (s2b "body", o_body r)] ++
  add_prefix (s2b "attributes.") (map_set_all (o_attrs r) []) ++
  [(s2b "dropped_attributes_count", SInt (Z.of_N (o_dropped r)));
   (s2b "flags", SInt (Z.of_N (o_flags r)));
   (s2b "trace_id", SStr (id_or_attr (o_trace r) (s2b "trace_id") (o_attrs r)));
   (s2b "span_id", SStr (id_or_attr (o_span r) (s2b "span_id") (o_attrs r)))].
(* the two trace-context identifiers, one at a time: what a record CARRIES for an identifier is its own
   field when that is set, else the attribute of the same name (Go map: the last one wins), else nothing.
   [otlp_id_spec] is the statement side (no reference to the other identifier); [id_or_attr] above is the code. *)
Definition otlp_id_spec (own : bytes) (attr : option sval) : bytes :=
  match own with
  | [] => match attr with Some v => fmt_v v | None => [] end
  | _ => own
  end.
Definition otlp_rec_attr (name : bytes) (r : otlp_rec) : option sval := lookup name (map_set_all (o_attrs r) []).
(* NOT the code: both fall-backs under the guard of the FIRST identifier only (used to state that the
   independence of the two fall-backs is a property of extractLogRecord, not of every such function) *)
Definition otlp_ids_one_guard (r : otlp_rec) : bytes * bytes :=
  match o_trace r with
  | [] => (match otlp_rec_attr (s2b "trace_id") r with Some v => fmt_v v | None => [] end,
           match otlp_rec_attr (s2b "span_id") r with Some v => fmt_v v | None => o_span r end)
  | t => (t, o_span r)
  end.
(* a record that carries its identifiers in the given ways: 0 own field, 1 attribute only,
   2 both with different values, 3 neither *)
Definition otlp_id_rec (tm sm : N) (tf ta sf sa : bytes) : otlp_rec :=
  let own m v := match m with 0 | 2 => v | _ => [] end in
  let att m k v := match m with 1 | 2 => [(k, SStr v)] | _ => [] end in
  {| o_time := 0; o_observed := 0; o_sevnum := 0%Z; o_sevtext := []; o_body := SStr []; 
     o_attrs := att tm (s2b "trace_id") ta ++ att sm (s2b "span_id") sa; o_dropped := 0; o_flags := 0;
     o_trace := own tm tf; o_span := own sm sf |}.
(* the identifier carried in way m *)
Definition otlp_id_carried (m : N) (f a : bytes) : bytes :=
  match m with 0 => f | 1 => a | 2 => match f with [] => a | _ => f end | _ => [] end.

(* the decoder sets the PLE time from the record (ingestLogs) *)
Definition otlp_log_dec (r : otlp_rec) : option N := Some (o_time r / 1000000).

(* 3.5 OTLP traces: spanToJson fills one map: fixed keys first, then every attribute at the root *)
Record span := {
  sp_trace : bytes; sp_span : bytes; sp_parent : bytes; sp_service : bytes; sp_state : bytes;
  sp_name : bytes; sp_kind : N; sp_start : N; sp_end : N;
  sp_datt : N; sp_dev : N; sp_dlink : N; sp_status : option N; sp_attrs : event
}.
Definition span_kind_name (k : N) : bytes :=
  match k with
  | 0 => s2b "SPAN_KIND_UNSPECIFIED" | 1 => s2b "SPAN_KIND_INTERNAL" | 2 => s2b "SPAN_KIND_SERVER"
  | 3 => s2b "SPAN_KIND_CLIENT" | 4 => s2b "SPAN_KIND_PRODUCER" | 5 => s2b "SPAN_KIND_CONSUMER"
  | _ => N_dec k
  end.
Definition status_name (s : option N) : bytes :=
  match s with
  | None => s2b "Unknown"
  | Some 0 => s2b "STATUS_CODE_UNSET" | Some 1 => s2b "STATUS_CODE_OK" | Some 2 => s2b "STATUS_CODE_ERROR"
  | Some k => N_dec k
  end.
(* spans without events and links: json.Marshal(nil slice) = null, of an empty slice = [] *)
Definition span_build (s : span) : event :=
  map_set_all (sp_attrs s)
   (map_set_all
    [(s2b "trace_id", SStr (sp_trace s)); (s2b "span_id", SStr (sp_span s));
     (s2b "parent_span_id", SStr (sp_parent s)); (s2b "service", SStr (sp_service s));
     (s2b "trace_state", SStr (sp_state s)); (s2b "name", SStr (sp_name s));
     (s2b "kind", SStr (span_kind_name (sp_kind s)));
     (s2b "start_time", SInt (Z.of_N (sp_start s))); (s2b "end_time", SInt (Z.of_N (sp_end s)));
     (s2b "duration", SInt (Z.of_N (wrap64 (sp_end s + 18446744073709551616 - sp_start s))));
     (s2b "dropped_attributes_count", SInt (Z.of_N (sp_datt s)));
     (s2b "dropped_events_count", SInt (Z.of_N (sp_dev s)));
     (s2b "dropped_links_count", SInt (Z.of_N (sp_dlink s)));
     (s2b "status", SStr (status_name (sp_status s)))] [])
  ++ [(s2b "events", SStr (s2b "null")); (s2b "links", SStr (s2b "[]"))].

(* 3.6 whole export requests: what is carried from one loop iteration to the next.
   ProcessTraceIngest declares [service] INSIDE the loop over ResourceSpans: every resource
   starts from the empty name; the scopes of a resource do not matter for a span. *)
Record res_spans := { rs_attrs : event; rs_spans : list span }.   (* nil Resource = no attributes *)
Definition k_service_name := s2b "service.name".
(* service = keyvalue.Value.GetStringValue() for every attribute called service.name *)
Definition service_scan (init : bytes) (attrs : event) : bytes :=
  fold_left (fun acc kv => if bytes_eqb (fst kv) k_service_name
                           then match snd kv with SStr v => v | _ => [] end else acc) attrs init.
Definition set_service (svc : bytes) (s : span) : span :=
  {| sp_trace := sp_trace s; sp_span := sp_span s; sp_parent := sp_parent s; sp_service := svc;
     sp_state := sp_state s; sp_name := sp_name s; sp_kind := sp_kind s; sp_start := sp_start s;
     sp_end := sp_end s; sp_datt := sp_datt s; sp_dev := sp_dev s; sp_dlink := sp_dlink s;
     sp_status := sp_status s; sp_attrs := sp_attrs s |}.
Fixpoint trace_request (rs : list res_spans) : list event :=
  match rs with
  | [] => []
  | r :: rest =>
      let service := service_scan [] (rs_attrs r) in
      map (fun s => span_build (set_service service s)) (rs_spans r) ++ trace_request rest
  end.
(* the same loop with the variable declared OUTSIDE (not the code; used to state what must not happen) *)
Fixpoint trace_request_carried (service : bytes) (rs : list res_spans) : list event :=
  match rs with
  | [] => []
  | r :: rest =>
      let service' := service_scan service (rs_attrs r) in
      map (fun s => span_build (set_service service' s)) (rs_spans r) ++ trace_request_carried service' rest
  end.

(* ingestLogs: resource info per ResourceLogs, scope info per ScopeLogs, one record map per LogRecord *)
Definition res_logs := (otlp_res * list (otlp_scope * list otlp_rec))%type.
Definition logs_request_recs (rs : list res_logs) : list (otlp_res * otlp_scope * otlp_rec) :=
  flat_map (fun rl => flat_map (fun sl => map (fun r => (fst rl, fst sl, r)) (snd sl)) (snd rl)) rs.
Definition logs_request (rs : list res_logs) : list event :=
  map (fun t => otlp_log_build (fst (fst t)) (snd (fst t)) (snd t)) (logs_request_recs rs).

(* ---------- 4. protocol builders (metrics) ---------- *)
(* a finite float64 as the dyadic rational num / 2^den (canonical: den = 0 or num odd) *)
Record dyad := { dy_num : Z; dy_den : N }.
Definition dyad_eqb (a b : dyad) : bool := (dy_num a =? dy_num b)%Z && (dy_den a =? dy_den b).
Definition dy_int (z : Z) : dyad := {| dy_num := z; dy_den := 0 |}.
(* uint64(float64 v) for v >= 0 (truncation), then float64(uint64) *)
Definition dy_trunc (d : dyad) : Z := Z.quot (dy_num d) (Z.of_N (2 ^ dy_den d)).

Definition tag := (bytes * bytes)%type.
Record datapoint := { d_name : bytes; d_tags : list tag; d_ts : N; d_val : dyad }.

Fixpoint tag_set (k v : bytes) (m : list tag) : list tag :=
  match m with
  | [] => [(k, v)]
  | (k', v') :: r => if bytes_eqb k' k then (k, v) :: r else (k', v') :: tag_set k v r
  end.
Definition tag_set_all (kvs : list tag) (m : list tag) : list tag :=
  fold_left (fun m kv => tag_set (fst kv) (snd kv) m) kvs m.

(* 4.1 OpenTSDB put: {"metric":..,"tags":{..},"timestamp":<int | "digits">,"value":<number>} *)
Definition otsdb_build (name : bytes) (tags : list tag) (ts : Z) (v : dyad) : option datapoint :=
  let t := otsdb_ts ts in
  match name with
  | [] => None
  | _ => if 0 <? t then Some {| d_name := name; d_tags := tags; d_ts := t; d_val := v |} else None
  end.

(* 4.2 Prometheus remote write: label __name__ is the metric, the rest are tags; one
   datapoint per sample *)
Definition k_name := s2b "__name__".
Definition prom_name (labels : list tag) : bytes :=
  fold_left (fun acc kv => if bytes_eqb (fst kv) k_name then snd kv else acc) labels [].
Definition prom_tags (labels : list tag) : list tag :=
  filter (fun kv => negb (bytes_eqb (fst kv) k_name)) labels.
Definition prom_build (labels : list tag) (ts : Z) (v : dyad) : option datapoint :=
  match prom_name labels with
  | [] => None
  | nm => Some {| d_name := nm; d_tags := prom_tags labels; d_ts := prom_ts ts; d_val := v |}
  end.

(* 4.3 OTLP metrics (gauge / sum number data points) *)
Definition is_word (b : N) : bool :=
  ((48 <=? b) && (b <=? 57)) || ((65 <=? b) && (b <=? 90)) || ((97 <=? b) && (b <=? 122)) || (b =? 95).
Definition sanitize (s : bytes) : bytes := map (fun b => if is_word b then b else 95) s.  (* ASCII *)
Inductive mnum := MDouble (d : dyad) | MInt (z : Z).
(* numberDataPointValue: as_double as it is, as_int through float64(int64) *)
Definition otlp_metric_val (v : mnum) : dyad :=
  match v with
  | MDouble d => d
  | MInt z => dy_int (f64_round z)
  end.
(* PRE-FIX code (no longer the code): Value was uint64(dataPoint.GetAsDouble()), later
   float64(Value); as_int points read 0 *)
Definition otlp_metric_val_prefix (v : mnum) : dyad :=
  match v with
  | MDouble d => dy_int (f64_round (dy_trunc d))
  | MInt _ => dy_int 0
  end.
Definition otlp_attr_str (v : sval) : option bytes :=
  match v with
  | SStr s => Some s
  | SBool true => Some (s2b "true")
  | SBool false => Some (s2b "false")
  | SInt z => Some (Z_dec z)
  | SFlt _ => None               (* strconv.FormatFloat: outside the modelled fragment *)
  | SDec _ _ => None
  end.
Definition otlp_metric_tags (attrs : event) : list tag :=
  fold_left (fun m kv => match otlp_attr_str (snd kv) with
                         | Some s => tag_set (sanitize (fst kv)) s m
                         | None => m end) attrs [].
Definition otlp_metric_build (name : bytes) (attrs : event) (time_ns : N) (v : mnum) : option datapoint :=
  let t := otlp_metric_ts (Z.of_N time_ns) in
  match sanitize name with
  | [] => None
  | nm => if 0 <? t then Some {| d_name := nm; d_tags := otlp_metric_tags attrs; d_ts := t; d_val := otlp_metric_val v |}
          else None
  end.

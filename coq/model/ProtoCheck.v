(* ProtoCheck.v — executable comparison of the Proto model with observations of the real
   code (used by the generated case files of C16).  Every check function returns the
   list of indices of the cases on which the model and the implementation disagree. *)
From SigM Require Import Base Proto ProtoTree.
From Coq Require Import String.
Open Scope N_scope.

Fixpoint idx_filter {A} (ok : A -> bool) (l : list A) (i : nat) : list nat :=
  match l with
  | [] => []
  | a :: r => (if ok a then [] else [i]) ++ idx_filter ok r (S i)
  end.

(* ---------- unit level: one integer, all readers ---------- *)
(* observation of a reader: value, or failure (error / rejected) *)
Inductive uobs := OV (v : N) | OErr | ONow.   (* ONow: the reader fell back to the wall clock *)

Definition uobs_eqb (a b : uobs) : bool :=
  match a, b with
  | OV x, OV y => x =? y
  | OErr, OErr => true
  | ONow, ONow => true
  | _, _ => false
  end.

Definition opt_obs (o : option N) : uobs := match o with Some v => OV v | None => OErr end.
Definition b2n (b : bool) : N := if b then 1 else 0.

Record ucase := {
  u_z : Z;                   (* the integer, inside the int64 range *)
  u_num : uobs;              (* ExtractTimeStamp on {"timestamp": z} *)
  u_str : uobs;              (* ExtractTimeStamp on {"timestamp": "z"} *)
  u_conv : uobs;             (* ConvertTimestampToMillis("z") *)
  u_milli : uobs;            (* IsTimeInMilli(uint64(z)) *)
  u_nano : uobs;             (* IsTimeInNano(uint64(z)) *)
  u_otsdb_num : uobs;        (* ExtractOTSDBPayload, "timestamp": z *)
  u_otsdb_str : uobs;        (* ExtractOTSDBPayload, "timestamp": "z" *)
  u_otlpm : uobs;            (* ExtractOTLPPayload, "timestamp": z *)
  u_prom : uobs;             (* parseTimestamp(z) *)
  u_norm : uobs;             (* ParseTimeForPromQL("z") *)
  u_f64 : uobs               (* json.Marshal(float64(z)) parsed back as int64 *)
}.

Definition mk_ucase z a b c d e f g h i j k : ucase :=
  {| u_z := z; u_num := a; u_str := b; u_conv := c; u_milli := d; u_nano := e; u_otsdb_num := f;
     u_otsdb_str := g; u_otlpm := h; u_prom := i; u_norm := j; u_f64 := k |}.

(* model of ExtractTimeStamp / ConvertTimestampToMillis on the decimal text of z *)
Definition model_str (z : Z) : uobs :=
  match z with
  | Zneg _ => ONow            (* "-5": ParseUint fails, no layout matches: wall clock *)
  | _ => OV (str_ts_ms (Z.to_N z))
  end.
Definition model_conv (z : Z) : uobs :=
  match z with
  | Zneg _ => OErr
  | _ => OV (str_ts_ms (Z.to_N z))
  end.
Definition model_metric (t : N) : uobs := if 0 <? t then OV t else OErr.
Definition model_f64 (z : Z) : uobs :=
  let r := f64_text z in
  if ((-9223372036854775808 <=? r) && (r <? 9223372036854775808))%Z then OV (u64 r) else OErr.

Definition ucase_ok (c : ucase) : bool :=
  let z := u_z c in
  uobs_eqb (u_num c) (OV (num_ts_ms z)) &&
  uobs_eqb (u_str c) (model_str z) &&
  uobs_eqb (u_conv c) (model_conv z) &&
  uobs_eqb (u_milli c) (OV (b2n (is_time_in_milli (u64 z)))) &&
  uobs_eqb (u_nano c) (OV (b2n (is_time_in_nano (u64 z)))) &&
  uobs_eqb (u_otsdb_num c) (model_metric (otsdb_ts z)) &&
  uobs_eqb (u_otsdb_str c) (model_metric (otsdb_ts z)) &&
  uobs_eqb (u_otlpm c) (model_metric (otlp_metric_ts z)) &&
  uobs_eqb (u_prom c) (OV (prom_ts z)) &&
  uobs_eqb (u_norm c) (opt_obs (norm_int_to_seconds z)) &&
  uobs_eqb (u_f64 c) (model_f64 z).

Definition check_units (cs : list ucase) : list nat := idx_filter ucase_ok cs 0.

(* digit strings beyond the int64 range (ConvertTimestampToMillis only) *)
Definition sconv_ok (c : bytes * uobs) : bool :=
  uobs_eqb (snd c) (match parse_uint (fst c) with Some v => OV (str_ts_ms v) | None => OErr end).
Definition check_sconv (cs : list (bytes * uobs)) : list nat := idx_filter sconv_ok cs 0.

(* numeric timestamps in any JSON spelling: ExtractTimeStamp on {"timestamp": <number>} *)
Definition spell_ok (c : sval * uobs) : bool :=
  uobs_eqb (snd c) (OV (extract_ts no_ext [(k_timestamp, fst c)] k_timestamp 0)).
Definition check_spell (cs : list (sval * uobs)) : list nat := idx_filter spell_ok cs 0.

(* ---------- stored log events ---------- *)
Record lobs := { ob_lo : N; ob_hi : N; ob_ts : N; ob_fields : event }.
Definition mk_lobs lo hi ts fs : lobs := {| ob_lo := lo; ob_hi := hi; ob_ts := ts; ob_fields := fs |}.

(* the arrival time is only known to lie in the window [lo, hi] of the ingest call *)
Definition ts_agrees (e : event) (index : bytes) (dec : option N) (o : lobs) : bool :=
  let a := final_ts no_ext e index dec (ob_lo o) (ob_lo o) (ob_lo o) in
  let b := final_ts no_ext e index dec (ob_hi o) (ob_hi o) (ob_hi o) in
  if a =? b then ob_ts o =? a else (ob_lo o <=? ob_ts o) && (ob_ts o <=? ob_hi o).

Definition has_field (e : event) (f : field) : bool :=
  match lookup (fst f) e with Some v => sval_eqb v (snd f) | None => false end.
Definition same_fields (a b : event) : bool :=
  Nat.eqb (List.length a) (List.length b) && forallb (has_field b) a && forallb (has_field a) b.

Definition event_ok (e : event) (index : bytes) (dec : option N) (o : lobs) : bool :=
  ts_agrees e index dec o && same_fields (store_cols (stored_fields e)) (ob_fields o).
(* a single-document request: "_id" and "_type" are not returned by a search *)
Definition doc_event_ok (e : event) (index : bytes) (o : lobs) : bool :=
  ts_agrees e index None o && same_fields (store_cols (stored_fields_doc e)) (ob_fields o).
Definition mk_docq (r : doc_route) (id : option bytes) (ty : bytes) (refresh : bool) : doc_req :=
  {| dq_route := r; dq_id := id; dq_type := ty; dq_refresh := refresh |}.

(* an event that is a TREE (nested objects, arrays): the time is read from the scalar members of the root, the
   stored columns are what the flattener makes of the whole document *)
Definition tree_event_ok (doc : jattrs) (index : bytes) (o : lobs) : bool :=
  ts_agrees (jroot doc) index None o && same_fields (store_cols (flatten k_timestamp doc)) (ob_fields o).

Inductive lcase :=
| LEs (t : twire) (attrs : event)
| LEsTree (t : twire) (attrs : event) (tree : jattrs)
| LOtlpKvBody (res : otlp_res) (sc : otlp_scope) (r : otlp_rec) (body : jattrs)
| LEsVia (al : list (bytes * bytes)) (t : twire) (attrs : event)
| LEsDoc (gen : bytes) (q : doc_req) (t : twire) (attrs : event)
| LHec (h : hec)
| LOtlp (res : otlp_res) (sc : otlp_scope) (r : otlp_rec)
| LSpan (s : span).

Definition lcase_ok (c : lcase * bytes * lobs) : bool :=
  let '(lc, index, o) := c in
  match lc with
  | LEs t attrs => event_ok (es_build t attrs) index None o
  | LEsTree t attrs tree => tree_event_ok (leaves (es_build t attrs) ++ tree) index o
  | LOtlpKvBody res sc r body => event_ok (otlp_log_build_kvbody res sc r body) index (otlp_log_dec r) o
  | LEsVia al t attrs => event_ok (es_build t attrs) (real_index al index) None o
  | LEsDoc gen q t attrs => doc_event_ok (doc_build gen q t attrs) index o
  | LHec h => event_ok (hec_build h) index None o
  | LOtlp res sc r => event_ok (otlp_log_build res sc r) index (otlp_log_dec r) o
  | LSpan s => event_ok (span_build s) index None o
  end.
Definition check_logs (cs : list (lcase * bytes * lobs)) : list nat := idx_filter lcase_ok cs 0.

(* one Loki stream: labels, lines, one observation per line (None: the line was not found) *)
Fixpoint all2 {A B} (f : A -> B -> bool) (a : list A) (b : list B) : bool :=
  match a, b with
  | [], [] => true
  | x :: a', y :: b' => f x y && all2 f a' b'
  | _, _ => false
  end.
Definition loki_ok (index : bytes) (c : event * list loki_line * list lobs) : bool :=
  let '(labels, ls, os) := c in
  all2 (fun e o => event_ok e index None o) (loki_build labels ls) os.
Definition check_loki (index : bytes) (cs : list (event * list loki_line * list lobs)) : list nat :=
  idx_filter (loki_ok index) cs 0.

(* whole OTLP export requests: one observation per span / record, in request order *)
Definition trace_req_ok (index : bytes) (c : list res_spans * list lobs) : bool :=
  all2 (fun e o => event_ok e index None o) (trace_request (fst c)) (snd c).
Definition check_trace_reqs (index : bytes) (cs : list (list res_spans * list lobs)) : list nat :=
  idx_filter (trace_req_ok index) cs 0.
Definition logs_req_ok (index : bytes) (c : list res_logs * list lobs) : bool :=
  all2 (fun t o => event_ok (otlp_log_build (fst (fst t)) (snd (fst t)) (snd t)) index (otlp_log_dec (snd t)) o)
       (logs_request_recs (fst c)) (snd c).
Definition check_logs_reqs (index : bytes) (cs : list (list res_logs * list lobs)) : list nat :=
  idx_filter (logs_req_ok index) cs 0.
Definition mk_span tr sp svc nm kind st en status attrs : span :=
  {| sp_trace := tr; sp_span := sp; sp_parent := []; sp_service := svc; sp_state := []; sp_name := nm; sp_kind := kind;
     sp_start := st; sp_end := en; sp_datt := 0; sp_dev := 0; sp_dlink := 0; sp_status := Some status; sp_attrs := attrs |}.
Definition mk_res attrs : otlp_res := {| r_attrs := attrs; r_dropped := 0; r_schema := [] |}.
Definition mk_scope nm ver attrs : otlp_scope := {| sc_name := nm; sc_version := ver; sc_attrs := attrs; sc_dropped := 0; sc_schema := [] |}.
Definition mk_rec t sevn sevt body attrs flags tr sp : otlp_rec :=
  {| o_time := t; o_observed := 0; o_sevnum := sevn; o_sevtext := sevt; o_body := body; o_attrs := attrs; o_dropped := 0;
     o_flags := flags; o_trace := tr; o_span := sp |}.

(* ---------- stored datapoints ---------- *)
Definition tag_eqb (a b : tag) : bool := bytes_eqb (fst a) (fst b) && bytes_eqb (snd a) (snd b).
Definition tags_same (a b : list tag) : bool :=
  Nat.eqb (List.length a) (List.length b) && forallb (fun t => existsb (tag_eqb t) b) a.
Definition dp_eqb (a b : datapoint) : bool :=
  bytes_eqb (d_name a) (d_name b) && tags_same (d_tags a) (d_tags b) && (d_ts a =? d_ts b) && dyad_eqb (d_val a) (d_val b).
Definition odp_eqb (a b : option datapoint) : bool :=
  match a, b with Some x, Some y => dp_eqb x y | None, None => true | _, _ => false end.
Definition mk_dp nm tg ts num den : datapoint :=
  {| d_name := nm; d_tags := tg; d_ts := ts; d_val := {| dy_num := num; dy_den := den |} |}.
Definition mk_dy num den : dyad := {| dy_num := num; dy_den := den |}.

Inductive mcase :=
| MOtsdb (name : bytes) (tags : list tag) (ts : Z) (v : dyad)
| MProm (labels : list tag) (ts : Z) (v : dyad)
| MOtlp (name : bytes) (attrs : event) (time_ns : N) (v : mnum).

Definition mcase_ok (c : mcase * option datapoint) : bool :=
  let '(mc, o) := c in
  odp_eqb o (match mc with
             | MOtsdb n t ts v => otsdb_build n t ts v
             | MProm l ts v => prom_build l ts v
             | MOtlp n a t v => otlp_metric_build n a t v
             end).
Definition check_metrics (cs : list (mcase * option datapoint)) : list nat := idx_filter mcase_ok cs 0.

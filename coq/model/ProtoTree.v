(* ProtoTree.v — C16: the JSON flattener shared by every log protocol.
   Executable model of ParseRawJsonObject / parseNonJaegerRawJsonArray / parseSingleString|Number|Bool
   (pkg/segment/writer/logpacker.go), the function behind GetNewPLE: ES bulk and single-document requests,
   Splunk HEC, Loki push, OTLP logs and OTLP traces all hand it the JSON record they built.
     - an event is a TREE: scalars, objects, arrays (json null is outside the fragment);
     - the column name of a leaf is its PATH: the keys from the root joined with '.', an array element has
       its decimal index as key (fmt.Sprintf("%s.%d"));
     - the ONLY name the flattener treats specially is the configured timestamp key, and it is compared with
       the whole path (finalKey) inside the four parseSingle* functions: the ROOT member of that name is the
       event time (read by ExtractTimeStamp with jp.Get on the root) and is not stored as a column;
       a member of the same name anywhere BELOW the root is an ordinary field.
   Definitions only; proofs are in SigP.ProtoTreeProofs. *)
From SigM Require Import Base Proto.
From Coq Require Import String Ascii.
Open Scope N_scope.

Inductive jval :=
| JL (v : sval)                          (* string / number / boolean *)
| JO (ms : list (bytes * jval))          (* object: members in document order *)
| JA (xs : list jval).                   (* array *)
Definition jattrs := list (bytes * jval).

(* finalKey: currKey == "" ? key : currKey + "." + key *)
Definition join_key (cur k : bytes) : bytes :=
  match cur with [] => k | _ => cur ++ 46 :: k end.

(* the flattener with the test of the parseSingle* functions as a parameter: [skip path] = "this column is
   not stored".  Object members and array elements are visited in order; the recursion carries the path. *)
Fixpoint flat_gen (skip : bytes -> bool) (cur : bytes) (v : jval) {struct v} : event :=
  match v with
  | JL s => if skip cur then [] else [(cur, s)]
  | JO ms =>
      (fix members (ms : list (bytes * jval)) : event :=
         match ms with
         | [] => []
         | (k, x) :: r => flat_gen skip (join_key cur k) x ++ members r
         end) ms
  | JA xs =>
      (fix elems (i : N) (xs : list jval) : event :=
         match xs with
         | [] => []
         | x :: r => flat_gen skip (join_key cur (N_dec i)) x ++ elems (i + 1) r
         end) 0 xs
  end.

(* the same loops as functions of their own (equal to the nested ones by flat_gen_JO / flat_gen_JA) *)
Fixpoint flat_members (skip : bytes -> bool) (cur : bytes) (ms : list (bytes * jval)) : event :=
  match ms with
  | [] => []
  | (k, x) :: r => flat_gen skip (join_key cur k) x ++ flat_members skip cur r
  end.
Fixpoint flat_elems (skip : bytes -> bool) (cur : bytes) (i : N) (xs : list jval) : event :=
  match xs with
  | [] => []
  | x :: r => flat_gen skip (join_key cur (N_dec i)) x ++ flat_elems skip cur (i + 1) r
  end.

(* THE CODE: parseSingleX(finalKey, ..): if key == *tsKey { return } *)
Definition flat (ts : bytes) : bytes -> jval -> event := flat_gen (fun p => bytes_eqb p ts).
(* every leaf under its path, nothing left out *)
Definition dotted : bytes -> jval -> event := flat_gen (fun _ => false).

(* GetNewPLE: ParseRawJsonObject("", rawJson, tsKey, ..) *)
Definition flatten (ts : bytes) (doc : jattrs) : event := flat ts [] (JO doc).
Definition dot (doc : jattrs) : event := dotted [] (JO doc).

(* what jp.Get(raw, key) can return to ExtractTimeStamp: the scalar members of the root (an object or an
   array under the key is neither a string nor a number: "no time") *)
Definition jroot (doc : jattrs) : event :=
  flat_map (fun kx => match snd kx with JL s => [(fst kx, s)] | _ => [] end) doc.
Definition leaves (e : event) : jattrs := map (fun f => (fst f, JL (snd f))) e.

(* NOT the code (what must not happen): the timestamp key compared with the member's OWN name at the top of the
   per-member handler, before the path is built -- every member called like the timestamp key is dropped at
   every depth, together with everything below it *)
Fixpoint flat_leafname (ts : bytes) (cur : bytes) (v : jval) {struct v} : event :=
  match v with
  | JL s => if bytes_eqb cur ts then [] else [(cur, s)]
  | JO ms =>
      (fix members (ms : list (bytes * jval)) : event :=
         match ms with
         | [] => []
         | (k, x) :: r => (if bytes_eqb k ts then [] else flat_leafname ts (join_key cur k) x) ++ members r
         end) ms
  | JA xs =>
      (fix elems (i : N) (xs : list jval) : event :=
         match xs with
         | [] => []
         | x :: r => flat_leafname ts (join_key cur (N_dec i)) x ++ elems (i + 1) r
         end) 0 xs
  end.

(* the leaves of a tree: [Leaf v ks s] = following the keys ks (member names, decimal element indices) from v
   ends in the scalar s *)
Inductive Leaf : jval -> list bytes -> sval -> Prop :=
| Leaf_here : forall s, Leaf (JL s) [] s
| Leaf_member : forall ms k x ks s, In (k, x) ms -> Leaf x ks s -> Leaf (JO ms) (k :: ks) s
| Leaf_elem : forall xs i x ks s, nth_error xs i = Some x -> Leaf x ks s -> Leaf (JA xs) (N_dec (N.of_nat i) :: ks) s.

(* the column name of a key sequence below [cur] *)
Definition path_of (cur : bytes) (ks : list bytes) : bytes := fold_left join_key ks cur.

(* OTLP logs: a record whose body is a kvlist: the body is an object, its leaves are the columns body.<path> *)
Definition k_body := s2b "body".
Definition otlp_log_build_kvbody (res : otlp_res) (sc : otlp_scope) (r : otlp_rec) (body : jattrs) : event :=
  flat_map (fun f => if bytes_eqb (fst f) k_body then dotted k_body (JO body) else [f]) (otlp_log_build res sc r).

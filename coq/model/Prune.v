(* Prune.v — block micro indexes of siglens and the pruning decisions taken from them (C03).

   Follows, case split by case split:
     pkg/segment/writer/segwriter.go      updateRangeIndex, add{Uint,Int,Float}ToRangeIndex,
                                          addToBlockBloomBothCasesWithBuf
     pkg/segment/query/metadata/metautils/metacheckers.go
                                          does{Uint,Int,Float}PassRangeFilter, checkRangeIndexHelper,
                                          CheckRangeIndex (one column)
     pkg/segment/query/metadata/blockmeta.go   doCmiChecks, doRangeCheckForCol, doBloomCheckForCol/AllCol
     pkg/segment/writer/unrotatedquery.go      DoCMICheckForUnrotated, doRangeCheckForCols, doBloomCheckForCols
     pkg/utils/segutils.go                IsSubWordPresent (what the raw record check accepts)
   Definitions only; proofs are in SigP.PruneProofs.

   Numbers: int64/uint64 are Z (with the explicit wrap where Go converts uint64 -> int64);
   float64 is an exact rational Q (rounding, NaN, Inf are not modelled: the harness only uses
   values that are exact in binary64). *)
From SigM Require Import Base.
From Coq Require Import QArith.
Open Scope Z_scope.

(* ---------- operators (sutils.FilterOperator) ---------- *)
Inductive op := Eq | Ne | Lt | Le | Gt | Ge | OpOther.

Definition op_code (n : N) : op :=
  match n with 0 => Eq | 1 => Ne | 2 => Lt | 3 => Le | 4 => Gt | 5 => Ge | _ => OpOther end%N.

Definition is_ne (o : op) : bool := match o with Ne => true | _ => false end.
Definition is_cmp (o : op) : bool := match o with OpOther => false | _ => true end.

(* ---------- does{Uint,Int}PassRangeFilter: one body, integer carrier ---------- *)
Definition pass_rangeZ (o : op) (l mn mx : Z) : bool :=
  match o with
  | Eq => (mn <=? l) && (l <=? mx)                       (* lookup >= min && lookup <= max *)
  | Ne => if (mn =? mx) && (l =? mn) then false else true
  | Gt => (l <? mn) || (l <? mx)
  | Ge => (l <=? mn) || (l <=? mx)
  | Lt => (mn <? l) || (mx <? l)                         (* lookup > min || lookup > max *)
  | Le => (mn <=? l) || (mx <=? l)
  | OpOther => true
  end.

(* doesFloatPassRangeFilter *)
Definition Qltb (a b : Q) : bool := negb (Qle_bool b a).
Definition pass_rangeQ (o : op) (l mn mx : Q) : bool :=
  match o with
  | Eq => Qle_bool mn l && Qle_bool l mx
  | Ne => if Qeq_bool mn mx && Qeq_bool l mn then false else true
  | Gt => Qltb l mn || Qltb l mx
  | Ge => Qle_bool l mn || Qle_bool l mx
  | Lt => Qltb mn l || Qltb mx l
  | Le => Qle_bool mn l || Qle_bool mx l
  | OpOther => true
  end.

(* ---------- structs.Numbers and updateRangeIndex ---------- *)
Inductive ntype := RUint | RInt | RFloat.           (* RNT_UNSIGNED_INT, RNT_SIGNED_INT, RNT_FLOAT64 *)

Record numbers := mkNum {
  nt : ntype;
  umin : Z; umax : Z;     (* Min_uint64, Max_uint64 *)
  imin : Z; imax : Z;     (* Min_int64, Max_int64 *)
  fmin : Q; fmax : Q      (* Min_float64, Max_float64 *)
}.

(* a numeric value as the writer sees it: SS_INT64, SS_UINT64, SS_FLOAT64 *)
Inductive num := VI (z : Z) | VU (z : Z) | VF (q : Q).

Definition two63 : Z := 9223372036854775808.
Definition two64 : Z := 18446744073709551616.
Definition wrap_i64 (z : Z) : Z := (z + two63) mod two64 - two63.     (* int64(uint64 value) *)

Definition upd_i (r : numbers) (v : Z) : numbers :=
  if v <? imin r then mkNum (nt r) (umin r) (umax r) v (imax r) (fmin r) (fmax r)
  else if imax r <? v then mkNum (nt r) (umin r) (umax r) (imin r) v (fmin r) (fmax r)
  else r.
Definition upd_u (r : numbers) (v : Z) : numbers :=
  if v <? umin r then mkNum (nt r) v (umax r) (imin r) (imax r) (fmin r) (fmax r)
  else if umax r <? v then mkNum (nt r) (umin r) v (imin r) (imax r) (fmin r) (fmax r)
  else r.
Definition upd_f (r : numbers) (v : Q) : numbers :=
  if Qltb v (fmin r) then mkNum (nt r) (umin r) (umax r) (imin r) (imax r) v (fmax r)
  else if Qltb (fmax r) v then mkNum (nt r) (umin r) (umax r) (imin r) (imax r) (fmin r) v
  else r.

(* addUintToRangeIndex *)
Definition add_uint (e : option numbers) (v : Z) : numbers :=
  match e with
  | None => mkNum RUint v v 0 0 0 0
  | Some r =>
    match nt r with
    | RInt => upd_i r (wrap_i64 v)
    | RFloat => upd_f r (inject_Z v)
    | RUint => upd_u r v
    end
  end.

(* addIntToRangeIndex: an unsigned entry becomes a fresh signed one *)
Definition add_int (e : option numbers) (v : Z) : numbers :=
  match e with
  | None => mkNum RInt 0 0 v v 0 0
  | Some r =>
    match nt r with
    | RUint => upd_i (mkNum RInt 0 0 (wrap_i64 (umin r)) (wrap_i64 (umax r)) 0 0) v
    | RFloat => upd_f r (inject_Z v)
    | RInt => upd_i r v
    end
  end.

(* addFloatToRangeIndex: integer entries become fresh float ones *)
Definition add_float (e : option numbers) (v : Q) : numbers :=
  match e with
  | None => mkNum RFloat 0 0 0 0 v v
  | Some r =>
    let r' := match nt r with
              | RUint => mkNum RFloat 0 0 0 0 (inject_Z (umin r)) (inject_Z (umax r))
              | RInt => mkNum RFloat 0 0 0 0 (inject_Z (imin r)) (inject_Z (imax r))
              | RFloat => r
              end in
    upd_f r' v
  end.

Definition upd_range (e : option numbers) (v : num) : option numbers :=
  Some match v with VI z => add_int e z | VU z => add_uint e z | VF q => add_float e q end.

(* the range entry of a block column after its values went through updateRangeIndex *)
Definition range_of (vs : list num) : option numbers := fold_left upd_range vs None.

(* ---------- the literal of a range filter and its conversion per range type ---------- *)
(* what strconv accepts: LInt = optional sign + digits (ParseInt/ParseFloat; ParseUint only without sign),
   LDec = decimal point and/or exponent (ParseFloat only), LBad = not a number *)
Inductive lit := LInt (signed : bool) (z : Z) | LDec (q : Q) | LBad.

Definition conv_uint (l : lit) : option Z :=
  match l with LInt false z => if (0 <=? z) && (z <? two64) then Some z else None | _ => None end.
Definition conv_int (l : lit) : option Z :=
  match l with LInt _ z => if (- two63 <=? z) && (z <? two63) then Some z else None | _ => None end.
Definition conv_float (l : lit) : option Q :=
  match l with LInt _ z => Some (inject_Z z) | LDec q => Some q | LBad => None end.

(* checkRangeIndexHelper *)
Definition check_range (r : numbers) (o : op) (l : lit) : bool :=
  if is_cmp o then
    match nt r with
    | RUint => match conv_uint l with None => false | Some x => pass_rangeZ o x (umin r) (umax r) end
    | RInt => match conv_int l with None => false | Some x => pass_rangeZ o x (imin r) (imax r) end
    | RFloat => match conv_float l with None => false | Some x => pass_rangeQ o x (fmin r) (fmax r) end
    end
  else false.

(* ---------- literal syntax (what the harness passes as text) ---------- *)
Definition is_digit (c : N) : bool := ((48 <=? c) && (c <=? 57))%N.
Fixpoint digits_val (acc : Z) (s : bytes) : option (Z * bytes) :=   (* longest digit prefix *)
  match s with
  | c :: r => if is_digit c then digits_val (acc * 10 + Z.of_N (c - 48)) r else Some (acc, s)
  | [] => Some (acc, s)
  end.
Definition ndigits (s r : bytes) : nat := (length s - length r)%nat.

Definition pow10 (e : Z) : Q := if 0 <=? e then inject_Z (10 ^ e) else / inject_Z (10 ^ (- e)).

(* [+-] digits [. digits] [ (e|E) [+-] digits ]   with at least one mantissa digit *)
Definition classify (s : bytes) : lit :=
  let '(sgn, neg, s1) := match s with
                         | 43%N :: r => (true, false, r)
                         | 45%N :: r => (true, true, r)
                         | _ => (false, false, s)
                         end in
  match digits_val 0 s1 with
  | None => LBad
  | Some (ip, s2) =>
    let ni := ndigits s1 s2 in
    let sg := fun z : Z => if neg then - z else z in
    match s2 with
    | [] => if Nat.eqb ni 0 then LBad else LInt sgn (sg ip)
    | _ =>
      (* fraction *)
      let '(fp, nf, s3, hasdot) := match s2 with
                           | 46%N :: r => match digits_val 0 r with
                                        | Some (fp, s3) => (fp, ndigits r s3, s3, true)
                                        | None => (0, O, r, true)
                                        end
                           | _ => (0, O, s2, false)
                           end in
      if Nat.eqb (ni + nf) 0 then LBad else
      let mant := (inject_Z (ip * 10 ^ Z.of_nat nf + fp) * pow10 (- Z.of_nat nf))%Q in
      match s3 with
      | [] => if hasdot then LDec (if neg then - mant else mant)%Q else LBad
      | c :: r =>
        if ((c =? 101) || (c =? 69))%N then
          let '(eneg, r1) := match r with 43%N :: t => (false, t) | 45%N :: t => (true, t) | _ => (false, r) end in
          match digits_val 0 r1 with
          | Some (ev, []) => if Nat.eqb (ndigits r1 []) 0 then LBad
                             else let m := (mant * pow10 (if eneg then - ev else ev))%Q in
                                  LDec (if neg then - m else m)%Q
          | _ => LBad
          end
        else LBad
      end
    end
  end.

(* ---------- block column micro index and the range decision ---------- *)
(* what the block holds for one column: nothing, a bloom (string column), a range entry *)
Inductive cmi := CNone | CBloom | CRange (r : numbers).

(* doRangeCheckForCol (rotated) and doRangeCheckForCols (unrotated), one column in the query:
   missing or non-range micro index passes only for != *)
Definition block_range_pass (c : cmi) (o : op) (l : lit) : bool :=
  match c with
  | CNone | CBloom => is_ne o
  | CRange r => check_range r o l
  end.

(* the queried column of the records of a block: None = the record has no such field *)
Definition cell := option num.
Fixpoint present (cs : list cell) : list num :=
  match cs with [] => [] | Some v :: r => v :: present r | None :: r => present r end.
Definition cmi_of (cs : list cell) : cmi :=
  match range_of (present cs) with None => CNone | Some r => CRange r end.

(* ---------- flush-time consolidation of a column that received numbers AND strings ----------
   segstore.go consolidateColumnTypes / convertColumnToNumbers: at the block flush every string of the column is
   parsed (strconv.ParseInt, else ParseFloat); if all parse, the column is rewritten to numbers and every parsed
   value is added to the block's range entry (addIntToRangeIndex / addFloatToRangeIndex) after the native numbers,
   which were added when they arrived; if one string does not parse the column becomes a string column and the
   range entry is deleted. *)
Inductive rcell := RNum (v : num) | RStr (s : bytes) | RAbsent.

Definition str_num (s : bytes) : option num :=
  match classify s with
  | LInt _ z => if (- two63 <=? z) && (z <? two63) then Some (VI z) else Some (VF (inject_Z z))
  | LDec q => Some (VF q)
  | LBad => None
  end.

Fixpoint natives (cs : list rcell) : list num :=
  match cs with [] => [] | RNum v :: r => v :: natives r | _ :: r => natives r end.
Fixpoint str_vals (cs : list rcell) : option (list num) :=
  match cs with
  | [] => Some []
  | RStr s :: r => match str_num s, str_vals r with Some v, Some vs => Some (v :: vs) | _, _ => None end
  | _ :: r => str_vals r
  end.
(* the numeric values the readers of the block return after a successful conversion, in record order *)
Fixpoint stored_values (cs : list rcell) : option (list num) :=
  match cs with
  | [] => Some []
  | RNum v :: r => option_map (cons v) (stored_values r)
  | RStr s :: r => match str_num s, stored_values r with Some v, Some vs => Some (v :: vs) | _, _ => None end
  | RAbsent :: r => stored_values r
  end.

(* the block's range entry after the flush *)
Definition block_index (cs : list rcell) : option numbers :=
  match str_vals cs with
  | Some svs => fold_left upd_range svs (range_of (natives cs))
  | None => None
  end.

(* ---------- specification side: comparison by numeric value ---------- *)
Definition qval (v : num) : Q := match v with VI z | VU z => inject_Z z | VF q => q end.
Definition lit_val (l : lit) : option Q := conv_float l.

Definition cmp_spec (o : op) (a b : Q) : bool :=
  match o with
  | Eq => Qeq_bool a b
  | Ne => negb (Qeq_bool a b)
  | Lt => Qltb a b
  | Le => Qle_bool a b
  | Gt => Qltb b a
  | Ge => Qle_bool b a
  | OpOther => false
  end.

(* a record matches `col op literal`: by value when the field is there; a record without the
   field matches only != (this is what the record-level search of siglens returns) *)
Definition ev_matches (o : op) (lv : Q) (c : cell) : bool :=
  match c with Some v => cmp_spec o (qval v) lv | None => is_ne o end.

(* value well-formedness: what fits the Go types; uint64 values stay below 2^63 (no wrap when a
   signed value joins the column; the JSON ingest path only produces int64 and float64) *)
Definition wf_num (v : num) : bool :=
  match v with
  | VI z => (- two63 <=? z) && (z <? two63)
  | VU z => (0 <=? z) && (z <? two63)
  | VF _ => true
  end.

(* the literal converts for the type of the range entry (conversion error = block pruned) *)
Definition lit_converts (c : cmi) (l : lit) : bool :=
  match c with
  | CRange r => match nt r with
                | RUint => match conv_uint l with Some _ => true | None => false end
                | RInt => match conv_int l with Some _ => true | None => false end
                | RFloat => match conv_float l with Some _ => true | None => false end
                end
  | _ => true
  end.

Definition all_present (cs : list cell) : bool :=
  forallb (fun c => match c with Some _ => true | None => false end) cs.

(* exact guard of the proved soundness theorem *)
Definition range_guard (cs : list cell) (o : op) (l : lit) : bool :=
  forallb wf_num (present cs) && lit_converts (cmi_of cs) l && (negb (is_ne o) || all_present cs).

(* ---------- bloom: tokens the writer adds ---------- *)
Definition is_upper (c : N) : bool := ((65 <=? c) && (c <=? 90))%N.
Definition lower_b (c : N) : N := if is_upper c then (c + 32)%N else c.
Definition lower (w : bytes) : bytes := map lower_b w.
Definition has_upper (w : bytes) : bool := existsb is_upper w.

(* pieces between single spaces (bytes.Index(copy, " ") loop); always at least one piece *)
Fixpoint split_sp (w : bytes) : list bytes :=
  match w with
  | [] => [[]]
  | c :: r => if (c =? 32)%N then [] :: split_sp r
              else match split_sp r with p :: t => (c :: p) :: t | [] => [[c]] end
  end.

Definition nonempty (w : bytes) : bool := match w with [] => false | _ => true end.

(* addToBlockBloomBothCasesWithBuf: tokens in insertion order *)
Definition tokens (w : bytes) : list bytes :=
  let ps := split_sp w in
  let hu := has_upper w in
  let lastp := last ps [] in
  [w]
  ++ flat_map (fun p => p :: (if hu then [lower p] else [])) (removelast ps)
  ++ (if Nat.ltb 1 (length ps) && nonempty lastp then [lastp; lower lastp] else [])
  ++ (if hu then [lower w] else []).

(* number of distinct tokens = what the function reports as newly added on a fresh filter *)
Fixpoint mem_bytes (x : bytes) (l : list bytes) : bool :=
  match l with [] => false | y :: r => bytes_eqb x y || mem_bytes x r end.
Fixpoint dedup (l : list bytes) (seen : list bytes) : list bytes :=
  match l with
  | [] => []
  | x :: r => if mem_bytes x seen then dedup r seen else x :: dedup r (x :: seen)
  end.

(* exact set as a bloom without false positives (used for witnesses and the direct check) *)
Definition tokens_of_values (vals : list bytes) : list bytes := flat_map tokens vals.

(* ---------- what the record-level check accepts: utils.IsSubWordPresent ---------- *)
Definition ceq (ci : bool) (x y : N) : bool :=
  if ci then (lower_b x =? lower_b y)%N else (x =? y)%N.

Fixpoint match_prefix (ci : bool) (n h : bytes) : option bytes :=
  match n, h with
  | [], _ => Some h
  | x :: n', y :: h' => if ceq ci x y then match_prefix ci n' h' else None
  | _ :: _, [] => None
  end.

Fixpoint scan (ci : bool) (n : bytes) (bnd : bool) (h : bytes) : bool :=
  (bnd && match match_prefix ci n h with
          | Some [] => true
          | Some (c :: _) => (c =? 32)%N
          | None => false
          end)
  || match h with [] => false | c :: h' => scan ci n (c =? 32)%N h' end.

Definition is_subword (h n : bytes) (ci : bool) : bool :=
  if Nat.ltb (length h) (length n) then false else scan ci n true h.

(* fopOnString Equals: whole value, case-insensitive or not *)
Fixpoint eq_ci (ci : bool) (a b : bytes) : bool :=
  match a, b with
  | [], [] => true
  | x :: a', y :: b' => ceq ci x y && eq_ci ci a' b'
  | _, _ => false
  end.

(* ---------- the bloom decision ---------- *)
Inductive lop := LAnd | LOr.

(* needleExists for one key: the (lower-cased) key or the key as typed *)
Definition probe (test : bytes -> bool) (k : bytes * option bytes) : bool :=
  test (fst k) || match snd k with Some o => test o | None => false end.

(* doBloomCheckForCol (rotated, named column): with Or the block is kept even when no key is there *)
Definition bloom_pass_forcol (test : bytes -> bool) (keys : list (bytes * option bytes)) (o : lop) : bool :=
  match o with LAnd => forallb (probe test) keys | LOr => true end.
(* doBloomCheckAllCol (rotated, wildcard column) and doBloomCheckForCols (unrotated) *)
Definition bloom_pass_allcol (test : bytes -> bool) (keys : list (bytes * option bytes)) (o : lop) : bool :=
  match o with
  | LAnd => forallb (probe test) keys
  | LOr => match keys with [] => true | _ => existsb (probe test) keys end
  end.

(* a text query as the micro-index check sees it *)
Record tquery := mkTQ {
  tq_keys : list (bytes * option bytes);
  tq_op : lop;
  tq_wild_value : bool;     (* a key contains '*' or the value is a regex *)
  tq_negate : bool;         (* MatchFilter.NegateMatch *)
  tq_wild_col : bool        (* the column is the wildcard *)
}.

(* doCmiChecks, non-range branch (rotated segments): NOT and wildcard values bypass the bloom *)
Definition text_pass_rotated (test : bytes -> bool) (q : tquery) : bool :=
  if tq_wild_value q || tq_negate q then true
  else if tq_wild_col q then bloom_pass_allcol test (tq_keys q) (tq_op q)
  else bloom_pass_forcol test (tq_keys q) (tq_op q).

(* DoCMICheckForUnrotated, non-range branch: NOT and wildcard values bypass the bloom, as on rotated segments *)
Definition text_pass_unrotated (test : bytes -> bool) (q : tquery) : bool :=
  if tq_wild_value q || tq_negate q then true
  else bloom_pass_allcol test (tq_keys q) (tq_op q).

(* PRE-FIX (before "fix: do not prune blocks of open segments with the bloom for a negated match"):
   only the wildcard value bypassed *)
Definition text_pass_unrotated_prefix (test : bytes -> bool) (q : tquery) : bool :=
  if tq_wild_value q then true
  else bloom_pass_allcol test (tq_keys q) (tq_op q).

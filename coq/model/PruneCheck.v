(* PruneCheck.v — executable comparison of Prune.v / Layout.v with observations of the real
   range checkers, range-index maintenance, bloom token insertion and block pruning (C03 case files).
   Every check returns the indices of the cases where the model disagrees with the observation. *)
From Coq Require Import QArith.
From SigM Require Import Base Prune Layout TextPlan.
Open Scope Z_scope.

Fixpoint idx_false (l : list bool) (i : nat) : list nat :=
  match l with [] => [] | b :: r => (if b then [] else [i]) ++ idx_false r (S i) end.

(* 1. does{Uint,Int,Float}PassRangeFilter: kind 0 uint, 1 int, 2 float *)
Inductive passcase :=
| PZ (o : N) (l mn mx : Z) (obs : bool)
| PQ (o : N) (l mn mx : Q) (obs : bool).
Definition pass_ok (c : passcase) : bool :=
  match c with
  | PZ o l mn mx obs => Bool.eqb (pass_rangeZ (op_code o) l mn mx) obs
  | PQ o l mn mx obs => Bool.eqb (pass_rangeQ (op_code o) l mn mx) obs
  end.
Definition check_pass (cs : list passcase) : list nat := idx_false (map pass_ok cs) 0.

(* 2. checkRangeIndexHelper on a range entry and the literal text *)
Definition ntype_code (n : N) : ntype := match n with 0%N => RUint | 1%N => RInt | _ => RFloat end.
Definition mk_numbers (t : N) (umn umx imn imx : Z) (fmn fmx : Q) : numbers :=
  mkNum (ntype_code t) umn umx imn imx fmn fmx.
Definition helper_ok (c : numbers * bytes * N * bool) : bool :=
  let '(r, l, o, obs) := c in Bool.eqb (check_range r (op_code o) (classify l)) obs.
Definition check_helper (cs : list (numbers * bytes * N * bool)) : list nat := idx_false (map helper_ok cs) 0.

(* 3. updateRangeIndex folded over the values of a block column *)
Definition ntype_eqb (a b : ntype) : bool :=
  match a, b with RUint, RUint | RInt, RInt | RFloat, RFloat => true | _, _ => false end.
Definition numbers_eqb (a b : numbers) : bool :=
  ntype_eqb (nt a) (nt b) && (umin a =? umin b) && (umax a =? umax b) && (imin a =? imin b) && (imax a =? imax b)
  && Qeq_bool (fmin a) (fmin b) && Qeq_bool (fmax a) (fmax b).
Definition fold_ok (c : list num * numbers) : bool :=
  match range_of (fst c) with Some r => numbers_eqb r (snd c) | None => false end.
Definition check_fold (cs : list (list num * numbers)) : list nat := idx_false (map fold_ok cs) 0.

(* 4. addToBlockBloomBothCases: number of distinct tokens and membership of probes *)
Definition tokens_ok (c : bytes * N * list (bytes * bool)) : bool :=
  let '(w, cnt, probes) := c in
  (N.of_nat (length (dedup (tokens w) [])) =? cnt)%N
  && forallb (fun p => Bool.eqb (mem_bytes (fst p) (tokens w)) (snd p)) probes.
Definition check_tokens (cs : list (bytes * N * list (bytes * bool))) : list nat := idx_false (map tokens_ok cs) 0.

(* 5. block pruning, range queries: per block the queried column is absent, a string column, or numbers *)
Inductive bcol := BNone | BStr | BNums (vs : list num).
Definition bcol_cmi (b : bcol) : cmi :=
  match b with BNone => CNone | BStr => CBloom | BNums vs => cmi_of (map Some vs) end.
Definition blocks_pass (bs : list bcol) (o : N) (l : bytes) : list bool :=
  map (fun b => block_range_pass (bcol_cmi b) (op_code o) (classify l)) bs.
Fixpoint bools_eqb (a b : list bool) : bool :=
  match a, b with [] , [] => true | x :: a', y :: b' => Bool.eqb x y && bools_eqb a' b' | _, _ => false end.
(* observed: survivors of doCmiChecks (rotated) and of doRangeCheckForCols (unrotated) *)
Definition prune_range_ok (c : list bcol * N * bytes * list bool * list bool) : bool :=
  let '(bs, o, l, obs_rot, obs_unrot) := c in
  let m := blocks_pass bs o l in bools_eqb m obs_rot && bools_eqb m obs_unrot.
Definition check_prune_range (cs : list (list bcol * N * bytes * list bool * list bool)) : list nat :=
  idx_false (map prune_range_ok cs) 0.

(* 6. block pruning, text queries: per block the string values of the queried column (None = no bloom) *)
Definition block_test (b : option (list bytes)) (k : bytes) : bool :=
  match b with Some vals => mem_bytes k (tokens_of_values vals) | None => false end.
Definition lop_code (n : N) : lop := match n with 0%N => LOr | _ => LAnd end.
Definition prune_text_ok (c : list (option (list bytes)) * tquery * list bool * list bool) : bool :=
  let '(bs, q, obs_rot, obs_unrot) := c in
  bools_eqb (map (fun b => text_pass_rotated (block_test b) q) bs) obs_rot
  && bools_eqb (map (fun b => text_pass_unrotated (block_test b) q) bs) obs_unrot.
Definition check_prune_text (cs : list (list (option (list bytes)) * tquery * list bool * list bool)) : list nat :=
  idx_false (map prune_text_ok cs) 0.

(* 7. end to end: a range query on the real system over a layout whose blocks are known;
   the model answer (Layout.answer with the pruning of Prune.v) must be the observed id set *)
Definition e2e_answer (blocks : list (list (nat * cell))) (o : N) (l : bytes) : list nat :=
  let lt := classify l in
  match lit_val lt with
  | None => []
  | Some lv =>
    flat_map (fun b =>
      if block_range_pass (cmi_of (map snd b)) (op_code o) lt
      then map fst (filter (fun e => ev_matches (op_code o) lv (snd e)) b) else []) blocks
  end.
Fixpoint insert_nat (x : nat) (l : list nat) : list nat :=
  match l with [] => [x] | y :: r => if Nat.leb x y then x :: l else y :: insert_nat x r end.
Definition sort_nat (l : list nat) : list nat := fold_right insert_nat [] l.
Definition e2e_ok (c : list (list (nat * cell)) * N * bytes * list nat) : bool :=
  let '(bs, o, l, obs) := c in list_eqb Nat.eqb (sort_nat (e2e_answer bs o l)) obs.
Definition check_e2e (cs : list (list (list (nat * cell)) * N * bytes * list nat)) : list nat :=
  idx_false (map e2e_ok cs) 0.

(* 8. getLastRecord() per column after every record of a block (hook on AfterWritingToSegment, real ingest path):
   the model walks the block with one colwip per column seen so far; a column that shows up in the middle of
   the block is back-filled for the earlier records first *)
Fixpoint wlookup {A} (k : bytes) (l : list (bytes * A)) : option A :=
  match l with [] => None | (a, b) :: r => if bytes_eqb a k then Some b else wlookup k r end.
Definition wstate := list (bytes * colwip).
Definition wstep (nprev : nat) (st : wstate) (ev : list (bytes * wcell)) : wstate :=
  map (fun kc => (fst kc, cw_step (snd kc) (wlookup (fst kc) ev))) st
  ++ map (fun kv => (fst kv, cw_step (fold_left cw_step (repeat None nprev) cw_empty) (Some (snd kv))))
         (filter (fun kv => match wlookup (fst kv) st with Some _ => false | None => true end) ev).
Definition windows_match (st : wstate) (obs : list (bytes * bytes)) : bool :=
  forallb (fun kc => match wlookup (fst kc) obs with
                     | Some w => bytes_eqb w (cw_last (snd kc))
                     | None => false
                     end) st.
Fixpoint wblock (nprev : nat) (st : wstate) (evs : list (list (bytes * wcell) * list (bytes * bytes))) : bool :=
  match evs with
  | [] => true
  | (ev, obs) :: r => let st' := wstep nprev st ev in windows_match st' obs && wblock (S nprev) st' r
  end.
Definition check_window (blocks : list (list (list (bytes * wcell) * list (bytes * bytes)))) : list nat :=
  idx_false (map (wblock O []) blocks) 0.

(* 9. the range entry the open segment holds for a block whose column received numbers and numeric strings
   (read after the real flush): block_index; None = the block has no range entry for the column *)
Definition block_index_ok (c : list rcell * option numbers) : bool :=
  match block_index (fst c), snd c with
  | Some r, Some o => numbers_eqb r o
  | None, None => true
  | _, _ => false
  end.
Definition check_block_index (cs : list (list rcell * option numbers)) : list nat := idx_false (map block_index_ok cs) 0.

(* 10. bookkeeping of a persistent query after rotation: the segment keeps its pqmr file and stays off the
   empty-results list iff some block matched (events given as their ingest-time match) *)
Definition pqs_flag_ok (c : list (list bool) * bool) : bool :=
  Bool.eqb (seg_nonempty bool (fun b => b) (fst c)) (snd c).
Definition check_pqs_flag (cs : list (list (list bool) * bool)) : list nat := idx_false (map pqs_flag_ok cs) 0.

(* 11. the candidate columns recorded by the block-bloom check of a query on the wildcard column (TextPlan.v):
   per block its columns (Some values = bloom over these values, None = range index), the keys, And/Or;
   observed per block, for doCmiChecks (rotated) and DoCMICheckForUnrotated (open): None = block dropped,
   Some cols = timeFilteredBlocks[blk] (compared as a set) *)
Definition cols_seteq (a b : list bytes) : bool :=
  forallb (fun c => mem_bytes c b) a && forallb (fun c => mem_bytes c a) b.
Definition plan_eqb (m o : option (list bytes)) : bool :=
  match m, o with Some a, Some b => cols_seteq a b | None, None => true | _, _ => false end.
Fixpoint plans_eqb (a b : list (option (list bytes))) : bool :=
  match a, b with [], [] => true | x :: a', y :: b' => plan_eqb x y && plans_eqb a' b' | _, _ => false end.
Definition case_cmis (b : list (bytes * option (list bytes))) : list colidx :=
  map (fun cv => (fst cv, match snd cv with Some vals => Some (exact_filter vals) | None => None end)) b.
Definition allcol_cols_ok (c : list (list (bytes * option (list bytes))) * list (bytes * option bytes) * lop
                              * list (option (list bytes)) * list (option (list bytes))) : bool :=
  let '(bs, keys, o, obs_rot, obs_unrot) := c in
  let segcols := flat_map (map fst) bs in
  plans_eqb (map (fun b => allcol_rotated (case_cmis b) keys o) bs) obs_rot
  && plans_eqb (map (fun b => allcol_unrotated segcols (case_cmis b) keys o) bs) obs_unrot.
Definition check_allcol_cols (cs : list (list (list (bytes * option (list bytes))) * list (bytes * option bytes) * lop
                                         * list (option (list bytes)) * list (option (list bytes)))) : list nat :=
  idx_false (map allcol_cols_ok cs) 0.

(* 12. end to end: an equality on the wildcard column with a string value on the real system over a layout whose
   segments (open / rotated) and blocks are known; the model answer (plan of the bloom check per block, search in
   the candidate columns) must be the observed id set; one case = one layout with all its (value, observed ids) *)
Definition allcol_e2e_ok (c : list tseg * bool * list (bytes * list nat)) : bool :=
  let '(L, ci, qs) := c in
  forallb (fun q => list_eqb Nat.eqb (sort_nat (allcol_answer exact_filter ci (fst q, None) L)) (snd q)) qs.
Definition check_allcol_e2e (cs : list (list tseg * bool * list (bytes * list nat))) : list nat :=
  idx_false (map allcol_e2e_ok cs) 0.

(* QueryAdmit.v — the ADMISSION DECISION of the puller as a function of the running table.

   querystatus.go:
     GetActiveQueryCount()  = len(allRunningQueries)          (under arqMapLock.RLock)
     canRunQuery()          = GetActiveQueryCount() < MAX_RUNNING_QUERIES
     PullQueriesToRun       : if canRunQuery() { take the head of waitingQueries; RunQuery }

   QueryLife.step has the comparison `length (running s) < mx` built in.  Here the number the
   admission check compares with the limit is a parameter [cnt] (any function of the running
   table), so that the theorems can say WHICH counts keep the limit: the code's count is
   [count_entries] (every entry of the table: forced, cancelled and timed-out ones included, as
   long as DeleteQuery has not removed them); [count_uncancelled] is the tempting variant that
   stops counting a query once isCancelled is set although its entry, its search goroutines and
   its timeout watcher are still there.  Every op other than Pull is QueryLife.step itself.
   No proofs in this file. *)
From SigM Require Import Base QueryLife.
Open Scope N_scope.

Definition count_entries (l : list entry) : nat := length l.
Definition count_uncancelled (l : list entry) : nat :=
  length (filter (fun e => negb (e_cancelled e)) l).

(* what the public getter GetActiveQueryCount returns in a state *)
Definition active_count (s : st) : nat := count_entries (running s).

Definition step_cnt (cnt : list entry -> nat) (mx : nat) (s : st) (o : op) : st * out :=
  match o with
  | Pull =>
    if wedged s then (s, OBlocked) else
    if Nat.ltb (cnt (running s)) mx then
      match waiting s with
      | [] => (s, ONone)
      | e :: wq =>
        (run_query e (mkS (running s) wq (watchers s) (dead s) (e_ser e :: admitted s) (nser s) false), OOk)
      end
    else (s, ONone)
  | _ => step mx s o
  end.

Definition run_cnt (cnt : list entry -> nat) (mx : nat) (s : st) (ops : list op) : st :=
  fold_left (fun s o => fst (step_cnt cnt mx s o)) ops s.

(* the schedule that separates the two counts, for a limit of mx >= 1 and k >= 1 cancelled queries:
   mx + k queued starts, mx pulls (table full, k waiting), k running queries cancelled and not
   yet deleted by their handlers, k pulls *)
Definition starts (n : nat) : list op := map (fun i => Start (N.of_nat i) false false) (seq 1 n).
Definition cancels (k : nat) : list op := map (fun i => Cancel (N.of_nat i)) (seq 1 k).
Definition saturate_cancel_pull (mx k : nat) : list op :=
  starts (mx + k) ++ repeat Pull mx ++ cancels k ++ repeat Pull k.

(* QueryLife.v — executable model of the query life cycle kept by
   pkg/segment/query/querystatus.go (siglens).

   What is modelled, line by line:
     allRunningQueries  (map qid -> *RunningQueryState, under arqMapLock)    -> [running]
     waitingQueries     (FIFO slice of *WaitStateData, under waitingQueriesLock) -> [waiting]
     RunningQueryState.isCancelled / isAsync / StateChan (buffer 10)          -> [entry]
     the goroutine started by setupTimeoutCancelFunc for every admitted query -> [watchers]
     StartQuery / StartQueryAsCoordinator (forceRun or not)                   -> [Start]
     one iteration of the loop of PullQueriesToRun                            -> [Pull]
     CancelQuery                                                              -> [Cancel]
     the deadline of the timeout context passing                              -> [Fire]
     DeleteQuery / withLockDeleteQuery                                        -> [Delete]
     the executor sending COMPLETE / ERROR on StateChan                       -> [Complete] / [Fail]
     the consumer (handler) taking one message from StateChan                 -> [Recv]

   Facts of the code the model keeps on purpose (they decide the theorems):
     * a query started without forceRun lives ONLY in waitingQueries until RunQuery moves it (under
       arqMapLock) to allRunningQueries; StartQuery checks for a duplicate qid in
       allRunningQueries only;
     * CancelQuery and DeleteQuery look the qid up in allRunningQueries and, when it is not there,
       take the first entry with that qid out of waitingQueries (both under arqMapLock, so a query
       is always found in exactly one of the two places);
     * canRunQuery compares len(allRunningQueries) (forced and cancelled entries included) with
       MAX_RUNNING_QUERIES; forced starts do not look at it;
     * withLockRunQuery assigns allRunningQueries[qid] (overwrites), arms the timeout watcher and
       sends READY, RUNNING on StateChan while arqMapLock is held (the channel of a query that
       has never run is empty); CancelQuery sends CANCELLED with no lock held;
     * withLockDeleteQuery always calls timeoutCancelFunc, so the watcher ends with the entry.
   The code BEFORE the repairs fixes/C17-cancel-waiting-query and fixes/C17-release-timeout-watcher
   (Cancel/Delete ignored waiting queries, CANCELLED was sent under waitingQueriesLock, the watcher
   of a cancelled query was not released) is kept at the end of this file as [step_prefix] for the
   documentation theorems C17_prefix_*.

   Ghost components (not in the code, used to state theorems): arrival serial [e_ser], [e_forced],
   the log of every message ever sent [e_log], the graveyard [dead], the admission log [admitted].
   Not modelled in [step]: RestartQuery (shares a channel between two qids), the contents of
   messages, QUERY_UPDATE traffic.  The locks themselves (arqMapLock, waitingQueriesLock, the
   per-query rqsLock) and which of them a function holds at its sends are modelled in the second
   half of this file ("LOCK DISCIPLINE": [script], [exec], [lrun]).
   No proofs in this file. *)
From SigM Require Import Base.
Open Scope N_scope.

Inductive msg := READY | RUNNING | QUPDATE | COMPLETE | CANCELLED | TIMEOUT | ERROR.

Definition is_terminal (m : msg) : bool :=
  match m with COMPLETE | CANCELLED | TIMEOUT | ERROR => true | _ => false end.
Definition is_start_msg (m : msg) : bool :=
  match m with READY | RUNNING => true | _ => false end.

Definition CHAN_CAP : nat := 10.       (* queryStateChanSize *)
Definition MAX_WAITING : nat := 500.   (* MAX_WAITING_QUERIES *)

Record entry := mkE {
  e_ser : nat;            (* ghost: arrival serial of the Start that created it *)
  e_qid : N;
  e_async : bool;
  e_forced : bool;        (* ghost: started with forceRun *)
  e_cancelled : bool;     (* isCancelled *)
  e_chan : list msg;      (* StateChan: unread messages, oldest first *)
  e_log : list msg        (* ghost: every message ever sent, newest first *)
}.

Record st := mkS {
  running : list entry;          (* allRunningQueries *)
  waiting : list entry;          (* waitingQueries, head = next to run *)
  watchers : list (nat * N);     (* live timeout goroutines: (serial, qid) *)
  dead : list entry;             (* ghost: entries no table refers to any more *)
  admitted : list nat;           (* ghost: serials taken from the queue by Pull, newest first *)
  nser : nat;                    (* ghost: next serial *)
  wedged : bool                  (* some goroutine is blocked in a channel send while holding
                                    arqMapLock or waitingQueriesLock *)
}.

Definition init : st := mkS [] [] [] [] [] O false.

Inductive op :=
| Start (q : N) (async forced : bool)
| Pull
| Cancel (q : N)
| Fire (q : N)
| Complete (q : N)
| Fail (q : N)
| Delete (q : N)
| Recv (q : N).

Inductive out := OOk | OErrExists | OErrFull | OGot (m : msg) | OEmpty | ONone | OBlocked.

(* ---------- entries ---------- *)
Definition has_qid (q : N) (e : entry) : bool := e_qid e =? q.
Definition lookup (q : N) (l : list entry) : option entry := find (has_qid q) l.
Definition remove_qid (q : N) (l : list entry) : list entry := filter (fun e => negb (has_qid q e)) l.
Definition upd_qid (q : N) (f : entry -> entry) (l : list entry) : list entry :=
  map (fun e => if has_qid q e then f e else e) l.

Fixpoint remove_first (q : N) (l : list entry) : option entry * list entry :=
  match l with
  | [] => (None, [])
  | e :: r => if has_qid q e then (Some e, r)
              else let '(x, r') := remove_first q r in (x, e :: r')
  end.

Definition set_cancelled (e : entry) : entry :=
  mkE (e_ser e) (e_qid e) (e_async e) (e_forced e) true (e_chan e) (e_log e).
Definition push (m : msg) (e : entry) : entry :=
  mkE (e_ser e) (e_qid e) (e_async e) (e_forced e) (e_cancelled e) (e_chan e ++ [m]) (m :: e_log e).
Definition pop (e : entry) : entry :=
  mkE (e_ser e) (e_qid e) (e_async e) (e_forced e) (e_cancelled e) (tl (e_chan e)) (e_log e).

Definition has_room (e : entry) : bool := Nat.ltb (length (e_chan e)) CHAN_CAP.

(* a send performed while a table lock is held: the bool says "the sender is now blocked" *)
Definition send_locked (m : msg) (ew : entry * bool) : entry * bool :=
  let '(e, w) := ew in
  if w then (e, true) else if has_room e then (push m e, false) else (e, true).

Definition opt_cons {A} (x : option A) (l : list A) : list A :=
  match x with Some a => a :: l | None => l end.

Fixpoint remove_watcher_q (q : N) (l : list (nat * N)) : option (nat * N) * list (nat * N) :=
  match l with
  | [] => (None, [])
  | w :: r => if snd w =? q then (Some w, r)
              else let '(x, r') := remove_watcher_q q r in (x, w :: r')
  end.
Definition remove_watcher_ser (i : nat) (l : list (nat * N)) : list (nat * N) :=
  filter (fun w => negb (Nat.eqb (fst w) i)) l.

(* ---------- withLockRunQuery ---------- *)
Definition run_query (e : entry) (s : st) : st :=
  if e_cancelled e then
    mkS (running s) (waiting s) (watchers s) (e :: dead s) (admitted s) (nser s) (wedged s)
  else
    let '(e2, w) := send_locked RUNNING (send_locked READY (e, false)) in
    mkS (e2 :: remove_qid (e_qid e) (running s))
        (waiting s)
        (watchers s ++ [(e_ser e, e_qid e)])
        (filter (has_qid (e_qid e)) (running s) ++ dead s)
        (admitted s) (nser s) w.

(* ---------- CancelQuery ---------- *)
(* isCancelled := true, then CANCELLED is sent with no lock held: on a full channel only the
   canceller waits (modelled as "not delivered", like an executor-side send) *)
Definition cancel_entry (e : entry) : entry :=
  if has_room e then push CANCELLED (set_cancelled e) else set_cancelled e.

(* the query is looked up in allRunningQueries, else taken out of waitingQueries (first entry
   with the qid); a cancelled waiting query is in no table any more, its consumer gets CANCELLED *)
Definition cancel (q : N) (s : st) : st :=
  match lookup q (running s) with
  | Some _ =>
    mkS (upd_qid q cancel_entry (running s)) (waiting s) (watchers s) (dead s)
        (admitted s) (nser s) (wedged s)
  | None =>
    let '(rm, wq) := remove_first q (waiting s) in
    mkS (running s) wq (watchers s) (opt_cons (option_map cancel_entry rm) (dead s))
        (admitted s) (nser s) (wedged s)
  end.

(* executor-side send (no lock held): when the channel is full the sender waits; modelled as
   "not sent" (the harness uses a non-blocking attempt) *)
Definition exec_send (q : N) (m : msg) (s : st) : st :=
  match lookup q (running s) with
  | None => s
  | Some e =>
    if has_room e then
      mkS (upd_qid q (push m) (running s)) (waiting s) (watchers s) (dead s) (admitted s) (nser s) (wedged s)
    else s
  end.

Definition step (mx : nat) (s : st) (o : op) : st * out :=
  if wedged s then (s, OBlocked) else
  match o with
  | Start q async forced =>
    if existsb (has_qid q) (running s) then (s, OErrExists)
    else
      let e := mkE (nser s) q async forced false [] [] in
      if forced then
        (run_query e (mkS (running s) (waiting s) (watchers s) (dead s) (admitted s) (S (nser s)) false), OOk)
      else if Nat.leb MAX_WAITING (length (waiting s)) then (s, OErrFull)
      else (mkS (running s) (waiting s ++ [e]) (watchers s) (dead s) (admitted s) (S (nser s)) false, OOk)
  | Pull =>
    if Nat.ltb (length (running s)) mx then
      match waiting s with
      | [] => (s, ONone)
      | e :: wq =>
        (run_query e (mkS (running s) wq (watchers s) (dead s) (e_ser e :: admitted s) (nser s) false), OOk)
      end
    else (s, ONone)
  | Cancel q => (cancel q s, ONone)
  | Fire q =>
    match remove_watcher_q q (watchers s) with
    | (None, _) => (s, ONone)
    | (Some _, ws) =>
      match lookup q (running s) with
      | None => (mkS (running s) (waiting s) ws (dead s) (admitted s) (nser s) false, ONone)
      | Some e =>
        if has_room e then
          (cancel q (mkS (upd_qid q (push TIMEOUT) (running s)) (waiting s) ws (dead s) (admitted s) (nser s) false), ONone)
        else (s, ONone)   (* the TIMEOUT send waits outside any lock; the watcher stays *)
      end
    end
  | Complete q => (exec_send q COMPLETE s, ONone)
  | Fail q => (exec_send q ERROR s, ONone)
  | Delete q =>
    match lookup q (running s) with
    | None =>
      (* not started yet: taken out of the waiting queue, never started *)
      let '(rm, wq) := remove_first q (waiting s) in
      (mkS (running s) wq (watchers s) (opt_cons rm (dead s)) (admitted s) (nser s) false, ONone)
    | Some e =>
      (mkS (remove_qid q (running s)) (waiting s)
           (remove_watcher_ser (e_ser e) (watchers s))
           (filter (has_qid q) (running s) ++ dead s) (admitted s) (nser s) false, ONone)
    end
  | Recv q =>
    match lookup q (running s) with
    | None => (s, OEmpty)
    | Some e =>
      match e_chan e with
      | [] => (s, OEmpty)
      | m :: _ =>
        (mkS (upd_qid q pop (running s)) (waiting s) (watchers s) (dead s) (admitted s) (nser s) false, OGot m)
      end
    end
  end.

Definition run (mx : nat) (s : st) (ops : list op) : st :=
  fold_left (fun s o => fst (step mx s o)) ops s.

(* ---------- derived notions used by the theorems ---------- *)
Definition insts (s : st) : list entry := running s ++ waiting s ++ dead s.
Definition in_table (q : N) (l : list entry) : bool := existsb (has_qid q) l.
Definition nonforced (l : list entry) : nat := length (filter (fun e => negb (e_forced e)) l).
(* the terminal state of a query = the first terminal message sent on its channel *)
Definition term_of (e : entry) : option msg := find is_terminal (rev (e_log e)).
Definition has_watcher (q : N) (s : st) : bool := existsb (fun w => snd w =? q) (watchers s).

(* "no Start uses a qid that is still in a table": the server's qid counter guarantees it
   (StartQuery's own duplicate check looks at allRunningQueries only) *)
Fixpoint live_fresh (mx : nat) (s : st) (ops : list op) : bool :=
  match ops with
  | [] => true
  | o :: r =>
    (match o with Start q _ _ => negb (in_table q (running s ++ waiting s)) | _ => true end)
    && live_fresh mx (fst (step mx s o)) r
  end.

(* ------------------------------------------------------------------ *)
(* PRE-FIX documentation: querystatus.go before fixes/C17-cancel-waiting-query and
   fixes/C17-release-timeout-watcher.  No longer the code.
     * CancelQuery / DeleteQuery looked the qid up in allRunningQueries only: no-ops for a waiting query;
     * CancelQuery removed an entry with the same qid from waitingQueries only when the qid was ALSO
       running, and sent CANCELLED while holding waitingQueriesLock (a full channel wedged everything);
     * withLockDeleteQuery skipped timeoutCancelFunc for a cancelled query.                       *)
(* ------------------------------------------------------------------ *)
Definition cancel_prefix (q : N) (s : st) : st :=
  match lookup q (running s) with
  | None => s
  | Some e =>
    let '(rm, wq) := remove_first q (waiting s) in
    mkS (upd_qid q cancel_entry (running s)) wq (watchers s) (opt_cons rm (dead s))
        (admitted s) (nser s) (negb (has_room e))
  end.

Definition step_prefix (mx : nat) (s : st) (o : op) : st * out :=
  if wedged s then (s, OBlocked) else
  match o with
  | Start q async forced =>
    if existsb (has_qid q) (running s) then (s, OErrExists)
    else
      let e := mkE (nser s) q async forced false [] [] in
      if forced then
        (run_query e (mkS (running s) (waiting s) (watchers s) (dead s) (admitted s) (S (nser s)) false), OOk)
      else if Nat.leb MAX_WAITING (length (waiting s)) then (s, OErrFull)
      else (mkS (running s) (waiting s ++ [e]) (watchers s) (dead s) (admitted s) (S (nser s)) false, OOk)
  | Pull =>
    if Nat.ltb (length (running s)) mx then
      match waiting s with
      | [] => (s, ONone)
      | e :: wq =>
        (run_query e (mkS (running s) wq (watchers s) (dead s) (e_ser e :: admitted s) (nser s) false), OOk)
      end
    else (s, ONone)
  | Cancel q => (cancel_prefix q s, ONone)
  | Fire q =>
    match remove_watcher_q q (watchers s) with
    | (None, _) => (s, ONone)
    | (Some _, ws) =>
      match lookup q (running s) with
      | None => (mkS (running s) (waiting s) ws (dead s) (admitted s) (nser s) false, ONone)
      | Some e =>
        if has_room e then
          (cancel_prefix q (mkS (upd_qid q (push TIMEOUT) (running s)) (waiting s) ws (dead s) (admitted s) (nser s) false), ONone)
        else (s, ONone)   (* the TIMEOUT send waits outside any lock; the watcher stays *)
      end
    end
  | Complete q => (exec_send q COMPLETE s, ONone)
  | Fail q => (exec_send q ERROR s, ONone)
  | Delete q =>
    match lookup q (running s) with
    | None => (s, ONone)
    | Some e =>
      (mkS (remove_qid q (running s)) (waiting s)
           (if e_cancelled e then watchers s else remove_watcher_ser (e_ser e) (watchers s))
           (filter (has_qid q) (running s) ++ dead s) (admitted s) (nser s) false, ONone)
    end
  | Recv q =>
    match lookup q (running s) with
    | None => (s, OEmpty)
    | Some e =>
      match e_chan e with
      | [] => (s, OEmpty)
      | m :: _ =>
        (mkS (upd_qid q pop (running s)) (waiting s) (watchers s) (dead s) (admitted s) (nser s) false, OGot m)
      end
    end
  end.

Definition run_prefix (mx : nat) (s : st) (ops : list op) : st :=
  fold_left (fun s o => fst (step_prefix mx s o)) ops s.

(* ------------------------------------------------------------------ *)
(* LOCK DISCIPLINE around the sends on StateChan.

   The step function above treats every function of querystatus.go as atomic and remembers only
   "a sender is blocked while it holds a table lock" ([wedged]).  What follows makes the locks
   explicit: arqMapLock (RWMutex), waitingQueriesLock (Mutex), the per-query rqsLock (RWMutex),
   and the buffered StateChan whose receiver may be arbitrarily slow.

   A function is a SCRIPT: the sequence of lock acquisitions, releases and channel sends it
   performs.  A goroutine runs its script until the first action that cannot proceed and then
   PARKS there, keeping every lock it has taken so far:
     * Send q   cannot proceed when the channel of q is full ([full q]);
     * Acq l Wr cannot proceed while a parked goroutine holds l (in any mode) or a writer waits for it;
     * Acq l Rd cannot proceed while a parked goroutine holds l for writing OR WAITS for it for
       writing (sync.RWMutex: a pending Lock() stops new RLock()s) - this is how one reader parked
       with arqMapLock.RLock plus one StartQuery freeze every other query.
   A goroutine that is not parked runs to the end of its script (same atomicity as [step]).
   Parked goroutines are never woken here: the statements are about the time during which the
   receiver does not read.  [full] may differ from step to step (channels fill and drain).

   [script] lists the functions of querystatus.go; in particular
       CancelQuery = ... rqsLock.Lock; isCancelled := true; rqsLock.Unlock;  StateChan <- CANCELLED
   i.e. the CANCELLED send happens with NO lock held ([held_at_sends (script (LCancel q InRun))]
   = [(q, [])]); the harness observes exactly this list of locks on the real code with TryLock
   probes while the sender is parked.  No proofs in this file. *)
(* ------------------------------------------------------------------ *)
Inductive lockid := LArq | LWaitQ | LRqs (q : N).
Inductive lmode := Rd | Wr.
Inductive act := Acq (l : lockid) (m : lmode) | Rel (l : lockid) | Send (q : N).

Definition lockid_eqb (a b : lockid) : bool :=
  match a, b with
  | LArq, LArq => true
  | LWaitQ, LWaitQ => true
  | LRqs x, LRqs y => x =? y
  | _, _ => false
  end.
Definition is_wr (m : lmode) : bool := match m with Wr => true | Rd => false end.

Inductive waitfor := WSend (q : N) | WAcq (l : lockid) (m : lmode).
Record park := mkP { p_holds : list (lockid * lmode); p_wait : waitfor }.

Definition holds_l (l : lockid) (p : park) : bool :=
  existsb (fun h => lockid_eqb (fst h) l) (p_holds p).
Definition holds_w (l : lockid) (p : park) : bool :=
  existsb (fun h => lockid_eqb (fst h) l && is_wr (snd h)) (p_holds p).
Definition waits_w (l : lockid) (p : park) : bool :=
  match p_wait p with WAcq l' Wr => lockid_eqb l' l | _ => false end.

Definition can_acq (ps : list park) (l : lockid) (m : lmode) : bool :=
  match m with
  | Wr => negb (existsb (fun p => holds_l l p || waits_w l p) ps)
  | Rd => negb (existsb (fun p => holds_w l p || waits_w l p) ps)
  end.

Definition release (l : lockid) (held : list (lockid * lmode)) : list (lockid * lmode) :=
  filter (fun h => negb (lockid_eqb (fst h) l)) held.

(* run a script; None = ran to its end (holding nothing any more), Some p = parked as p *)
Fixpoint exec (full : N -> bool) (ps : list park) (held : list (lockid * lmode)) (sc : list act) : option park :=
  match sc with
  | [] => None
  | Acq l m :: r => if can_acq ps l m then exec full ps ((l, m) :: held) r else Some (mkP held (WAcq l m))
  | Rel l :: r => exec full ps (release l held) r
  | Send q :: r => if full q then Some (mkP held (WSend q)) else exec full ps held r
  end.

Definition lstep (ps : list park) (fs : (N -> bool) * list act) : list park :=
  match exec (fst fs) ps [] (snd fs) with None => ps | Some p => ps ++ [p] end.
Definition lrun (ps : list park) (steps : list ((N -> bool) * list act)) : list park :=
  fold_left lstep steps ps.

(* the locks a script holds at each of its sends *)
Fixpoint held_at_sends (held : list (lockid * lmode)) (sc : list act) : list (N * list (lockid * lmode)) :=
  match sc with
  | [] => []
  | Acq l m :: r => held_at_sends ((l, m) :: held) r
  | Rel l :: r => held_at_sends (release l held) r
  | Send q :: r => (q, held) :: held_at_sends held r
  end.

(* THE DISCIPLINE: whenever a script sends on a channel that may be full it holds no lock *)
Fixpoint sends_unlocked (full : N -> bool) (held : list (lockid * lmode)) (sc : list act) : bool :=
  match sc with
  | [] => true
  | Acq l m :: r => sends_unlocked full ((l, m) :: held) r
  | Rel l :: r => sends_unlocked full (release l held) r
  | Send q :: r => (negb (full q) || match held with [] => true | _ => false end) && sends_unlocked full held r
  end.

(* ---------- the scripts of querystatus.go ---------- *)
Inductive place := InRun | InWait | Absent.   (* where the qid is when the function is called *)

Inductive lop :=
| LStart (q : N) (forced coord : bool)  (* StartQuery / StartQueryAsCoordinator, qid not running *)
| LPull (h : option N)                  (* one iteration of PullQueriesToRun with a free slot; h = head of the queue *)
| LCancel (q : N) (w : place)           (* CancelQuery *)
| LTimeoutCancel (q : N)                (* the watcher after the deadline: TIMEOUT found room, then CancelQuery *)
| LTimeoutSend (q : N)                  (* the watcher after the deadline, up to and including its TIMEOUT send
                                           (arqMapLock.RLock released before it) *)
| LDelete (q : N) (w : place)           (* DeleteQuery *)
| LExecSend (q : N)                     (* rQuery.SendQueryStateComplete: a send through the pointer, no lock *)
| LFinishSend (q : N)                   (* SetQidAsFinishedForPipeRespQuery / IncrementNumFinishedSegments (async):
                                           lookup, rqsLock taken and released, then the send *)
| LProgressSend (q : N)                 (* IncProgressForRRCCmd / SetPipeResp: QUERY_UPDATE sent while rqsLock is held (defer) *)
| LAccessor (q : N)                     (* GetProgress, IsRawSearchFinished, GetQuerySearchStateForQid, ...:
                                           arqMapLock.RLock released before rqsLock is taken *)
| LNestedAccessor (q : N)               (* GetAllColsInAggsForQid / SetAllColsInAggsForQid: rqsLock taken
                                           while arqMapLock.RLock is held *)
| LCount.                               (* GetActiveQueryCount *)

(* logGlobalSearchErrors -> GetOrCreateQuerySearchNodeResult, called first by CancelQuery and DeleteQuery *)
Definition acc_script (q : N) (w : place) : list act :=
  match w with
  | InRun => [Acq LArq Rd; Rel LArq; Acq (LRqs q) Wr; Rel (LRqs q)]
  | _ => [Acq LArq Rd; Rel LArq]
  end.

(* CancelQuery; [under_rqs] = false is the code (rqsLock released before the send), true is the
   variant "rqsLock.Lock(); defer rqsLock.Unlock()" used by the refuted statement only *)
Definition cancel_script (under_rqs : bool) (q : N) (w : place) : list act :=
  acc_script q w ++
  match w with
  | InRun => [Acq LArq Rd; Rel LArq]
  | _ => [Acq LArq Rd; Acq LWaitQ Wr; Rel LWaitQ; Rel LArq]   (* withLockRemoveFromWaitingQueriesQueue *)
  end ++
  match w with
  | Absent => []
  | _ => if under_rqs then [Acq (LRqs q) Wr; Send q; Rel (LRqs q)]
         else [Acq (LRqs q) Wr; Rel (LRqs q); Send q]
  end.

Definition script (o : lop) : list act :=
  match o with
  | LStart q forced coord =>
    [Acq LArq Wr] ++ (if coord then [Acq (LRqs q) Wr] else []) ++
    (if forced then [Send q; Send q]                      (* withLockRunQuery: READY, RUNNING *)
     else [Acq LWaitQ Wr; Rel LWaitQ]) ++                 (* addToWaitingQueriesQueue *)
    (if coord then [Rel (LRqs q)] else []) ++ [Rel LArq]
  | LPull h =>
    [Acq LArq Rd; Rel LArq; Acq LWaitQ Wr; Rel LWaitQ] ++  (* canRunQuery, getNextWaitStateData *)
    match h with
    | None => []
    | Some q => [Acq LArq Wr; Acq LWaitQ Wr; Rel LWaitQ; Send q; Send q; Rel LArq]   (* RunQuery *)
    end
  | LCancel q w => cancel_script false q w
  | LTimeoutCancel q => [Acq LArq Rd; Rel LArq] ++ cancel_script false q InRun
  | LTimeoutSend q => [Acq LArq Rd; Rel LArq; Send q]
  | LDelete q w =>
    acc_script q w ++ [Acq LArq Wr] ++
    match w with InRun => [] | _ => [Acq LWaitQ Wr; Rel LWaitQ] end ++ [Rel LArq]
  | LExecSend q => [Send q]
  | LFinishSend q => [Acq LArq Rd; Rel LArq; Acq (LRqs q) Wr; Rel (LRqs q); Send q]
  | LProgressSend q => [Acq LArq Rd; Rel LArq; Acq (LRqs q) Wr; Send q; Rel (LRqs q)]
  | LAccessor q => [Acq LArq Rd; Rel LArq; Acq (LRqs q) Wr; Rel (LRqs q)]
  | LNestedAccessor q => [Acq LArq Rd; Acq (LRqs q) Wr; Rel (LRqs q); Rel LArq]
  | LCount => [Acq LArq Rd; Rel LArq]
  end.

(* the guard of the full-strength statement for the code: a query is started on a channel that is
   not full (C17_admission_never_blocks / C17_waiting_untouched: a query that has never run has an
   empty channel), and no QUERY_UPDATE is sent by IncProgressForRRCCmd / SetPipeResp *)
Definition lop_ok (full : N -> bool) (o : lop) : bool :=
  match o with
  | LStart q forced _ => negb (forced && full q)
  | LPull (Some q) => negb (full q)
  | LProgressSend _ => false
  | _ => true
  end.

Definition code_steps (steps : list ((N -> bool) * lop)) : list ((N -> bool) * list act) :=
  map (fun fo => (fst fo, script (snd fo))) steps.

(* what a probe of a lock with TryLock / TryRLock sees: 0 = free, 1 = held by readers only,
   2 = a writer holds it or waits for it *)
Definition probe (ps : list park) (l : lockid) : N :=
  if existsb (fun p => holds_w l p || waits_w l p) ps then 2
  else if existsb (holds_l l) ps then 1 else 0.

(* ---------- notions used by the lock theorems ---------- *)
(* a parked goroutine that holds nothing and waits for a receiver *)
Definition harmless (p : park) : Prop := p_holds p = [] /\ exists q, p_wait p = WSend q.

(* no send of the script goes to a full channel *)
Definition targets_not_full (full : N -> bool) (sc : list act) : bool :=
  forallb (fun a => match a with Send q => negb (full q) | _ => true end) sc.

(* the queries a call concerns *)
Definition lop_qids (o : lop) : list N :=
  match o with
  | LStart q _ _ | LCancel q _ | LTimeoutCancel q | LTimeoutSend q | LDelete q _ | LExecSend q | LFinishSend q
  | LProgressSend q | LAccessor q | LNestedAccessor q => [q]
  | LPull (Some q) => [q]
  | LPull None | LCount => []
  end.

Definition only (q0 : N) : N -> bool := fun q => N.eqb q q0.   (* just the channel of q0 is full *)
Definition nonefull : N -> bool := fun _ => false.

(* QueryLife.v — executable model of the query life cycle kept by
   pkg/segment/query/querystatus.go (siglens).

   What is modelled, line by line:
     allRunningQueries  (map qid -> *RunningQueryState, under arqMapLock)    -> [running]
     waitingQueries     (FIFO slice of *WaitStateData, under waitingQueriesLock) -> [waiting]
     RunningQueryState.isCancelled / isAsync / StateChan (buffer 10)          -> [entry]
     the goroutine started by setupTimeoutCancelFunc for every admitted query -> [watchers]
     StartQuery / StartQueryAsCoordinator (forceRun or not)                   -> [Start]
     one iteration of the loop of PullQueriesToRun                            -> [Pull]
     CancelQuery                                                              -> [Cancel]
     the deadline of the timeout context passing                              -> [Fire]
     DeleteQuery / withLockDeleteQuery                                        -> [Delete]
     the executor sending COMPLETE / ERROR on StateChan                       -> [Complete] / [Fail]
     the consumer (handler) taking one message from StateChan                 -> [Recv]

   Facts of the code the model keeps on purpose (they decide the theorems):
     * a query started without forceRun lives ONLY in waitingQueries until RunQuery moves it (under
       arqMapLock) to allRunningQueries; StartQuery checks for a duplicate qid in
       allRunningQueries only;
     * CancelQuery and DeleteQuery look the qid up in allRunningQueries and, when it is not there,
       take the first entry with that qid out of waitingQueries (both under arqMapLock, so a query
       is always found in exactly one of the two places);
     * canRunQuery compares len(allRunningQueries) (forced and cancelled entries included) with
       MAX_RUNNING_QUERIES; forced starts do not look at it;
     * withLockRunQuery assigns allRunningQueries[qid] (overwrites), arms the timeout watcher and
       sends READY, RUNNING on StateChan while arqMapLock is held (the channel of a query that
       has never run is empty); CancelQuery sends CANCELLED with no lock held;
     * withLockDeleteQuery always calls timeoutCancelFunc, so the watcher ends with the entry.
   The code BEFORE the repairs fixes/C17-cancel-waiting-query and fixes/C17-release-timeout-watcher
   (Cancel/Delete ignored waiting queries, CANCELLED was sent under waitingQueriesLock, the watcher
   of a cancelled query was not released) is kept at the end of this file as [step_prefix] for the
   documentation theorems C17_prefix_*.

   Ghost components (not in the code, used to state theorems): arrival serial [e_ser], [e_forced],
   the log of every message ever sent [e_log], the graveyard [dead], the admission log [admitted].
   Not modelled: RestartQuery (shares a channel between two qids), the per-query rqsLock, the
   contents of messages, QUERY_UPDATE traffic.
   No proofs in this file. *)
From SigM Require Import Base.
Open Scope N_scope.

Inductive msg := READY | RUNNING | QUPDATE | COMPLETE | CANCELLED | TIMEOUT | ERROR.

Definition is_terminal (m : msg) : bool :=
  match m with COMPLETE | CANCELLED | TIMEOUT | ERROR => true | _ => false end.
Definition is_start_msg (m : msg) : bool :=
  match m with READY | RUNNING => true | _ => false end.

Definition CHAN_CAP : nat := 10.       (* queryStateChanSize *)
Definition MAX_WAITING : nat := 500.   (* MAX_WAITING_QUERIES *)

Record entry := mkE {
  e_ser : nat;            (* ghost: arrival serial of the Start that created it *)
  e_qid : N;
  e_async : bool;
  e_forced : bool;        (* ghost: started with forceRun *)
  e_cancelled : bool;     (* isCancelled *)
  e_chan : list msg;      (* StateChan: unread messages, oldest first *)
  e_log : list msg        (* ghost: every message ever sent, newest first *)
}.

Record st := mkS {
  running : list entry;          (* allRunningQueries *)
  waiting : list entry;          (* waitingQueries, head = next to run *)
  watchers : list (nat * N);     (* live timeout goroutines: (serial, qid) *)
  dead : list entry;             (* ghost: entries no table refers to any more *)
  admitted : list nat;           (* ghost: serials taken from the queue by Pull, newest first *)
  nser : nat;                    (* ghost: next serial *)
  wedged : bool                  (* some goroutine is blocked in a channel send while holding
                                    arqMapLock or waitingQueriesLock *)
}.

Definition init : st := mkS [] [] [] [] [] O false.

Inductive op :=
| Start (q : N) (async forced : bool)
| Pull
| Cancel (q : N)
| Fire (q : N)
| Complete (q : N)
| Fail (q : N)
| Delete (q : N)
| Recv (q : N).

Inductive out := OOk | OErrExists | OErrFull | OGot (m : msg) | OEmpty | ONone | OBlocked.

(* ---------- entries ---------- *)
Definition has_qid (q : N) (e : entry) : bool := e_qid e =? q.
Definition lookup (q : N) (l : list entry) : option entry := find (has_qid q) l.
Definition remove_qid (q : N) (l : list entry) : list entry := filter (fun e => negb (has_qid q e)) l.
Definition upd_qid (q : N) (f : entry -> entry) (l : list entry) : list entry :=
  map (fun e => if has_qid q e then f e else e) l.

Fixpoint remove_first (q : N) (l : list entry) : option entry * list entry :=
  match l with
  | [] => (None, [])
  | e :: r => if has_qid q e then (Some e, r)
              else let '(x, r') := remove_first q r in (x, e :: r')
  end.

Definition set_cancelled (e : entry) : entry :=
  mkE (e_ser e) (e_qid e) (e_async e) (e_forced e) true (e_chan e) (e_log e).
Definition push (m : msg) (e : entry) : entry :=
  mkE (e_ser e) (e_qid e) (e_async e) (e_forced e) (e_cancelled e) (e_chan e ++ [m]) (m :: e_log e).
Definition pop (e : entry) : entry :=
  mkE (e_ser e) (e_qid e) (e_async e) (e_forced e) (e_cancelled e) (tl (e_chan e)) (e_log e).

Definition has_room (e : entry) : bool := Nat.ltb (length (e_chan e)) CHAN_CAP.

(* a send performed while a table lock is held: the bool says "the sender is now blocked" *)
Definition send_locked (m : msg) (ew : entry * bool) : entry * bool :=
  let '(e, w) := ew in
  if w then (e, true) else if has_room e then (push m e, false) else (e, true).

Definition opt_cons {A} (x : option A) (l : list A) : list A :=
  match x with Some a => a :: l | None => l end.

Fixpoint remove_watcher_q (q : N) (l : list (nat * N)) : option (nat * N) * list (nat * N) :=
  match l with
  | [] => (None, [])
  | w :: r => if snd w =? q then (Some w, r)
              else let '(x, r') := remove_watcher_q q r in (x, w :: r')
  end.
Definition remove_watcher_ser (i : nat) (l : list (nat * N)) : list (nat * N) :=
  filter (fun w => negb (Nat.eqb (fst w) i)) l.

(* ---------- withLockRunQuery ---------- *)
Definition run_query (e : entry) (s : st) : st :=
  if e_cancelled e then
    mkS (running s) (waiting s) (watchers s) (e :: dead s) (admitted s) (nser s) (wedged s)
  else
    let '(e2, w) := send_locked RUNNING (send_locked READY (e, false)) in
    mkS (e2 :: remove_qid (e_qid e) (running s))
        (waiting s)
        (watchers s ++ [(e_ser e, e_qid e)])
        (filter (has_qid (e_qid e)) (running s) ++ dead s)
        (admitted s) (nser s) w.

(* ---------- CancelQuery ---------- *)
(* isCancelled := true, then CANCELLED is sent with no lock held: on a full channel only the
   canceller waits (modelled as "not delivered", like an executor-side send) *)
Definition cancel_entry (e : entry) : entry :=
  if has_room e then push CANCELLED (set_cancelled e) else set_cancelled e.

(* the query is looked up in allRunningQueries, else taken out of waitingQueries (first entry
   with the qid); a cancelled waiting query is in no table any more, its consumer gets CANCELLED *)
Definition cancel (q : N) (s : st) : st :=
  match lookup q (running s) with
  | Some _ =>
    mkS (upd_qid q cancel_entry (running s)) (waiting s) (watchers s) (dead s)
        (admitted s) (nser s) (wedged s)
  | None =>
    let '(rm, wq) := remove_first q (waiting s) in
    mkS (running s) wq (watchers s) (opt_cons (option_map cancel_entry rm) (dead s))
        (admitted s) (nser s) (wedged s)
  end.

(* executor-side send (no lock held): when the channel is full the sender waits; modelled as
   "not sent" (the harness uses a non-blocking attempt) *)
Definition exec_send (q : N) (m : msg) (s : st) : st :=
  match lookup q (running s) with
  | None => s
  | Some e =>
    if has_room e then
      mkS (upd_qid q (push m) (running s)) (waiting s) (watchers s) (dead s) (admitted s) (nser s) (wedged s)
    else s
  end.

Definition step (mx : nat) (s : st) (o : op) : st * out :=
  if wedged s then (s, OBlocked) else
  match o with
  | Start q async forced =>
    if existsb (has_qid q) (running s) then (s, OErrExists)
    else
      let e := mkE (nser s) q async forced false [] [] in
      if forced then
        (run_query e (mkS (running s) (waiting s) (watchers s) (dead s) (admitted s) (S (nser s)) false), OOk)
      else if Nat.leb MAX_WAITING (length (waiting s)) then (s, OErrFull)
      else (mkS (running s) (waiting s ++ [e]) (watchers s) (dead s) (admitted s) (S (nser s)) false, OOk)
  | Pull =>
    if Nat.ltb (length (running s)) mx then
      match waiting s with
      | [] => (s, ONone)
      | e :: wq =>
        (run_query e (mkS (running s) wq (watchers s) (dead s) (e_ser e :: admitted s) (nser s) false), OOk)
      end
    else (s, ONone)
  | Cancel q => (cancel q s, ONone)
  | Fire q =>
    match remove_watcher_q q (watchers s) with
    | (None, _) => (s, ONone)
    | (Some _, ws) =>
      match lookup q (running s) with
      | None => (mkS (running s) (waiting s) ws (dead s) (admitted s) (nser s) false, ONone)
      | Some e =>
        if has_room e then
          (cancel q (mkS (upd_qid q (push TIMEOUT) (running s)) (waiting s) ws (dead s) (admitted s) (nser s) false), ONone)
        else (s, ONone)   (* the TIMEOUT send waits outside any lock; the watcher stays *)
      end
    end
  | Complete q => (exec_send q COMPLETE s, ONone)
  | Fail q => (exec_send q ERROR s, ONone)
  | Delete q =>
    match lookup q (running s) with
    | None =>
      (* not started yet: taken out of the waiting queue, never started *)
      let '(rm, wq) := remove_first q (waiting s) in
      (mkS (running s) wq (watchers s) (opt_cons rm (dead s)) (admitted s) (nser s) false, ONone)
    | Some e =>
      (mkS (remove_qid q (running s)) (waiting s)
           (remove_watcher_ser (e_ser e) (watchers s))
           (filter (has_qid q) (running s) ++ dead s) (admitted s) (nser s) false, ONone)
    end
  | Recv q =>
    match lookup q (running s) with
    | None => (s, OEmpty)
    | Some e =>
      match e_chan e with
      | [] => (s, OEmpty)
      | m :: _ =>
        (mkS (upd_qid q pop (running s)) (waiting s) (watchers s) (dead s) (admitted s) (nser s) false, OGot m)
      end
    end
  end.

Definition run (mx : nat) (s : st) (ops : list op) : st :=
  fold_left (fun s o => fst (step mx s o)) ops s.

(* ---------- derived notions used by the theorems ---------- *)
Definition insts (s : st) : list entry := running s ++ waiting s ++ dead s.
Definition in_table (q : N) (l : list entry) : bool := existsb (has_qid q) l.
Definition nonforced (l : list entry) : nat := length (filter (fun e => negb (e_forced e)) l).
(* the terminal state of a query = the first terminal message sent on its channel *)
Definition term_of (e : entry) : option msg := find is_terminal (rev (e_log e)).
Definition has_watcher (q : N) (s : st) : bool := existsb (fun w => snd w =? q) (watchers s).

(* "no Start uses a qid that is still in a table": the server's qid counter guarantees it
   (StartQuery's own duplicate check looks at allRunningQueries only) *)
Fixpoint live_fresh (mx : nat) (s : st) (ops : list op) : bool :=
  match ops with
  | [] => true
  | o :: r =>
    (match o with Start q _ _ => negb (in_table q (running s ++ waiting s)) | _ => true end)
    && live_fresh mx (fst (step mx s o)) r
  end.

(* ------------------------------------------------------------------ *)
(* PRE-FIX documentation: querystatus.go before fixes/C17-cancel-waiting-query and
   fixes/C17-release-timeout-watcher.  No longer the code.
     * CancelQuery / DeleteQuery looked the qid up in allRunningQueries only: no-ops for a waiting query;
     * CancelQuery removed an entry with the same qid from waitingQueries only when the qid was ALSO
       running, and sent CANCELLED while holding waitingQueriesLock (a full channel wedged everything);
     * withLockDeleteQuery skipped timeoutCancelFunc for a cancelled query.                       *)
(* ------------------------------------------------------------------ *)
Definition cancel_prefix (q : N) (s : st) : st :=
  match lookup q (running s) with
  | None => s
  | Some e =>
    let '(rm, wq) := remove_first q (waiting s) in
    mkS (upd_qid q cancel_entry (running s)) wq (watchers s) (opt_cons rm (dead s))
        (admitted s) (nser s) (negb (has_room e))
  end.

Definition step_prefix (mx : nat) (s : st) (o : op) : st * out :=
  if wedged s then (s, OBlocked) else
  match o with
  | Start q async forced =>
    if existsb (has_qid q) (running s) then (s, OErrExists)
    else
      let e := mkE (nser s) q async forced false [] [] in
      if forced then
        (run_query e (mkS (running s) (waiting s) (watchers s) (dead s) (admitted s) (S (nser s)) false), OOk)
      else if Nat.leb MAX_WAITING (length (waiting s)) then (s, OErrFull)
      else (mkS (running s) (waiting s ++ [e]) (watchers s) (dead s) (admitted s) (S (nser s)) false, OOk)
  | Pull =>
    if Nat.ltb (length (running s)) mx then
      match waiting s with
      | [] => (s, ONone)
      | e :: wq =>
        (run_query e (mkS (running s) wq (watchers s) (dead s) (e_ser e :: admitted s) (nser s) false), OOk)
      end
    else (s, ONone)
  | Cancel q => (cancel_prefix q s, ONone)
  | Fire q =>
    match remove_watcher_q q (watchers s) with
    | (None, _) => (s, ONone)
    | (Some _, ws) =>
      match lookup q (running s) with
      | None => (mkS (running s) (waiting s) ws (dead s) (admitted s) (nser s) false, ONone)
      | Some e =>
        if has_room e then
          (cancel_prefix q (mkS (upd_qid q (push TIMEOUT) (running s)) (waiting s) ws (dead s) (admitted s) (nser s) false), ONone)
        else (s, ONone)   (* the TIMEOUT send waits outside any lock; the watcher stays *)
      end
    end
  | Complete q => (exec_send q COMPLETE s, ONone)
  | Fail q => (exec_send q ERROR s, ONone)
  | Delete q =>
    match lookup q (running s) with
    | None => (s, ONone)
    | Some e =>
      (mkS (remove_qid q (running s)) (waiting s)
           (if e_cancelled e then watchers s else remove_watcher_ser (e_ser e) (watchers s))
           (filter (has_qid q) (running s) ++ dead s) (admitted s) (nser s) false, ONone)
    end
  | Recv q =>
    match lookup q (running s) with
    | None => (s, OEmpty)
    | Some e =>
      match e_chan e with
      | [] => (s, OEmpty)
      | m :: _ =>
        (mkS (upd_qid q pop (running s)) (waiting s) (watchers s) (dead s) (admitted s) (nser s) false, OGot m)
      end
    end
  end.

Definition run_prefix (mx : nat) (s : st) (ops : list op) : st :=
  fold_left (fun s o => fst (step_prefix mx s o)) ops s.

(* QueryLifeCheck.v — executable comparison of the query life-cycle model with observations of
   the real querystatus.go functions (used by the generated case files of C17). *)
From SigM Require Import Base QueryLife QueryAdmit.
Open Scope N_scope.

(* trace items: a model op, "all armed timeout watchers fire" (the harness slept past the
   deadline), "the background puller ran until it could admit nothing more" *)
Inductive top := T (o : op) | TFireAll | TPullAll | TThen (o : op).

Definition pull_all (mx : nat) (s : st) : st :=
  Nat.iter (length (waiting s)) (fun s => fst (step mx s Pull)) s.

Definition tstep (mx : nat) (s : st) (t : top) : st * out :=
  match t with
  | T o => step mx s o
  | TFireAll => (fold_left (fun s w => fst (step mx s (Fire (snd w)))) (watchers s) s, ONone)
  | TPullAll => (pull_all mx s, ONone)
  | TThen o => let '(s', r) := step mx s o in (pull_all mx s', r)   (* the real puller goroutine ran to quiescence *)
  end.

Definition msg_code (m : msg) : N :=
  match m with READY => 1 | RUNNING => 2 | QUPDATE => 3 | COMPLETE => 4 | CANCELLED => 5 | TIMEOUT => 6 | ERROR => 7 end.
(* QueryState numbering of the Go code *)
Definition out_code (o : out) : N :=
  match o with OOk => 0 | OErrExists => 1 | OErrFull => 2 | ONone => 3 | OEmpty => 4 | OBlocked => 5 | OGot m => 10 + msg_code m end.

(* what the harness sees after a step: result code, the running table sorted by qid as
   (qid, isCancelled, len(StateChan)), the waiting queue in order as (qid, len(StateChan)),
   and the number of live timeout-watcher goroutines (None = not measured at this step) *)
Definition rview := (N * bool * nat)%type.
Record obs := mkO { o_out : N; o_nrun : nat; o_nwait : nat;
                    o_lists : option (list rview * list (N * nat));   (* None = only the sizes were recorded *)
                    o_watch : option nat;
                    o_active : option nat }.   (* what the public getter GetActiveQueryCount returned (None = not asked) *)

Fixpoint insert_r (x : rview) (l : list rview) : list rview :=
  match l with
  | [] => [x]
  | y :: r => if fst (fst x) <=? fst (fst y) then x :: l else y :: insert_r x r
  end.
Definition sort_r (l : list rview) : list rview := fold_right insert_r [] l.

Definition view_running (s : st) : list rview :=
  sort_r (map (fun e => (e_qid e, e_cancelled e, length (e_chan e))) (running s)).
Definition view_waiting (s : st) : list (N * nat) :=
  map (fun e => (e_qid e, length (e_chan e))) (waiting s).

Definition rview_eqb (a b : rview) : bool :=
  (fst (fst a) =? fst (fst b)) && Bool.eqb (snd (fst a)) (snd (fst b)) && Nat.eqb (snd a) (snd b).
Definition wview_eqb (a b : N * nat) : bool := (fst a =? fst b) && Nat.eqb (snd a) (snd b).

Definition obs_ok (s : st) (r : out) (o : obs) : bool :=
  (out_code r =? o_out o)
  && Nat.eqb (length (running s)) (o_nrun o) && Nat.eqb (length (waiting s)) (o_nwait o)
  && match o_lists o with
     | None => true
     | Some (rl, wl) => list_eqb rview_eqb (view_running s) rl && list_eqb wview_eqb (view_waiting s) wl
     end
  && match o_watch o with None => true | Some k => Nat.eqb (length (watchers s)) k end
  && match o_active o with None => true | Some k => Nat.eqb (active_count s) k end.

(* indices (from 0) of the steps after which model and implementation differ *)
Fixpoint check_from (mx : nat) (s : st) (tr : list (top * obs)) (idx : nat) : list nat :=
  match tr with
  | [] => []
  | (t, o) :: r =>
    let '(s', res) := tstep mx s t in
    (if obs_ok s' res o then [] else [idx]) ++ check_from mx s' r (S idx)
  end.

Definition check_trace (mx : nat) (tr : list (top * obs)) : bool :=
  match check_from mx init tr O with [] => true | _ => false end.

(* one case = (MAX_RUNNING_QUERIES, trace); result = indices of the disagreeing cases *)
Fixpoint check_cases (cs : list (nat * list (top * obs))) (idx : nat) : list nat :=
  match cs with
  | [] => []
  | (mx, tr) :: r => (if check_trace mx tr then [] else [idx]) ++ check_cases r (S idx)
  end.

(* the case files write every number as an N (cheaper to parse than nat literals) *)
Definition mkONA (out nr nw : N) (lists : option (list (N * bool * N) * list (N * N))) (w : option N)
                 (act : option N) : obs :=
  mkO out (N.to_nat nr) (N.to_nat nw)
      (match lists with
       | None => None
       | Some (rl, wl) => Some (map (fun x => (fst (fst x), snd (fst x), N.to_nat (snd x))) rl,
                                map (fun x => (fst x, N.to_nat (snd x))) wl)
       end)
      (match w with None => None | Some k => Some (N.to_nat k) end)
      (match act with None => None | Some k => Some (N.to_nat k) end).
Definition mkON out nr nw lists w : obs := mkONA out nr nw lists w None.

Fixpoint check_cases_n (cs : list (N * list (top * obs))) (idx : nat) : list nat :=
  match cs with
  | [] => []
  | (mx, tr) :: r => (if check_trace (N.to_nat mx) tr then [] else [idx]) ++ check_cases_n r (S idx)
  end.

(* model self-check on a case (redundant with the theorems): the bounds hold in every state of the trace *)
Fixpoint bounds_hold (mx : nat) (s : st) (tr : list top) : bool :=
  Nat.leb (nonforced (running s)) mx && Nat.leb (length (waiting s)) MAX_WAITING &&
  match tr with
  | [] => true
  | t :: r => bounds_hold mx (fst (tstep mx s t)) r
  end.

(* InitMaxRunningQueries: min(GOMAXPROCS, max(2, total*pct/100/bytesPerQuery)) *)
Definition init_max_running (gomaxprocs total pct bytes_per_query : N) : N :=
  let m := ((total * pct) / 100) / bytes_per_query in
  let m := if m <? 2 then 2 else m in
  if m <? gomaxprocs then m else gomaxprocs.

(* ---------- lock scenarios (the functions of querystatus.go called one after the other while the
   channels of the queries in [fl] are full and nobody receives) ----------
   observed per call: did it return before the channel was drained ([lo_parked] = it did not), and
   what TryLock / TryRLock probes of arqMapLock, waitingQueriesLock and the rqsLock of the blocked
   query [b] saw once the call had returned or parked *)
Definition full_of (fl : list N) (q : N) : bool := existsb (N.eqb q) fl.
Record lobs := mkLO { lo_parked : bool; lo_arq : N; lo_waitq : N; lo_rqs : N }.

Fixpoint lcheck_from (fl : list N) (b : N) (ps : list park) (tr : list (lop * lobs)) (idx : nat) : list nat :=
  match tr with
  | [] => []
  | (o, ob) :: r =>
    let res := exec (full_of fl) ps [] (script o) in
    let ps' := match res with None => ps | Some p => ps ++ [p] end in
    (if Bool.eqb (match res with None => false | Some _ => true end) (lo_parked ob)
        && (probe ps' LArq =? lo_arq ob) && (probe ps' LWaitQ =? lo_waitq ob)
        && (probe ps' (LRqs b) =? lo_rqs ob)
     then [] else [idx]) ++ lcheck_from fl b ps' r (S idx)
  end.

(* one case = (qids with a full channel, the first of them is the probed one; trace);
   result = indices of the cases with at least one disagreeing call *)
Fixpoint lcheck_cases (cs : list (list N * list (lop * lobs))) (idx : nat) : list nat :=
  match cs with
  | [] => []
  | (fl, tr) :: r =>
    (match lcheck_from fl (hd 0 fl) [] tr O with [] => [] | _ => [idx] end) ++ lcheck_cases r (S idx)
  end.

(* QuerySetup.v — the SET-UP of a log query of the new pipeline (C17):
     segment.ExecuteQueryInternalNewPipeline -> SetupPipeResQuery
        -> query.PrepareToRunQuery -> InitQueryInfoAndSummary      (exit "prepare")
        -> processor.NewQueryProcessor                             (exit "processor")
        -> query.SetCleanupCallback                                (exit "callback")
     -> QueryProcessor.GetFullResult (defer logQuerySummary)       (exit "run")
   as a sequence of acquisitions, table lookups, validations of the input and points at which the
   rest of the server acts (CancelQuery, the timeout watcher, DeleteQuery, a failing hook), with
   the releases the code performs at every error exit.

   Resources are numbers; resource 0 is the query summary (summary.InitQuerySummary: a time.Ticker
   and the goroutine QuerySummary.tickWatcher, both released only by QuerySummary.Cleanup, which
   is idempotent: stopTicker looks at stoppedTicker).

   No proofs here (coq/proofs/QuerySetupProofs.v). *)
From Coq Require Import List NArith Bool Arith.
From SigM Require Import Base.
Import ListNotations.
Open Scope nat_scope.

Definition res := nat.
Definition r_summary : res := 0.

(* what the rest of the server does at a point *)
Inductive action :=
| ACancel    (* query.CancelQuery(qid): client cancel *)
| ATimeout   (* the goroutine of setupTimeoutCancelFunc: TIMEOUT message, then CancelQuery *)
| ADelete    (* query.DeleteQuery(qid): the handler's reaction to a terminal message *)
| AFail      (* the hook called at this point returns an error *)
| ABadType.  (* the hook returns a value of the wrong type *)

(* exits of the executor *)
Definition x_ok := 0.
Definition x_prepare := 1.
Definition x_processor := 2.
Definition x_callback := 3.
Definition x_run := 4.

(* points *)
Definition p_before := 0.   (* the executor goroutine has not started yet *)
Definition p_dqs := 1.      (* hooks.GlobalHooks.InitDistributedQueryServiceHook *)
Definition p_streams := 2.  (* hooks.GlobalHooks.GetDistributedStreamsHook *)
Definition p_created := 3.  (* log line "Created QueryProcessor with" *)
Definition p_qsrs := 4.     (* hooks.GlobalHooks.FilterQsrsHook (first Fetch of the run) *)

Inductive sstep :=
| SAcquire (r : res)                                        (* the step creates resource r *)
| SInput (k : nat) (rel : list res) (ex : nat)              (* validation k of the request; on failure release rel, exit ex *)
| SLookup (rel : list res) (ex : nat)                       (* allRunningQueries[qid]; absent: release rel, exit ex *)
| SPoint (p : nat) (canfail : bool) (rel : list res) (ex : nat) (* the environment acts; a failing hook: release rel, exit ex *)
| SRegister (cb : list res) (rel : list res) (ex : nat).    (* SetCleanupCallback: entry present: its callback releases cb; absent: release rel, exit ex *)

(* the entry of the query in allRunningQueries *)
Record entry := mkE { e_cancelled : bool; e_cb : option (list res) }.

Record sst := mkS {
  s_entry : option entry;
  s_live : list res;            (* resources alive (goroutines, tickers) *)
  s_msgs : list N;              (* state messages in the order sent (codes of QueryLife: 4 COMPLETE 5 CANCELLED 6 TIMEOUT 7 ERROR) *)
  s_seen : list (nat * nat) }.  (* (point, number of live resources) when the environment acted *)

Definition mem_res (r : res) (l : list res) : bool := existsb (Nat.eqb r) l.
Definition release (rs : list res) (live : list res) : list res := filter (fun r => negb (mem_res r rs)) live.

Definition rel_s (rs : list res) (s : sst) : sst := mkS (s_entry s) (release rs (s_live s)) (s_msgs s) (s_seen s).
Definition push_msg (m : N) (s : sst) : sst := mkS (s_entry s) (s_live s) (s_msgs s ++ [m]) (s_seen s).
Definition cb_of (e : entry) : list res := match e_cb e with Some l => l | None => [] end.

(* CancelQuery: flag, cleanup callback, CANCELLED (no table change) *)
Definition do_cancel (s : sst) : sst :=
  match s_entry s with
  | None => s
  | Some e => mkS (Some (mkE true (e_cb e))) (release (cb_of e) (s_live s)) (s_msgs s ++ [5%N]) (s_seen s)
  end.

Definition act (s : sst) (a : action) : sst :=
  match a with
  | ACancel => do_cancel s
  | ATimeout => match s_entry s with None => s | Some _ => do_cancel (push_msg 6%N s) end
  | ADelete =>
    match s_entry s with
    | None => s
    | Some e => mkS None (if e_cancelled e then s_live s else release (cb_of e) (s_live s)) (s_msgs s) (s_seen s)
    end
  | AFail | ABadType => s
  end.

Definition is_fail (a : action) : bool := match a with AFail | ABadType => true | _ => false end.

Definition at_point (env : nat -> list action) (p : nat) (s : sst) : sst :=
  fold_left act (env p) (mkS (s_entry s) (s_live s) (s_msgs s) (s_seen s ++ [(p, length (s_live s))])).

Fixpoint run_steps (env : nat -> list action) (inp : nat -> bool) (prog : list sstep) (s : sst) : nat * sst :=
  match prog with
  | [] => (x_ok, s)
  | SAcquire r :: rest => run_steps env inp rest (mkS (s_entry s) (r :: s_live s) (s_msgs s) (s_seen s))
  | SInput k rel ex :: rest => if inp k then (ex, rel_s rel s) else run_steps env inp rest s
  | SLookup rel ex :: rest =>
    match s_entry s with None => (ex, rel_s rel s) | Some _ => run_steps env inp rest s end
  | SPoint p cf rel ex :: rest =>
    let s' := at_point env p s in
    if cf && existsb is_fail (env p) then (ex, rel_s rel s') else run_steps env inp rest s'
  | SRegister cb rel ex :: rest =>
    match s_entry s with
    | None => (ex, rel_s rel s)
    | Some e => run_steps env inp rest (mkS (Some (mkE (e_cancelled e) (Some cb))) (s_live s) (s_msgs s) (s_seen s))
    end
  end.

(* ExecuteQueryInternalNewPipeline (synchronous request): set-up; on an error ERROR is sent;
   otherwise the run, whose deferred logQuerySummary releases [deferred] on every path, then
   COMPLETE or ERROR *)
Definition exec (env : nat -> list action) (inp : nat -> bool) (setup run : list sstep) (deferred : list res) (s : sst) : nat * sst :=
  let s0 := at_point env p_before s in
  let '(ex, s1) := run_steps env inp setup s0 in
  if Nat.eqb ex x_ok then
    let '(ex2, s2) := run_steps env inp run s1 in
    (ex2, push_msg (if Nat.eqb ex2 x_ok then 4%N else 7%N) (rel_s deferred s2))
  else (ex, push_msg 7%N s1).

(* ---- the code ---- *)
(* inputs: 0 InitSearchResults, 1 InitQueryInformation, 2 validateStreamStatsTimeWindow,
   3 postProcessQueryAggs / SetupQueryParallelism / NewSearcher, 4 newQueryProcessorHelper *)
Definition setup_code : list sstep :=
  [ SAcquire r_summary                                   (* summary.InitQuerySummary(summary.LOGS, qid) *)
  ; SInput 0 [r_summary] x_prepare                       (* segresults.InitSearchResults: querySummary.Cleanup(); return err *)
  ; SPoint p_dqs false [] x_prepare                      (* InitDistributedQueryServiceHook (returns no error) *)
  ; SInput 1 [r_summary] x_prepare                       (* InitQueryInformation: Cleanup; return *)
  ; SLookup [r_summary] x_prepare                        (* AssociateSearchInfoWithQid: Cleanup; return *)
  (* processor.NewQueryProcessor: its own error returns release nothing; SetupPipeResQuery does
     querySummary.Cleanup() on `err != nil` *)
  ; SInput 2 [r_summary] x_processor                     (* validateStreamStatsTimeWindow *)
  ; SInput 3 [r_summary] x_processor                     (* postProcessQueryAggs, SetupQueryParallelism, NewSearcher *)
  ; SLookup [r_summary] x_processor                      (* query.InitScrollFrom *)
  ; SPoint p_streams true [r_summary] x_processor        (* GetDistributedStreamsHook: error / wrong type *)
  ; SInput 4 [r_summary] x_processor                     (* newQueryProcessorHelper *)
  ; SPoint p_created false [] x_processor                (* log.Debugf("... Created QueryProcessor with ...") *)
  ; SRegister [r_summary] [r_summary] x_callback ].      (* query.SetCleanupCallback(qid, queryProcessor.Cleanup): on err Cleanup; return *)

Definition run_code : list sstep :=
  [ SPoint p_qsrs true [] x_run                          (* Searcher: getAndSetQSRs -> FilterQsrsHook *)
  ; SLookup [] x_run ].                                  (* the searcher's qid lookups (SetRawSearchFinished ...) *)

Definition deferred_code : list res := [r_summary].      (* defer qp.logQuerySummary() -> LogSummaryAndEmitMetrics -> Cleanup *)

(* the variant "one deferred `if err != nil { Cleanup() }` + `if err := SetCleanupCallback(...)`":
   the inner err shadows the one the deferred closure reads: the last exit releases nothing *)
Definition setup_shadowed : list sstep :=
  removelast setup_code ++ [SRegister [r_summary] [] x_callback].

Definition init (present : bool) : sst :=
  mkS (if present then Some (mkE false None) else None) [] [] [].

Definition exec_code env inp s := exec env inp setup_code run_code deferred_code s.
Definition exec_shadowed env inp s := exec env inp setup_shadowed run_code deferred_code s.

(* the handler deletes the query after the terminal message *)
Definition after_delete (s : sst) : sst := act s ADelete.

(* ---- the discipline, as a check of the program text ---- *)
Definition incl_b (a b : list res) : bool := forallb (fun r => mem_res r b) a.

(* every error exit releases everything acquired before it *)
Fixpoint exits_release (acq : list res) (prog : list sstep) : bool :=
  match prog with
  | [] => true
  | SAcquire r :: rest => exits_release (r :: acq) rest
  | SInput _ rel _ :: rest => incl_b acq rel && exits_release acq rest
  | SLookup rel _ :: rest => incl_b acq rel && exits_release acq rest
  | SPoint _ cf rel _ :: rest => (negb cf || incl_b acq rel) && exits_release acq rest
  | SRegister _ rel _ :: rest => incl_b acq rel && exits_release acq rest
  end.

Fixpoint acquired (prog : list sstep) : list res :=
  match prog with
  | [] => []
  | SAcquire r :: rest => r :: acquired rest
  | _ :: rest => acquired rest
  end.

(* no exit code of an error return is x_ok *)
Definition exits_nonzero (prog : list sstep) : bool :=
  forallb (fun st => match st with
                     | SAcquire _ => true
                     | SInput _ _ ex | SLookup _ ex | SPoint _ _ _ ex | SRegister _ _ ex => negb (Nat.eqb ex x_ok)
                     end) prog.

(* QuerySetupCheck.v — executable comparison of the set-up model (QuerySetup.v) with the runs of the
   real segment.ExecuteQueryInternalNewPipeline in the C17 harness (stream "setup", mode direct):
   the harness starts a query (StartQueryAsCoordinator, forceRun), arms ONE point with a list of
   actions, calls the executor, reads the state messages, counts the live
   QuerySummary.tickWatcher goroutines of this query (goroutine dump, by goroutine id) at the
   point, after the return and after the handler's DeleteQuery. *)
From Coq Require Import List NArith Bool Arith.
From SigM Require Import Base QuerySetup.
Import ListNotations.
Open Scope nat_scope.

Definition entry_code (s : sst) : nat :=
  match s_entry s with None => 0 | Some e => if e_cancelled e then 2 else 1 end.

Definition seen_at (p : nat) (s : sst) : nat :=
  match find (fun x => Nat.eqb (fst x) p) (s_seen s) with Some x => snd x | None => 0 end.

(* observation: exit, messages after READY/RUNNING, entry after the return (0 absent, 1 present,
   2 present and cancelled), live summary tickers at the point / after the return / after DeleteQuery *)
Definition sobs := (nat * list N * nat * nat * nat * nat)%type.

(* case: failing validations of the request, the armed point, the actions there, the observation *)
Definition scase := (list nat * nat * list action * sobs)%type.

Definition env_of (p : nat) (acts : list action) : nat -> list action :=
  fun q => if Nat.eqb q p then acts else [].

Definition model_obs (fails : list nat) (p : nat) (acts : list action) : sobs :=
  let '(ex, s) := exec_code (env_of p acts) (fun k => existsb (Nat.eqb k) fails) (init true) in
  (ex, s_msgs s, entry_code s, seen_at p s, length (s_live s), length (s_live (after_delete s))).

Definition sobs_eqb (a b : sobs) : bool :=
  let '(x1, m1, e1, t1, r1, d1) := a in
  let '(x2, m2, e2, t2, r2, d2) := b in
  Nat.eqb x1 x2 && list_eqb N.eqb m1 m2 && Nat.eqb e1 e2 && Nat.eqb t1 t2 && Nat.eqb r1 r2 && Nat.eqb d1 d2.

Fixpoint check_setup_cases (cs : list scase) (idx : nat) : list nat :=
  match cs with
  | [] => []
  | (fails, p, acts, o) :: r =>
    (if sobs_eqb (model_obs fails p acts) o then [] else [idx]) ++ check_setup_cases r (S idx)
  end.

(* ReaderReuse.v — the block readers of a segment search are kept across blocks (C01).

   One block worker of a segment search owns one TimeRangeReader and one SegmentFileReader per
   column and uses them for every block it is handed, in whatever order the blocks arrive.  The
   readers keep state between blocks:
     * TimeRangeReader.blockReadBuffer / SegmentFileReader.currFileBuffer: the file read buffer is
       replaced only when it is SHORTER than the next block (GetBufFromPool(len)[:len]), otherwise
       the next block overwrites its first len bytes and the tail of the previous block stays;
       the decoders must be handed the slice [:len] (reader/segread/timereader.go
       readAllTimestampsForBlock, segreader.go loadBlockUsingBuffer);
     * SegmentFileReader.deRecToTlv: utils.ResizeSlice keeps the old entries (up to the capacity
       of the slice), ReadDictEnc only writes the entries of the records the dictionary lists.
   Definitions only; the blocks are the byte strings of TsEnc.v / ColStore.v. *)
From SigM Require Import Base Tlv TsEnc ColStore.
Open Scope N_scope.

(* ---------- the reusable read buffer ---------- *)
(* buf = the buffer as the previous block left it ([] = nil); blk = the bytes ReadAt delivers.
   len(buf) < len(blk): a new buffer of exactly len(blk) bytes, completely overwritten;
   otherwise the first len(blk) bytes are overwritten and the rest is what it was. *)
Definition buf_load (buf blk : bytes) : bytes :=
  if Nat.ltb (length buf) (length blk) then blk else blk ++ skipn (length blk) buf.

(* ---------- TimeRangeReader ---------- *)
(* readAllTimestampsForBlock(blockNum): n = blockRecCount[blockNum], blk = the column block on disk.
   Returns the buffer it leaves behind and GetAllTimeStampsForBlock's result (None = error). *)
Definition trr_read (buf : bytes) (n : nat) (blk : bytes) : bytes * option (list N) :=
  let buf' := buf_load buf blk in
  (buf', ts_decode n (firstn (length blk) buf')).

(* one reader, a sequence of blocks (any order, any sizes) *)
Fixpoint trr_read_seq (buf : bytes) (reqs : list (nat * bytes)) : list (option (list N)) :=
  match reqs with
  | [] => []
  | (n, blk) :: r => let '(buf', res) := trr_read buf n blk in res :: trr_read_seq buf' r
  end.

(* ---------- SegmentFileReader ---------- *)
(* utils.ResizeSlice(deRecToTlv, n): cap = the contents of the slice up to its capacity *)
Definition tbl_resize (cap : list N) (n : nat) : list N := firstn n cap ++ repeat 0 (n - length cap).

(* ReadDictEnc + deGetRec for records 0..n-1 on a reader whose deRecToTlv holds cap.
   First component: the table contents afterwards (None: ReadDictEnc failed; the model does not
   follow a reader after that).  deTlv is overwritten for every word index below the word count;
   an index beyond it reads as the empty word here (Go: ErrInvalidIndex), as in dict_records. *)
Definition sfr_dict (cap : list N) (n : nat) (payload : bytes) : option (list N) * option (list bytes) :=
  match rd16 payload with
  | None => (None, None)
  | Some (nw, r) =>
    match rd_words (N.to_nat nw) 0 r [] (tbl_resize cap n) with
    | None => (None, None)
    | Some (tlv, tbl) => (Some (tbl ++ skipn n cap), Some (map (fun wi => nth (N.to_nat wi) tlv []) tbl))
    end
  end.

(* ValidateAndReadBlock + ReadRecord 0..n-1; blk = (encoding byte, payload) as in read_col
   (raw blocks: after zstd, which always returns a slice of exactly the decoded length) *)
Definition sfr_read (csz : N) (cap : list N) (n : nat) (blk : N * bytes) : option (list N) * option (list bytes) :=
  let '(enc, payload) := blk in
  if enc =? ENC_RAW then (Some cap, raw_records csz n payload)
  else if enc =? ENC_DICT then sfr_dict cap n payload
  else (Some cap, None).

(* one reader, a sequence of blocks; the result list ends where the model stops following the reader *)
Fixpoint sfr_read_seq (csz : N) (st : option (list N)) (reqs : list (nat * (N * bytes))) : list (option (list bytes)) :=
  match reqs with
  | [] => []
  | (n, blk) :: r =>
    match st with
    | None => []
    | Some cap => let '(st', res) := sfr_read csz cap n blk in res :: sfr_read_seq csz st' r
    end
  end.

(* ---------- well-formed column blocks (what the writer produces) ---------- *)
(* every record of the block is listed by some dictionary entry *)
Definition dict_lists_all (n : nat) (d : list (bytes * list N)) : Prop :=
  forall i, (i < n)%nat -> existsb (fun e => existsb (N.eqb (N.of_nat i)) (snd e)) d = true.

Definition dict_entry_ok (n : nat) (e : bytes * list N) : Prop :=
  (forall rest, dict_word_len (fst e ++ rest) = Some (N.of_nat (length (fst e)))) /\
  N.of_nat (length (snd e)) < 65536 /\ Forall (fun r => r < N.of_nat n) (snd e).

Inductive reuse_blk_ok : nat * (N * bytes) -> Prop :=
| rbo_raw : forall n payload, reuse_blk_ok (n, (ENC_RAW, payload))
| rbo_dict : forall n d, N.of_nat (length d) < 65536 -> N.of_nat n <= 65536 ->
    Forall (dict_entry_ok n) d -> dict_lists_all n d ->
    reuse_blk_ok (n, (ENC_DICT, pack_dict (N.of_nat (length d)) d)).

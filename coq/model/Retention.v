(* Retention.v — time based retention pass over rotated log and metrics segments.
   Follows pkg/retention/retention.go (DoRetentionBasedDeletion, DeleteSegmentData,
   DeleteMetricsSegmentData, GetRetentionTimeMs), pkg/segment/writer/segwriter.go
   (RemoveSegBasedirs, RemoveSegMetas), pkg/segment/writer/segmetarw.go (removeSegmetas),
   pkg/segment/writer/metrics/meta/metricsmeta.go (removeMetricsSegmentsByList),
   pkg/common/fileutils/fileutils.go (RecursivelyDeleteEmptyParentDirectories, IsDirEmpty),
   pkg/segment/metadata/metadata.go (DeleteSegmentKey), metricsmetadata.go
   (DeleteMetricsSegmentKey), pkg/virtualtable/virtualtable.go (DeleteVirtualTable, called from
   DeleteEmptyIndices) and the start-up path that reloads the in-memory metadata
   from segmeta.json / metricmeta.json (query/queryrefresh.go).

   Not modelled (stated in lib/reg/C14.json): doVolumeBasedDeletion / doInodeBasedDeletion
   (size and inode driven, they do not look at the horizon), blob (S3) deletion (disabled in
   the default configuration), the "recently rotated" index names consulted by
   DeleteEmptyIndices (empty in a process that did not rotate anything), the persistent-query "empty result" files: ReadLocalSegmeta(false) leaves
   SegMeta.AllPQIDs nil, so deleteSegmentsFromEmptyPqMetaFiles enqueues nothing in a
   retention pass (a no-op here).

   Definitions only; proofs are in SigP.RetentionProofs. *)
From SigM Require Import Base.
Open Scope N_scope.

(* ---------- directories ---------- *)
(* a directory = list of path components below <dataPath>/<hostid>/ ; [] is that host
   directory itself (it holds suffix/, wal-ts/ ... and is never empty) *)
Definition path := list N.

Definition path_eqb (p q : path) : bool := list_eqb N.eqb p q.

Fixpoint is_prefix (p q : path) : bool :=
  match p, q with
  | [], _ => true
  | a :: p', b :: q' => (a =? b) && is_prefix p' q'
  | _ :: _, [] => false
  end.

Definition mem_path (p : path) (ds : list path) : bool := existsb (path_eqb p) ds.

(* os.RemoveAll(p): p and everything below it disappears *)
Definition rm_tree (p : path) (ds : list path) : list path :=
  filter (fun q => negb (is_prefix p q)) ds.

Definition del_path (p : path) (l : list path) : list path :=
  filter (fun q => negb (path_eqb p q)) l.

(* fileutils.IsDirEmpty(t): t can be opened and has no entry.  Files live only in
   segment / tags-tree directories (checked by the harness on every observed store),
   so "no entry" = no other directory below t. *)
Definition has_child (t : path) (ds : list path) : bool :=
  existsb (fun q => is_prefix t q && negb (path_eqb t q)) ds.

Definition dir_empty (t : path) (ds : list path) : bool :=
  mem_path t ds && negb (has_child t ds).

(* fileutils.RecursivelyDeleteEmptyParentDirectories(p):
     temp := path.Dir(p); for { if temp == dataPath {break}; if IsDirEmpty(temp) {RemoveAll(temp)} else {break}; temp = path.Dir(temp) }
   returns the directories removed, in order.  The comparison with dataPath never
   succeeds (dataPath ends in '/', path.Dir never does); the climb stops at the first
   non-empty directory, at the latest at the host directory []. *)
Fixpoint clean_parents (fuel : nat) (p : path) (ds : list path) : list path :=
  match fuel with
  | O => []
  | S f =>
    let t := removelast p in
    match t with
    | [] => []
    | _ => if dir_empty t ds then t :: clean_parents f t (rm_tree t ds) else []
    end
  end.

(* metrics/meta.deleteEmptyParentDirectories(p): p and some of its parents may be gone already
   (removed by a call that did not finish); the climb starts at the first parent that still
   exists:  for { parent := path.Dir(dir); if parent exists {break}; dir = parent };
   RecursivelyDeleteEmptyParentDirectories(dir) *)
Fixpoint climb_start (fuel : nat) (p : path) (ds : list path) : path :=
  match fuel with
  | O => p
  | S f =>
    let t := removelast p in
    match t with
    | [] => p
    | _ => if mem_path t ds then p else climb_start f t ds
    end
  end.

Definition clean_parents_from_missing (fuel : nat) (p : path) (ds : list path) : list path :=
  clean_parents fuel (climb_start fuel p ds) ds.

(* ---------- segments and the store ---------- *)
Inductive kind := KLog | KMet.

(* one line of segmeta.json (SegMeta) or metricmeta.json (MetricsMeta).
   s_dir: SegbaseDir resp. path.Dir(MSegmentDir); epochs: ms for logs, seconds for
   metrics (uint32); s_tt: TTreeDir (metrics only). *)
Record seg := mkseg {
  s_dir : path; s_kind : kind; s_earliest : N; s_latest : N;
  s_org : Z; s_table : N; s_tt : path }.

Record store := mkstore {
  segmeta : list seg;     (* lines of segmeta.json, file order *)
  mmeta   : list seg;     (* lines of metricmeta.json, file order *)
  mem     : list path;    (* rotated log segments in the in-memory metadata *)
  mmem    : list path;    (* rotated metrics segments in the in-memory metadata *)
  dirs    : list path;    (* directories that exist below the host directory *)
  unrot   : list seg;     (* unrotated segments: searchable, on disk, in no metadata file *)
  seg_tmp : option (list seg); (* lines of segmeta.json.tmp, if the file exists (left by an interrupted pass) *)
  mm_tmp  : bool;         (* metricmeta.json.tmp exists *)
  vtables : list (Z * N) }. (* lines of virtualtablenames[-org].txt: the index names of each org *)

(* uint64(entry.LatestEpochSec)*1000 : 2^32*1000 < 2^64, no wrap-around *)
Definition latest_ms (s : seg) : N :=
  match s_kind s with KLog => s_latest s | KMet => s_latest s * 1000 end.
Definition earliest_ms (s : seg) : N :=
  match s_kind s with KLog => s_earliest s | KMet => s_earliest s * 1000 end.

(* GetRetentionTimeMs(hours, now) = now.Add(-hours*time.Hour).UnixMilli() *)
Definition horizon (now_ms hours : N) : N := now_ms - hours * 3600000.

(* the selection test of DoRetentionBasedDeletion: entry.OrgId == orgid, and
   entry.LatestEpochMS <= deleteBefore  resp.  uint64(entry.LatestEpochSec)*1000 <= deleteBefore *)
Definition expired (hz : N) (org : Z) (s : seg) : bool :=
  (s_org s =? org)%Z && (latest_ms s <=? hz).

(* segmentsToDelete / metricSegmentsToDelete are maps keyed by SegmentKey / MSegmentDir *)
Definition in_sel (sel : list seg) (s : seg) : bool :=
  existsb (fun x => path_eqb (s_dir x) (s_dir s)) sel.

(* ---------- primitive effects ---------- *)
Inductive eff :=
| ERm (p : path)                 (* os.RemoveAll(p): the directory tree disappears *)
| ERmEmpty (p : path)            (* IsDirEmpty(p) then RemoveAll(p): p disappears if it has no entry (rmdir) *)
| EMemDel (p : path)             (* segmetadata.DeleteSegmentKey *)
| EMMemDel (p : path)            (* segmetadata.DeleteMetricsSegmentKey *)
| ESegTmp (trunc : bool) (l : list seg) (* segmeta.json.tmp opened (trunc: with O_TRUNC) and written: it now holds l *)
| ESegSet (l : list seg)         (* rename(segmeta.json.tmp, segmeta.json) *)
| ESegRemove                     (* os.RemoveAll(segmeta.json): nothing preserved *)
| EMmTmp
| EMmSet (l : list seg)
| EMmRemove
| EVtTmp (org : Z)               (* virtualtablenames[-org].txt.tmp created, written, synced *)
| EVtSet (org : Z) (l : list N)  (* rename(tmp, names file): the org's names become l
                                    (before the fix: the write that follows the truncation) *)
| EVtTrunc (org : Z).            (* only in the code before the fix: os.WriteFile opened the names
                                    file itself with O_TRUNC *)

Definition other_orgs (org : Z) (vt : list (Z * N)) : list (Z * N) :=
  filter (fun v => negb (fst v =? org)%Z) vt.

Definition apply_eff (st : store) (e : eff) : store :=
  match e with
  | ERm p => mkstore (segmeta st) (mmeta st) (mem st) (mmem st) (rm_tree p (dirs st)) (unrot st) (seg_tmp st) (mm_tmp st) (vtables st)
  | ERmEmpty p => mkstore (segmeta st) (mmeta st) (mem st) (mmem st)
                    (if dir_empty p (dirs st) then del_path p (dirs st) else dirs st) (unrot st) (seg_tmp st) (mm_tmp st) (vtables st)
  | EMemDel p => mkstore (segmeta st) (mmeta st) (del_path p (mem st)) (mmem st) (dirs st) (unrot st) (seg_tmp st) (mm_tmp st) (vtables st)
  | EMMemDel p => mkstore (segmeta st) (mmeta st) (mem st) (del_path p (mmem st)) (dirs st) (unrot st) (seg_tmp st) (mm_tmp st) (vtables st)
  | ESegTmp _ l => mkstore (segmeta st) (mmeta st) (mem st) (mmem st) (dirs st) (unrot st) (Some l) (mm_tmp st) (vtables st)
  | ESegSet l => mkstore l (mmeta st) (mem st) (mmem st) (dirs st) (unrot st) None (mm_tmp st) (vtables st)
  | ESegRemove => mkstore [] (mmeta st) (mem st) (mmem st) (dirs st) (unrot st) (seg_tmp st) (mm_tmp st) (vtables st)
  | EMmTmp => mkstore (segmeta st) (mmeta st) (mem st) (mmem st) (dirs st) (unrot st) (seg_tmp st) true (vtables st)
  | EMmSet l => mkstore (segmeta st) l (mem st) (mmem st) (dirs st) (unrot st) (seg_tmp st) false (vtables st)
  | EMmRemove => mkstore (segmeta st) [] (mem st) (mmem st) (dirs st) (unrot st) (seg_tmp st) (mm_tmp st) (vtables st)
  | EVtTrunc org => mkstore (segmeta st) (mmeta st) (mem st) (mmem st) (dirs st) (unrot st) (seg_tmp st) (mm_tmp st) (other_orgs org (vtables st))
  | EVtTmp org => st
  | EVtSet org l => mkstore (segmeta st) (mmeta st) (mem st) (mmem st) (dirs st) (unrot st) (seg_tmp st) (mm_tmp st)
                      (other_orgs org (vtables st) ++ map (pair org) l)
  end.

Definition apply_effs (es : list eff) (st : store) : store := fold_left apply_eff es st.

(* ---------- the pass ---------- *)
Section Pass.
  (* Go map iteration order over segBaseDirs / segmentsToDelete / tagsTreeToDelete:
     some rearrangement of the selected entries (hypothesis in the proofs: a permutation) *)
  Variable ord : list seg -> list seg.
  Variable ordp : list path -> list path.
  Variable ordn : list N -> list N.

  Definition sel_log (hz : N) (org : Z) (st : store) : list seg := filter (expired hz org) (segmeta st).
  Definition sel_met (hz : N) (org : Z) (st : store) : list seg := filter (expired hz org) (mmeta st).

  Definition keep_of (sel : list seg) (entries : list seg) : list seg :=
    filter (fun s => negb (in_sel sel s)) entries.

  (* DeleteSegmentData: 2) RemoveSegBasedirs  3) DeleteSegmentKey  4) pq-meta: nothing
     5) RemoveSegMetas -> removeSegmetas (re-reads segmeta.json, writes the preserved lines
     to segmeta.json.tmp, renames; removes the file when nothing is preserved).
     RecursivelyDeleteEmptyParentDirectories(segbaseDir) does nothing for log segments:
     segbaseDir ends in '/', so path.Dir yields the directory that was just removed and
     IsDirEmpty fails on it. *)
  (* what segmeta.json.tmp holds after the preserved lines [keep] have been written into it:
     opened with O_TRUNC (the code) a stale file left by an interrupted pass is emptied first;
     opened without, the new lines overwrite the beginning of the stale file and its tail
     survives (line granularity: lines of equal length) *)
  Definition overlay (new old : list seg) : list seg := new ++ skipn (length new) old.

  Definition tmp_written (trunc : bool) (keep : list seg) (st : store) : list seg :=
    if trunc then keep
    else overlay keep (match seg_tmp st with Some c => c | None => [] end).

  Definition log_effs_gen (trunc : bool) (hz : N) (org : Z) (st : store) : list eff :=
    let sel := sel_log hz org st in
    match sel with
    | [] => []
    | _ =>
      map (fun s => ERm (s_dir s)) (ord sel)
      ++ map (fun s => EMemDel (s_dir s)) (ord sel)
      ++ match keep_of sel (segmeta st) with
         | [] => [ESegRemove]
         | keep => [ESegTmp trunc (tmp_written trunc keep st); ESegSet (tmp_written trunc keep st)]
         end
    end.

  (* removeSegmetas opens the temporary file with O_WRONLY|O_CREATE|O_TRUNC *)
  Definition log_effs : N -> Z -> store -> list eff := log_effs_gen true.
  (* the same pass if the temporary file were opened without O_TRUNC (refutation only) *)
  Definition log_effs_notrunc : N -> Z -> store -> list eff := log_effs_gen false.

  (* removeMetricsSegmentsByList, first loop: file order; RemoveAll(dir) and the climb
     [cl]: deleteEmptyParentDirectories (the code) or, before the fix, the plain
     RecursivelyDeleteEmptyParentDirectories *)
  Fixpoint met_dir_phase (cl : nat -> path -> list path -> list path)
      (sel : list seg) (entries : list seg) (ds : list path) : list eff * list path :=
    match entries with
    | [] => ([], ds)
    | e :: r =>
      if in_sel sel e then
        let ds1 := rm_tree (s_dir e) ds in
        let ps := cl (length (s_dir e)) (s_dir e) ds1 in
        let ds2 := fold_left (fun d t => rm_tree t d) ps ds1 in
        let '(es, ds3) := met_dir_phase cl sel r ds2 in
        (ERm (s_dir e) :: map ERmEmpty ps ++ es, ds3)
      else met_dir_phase cl sel r ds
    end.

  Fixpoint dedup (l : list path) : list path :=
    match l with
    | [] => []
    | p :: r => if mem_path p r then dedup r else p :: dedup r
    end.

  (* tags-tree directories of removed entries that no preserved entry names *)
  Fixpoint tt_phase (cl : nat -> path -> list path -> list path) (tts : list path) (ds : list path) : list eff :=
    match tts with
    | [] => []
    | t :: r =>
      let ds1 := rm_tree t ds in
      let ps := cl (length t) t ds1 in
      let ds2 := fold_left (fun d x => rm_tree x d) ps ds1 in
      ERm t :: map ERmEmpty ps ++ tt_phase cl r ds2
    end.

  (* DeleteMetricsSegmentData: DeleteMetricsSegmentKey for every selected entry (an entry the
     in-memory metadata does not hold is logged and otherwise treated like the others), then
     removeMetricsSegmentsByList: segment directories, tags-tree directories that no preserved
     line names, and only then the rewrite of metricmeta.json (tmp + rename, or removal) *)
  Definition met_effs (hz : N) (org : Z) (st : store) : list eff :=
    let sel := sel_met hz org st in
    match sel with
    | [] => []
    | _ =>
      let removed := filter (in_sel sel) (mmeta st) in
      let keep := keep_of sel (mmeta st) in
      let '(des, ds1) := met_dir_phase clean_parents_from_missing sel (mmeta st) (dirs st) in
      let tts := filter (fun t => negb (mem_path t (map s_tt keep))) (ordp (dedup (map s_tt removed))) in
      map (fun s => EMMemDel (s_dir s)) (ord sel) ++ des
      ++ tt_phase clean_parents_from_missing tts ds1
      ++ match keep with [] => [EMmRemove] | _ => [EMmTmp; EMmSet keep] end
    end.

  (* ---- the metrics half before the three repairs (documentation, C14_prefix_*_refuted) ----
     an entry that is not in the in-memory metadata made DeleteMetricsSegmentData return before
     any file was touched; the tags-tree directories were removed AFTER metricmeta.json had been
     rewritten; the climb could not start from a directory that was already gone *)
  Fixpoint mmem_phase_prefix (sel : list seg) (mm : list path) : list eff * bool :=
    match sel with
    | [] => ([], true)
    | s :: r =>
      if mem_path (s_dir s) mm then
        let '(es, ok) := mmem_phase_prefix r (del_path (s_dir s) mm) in (EMMemDel (s_dir s) :: es, ok)
      else ([], false)
    end.

  Definition met_effs_prefix (hz : N) (org : Z) (st : store) : list eff :=
    let sel := sel_met hz org st in
    match sel with
    | [] => []
    | _ =>
      let '(mes, ok) := mmem_phase_prefix (ord sel) (mmem st) in
      if negb ok then mes else
      let removed := filter (in_sel sel) (mmeta st) in
      let keep := keep_of sel (mmeta st) in
      let '(des, ds1) := met_dir_phase clean_parents sel (mmeta st) (dirs st) in
      let tts := filter (fun t => negb (mem_path t (map s_tt keep))) (ordp (dedup (map s_tt removed))) in
      mes ++ des
      ++ match keep with [] => [EMmRemove] | _ => [EMmTmp; EMmSet keep] end
      ++ tt_phase clean_parents tts ds1
    end.

  (* DoRetentionBasedDeletion(ingestNodeDir, hours, orgid): both selections are computed
     first, then DeleteSegmentData, then DeleteMetricsSegmentData *)
  (* DeleteEmptyIndices(ingestNodeDir, orgid): every index name of the org that no line of
     segmeta.json (of any org) and no unrotated segment uses is removed with
     vtable.DeleteVirtualTable, which re-reads the names file, writes the remaining names to
     <file>.tmp, syncs and renames it over the names file (writeFileAtomically) *)
  Definition in_use (st : store) : list N := map s_table (segmeta st ++ unrot st).

  Definition org_tables (org : Z) (st : store) : list N :=
    map snd (filter (fun v => (fst v =? org)%Z) (vtables st)).

  Fixpoint vt_phase (org : Z) (cands cur : list N) : list eff :=
    match cands with
    | [] => []
    | t :: r =>
      let cur' := filter (fun x => negb (x =? t)) cur in
      EVtTmp org :: EVtSet org cur' :: vt_phase org r cur'
    end.

  (* the code before the fix rewrote the names file in place: os.WriteFile = open with O_TRUNC,
     then one write (kept for the refutation C14_unfixed_interrupted_survivor_searchable_refuted) *)
  Fixpoint vt_phase_unfixed (org : Z) (cands cur : list N) : list eff :=
    match cands with
    | [] => []
    | t :: r =>
      let cur' := filter (fun x => negb (x =? t)) cur in
      EVtTrunc org :: EVtSet org cur' :: vt_phase_unfixed org r cur'
    end.

  Definition vt_effs (org : Z) (st : store) : list eff :=
    let cur := org_tables org st in
    vt_phase org (ordn (filter (fun t => negb (existsb (N.eqb t) (in_use st))) cur)) cur.

  Definition vt_effs_unfixed (org : Z) (st : store) : list eff :=
    let cur := org_tables org st in
    vt_phase_unfixed org (ordn (filter (fun t => negb (existsb (N.eqb t) (in_use st))) cur)) cur.

  Definition pass_effs (hz : N) (org : Z) (st : store) : list eff :=
    let le := log_effs hz org st in
    let st1 := apply_effs le st in
    let me := met_effs hz org st1 in
    le ++ me ++ vt_effs org (apply_effs me st1).

  Definition pass_effs_unfixed (hz : N) (org : Z) (st : store) : list eff :=
    let le := log_effs hz org st in
    let st1 := apply_effs le st in
    let me := met_effs hz org st1 in
    le ++ me ++ vt_effs_unfixed org (apply_effs me st1).

  Definition pass_effs_notrunc (hz : N) (org : Z) (st : store) : list eff :=
    let le := log_effs_notrunc hz org st in
    let st1 := apply_effs le st in
    let me := met_effs hz org st1 in
    le ++ me ++ vt_effs org (apply_effs me st1).

  Definition pass_effs_prefix (hz : N) (org : Z) (st : store) : list eff :=
    let le := log_effs hz org st in
    let st1 := apply_effs le st in
    let me := met_effs_prefix hz org st1 in
    le ++ me ++ vt_effs org (apply_effs me st1).

  Definition run (hz : N) (org : Z) (st : store) : store := apply_effs (pass_effs hz org st) st.
  Definition run_prefix (hz : N) (org : Z) (st : store) : store := apply_effs (pass_effs_prefix hz org st) st.
  Definition run_notrunc (hz : N) (org : Z) (st : store) : store := apply_effs (pass_effs_notrunc hz org st) st.
  Definition run_unfixed (hz : N) (org : Z) (st : store) : store := apply_effs (pass_effs_unfixed hz org st) st.

  (* the pass stopped after k primitive effects *)
  Definition interrupted (k : nat) (hz : N) (org : Z) (st : store) : store :=
    apply_effs (firstn k (pass_effs hz org st)) st.
  Definition interrupted_prefix (k : nat) (hz : N) (org : Z) (st : store) : store :=
    apply_effs (firstn k (pass_effs_prefix hz org st)) st.
  Definition interrupted_unfixed (k : nat) (hz : N) (org : Z) (st : store) : store :=
    apply_effs (firstn k (pass_effs_unfixed hz org st)) st.
End Pass.

(* process start: the in-memory metadata is rebuilt from the two files
   (populateMicroIndices / populateMetricsMetadata); segments found unrotated are
   rotated by the recovery and appended to segmeta.json *)
Definition restart (st : store) : store :=
  let sm := segmeta st ++ unrot st in
  mkstore sm (mmeta st) (map s_dir sm) (map s_dir (mmeta st)) (dirs st) [] (seg_tmp st) (mm_tmp st) (vtables st).

(* ---------- observables ---------- *)
(* a listed rotated log / metrics segment is searchable when the in-memory metadata
   knows it and its files exist; for log segments the index name must be in the org's
   names file ("*" and index patterns are expanded from it) *)
Definition has_table (st : store) (s : seg) : bool :=
  existsb (fun v => (fst v =? s_org s)%Z && (snd v =? s_table s)) (vtables st).

Definition searchable (st : store) (s : seg) : bool :=
  match s_kind s with
  | KLog => has_table st s && mem_path (s_dir s) (mem st) && mem_path (s_dir s) (dirs st)
  | KMet => mem_path (s_dir s) (mmem st) && mem_path (s_dir s) (dirs st)
  end.

(* well-formed stores: one metadata line per segment directory, no segment directory
   inside another one, tags-tree directories apart from segment directories *)
Fixpoint nodup_dirs (l : list path) : bool :=
  match l with [] => true | p :: r => negb (mem_path p r) && nodup_dirs r end.

Definition apart (p q : path) : bool := negb (is_prefix p q) && negb (is_prefix q p).

Fixpoint all_apart (l : list path) : bool :=
  match l with [] => true | p :: r => forallb (apart p) r && all_apart r end.

Definition seg_dirs (st : store) : list path :=
  map s_dir (segmeta st) ++ map s_dir (mmeta st) ++ map s_dir (unrot st).

Definition wf (st : store) : bool :=
  all_apart (seg_dirs st)
  && forallb (fun t => forallb (apart t) (seg_dirs st)) (map s_tt (mmeta st))
  && forallb (fun s => match s_kind s with KLog => true | KMet => false end) (segmeta st ++ unrot st)
  && forallb (fun s => match s_kind s with KMet => true | KLog => false end) (mmeta st).

(* guard of the full interruption theorem: the pass selects no metrics segment and empties
   no index (every index name of the org is used by a line or unrotated segment that is not
   selected), i.e. only the log half has anything to do *)
Definition no_metrics_selected (hz : N) (org : Z) (st : store) : bool :=
  forallb (fun s => negb (expired hz org s)) (mmeta st).

Definition no_index_emptied (hz : N) (org : Z) (st : store) : bool :=
  forallb (fun v => negb (fst v =? org)%Z
                    || existsb (N.eqb (snd v))
                         (map s_table (filter (fun s => negb (expired hz org s)) (segmeta st ++ unrot st))))
          (vtables st).

Definition interrupt_guard (hz : N) (org : Z) (st : store) : bool :=
  no_metrics_selected hz org st && no_index_emptied hz org st.

(* the same store with an arbitrary segmeta.json.tmp lying around *)
Definition with_seg_tmp (st : store) (c : option (list seg)) : store :=
  mkstore (segmeta st) (mmeta st) (mem st) (mmem st) (dirs st) (unrot st) c (mm_tmp st) (vtables st).

(* RetentionCheck.v — executable comparison of the retention model with observations of
   the real retention pass (used by the generated case files of C14). *)
From SigM Require Import Base Retention RetentionMem RetentionConc RetentionTime RetentionPaths.
Open Scope N_scope.

(* the iteration order the real run showed (directories in the order they were removed) *)
Definition ord_by (order : list path) (l : list seg) : list seg :=
  flat_map (fun p => filter (fun s => path_eqb p (s_dir s)) l) order
  ++ filter (fun s => negb (mem_path (s_dir s) order)) l.

Definition ordp_by (order : list path) (l : list path) : list path :=
  filter (fun p => mem_path p l) order ++ filter (fun p => negb (mem_path p order)) l.

Definition ordn_by (norder : list N) (l : list N) : list N :=
  filter (fun t => existsb (N.eqb t) l) norder ++ filter (fun t => negb (existsb (N.eqb t) norder)) l.

(* order: directories in the order they were removed, index names in the order they were dropped *)
Definition order_t := (list path * list N)%type.

Fixpoint passes_effs (order : order_t) (hz : N) (orgs : list Z) (st : store) : list eff :=
  match orgs with
  | [] => []
  | o :: r =>
    let e := pass_effs (ord_by (fst order)) (ordp_by (fst order)) (ordn_by (snd order)) hz o st in
    e ++ passes_effs order hz r (apply_effs e st)
  end.

Definition run_passes (order : order_t) (hz : N) (orgs : list Z) (st : store) : store :=
  apply_effs (passes_effs order hz orgs st) st.

(* what the harness reads back from a store *)
Record outcome := mkout {
  o_segmeta : list path;   (* SegbaseDir of the lines of segmeta.json, file order *)
  o_mmeta : list path;     (* directory of the lines of metricmeta.json, file order *)
  o_dirs : list path;      (* existing directories (segment-internal ones dropped) *)
  o_mem : list path;       (* rotated log segments known to the in-memory metadata *)
  o_mmem : list path;      (* rotated metrics segments known to the in-memory metadata *)
  o_vt : list (Z * N) }.   (* index names per org *)

Definition vt_subset (a b : list (Z * N)) : bool :=
  forallb (fun v => existsb (fun w => (fst v =? fst w)%Z && (snd v =? snd w)) b) a.

Definition subset (a b : list path) : bool := forallb (fun p => mem_path p b) a.
Definition seteq (a b : list path) : bool := subset a b && subset b a.

Definition out_eqb (ordered : bool) (st : store) (o : outcome) : bool :=
  (if ordered then list_eqb path_eqb (map s_dir (segmeta st)) (o_segmeta o)
   else seteq (map s_dir (segmeta st)) (o_segmeta o))
  && list_eqb path_eqb (map s_dir (mmeta st)) (o_mmeta o)
  && seteq (dirs st) (o_dirs o)
  && seteq (mem st) (o_mem o)
  && seteq (mmem st) (o_mmem o)
  && vt_subset (vtables st) (o_vt o) && vt_subset (o_vt o) (vtables st).

(* file-level effects seen in the system-call trace of the real pass *)
Inductive teff :=
| TRm (p : path) | TRmEmpty (p : path) | TVtTrunc (org : Z) | TVtTmp (org : Z) | TVtSet (org : Z) (l : list N) | TSegTmp (trunc : bool) | TSegSet (l : list path) | TSegRemove
| TMmTmp | TMmSet (l : list path) | TMmRemove.

Definition teff_eqb (a b : teff) : bool :=
  match a, b with
  | TRm p, TRm q | TRmEmpty p, TRmEmpty q => path_eqb p q
  | TVtTrunc a, TVtTrunc b | TVtTmp a, TVtTmp b => (a =? b)%Z
  | TVtSet a l, TVtSet b m => (a =? b)%Z && list_eqb N.eqb l m
  | TSegTmp a, TSegTmp b => Bool.eqb a b
  | TSegRemove, TSegRemove | TMmTmp, TMmTmp | TMmRemove, TMmRemove => true
  | TSegSet l, TSegSet m | TMmSet l, TMmSet m => list_eqb path_eqb l m
  | _, _ => false
  end.

(* the file-level part of one model effect in state st (removing a directory that does
   not exist is no system call that succeeds) *)
Definition disk_of (st : store) (e : eff) : list teff :=
  match e with
  | ERm p => if mem_path p (dirs st) then [TRm p] else []
  | ERmEmpty p => if dir_empty p (dirs st) then [TRmEmpty p] else []
  | EVtTrunc o => [TVtTrunc o]
  | EVtTmp o => [TVtTmp o]
  | EVtSet o l => [TVtSet o l]
  | EMemDel _ | EMMemDel _ => []
  | ESegTmp t _ => [TSegTmp t]
  | ESegSet l => [TSegSet (map s_dir l)]
  | ESegRemove => [TSegRemove]
  | EMmTmp => [TMmTmp]
  | EMmSet l => [TMmSet (map s_dir l)]
  | EMmRemove => [TMmRemove]
  end.

Fixpoint disk_trace (es : list eff) (st : store) : list teff :=
  match es with
  | [] => []
  | e :: r => disk_of st e ++ disk_trace r (apply_eff st e)
  end.

(* the model effects up to (and including) the a-th file-level effect *)
Fixpoint take_disk (a : nat) (es : list eff) (st : store) : list eff :=
  match es with
  | [] => []
  | e :: r =>
    match disk_of st e, a with
    | [], _ => e :: take_disk a r (apply_eff st e)
    | _ :: _, O => []
    | _ :: _, S a' => e :: take_disk a' r (apply_eff st e)
    end
  end.

(* scenario number and check number as one N (binary: no large unary numbers) *)
Definition tag (i : N) (l : list nat) : list N := map (fun x => 1000 * i + N.of_nat x) l.

Fixpoint check_trials (order : order_t) (hz2 : N) (orgs : list Z) (st : store) (es : list eff)
  (trials : list (nat * outcome * outcome)) (idx : nat) : list nat :=
  match trials with
  | [] => []
  | (a, pre, post) :: r =>
    let st_k := restart (apply_effs (take_disk a es st) st) in
    (if out_eqb false st_k pre then [] else [idx])
    ++ (if out_eqb false (run_passes order hz2 orgs st_k) post then [] else [S idx])
    ++ check_trials order hz2 orgs st es r (S (S idx))
  end.

(* 0: the observed store is not well-formed; 1: state after the pass differs;
   2: state after the repeated pass differs; 3: file-level trace differs;
   100+2i / 101+2i: interruption trial i: state after restart / after the repeated pass differs *)
(* hz: horizon of the traced pass (and of its repetition in the same process); hz2: horizon of
   the full pass that follows an interruption and restart (later, so possibly more is selected) *)
Definition check_scenario (st : store) (hz hz2 : N) (orgs : list Z) (order : order_t)
  (trace : list teff) (post post2 : outcome) (trials : list (nat * outcome * outcome)) : list nat :=
  let es := passes_effs order hz orgs st in
  let st1 := apply_effs es st in
  (if wf st then [] else [0%nat])
  ++ (if out_eqb true st1 post then [] else [1%nat])
  ++ (if out_eqb true (run_passes order hz orgs st1) post2 then [] else [2%nat])
  ++ (if list_eqb teff_eqb (disk_trace es st) trace then [] else [3%nat])
  ++ check_trials order hz2 orgs st es trials 100.

(* GetRetentionTimeMs: (now ms, hours, observed result) *)
Fixpoint check_horizon (cases : list (N * N * N)) (idx : nat) : list nat :=
  match cases with
  | [] => []
  | (now, h, r) :: t => (if horizon now h =? r then [] else [idx]) ++ check_horizon t (S idx)
  end.

Definition lseg (d : path) (e l : N) (org : Z) (tbl : N) : seg := mkseg d KLog e l org tbl [].
Definition mseg (d : path) (e l : N) (org : Z) (tt : path) : seg := mkseg d KMet e l org 0 tt.

(* scenarios run without a system-call trace: no trace comparison *)
Definition check_scenario_notrace (st : store) (hz hz2 : N) (orgs : list Z) (order : order_t)
  (trace : list teff) (post post2 : outcome) (trials : list (nat * outcome * outcome)) : list nat :=
  filter (fun i => negb (Nat.eqb i 3)) (check_scenario st hz hz2 orgs order trace post post2 trials).

(* ---------- the three views of the in-memory metadata (RetentionMem.v) ---------- *)
(* what the harness reads through GetAllSegmentMicroIndexForTest / GetSegmentMetadataReverseIndexForTest /
   GetTableSortedMetadata: keys in slice order, keys of the map, table -> keys in slice order *)
Record views := mkviews { v_all : list path; v_rev : list path; v_tbl : list (N * list path) }.

Definition views_of (m : memmeta) : views :=
  mkviews (map me_key (mm_all m)) (mm_rev m) (map (fun tl => (fst tl, map me_key (snd tl))) (mm_tables m)).

Definition views_eqb (a b : views) : bool :=
  list_eqb path_eqb (v_all a) (v_all b)
  && seteq (v_rev a) (v_rev b)
  && list_eqb (fun x y => (fst x =? fst y) && list_eqb path_eqb (snd x) (snd y)) (v_tbl a) (v_tbl b).

Definition me (d : path) (t e l : N) (o : Z) : ment := mkment d t e l o.

(* the store before the pass: entries with their fields once, the table slices by key (an entry of
   a table slice that the global slice does not hold becomes an entry of that table with no fields:
   views_agree then fails) *)
Definition mm_of (all : list ment) (rev : list path) (tbl : list (N * list path)) : memmeta :=
  mkmm all rev
    (map (fun tl => (fst tl, map (fun k => match find_key k all with Some e => e | None => mkment k (fst tl) 0 0 0 end) (snd tl))) tbl).

(* FilterSegmentsByTime(range [lo,hi], [table], org) returned the keys *)
Definition enumrec := (N * N * N * Z * list path)%type.

Definition enum_ok (m : memmeta) (l : list enumrec) : bool :=
  forallb (fun r => match r with (lo, hi, t, o, ks) => seteq (enumerate lo hi t o m) ks end) l.

Fixpoint check_trial_views (order : order_t) (hz2 : N) (orgs : list Z) (st : store) (es : list eff)
  (trials : list (nat * outcome * outcome)) (vts : list (memmeta * views * list enumrec)) (idx : nat) : list nat :=
  match trials, vts with
  | (a, _, _) :: r, (pm, pv, en) :: vr =>
    let st_k := restart (apply_effs (take_disk a es st) st) in
    let m' := apply_mem_effs (passes_effs order hz2 orgs st_k) pm in
    (if views_agree pm && views_sorted pm && seteq (mem_abs pm) (mem st_k) then [] else [idx])
    ++ (if views_eqb (views_of m') pv && enum_ok m' en then [] else [S idx])
    ++ check_trial_views order hz2 orgs st es r vr (S (S idx))
  | _, _ => []
  end.

(* 4: the views observed before the pass do not agree with each other / are not in descending order /
      do not hold the keys of [mem];  5: views after the pass differ from md_delete applied for every
      EMemDel of the model's pass;  6: the same after the repeated pass;  7: FilterSegmentsByTime
      differs from [enumerate] before or after the pass;
   200+2i / 201+2i: interruption trial i: views after the restart / after the full pass *)
Definition check_views (st : store) (hz hz2 : N) (orgs : list Z) (order : order_t)
  (trials : list (nat * outcome * outcome))
  (pm : memmeta) (post post2 : views) (en_pre en_post : list enumrec)
  (vts : list (memmeta * views * list enumrec)) : list nat :=
  let es := passes_effs order hz orgs st in
  let st1 := apply_effs es st in
  let m1 := apply_mem_effs es pm in
  let m2 := apply_mem_effs (passes_effs order hz orgs st1) m1 in
  (if views_agree pm && views_sorted pm && seteq (mem_abs pm) (mem st) then [] else [4%nat])
  ++ (if views_eqb (views_of m1) post then [] else [5%nat])
  ++ (if views_eqb (views_of m2) post2 then [] else [6%nat])
  ++ (if enum_ok pm en_pre && enum_ok m1 en_post then [] else [7%nat])
  ++ check_trial_views order hz2 orgs st es trials vts 200.

(* ---------- the pass running while rotations publish their segments (RetentionConc.v) ---------- *)
(* the model's machine runs the schedule the harness forced on the real code (gate 0: the publishers queue up
   behind the pass that is about to rewrite the file; 1: they run between the selection and the rewrite); the file
   it ends with must be the observed one: the survivors of the pass in their old order, then the published lines
   (their order among themselves is the order in which the rotations got the lock: compared as a set) *)
Definition conc_file (c : list seg) : option (list seg) := match c with [] => None | _ => Some c end.

Definition conc_ok (needhit : bool) (gate hz : N) (org : Z) (c : list seg) (pubs : list (list seg)) (obs : list path) : bool :=
  let s := run_sched (sched_of gate (length pubs)) (init_state needhit hz org (conc_file c) pubs) in
  let m := map s_dir (content (mfs s)) in
  let k := length (survivors hz org c) in
  finished s
  && list_eqb path_eqb (firstn k m) (firstn k obs)
  && seteq (skipn k m) (skipn k obs)
  && Nat.eqb (length m) (length obs).

(* 0: segmeta.json differs; 1: metricmeta.json differs *)
Definition check_conc (sm mm : list seg) (gl gm hz : N) (org : Z) (pl pm : list (list seg)) (osm omm : list path) : list nat :=
  (if conc_ok false gl hz org sm pl osm then [] else [0%nat])
  ++ (if conc_ok true gm hz org mm pm omm then [] else [1%nat]).

(* ---------- the clock side (RetentionTime.v) ---------- *)
(* one case: a server zone (transitions found in the real time.Location), an instant, a retention in hours, what
   the real GetRetentionTimeMs returned for  time.UnixMilli(now).In(loc) , a number of days and the instant the
   real  time.UnixMilli(now).In(loc).AddDate(0, 0, -days)  denotes.
   2i: the model of the code ([horizon_of], and [horizon] of the pass model) differs from the observed horizon;
   2i+1: the model of the standard library's calendar arithmetic ([t_adddate_days], used by the refuted variant
   only) differs from the real AddDate *)
Fixpoint check_zone_cases (cases : list (zone * Z * N * N * Z * Z)) (idx : nat) : list nat :=
  match cases with
  | [] => []
  | (z, now, h, r, days, ad) :: t =>
    (if (horizon_of h (mktime now z) =? r) && (horizon (Z.to_N now) h =? r) then [] else [(2 * idx)%nat])
    ++ (if (t_inst (t_adddate_days (mktime now z) (- days)) =? ad)%Z then [] else [(2 * idx + 1)%nat])
    ++ check_zone_cases t (S idx)
  end.

(* ---- the segment directory derived from the segment key (RetentionPaths.v) ---- *)
Definition opt_pstr_eqb (a b : option pstr) : bool :=
  match a, b with
  | Some x, Some y => bytes_eqb x y
  | None, None => true
  | _, _ => false
  end.

(* correspondence: one case = (data path, host id, index, stream id, segment number as digits,
   observed result of GetSegBaseDirFromFilename on config.GetSegKey(...): Some dir / None = error,
   observed config.GetSegKey).  Index 2i: the model of the key builder differs from the key;
   2i+1: the model of the helper differs from the observed result. *)
Fixpoint check_segdir_cases (cases : list (pstr * pstr * pstr * pstr * pstr * option pstr * pstr)) (idx : nat) : list nat :=
  match cases with
  | [] => []
  | (data, host, ix, sid, sfx, got, key) :: t =>
    (if bytes_eqb (seg_key data host ix sid sfx) key then [] else [(2 * idx)%nat])
    ++ (if opt_pstr_eqb (seg_base_dir key) got then [] else [(2 * idx + 1)%nat])
    ++ check_segdir_cases t (S idx)
  end.

(* arbitrary file names (cut keys, files below a segment directory, no "/final/" at all): the model of the helper,
   error returns included, against the observed result *)
Fixpoint check_segdir_raw (cases : list (pstr * option pstr)) (idx : nat) : list nat :=
  match cases with
  | [] => []
  | (name, got) :: t =>
    (if opt_pstr_eqb (seg_base_dir name) got then [] else [idx]) ++ check_segdir_raw t (S idx)
  end.

(* GetSegBaseDirFromSegKey (what the pass uses since e0ecac0): keys of the builder and arbitrary strings *)
Fixpoint check_segdir_key (cases : list (pstr * option pstr)) (idx : nat) : list nat :=
  match cases with
  | [] => []
  | (name, got) :: t =>
    (if opt_pstr_eqb (seg_base_dir_key name) got then [] else [idx]) ++ check_segdir_key t (S idx)
  end.

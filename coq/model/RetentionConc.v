(* RetentionConc.v — one metadata file (segmeta.json or metricmeta.json) shared by a retention
   pass and by the ingest side, which publishes freshly rotated segments in it while the pass runs.

   Follows, at the level of system calls on the file and its temporary sibling:
     pkg/retention/retention.go          DoRetentionBasedDeletion: the selection is read from the file
                                         (writer.ReadLocalSegmeta / mmeta.ReadMetricsMeta: read lock)
     pkg/segment/writer/segmetarw.go     removeSegmetas (smrLock.Lock: re-read, preserved lines to
                                         segmeta.json.tmp, rename; RemoveAll when nothing is preserved)
                                         BulkAddRotatedSegmetas (smrLock.Lock, THEN open O_APPEND|O_CREATE,
                                         write, sync, close)
     pkg/segment/writer/metrics/meta/metricsmeta.go
                                         RemoveMetricsSegments -> removeMetricsSegmentsByList (mMetaLock.Lock:
                                         re-read, tmp, rename | RemoveAll, only when an entry was removed)
                                         AddMetricsMetaEntry (mMetaLock.Lock, THEN open O_APPEND|O_CREATE,
                                         write, sync, close)
   A name is bound to an inode; rename re-binds the name, an open descriptor keeps referring to the
   inode it was opened on (an append through it after the rename goes to a file nobody can read).

   Threads are lists of sections; a locked section is entered when the lock is free and left after
   its last operation; the scheduler picks a thread for every step (a thread that cannot move
   stutters).  Definitions only; proofs are in SigP.RetentionConcProofs. *)
From SigM Require Import Base Retention.
Open Scope N_scope.

(* ---------- the file and its temporary sibling ---------- *)
Record fsys := mkfs {
  ino   : nat -> list seg;   (* content of inode i, as lines *)
  nxt   : nat;               (* next unused inode number *)
  fname : option nat;        (* inode <file> is bound to (None: the file does not exist) *)
  ftmp  : option nat }.      (* inode <file>.tmp is bound to *)

Definition upd (f : nat -> list seg) (i : nat) (v : list seg) : nat -> list seg :=
  fun j => if Nat.eqb j i then v else f j.

(* what a reader of <file> sees (a missing file reads as no line) *)
Definition content (fs : fsys) : list seg :=
  match fname fs with Some i => ino fs i | None => [] end.

(* thread-local state: open descriptor (an inode), the selection of the pass, the lines re-read under the lock *)
Record local := mkloc { fd : option nat; lsel : list seg; lread : list seg }.
Definition loc0 : local := mkloc None [] [].

Inductive op :=
| OOpenAppend                 (* os.OpenFile(file, O_APPEND|O_WRONLY|O_CREATE) *)
| OWrite (l : list seg)       (* fd.Write(lines): appended to the inode the descriptor refers to *)
| OClose
| OSelect (hz : N) (org : Z)  (* the pass reads the file and selects: OrgId == org && latest <= horizon *)
| ORead                       (* rewrite, under the lock: the file is read again *)
| OTmp (needhit : bool)       (* <file>.tmp opened with O_CREATE|O_TRUNC, preserved lines written *)
| ORename (needhit : bool)    (* rename(<file>.tmp, <file>) *)
| OUnlink (needhit : bool).   (* os.RemoveAll(<file>): nothing preserved *)

(* does the rewrite happen at all?  logs: DeleteSegmentData returns when nothing is selected, removeSegmetas
   otherwise always rewrites (needhit = false); metrics: only when a line of the file was removed (needhit = true) *)
Definition goes (needhit : bool) (l : local) : bool :=
  match lsel l with
  | [] => false
  | _ => if needhit then existsb (in_sel (lsel l)) (lread l) else true
  end.

Definition kept (l : local) : list seg := keep_of (lsel l) (lread l).

Definition is_nil {A} (l : list A) : bool := match l with [] => true | _ => false end.

Definition exec (o : op) (lf : local * fsys) : local * fsys :=
  let '(l, fs) := lf in
  match o with
  | OOpenAppend =>
    match fname fs with
    | Some i => (mkloc (Some i) (lsel l) (lread l), fs)
    | None => (mkloc (Some (nxt fs)) (lsel l) (lread l),
               mkfs (upd (ino fs) (nxt fs) []) (S (nxt fs)) (Some (nxt fs)) (ftmp fs))
    end
  | OWrite ls =>
    match fd l with
    | Some i => (l, mkfs (upd (ino fs) i (ino fs i ++ ls)) (nxt fs) (fname fs) (ftmp fs))
    | None => (l, fs)
    end
  | OClose => (mkloc None (lsel l) (lread l), fs)
  | OSelect hz org => (mkloc (fd l) (filter (expired hz org) (content fs)) (lread l), fs)
  | ORead => (mkloc (fd l) (lsel l) (content fs), fs)
  | OTmp nh =>
    if goes nh l && negb (is_nil (kept l)) then
      match ftmp fs with
      | Some i => (l, mkfs (upd (ino fs) i (kept l)) (nxt fs) (fname fs) (Some i))
      | None => (l, mkfs (upd (ino fs) (nxt fs) (kept l)) (S (nxt fs)) (fname fs) (Some (nxt fs)))
      end
    else (l, fs)
  | ORename nh =>
    if goes nh l && negb (is_nil (kept l)) then
      match ftmp fs with
      | Some i => (l, mkfs (ino fs) (nxt fs) (Some i) None)
      | None => (l, fs)
      end
    else (l, fs)
  | OUnlink nh =>
    if goes nh l && is_nil (kept l) then (l, mkfs (ino fs) (nxt fs) None (ftmp fs)) else (l, fs)
  end.

Definition run_ops (ops : list op) (lf : local * fsys) : local * fsys :=
  fold_left (fun a o => exec o a) ops lf.

(* ---------- threads, one lock, a scheduler ---------- *)
Inductive sect :=
| Locked (ops : list op)   (* Lock(); ops; Unlock() *)
| Free (ops : list op).    (* operations outside the lock *)

Record thread := mkth {
  tcur  : option (bool * list op);   (* inside a section: (it holds the lock, operations left) *)
  tsecs : list sect;                 (* sections left *)
  tloc  : local }.

Record mstate := mkms { mfs : fsys; mlock : option nat; mths : list thread }.

Fixpoint set_th (i : nat) (t : thread) (l : list thread) : list thread :=
  match l, i with
  | [], _ => []
  | _ :: r, O => t :: r
  | x :: r, S j => x :: set_th j t r
  end.

Definition step (t : nat) (s : mstate) : mstate :=
  match nth_error (mths s) t with
  | None => s
  | Some th =>
    match tcur th with
    | Some (lk, o :: r) =>
      let '(l', fs') := exec o (tloc th, mfs s) in
      mkms fs' (mlock s) (set_th t (mkth (Some (lk, r)) (tsecs th) l') (mths s))
    | Some (lk, []) =>
      mkms (mfs s) (if lk then None else mlock s) (set_th t (mkth None (tsecs th) (tloc th)) (mths s))
    | None =>
      match tsecs th with
      | [] => s
      | Locked ops :: rest =>
        match mlock s with
        | None => mkms (mfs s) (Some t) (set_th t (mkth (Some (true, ops)) rest (tloc th)) (mths s))
        | Some _ => s    (* blocked in Lock() *)
        end
      | Free ops :: rest => mkms (mfs s) (mlock s) (set_th t (mkth (Some (false, ops)) rest (tloc th)) (mths s))
      end
    end
  end.

Definition run_sched (sch : list nat) (s : mstate) : mstate := fold_left (fun a t => step t a) sch s.

Definition th_done (th : thread) : bool :=
  match tcur th, tsecs th with None, [] => true | _, _ => false end.

Definition finished (s : mstate) : bool :=
  forallb th_done (mths s) && match mlock s with None => true | Some _ => false end.

(* ---------- serial executions: one whole locked section at a time ---------- *)
(* the holder of the lock finishes its section and releases *)
Definition flush (s : mstate) : mstate :=
  match mlock s with
  | None => s
  | Some t =>
    match nth_error (mths s) t with
    | None => s
    | Some th =>
      match tcur th with
      | Some (true, ops) =>
        let '(l', fs') := run_ops ops (tloc th, mfs s) in
        mkms fs' None (set_th t (mkth None (tsecs th) l') (mths s))
      | _ => s
      end
    end
  end.

Definition serial_step (t : nat) (s : mstate) : mstate :=
  match mlock s with
  | None => flush (step t s)
  | Some _ => s
  end.

Definition run_serial (ser : list nat) (s : mstate) : mstate := fold_left (fun a t => serial_step t a) ser s.

(* nobody is inside a section; every section of every thread is a locked one *)
Definition quiescent (s : mstate) : Prop := mlock s = None /\ Forall (fun th => tcur th = None) (mths s).
Definition is_locked (x : sect) : Prop := match x with Locked _ => True | Free _ => False end.
Definition all_locked (s : mstate) : Prop := Forall (fun th => Forall is_locked (tsecs th)) (mths s).

(* ---------- the programs ---------- *)
(* AddMetricsMetaEntry / BulkAddRotatedSegmetas as coded: everything under the lock *)
Definition pub_prog (ls : list seg) : list sect := [Locked [OOpenAppend; OWrite ls; OClose]].

(* the same with the lock taken "only for the write": the file is opened before (refutation only) *)
Definition pub_prog_open_first (ls : list seg) : list sect :=
  [Free [OOpenAppend]; Locked [OWrite ls]; Free [OClose]].

(* DoRetentionBasedDeletion on one file: selection (read lock, modelled as the same exclusive lock: there is
   one reader), later the rewrite *)
Definition pass_prog (needhit : bool) (hz : N) (org : Z) : list sect :=
  [Locked [OSelect hz org]; Locked [ORead; OTmp needhit; ORename needhit; OUnlink needhit]].

Definition fs_of (file : option (list seg)) : fsys :=
  match file with
  | Some c => mkfs (fun _ => c) 1 (Some 0%nat) None
  | None => mkfs (fun _ => []) 0 None None
  end.

Definition file_lines (file : option (list seg)) : list seg :=
  match file with Some c => c | None => [] end.

Definition start (ps : list (list sect)) (file : option (list seg)) : mstate :=
  mkms (fs_of file) None (map (fun p => mkth None p loc0) ps).

(* thread 0: the pass; threads 1..n: one publisher per rotated segment (or batch of segments) *)
Definition init_state (needhit : bool) (hz : N) (org : Z) (file : option (list seg)) (pubs : list (list seg)) : mstate :=
  start (pass_prog needhit hz org :: map pub_prog pubs) file.

Definition init_state_open_first (needhit : bool) (hz : N) (org : Z) (file : option (list seg)) (pubs : list (list seg)) : mstate :=
  start (pass_prog needhit hz org :: map pub_prog_open_first pubs) file.

(* the specification: the lines the pass does not select, in their old order, then the published ones *)
Definition survivors (hz : N) (org : Z) (c : list seg) : list seg := keep_of (filter (expired hz org) c) c.

(* ---------- schedules the harness forces on the real code ---------- *)
Fixpoint rep (n : nat) (t : nat) : list nat := match n with O => [] | S k => t :: rep k t end.

Definition each (n k : nat) : list nat := flat_map (rep k) (seq 1 n).

(* "behind": the pass has selected and is at (or inside) the locked rewrite when every publisher arrives;
   the publishers get the lock after the rename.  Three steps take a publisher up to its Lock() (as coded:
   it waits there from the first step on; opened first: section entered, file opened, section left);
   10 steps finish any thread of the programs above. *)
Definition sched_behind (n : nat) : list nat :=
  rep 3 0%nat ++ [0%nat] ++ each n 3 ++ rep 10 0%nat ++ each n 10.

(* "between": the publishers run after the selection and before the rewrite *)
Definition sched_between (n : nat) : list nat :=
  rep 3 0%nat ++ each n 10 ++ rep 10 0%nat.

(* "ahead": the publishers are done before the pass starts *)
Definition sched_ahead (n : nat) : list nat := each n 10 ++ rep 13 0%nat.

Definition sched_of (gate : N) (n : nat) : list nat :=
  match gate with
  | 0 => sched_behind n
  | 1 => sched_between n
  | _ => sched_ahead n
  end.

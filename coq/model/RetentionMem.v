(* RetentionMem.v — the in-memory metadata of rotated log segments as the code keeps it
   (pkg/segment/metadata/metadata.go, allSegmentMetadata): THREE views of the same set of
   segments,
     allSegmentMicroIndex         []*SegmentMicroIndex   (descending LatestEpochMS)
     segmentMetadataReverseIndex  map[segkey]*SegmentMicroIndex
     tableSortedMetadata          map[table][]*SegmentMicroIndex (descending LatestEpochMS)
   The first two answer "is this segment known" (GetAllSegKeys, GetMicroIndex); the third one
   is what every query enumerates (FilterSegmentsByTime, GetAllColNames,
   DoesColumnExistForTable, Get/CollectColumnsForTheIndexesByTimeRange).  Retention.v abstracts
   the three views to ONE list [mem]; this file gives the concrete structure, the deletion
   deleteSegmentKeyWithLock as coded, and the time filter of FilterSegmentsByTime, so that the
   abstraction is a theorem (SigP.RetentionMemProofs) and a regression that lets the views drift
   apart is visible to the correspondence.

   The slices are sorted by LatestEpochMS only: several segments of one index may carry the same
   LatestEpochMS (a batch stamped with one timestamp, replayed data, the same index name in two
   orgs), so a position in a slice is NOT determined by the sort key; the code identifies the
   entry by scanning for the segment key.  [md_delete_by_latest] is the variant that looks the
   entry up through the sort key (refutation only).

   Definitions only; proofs are in SigP.RetentionMemProofs. *)
From SigM Require Import Base Retention.
Open Scope N_scope.

(* the fields of a SegmentMicroIndex that the deletion and the time filter read;
   me_key: SegbaseDir (one segment key per directory) *)
Record ment := mkment {
  me_key : path; me_table : N; me_earliest : N; me_latest : N; me_org : Z }.

Record memmeta := mkmm {
  mm_all : list ment;                 (* allSegmentMicroIndex, slice order *)
  mm_rev : list path;                 (* keys of segmentMetadataReverseIndex *)
  mm_tables : list (N * list ment) }. (* tableSortedMetadata: table name -> slice (a key stays when its slice gets empty) *)

Definition key_is (k : path) (e : ment) : bool := path_eqb (me_key e) k.

(* for i, sMetadata := range slice { if sMetadata.SegmentKey == key { slice = append(slice[:i], slice[i+1:]...); break } } *)
Fixpoint remove_first_key (k : path) (l : list ment) : list ment :=
  match l with
  | [] => []
  | e :: r => if key_is k e then r else e :: remove_first_key k r
  end.

Fixpoint find_key (k : path) (l : list ment) : option ment :=
  match l with
  | [] => None
  | e :: r => if key_is k e then Some e else find_key k r
  end.

Fixpoint get_table (t : N) (tb : list (N * list ment)) : option (list ment) :=
  match tb with
  | [] => None
  | (t', l) :: r => if t' =? t then Some l else get_table t r
  end.

Fixpoint set_table (t : N) (sl : list ment) (tb : list (N * list ment)) : list (N * list ment) :=
  match tb with
  | [] => []
  | (t', l) :: r => if t' =? t then (t', sl) :: r else (t', l) :: set_table t sl r
  end.

(* deleteSegmentKeyWithLock(key):
     scan allSegmentMicroIndex for the key: remove the entry, tName = its VirtualTableName;
     delete(segmentMetadataReverseIndex, key);
     tName == "" (not found): return;
     sortedTableSlice, ok := tableSortedMetadata[tName]; !ok: return;
     scan sortedTableSlice for the key: remove the entry; store the slice back *)
Definition md_delete (k : path) (m : memmeta) : memmeta :=
  let rev' := del_path k (mm_rev m) in
  match find_key k (mm_all m) with
  | None => mkmm (mm_all m) rev' (mm_tables m)
  | Some e =>
    let all' := remove_first_key k (mm_all m) in
    match get_table (me_table e) (mm_tables m) with
    | None => mkmm all' rev' (mm_tables m)
    | Some sl => mkmm all' rev' (set_table (me_table e) (remove_first_key k sl) (mm_tables m))
    end
  end.

Definition md_deletes (ks : list path) (m : memmeta) : memmeta := fold_left (fun m k => md_delete k m) ks m.

(* the in-memory side of a list of pass effects: DeleteSegmentKey for every EMemDel *)
Definition mem_eff (m : memmeta) (e : eff) : memmeta :=
  match e with EMemDel p => md_delete p m | _ => m end.
Definition apply_mem_effs (es : list eff) (m : memmeta) : memmeta := fold_left mem_eff es m.

Definition memdel_keys (es : list eff) : list path :=
  flat_map (fun e => match e with EMemDel p => [p] | _ => [] end) es.

(* abstraction to the single list of Retention.v *)
Definition mem_abs (m : memmeta) : list path := map me_key (mm_all m).

Definition tbl_entries (m : memmeta) : list ment := flat_map snd (mm_tables m).

(* dtypeutils.TimeRange.CheckRangeOverLap(earliest, latest) for the range [lo, hi] *)
Definition overlaps (lo hi : N) (e : ment) : bool :=
  ((lo <=? me_earliest e) && (me_earliest e <=? hi))
  || ((lo <=? me_latest e) && (me_latest e <=? hi))
  || ((me_earliest e <=? lo) && (hi <=? me_latest e)).

(* FilterSegmentsByTime(timeRange, [index], orgid): the segment keys a query over [lo, hi] is handed *)
Definition enumerate (lo hi : N) (t : N) (org : Z) (m : memmeta) : list path :=
  match get_table t (mm_tables m) with
  | None => []
  | Some l => map me_key (filter (fun e => overlaps lo hi e && (me_org e =? org)%Z) l)
  end.

(* ---------- the three views describe the same set of segments (executable) ---------- *)
Definition ment_eqb (a b : ment) : bool :=
  path_eqb (me_key a) (me_key b) && (me_table a =? me_table b) && (me_earliest a =? me_earliest b)
  && (me_latest a =? me_latest b) && (me_org a =? me_org b)%Z.

Fixpoint nodup_N (l : list N) : bool :=
  match l with [] => true | x :: r => negb (existsb (N.eqb x) r) && nodup_N r end.

Definition views_agree (m : memmeta) : bool :=
  nodup_dirs (mem_abs m)
  && nodup_dirs (mm_rev m)
  && forallb (fun k => mem_path k (mem_abs m)) (mm_rev m)
  && forallb (fun k => mem_path k (mm_rev m)) (mem_abs m)
  && nodup_N (map fst (mm_tables m))
  && nodup_dirs (map me_key (tbl_entries m))
  && forallb (fun tl => forallb (fun e => (me_table e =? fst tl) && existsb (ment_eqb e) (mm_all m)) (snd tl)) (mm_tables m)
  && forallb (fun e => existsb (fun tl => (fst tl =? me_table e) && existsb (ment_eqb e) (snd tl)) (mm_tables m)) (mm_all m).

(* both slices in descending order of LatestEpochMS (what bulkAddSegmentMicroIndex establishes) *)
Fixpoint sorted_desc (l : list ment) : bool :=
  match l with
  | [] => true
  | e :: r => match r with [] => true | f :: _ => (me_latest f <=? me_latest e) && sorted_desc r end
  end.

Definition views_sorted (m : memmeta) : bool :=
  sorted_desc (mm_all m) && forallb (fun tl => sorted_desc (snd tl)) (mm_tables m).

(* ---------- refutation only: the table slice entry looked up through the sort key ----------
   i := sort.Search(len(slice), func(j) bool { return slice[j].LatestEpochMS <= latest });
   if i < len(slice) && slice[i].SegmentKey == key { remove slice[i] } *)
Fixpoint remove_at_latest (k : path) (latest : N) (l : list ment) : list ment :=
  match l with
  | [] => []
  | e :: r =>
    if me_latest e <=? latest then (if key_is k e then r else e :: r)
    else e :: remove_at_latest k latest r
  end.

Definition md_delete_by_latest (k : path) (m : memmeta) : memmeta :=
  let rev' := del_path k (mm_rev m) in
  match find_key k (mm_all m) with
  | None => mkmm (mm_all m) rev' (mm_tables m)
  | Some e =>
    let all' := remove_first_key k (mm_all m) in
    match get_table (me_table e) (mm_tables m) with
    | None => mkmm all' rev' (mm_tables m)
    | Some sl => mkmm all' rev' (set_table (me_table e) (remove_at_latest k (me_latest e) sl) (mm_tables m))
    end
  end.

(* ---------- the same statement as a proposition (what the theorems preserve) ---------- *)
Record consistent (m : memmeta) : Prop := mkconsistent {
  c_nd_all : NoDup (map me_key (mm_all m));
  c_nd_rev : NoDup (mm_rev m);
  c_rev : forall k, In k (mm_rev m) <-> In k (map me_key (mm_all m));
  c_nd_names : NoDup (map fst (mm_tables m));
  c_nd_tbl : NoDup (map me_key (tbl_entries m));
  c_tbl_all : forall t l e, In (t, l) (mm_tables m) -> In e l -> In e (mm_all m) /\ me_table e = t;
  c_all_tbl : forall e, In e (mm_all m) -> exists l, In (me_table e, l) (mm_tables m) /\ In e l }.

(* what is left of a slice / of the key set when the keys ks are gone *)
Definition keeps (ks : list path) (l : list ment) : list ment :=
  filter (fun e => negb (mem_path (me_key e) ks)) l.
Definition keeps_keys (ks : list path) (l : list path) : list path :=
  filter (fun p => negb (mem_path p ks)) l.

(* guard of the refutation: no two entries of one table slice carry the same LatestEpochMS *)
Definition no_ties (m : memmeta) : bool :=
  forallb (fun tl => nodup_N (map me_latest (snd tl))) (mm_tables m).

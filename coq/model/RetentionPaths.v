(* RetentionPaths.v — from a segment key back to the segment's directory (C14).

   The retention pass does not remove "the directory of the line": it removes what
   utils.GetSegBaseDirFromFilename (pkg/utils/segutils.go) makes of the line's segment KEY
   (DeleteSegmentData in pkg/retention/retention.go; removeSegmetas in
   pkg/segment/writer/segmetarw.go decides with the same helper whether segmeta.json is
   rewritten at all).  The key is a string the writer built from the data path, the host id,
   the literal "/final/", the index name, the stream id and the segment number
   (config.GetBaseSegDir / GetSegKey).  Index names, stream ids and host names are chosen by
   clients / operators: they may be equal to, or contain, the words of the directory layout
   (final, ts, tth, suffix, ingestnodes, ...).  This file models both directions on byte
   strings so that "the pass removes exactly the directory the writer created" is a statement
   about the code for EVERY name, not a property of the names a test happens to use.

   * [index_of], [last_index_of]   strings.Index / strings.LastIndex (None = -1);
   * [base_seg_dir], [seg_key]     config.GetBaseSegDir / config.GetSegKey;
   * [skip_parts]                  the loop "depthAfterFinal times: go behind the next '/'";
   * [seg_base_dir]                GetSegBaseDirFromFilename as coded (anchor = FIRST "/final/");
   * [seg_base_dir_last]           the variant anchored on the LAST "/final/" — NOT the code,
                                   kept for the refuted theorem;
   * [root_ok]                     the boolean guard: the "/final/" written by the key builder is
                                   the first one of the key (false for a data path or host id
                                   that itself contains a directory called final).
   Strings are byte lists.  No proofs in this file. *)
From Coq Require Import List NArith Bool Arith.
From SigM Require Import Base.
Import ListNotations.
Open Scope N_scope.

Definition pstr := list N.
Definition PSL : N := 47.                                         (* '/' *)
Definition p_final_sl : pstr := [47; 102; 105; 110; 97; 108; 47]. (* "/final/" *)
Definition p_no_slash (s : pstr) : bool := forallb (fun c => negb (c =? PSL)) s.

Fixpoint p_has_prefix (s p : pstr) : bool :=
  match p, s with
  | [], _ => true
  | y :: p', x :: s' => (x =? y) && p_has_prefix s' p'
  | _ :: _, [] => false
  end.

(* strings.Index(s, p) *)
Fixpoint index_of (s p : pstr) : option nat :=
  if p_has_prefix s p then Some O
  else match s with
       | [] => None
       | _ :: t => match index_of t p with Some k => Some (S k) | None => None end
       end.

(* strings.LastIndex(s, p) *)
Fixpoint last_index_of (s p : pstr) : option nat :=
  match s with
  | [] => if p_has_prefix [] p then Some O else None
  | _ :: t => match last_index_of t p with
              | Some k => Some (S k)
              | None => if p_has_prefix s p then Some O else None
              end
  end.

(* config.GetBaseSegDir: data path (ends with '/'), host id, "/final/", index, stream id, segment number *)
Definition base_seg_dir (data host ix sid sfx : pstr) : pstr :=
  data ++ host ++ p_final_sl ++ ix ++ PSL :: sid ++ PSL :: sfx ++ [PSL].
(* config.GetSegKey: the base directory with the segment number repeated *)
Definition seg_key (data host ix sid sfx : pstr) : pstr := base_seg_dir data host ix sid sfx ++ sfx.

(* for curDepth < depthAfterFinal { nextPos := strings.Index(filename[pos:], "/"); if -1: error; pos += nextPos + 1 }
   = the number of bytes the loop advances, None = the error return *)
Fixpoint skip_parts (depth : nat) (rest : pstr) : option nat :=
  match depth with
  | O => Some O
  | S d => match index_of rest [PSL] with
           | None => None
           | Some k => match skip_parts d (skipn (S k) rest) with
                       | Some n => Some (S k + n)%nat
                       | None => None
                       end
           end
  end.

Definition seg_base_dir_with (find : pstr -> pstr -> option nat) (filename : pstr) : option pstr :=
  match find filename p_final_sl with
  | None => None                                       (* "cannot find /final/" *)
  | Some p =>
    let pos := (p + length p_final_sl)%nat in
    match skip_parts 3 (skipn pos filename) with
    | None => None                                     (* "cannot find 3 parts after /final/" *)
    | Some n => Some (firstn (pos + n) filename)
    end
  end.

Definition seg_base_dir : pstr -> option pstr := seg_base_dir_with index_of.            (* the code *)
Definition seg_base_dir_last : pstr -> option pstr := seg_base_dir_with last_index_of.  (* NOT the code *)

Definition root_ok (data host : pstr) : bool :=
  match index_of (data ++ host ++ p_final_sl) p_final_sl with
  | Some k => Nat.eqb k (length (data ++ host))
  | None => false
  end.

(* ---- utils.GetSegBaseDirFromSegKey (fix e0ecac0): what DeleteSegmentData / removeSegmetas use now ----
   pos := strings.LastIndex(segkey, "/"); pos <= 0: error; suffix := segkey[pos+1:]; segBaseDir := segkey[:pos+1];
   suffix == "" || filepath.Base(segBaseDir) != suffix: error; return segBaseDir.
   Worked on the reversed key: [take_comp] = the bytes up to the first '/', [drop_slashes] = filepath.Base's removal of
   trailing slashes (a directory of slashes only has Base "/", never equal to a suffix without '/'). *)
Fixpoint drop_slashes (r : pstr) : pstr :=
  match r with
  | c :: t => if c =? PSL then drop_slashes t else r
  | [] => []
  end.
Fixpoint take_comp (r : pstr) : pstr :=
  match r with
  | c :: t => if c =? PSL then [] else c :: take_comp t
  | [] => []
  end.

Definition seg_base_dir_key (key : pstr) : option pstr :=
  let r := rev key in
  let sfx_r := take_comp r in
  match skipn (length sfx_r) r with
  | [] => None                                      (* no '/' at all: LastIndex = -1 *)
  | _ :: rest_r =>
    match rest_r, sfx_r with
    | [], _ => None                                 (* pos = 0 *)
    | _, [] => None                                 (* suffix == "" *)
    | _, _ =>
      match drop_slashes rest_r with
      | [] => None                                  (* Base = "/" *)
      | b => if bytes_eqb (take_comp b) sfx_r
             then Some (firstn (length key - length sfx_r) key)
             else None
      end
    end
  end.

(* RetentionTime.v — the clock side of the retention pass (C14).

   DoRetentionBasedDeletion reads  currTime := time.Now()  and computes the horizon
   deleteBefore := GetRetentionTimeMs(retentionHours, currTime).  A Go time.Time is an
   instant PLUS a *Location (time.Now() carries the server's local zone); some methods
   work on the instant (Add, Sub, UnixMilli), others on the wall clock of the location
   (Date, Clock, AddDate, Truncate-to-day idioms).  This file models both kinds, so that
   "the horizon is  now - retention  as an ABSOLUTE duration, whatever the server's zone"
   is a statement about the code and not a convention of the harness:

   * [zone]   a time.Location as the time package uses it: the offset in force before the
              first listed transition and the transitions (instant, new offset), ascending;
              [lookup] = Location.lookup (offset, start and end of the period);
   * [gtime]  time.Time = instant (ms since the epoch, UTC) + location (the monotonic
              reading plays no role in Add / UnixMilli / AddDate);
   * [t_add], [t_unixmilli]             Time.Add, Time.UnixMilli;
   * [wall], [go_date], [t_adddate_days] Time.Date+Clock, time.Date (the two-step offset
              search of the standard library), Time.AddDate(0, 0, days);
   * [retention_time_ms]                GetRetentionTimeMs as coded (absolute duration);
   * [retention_time_ms_calendar]       the variant "whole days by calendar arithmetic,
              then the remaining hours" — NOT the code; kept for the guarded / refuted
              theorems (it equals the code in fixed-offset zones only).

   All quantities are milliseconds.  The standard library works in seconds + nanoseconds;
   offsets and transition instants are whole seconds, so  floor(x/1000) < w  iff  x < 1000*w
   and the millisecond reading gives the same case splits.  The Gregorian normalisation of
   Date(y, m, d + days, ...) is taken as "wall clock + days * 86 400 000 ms" (a UTC-reckoned
   day has 86 400 s); the harness compares [t_adddate_days] with the real Time.AddDate on
   every run (RetentionCheck.check_zone_cases).  No proofs in this file. *)
From Coq Require Import List ZArith NArith Bool.
From SigM Require Import Base Retention.
Import ListNotations.
Open Scope Z_scope.

Record zone := mkzone {
  z_first : Z;              (* offset (ms east of UTC) before the first transition *)
  z_tx    : list (Z * Z) }. (* (instant, offset in force from then on), ascending *)

(* Location.lookup: offset in force at instant u, start and end of that period
   (None = alpha / omega, the unbounded ends) *)
Fixpoint lookup_from (off : Z) (start : option Z) (tx : list (Z * Z)) (u : Z) : Z * option Z * option Z :=
  match tx with
  | [] => (off, start, None)
  | (w, o) :: r => if u <? w then (off, start, Some w) else lookup_from o (Some w) r u
  end.
Definition lookup (z : zone) (u : Z) : Z * option Z * option Z := lookup_from (z_first z) None (z_tx z) u.
Definition offset_at (z : zone) (u : Z) : Z := fst (fst (lookup z u)).

Record gtime := mktime { t_inst : Z; t_loc : zone }.

Definition t_unixmilli (t : gtime) : Z := t_inst t.
Definition t_add (t : gtime) (d : Z) : gtime := mktime (t_inst t + d) (t_loc t).

(* what t.Date() and t.Clock() decompose: the instant shifted by the offset in force *)
Definition wall (t : gtime) : Z := t_inst t + offset_at (t_loc t) (t_inst t).

(* time.Date(y, m, d, h, mi, s, ns, loc) where the fields, read as a UTC date, denote w:
     _, offset, start, end, _ := l.lookup(unix)
     if offset != 0 { utc := unix - offset
                      if utc < start || utc >= end { _, offset, _, _, _ = l.lookup(utc) }
                      unix -= offset } *)
Definition go_date (z : zone) (w : Z) : Z :=
  let '(off, st, en) := lookup z w in
  if off =? 0 then w else
    let utc := w - off in
    let after_start := match st with None => true | Some s => s <=? utc end in
    let before_end := match en with None => true | Some e => utc <? e end in
    if after_start && before_end then utc else w - offset_at z utc.

(* t.AddDate(0, 0, days) = Date(y, m, d + days, h, mi, s, ns, t.Location()) *)
Definition t_adddate_days (t : gtime) (days : Z) : gtime :=
  mktime (go_date (t_loc t) (wall t + days * 86400000)) (t_loc t).

(* GetRetentionTimeMs as coded:
     retDur := time.Duration(retentionHours) * time.Hour
     return uint64(currTime.Add(-retDur).UnixMilli()) *)
Definition retention_time_ms (hours : Z) (t : gtime) : Z :=
  t_unixmilli (t_add t (- (hours * 3600000))).

(* uint64(...) of a non-negative value; [horizon] of Retention.v is the same number computed
   from the instant alone (RetentionTimeProofs.horizon_of_is_horizon) *)
Definition horizon_of (hours : N) (t : gtime) : N := Z.to_N (retention_time_ms (Z.of_N hours) t).

(* NOT the code: whole days by calendar arithmetic in the server's zone, then the remaining hours
   (Go's / and % truncate: Z.quot, Z.rem) *)
Definition retention_time_ms_calendar (hours : Z) (t : gtime) : Z :=
  t_unixmilli (t_add (t_adddate_days t (- (Z.quot hours 24))) (- (Z.rem hours 24 * 3600000))).
Definition horizon_of_calendar (hours : N) (t : gtime) : N :=
  Z.to_N (retention_time_ms_calendar (Z.of_N hours) t).

(* a zone without transitions: UTC, or any fixed offset *)
Definition fixed_zone (o : Z) : zone := mkzone o [].

(* America/New_York around 2024 (EDT = -4 h, EST = -5 h): witness zone of the refutations *)
Definition zone_new_york_2024 : zone :=
  mkzone (-14400000)
    [ (1699164000000, -18000000)     (* 2023-11-05 06:00:00 UTC: back to EST  *)
    ; (1710054000000, -14400000)     (* 2024-03-10 07:00:00 UTC: forward to EDT *)
    ; (1730613600000, -18000000) ].  (* 2024-11-03 06:00:00 UTC: back to EST  *)

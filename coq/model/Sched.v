(* Sched.v — model of the two-level scheduler of the searcher
   (pkg/segment/query/processor/searcher.go): segment level (getQSRSToProcess,
   getFilteredBlocks) and block level (sortBlocks, getNextBlocks, fetchRRCs,
   getValidRRCs, merge with the unsent records), recent-first and recent-last.
   Definitions only. *)
From SigM Require Import Base SortCmd.
Open Scope N_scope.

(* a matching record: (timestamp, id) *)
Definition rec := (N * N)%type.
Definition rts (r : rec) : N := fst r.

(* a block: BlockSummary.LowTs / HighTs and the records of the block that match the query *)
Record block := mkBlock { lo : N; hi : N; recs : list rec }.

(* a query segment request: segKeyTsRange and its not yet processed blocks
   (processedBlocks[segkey] of the Go code = the blocks already removed from sblocks) *)
Record seg := mkSeg { sstart : N; send : N; sblocks : list block }.

Inductive mode := RecentFirst | RecentLast.

(* ---------------- block level ---------------- *)

(* startTimeOf / endTimeOf of getNextBlocks *)
Definition start_of (m : mode) (b : block) : N :=
  match m with RecentFirst => hi b | RecentLast => lo b end.
Definition end_of (m : mode) (b : block) : N :=
  match m with RecentFirst => lo b | RecentLast => hi b end.

(* the `less` of sortBlocks / sortRRCs / getSortingFunc on timestamps *)
Definition ts_before (m : mode) (a b : N) : bool :=
  match m with RecentFirst => b <? a | RecentLast => a <? b end.

Definition block_less (m : mode) (a b : block) : bool :=
  ts_before m (start_of m a) (start_of m b).
Definition rec_less (m : mode) (a b : rec) : bool :=
  ts_before m (rts a) (rts b).

(* sortBlocks: sort.Slice (not stable) by HighTs descending / LowTs ascending.  The
   model instance is the stable specification sort; the theorems hold for every
   function that returns a sorted permutation. *)
Definition sort_blocks (m : mode) (l : list block) : list block := sort_by (block_less m) l.

(* readSortedRRCs + utils.MergeSortedSlices(sortingFunc, slices..., unsent) *)
Definition sort_recs (m : mode) (l : list rec) : list rec := sort_by (rec_less m) l.

(* number of leading blocks whose start time equals s *)
Fixpoint tie_run (m : mode) (s : N) (l : list block) : nat :=
  match l with
  | [] => O
  | b :: r => if start_of m b =? s then S (tie_run m s r) else O
  end.

(* the `for { … }` loop of getNextBlocks; n = numBlocks *)
Fixpoint next_loop (m : mode) (maxBlocks : nat) (l : list block) (fuel n : nat) : nat :=
  match fuel with
  | O => n
  | S f =>
    let next :=
      match skipn n l with
      | [] => S n                                   (* inner loop does not run *)
      | b :: _ => (n + tie_run m (start_of m b) (skipn n l))%nat
      end in
    if Nat.ltb maxBlocks next then n                (* nextPossibleNumBlocks > maxBlocks: break *)
    else if Nat.eqb next (length l) then next       (* numBlocks == len(sortedBlocks): break *)
    else next_loop m maxBlocks l f next
  end.

Definition num_next (m : mode) (maxBlocks : nat) (l : list block) : nat :=
  match l with
  | [] => O
  | b :: _ => next_loop m maxBlocks l (S (maxBlocks + length l)) (tie_run m (start_of m b) l)
  end.

(* overallEndTime when every block is taken: min LowTs / max HighTs *)
Definition overall_end (m : mode) (l : list block) : N :=
  match l with
  | [] => 0
  | b :: _ =>
    fold_left (fun acc x => match m with
                            | RecentFirst => N.min acc (end_of m x)
                            | RecentLast => N.max acc (end_of m x)
                            end) l (end_of m b)
  end.

(* getNextBlocks(sortedBlocks, maxBlocks, mode) -> (blocks, endTime) *)
Definition get_next_blocks (m : mode) (maxBlocks : nat) (l : list block) : list block * N :=
  match l with
  | [] => ([], 0)
  | _ =>
    let n := num_next m maxBlocks l in
    if Nat.leb (length l) n then (l, overall_end m l)
    else (firstn n l, match nth_error l n with Some b => start_of m b | None => 0 end)
  end.

(* sort.Search(n, f): smallest index in [0,n) with f true, by bisection *)
Fixpoint bsearch (f : nat -> bool) (fuel i j : nat) : nat :=
  match fuel with
  | O => i
  | S k =>
    if Nat.ltb i j then
      let h := Nat.div2 (i + j) in
      if f h then bsearch f k i h else bsearch f k (S h) j
    else i
  end.

(* getValidRRCs(sortedRRCs, lastTimestamp, mode): RRCs up to and INCLUDING lastTimestamp *)
Definition valid_pred (m : mode) (e : N) (l : list rec) (k : nat) : bool :=
  match nth_error l k with
  | Some r => match m with RecentFirst => rts r <? e | RecentLast => e <? rts r end
  | None => true
  end.
Definition num_valid (m : mode) (e : N) (l : list rec) : nat :=
  bsearch (valid_pred m e l) (S (length l)) O (length l).
Definition get_valid_rrcs (m : mode) (e : N) (l : list rec) : list rec :=
  firstn (num_valid m e l) l.

(* ---------------- segment level ---------------- *)

Definition should_process_block (m : mode) (c : N) (b : block) : bool :=
  match m with RecentFirst => c <=? hi b | RecentLast => lo b <=? c end.
Definition should_process_qsr (m : mode) (c : N) (s : seg) : bool :=
  match m with RecentFirst => c <=? send s | RecentLast => sstart s <=? c end.
Definition will_process_completely (m : mode) (c : N) (s : seg) : bool :=
  match m with RecentFirst => c <=? sstart s | RecentLast => send s <=? c end.

(* one pass of getQSRSToProcess + getBlocks + getFilteredBlocks over the queue with
   cut-off c: blocks handed to the block level, and the queue that stays *)
Fixpoint walk_queue (m : mode) (c : N) (q : list seg) : list block * list seg :=
  match q with
  | [] => ([], [])
  | s :: r =>
    let '(tk, q') := walk_queue m c r in
    let '(taken, kept) :=
      if should_process_qsr m c s then partition (should_process_block m c) (sblocks s)
      else ([], sblocks s) in
    (taken ++ tk,
     if will_process_completely m c s then q' else mkSeg (sstart s) (send s) kept :: q')
  end.

Record state := mkState {
  queue : list seg;          (* unprocessedQSRs *)
  remaining : list block;    (* remainingBlocksSorted *)
  unsent : list rec;         (* unsentRRCs *)
  cutoff : N;                (* cutOffTimestampInMs *)
  gotBlocks : bool;
  gotAll : bool;             (* gotAllSegments *)
  started : bool             (* didFirstFetch *)
}.

Definition init_state (q : list seg) : state :=
  mkState q [] [] 0 false false false.

Section MACHINE.
  Variable m : mode.
  Variable bsort : list block -> list block.   (* sortBlocks *)
  Variable rsort : list rec -> list rec.       (* per-block sort + k-way merge with unsent *)
  Variable maxBlocks : nat.                    (* runtime.GOMAXPROCS(0) *)

  (* getBlocks: (new blocks, queue', cutoff', gotAll') *)
  Definition get_blocks (st : state) : list block * list seg * N * bool :=
    match queue st with
    | [] => ([], [], cutoff st, true)
    | f :: _ =>
      let c := match m with RecentFirst => sstart f | RecentLast => send f end in
      let '(bl, q') := walk_queue m c (queue st) in
      (bl, q', c, gotAll st)
    end.

  (* Searcher.Fetch for RRC queries: None = io.EOF *)
  Definition fetch (st : state) : option (list rec) * state :=
    (* if !gotBlocks { blocks = getBlocks(); sortBlocks(blocks ++ remaining) } *)
    let st1 :=
      if gotBlocks st then st
      else
        let '(bl, q', c, ga) := get_blocks st in
        mkState q' (bsort (bl ++ remaining st)) (unsent st) c true ga true in
    (* fetchRRCs *)
    match remaining st1, unsent st1, gotAll st1 with
    | [], [], true => (None, st1)
    | _, _, _ =>
      let '(next, e0) := get_next_blocks m maxBlocks (remaining st1) in
      let e := match m with
               | RecentFirst => N.max e0 (cutoff st1)
               | RecentLast => N.min e0 (cutoff st1)
               end in
      let rest := skipn (length next) (remaining st1) in
      let gb := if (match rest with [] => true | _ => false end) || (e =? cutoff st1)
                then false else gotBlocks st1 in
      let all := rsort (concat (map recs next) ++ unsent st1) in
      let valid := get_valid_rrcs m e all in
      (Some valid,
       mkState (queue st1) rest (skipn (length valid) all) (cutoff st1) gb (gotAll st1) true)
    end.

  (* iterate Fetch until EOF; result: records in the order released, EOF reached?, final state *)
  Fixpoint run_loop (fuel : nat) (st : state) (acc : list rec) : list rec * bool * state :=
    match fuel with
    | O => (acc, false, st)
    | S f =>
      match fetch st with
      | (None, st') => (acc, true, st')
      | (Some out, st') => run_loop f st' (acc ++ out)
      end
    end.
End MACHINE.

Definition blocks_of (q : list seg) : list block := concat (map sblocks q).
Definition recs_of (bs : list block) : list rec := concat (map recs bs).
Definition all_recs (q : list seg) : list rec := recs_of (blocks_of q).

(* number of Fetch calls that always suffices *)
Definition fuel_bound (q : list seg) : nat := (2 * (length (blocks_of q) + length q + 1) + 2)%nat.

(* the concrete instance *)
Definition run (m : mode) (maxBlocks : nat) (q : list seg) : list rec * bool :=
  let '(out, eof, _) :=
    run_loop m (sort_blocks m) (sort_recs m) maxBlocks (fuel_bound q) (init_state q) [] in
  (out, eof).

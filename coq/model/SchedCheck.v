(* SchedCheck.v — executable comparison of the scheduler / sort models with
   observations of the real code (used by the generated case files of C05). *)
From SigM Require Import Base SortCmd Sched.
Open Scope N_scope.

Definition mode_of (n : N) : mode := if n =? 1 then RecentFirst else RecentLast.

(* a block without records, for the functions that only look at LowTs/HighTs *)
Definition blk (l h : N) : block := mkBlock l h [].
(* a block identified by one record id *)
Definition blk_id (l h id : N) : block := mkBlock l h [(l, id)].
Definition block_id (b : block) : N := match recs b with (_, i) :: _ => i | [] => 0 end.

Fixpoint idx_mismatch {A} (bad : A -> bool) (l : list A) (i : nat) : list nat :=
  match l with
  | [] => []
  | x :: r => (if bad x then [i] else []) ++ idx_mismatch bad r (S i)
  end.

(* ---------- enumeration of small sorted block lists (same order as the harness) ---------- *)
(* block types over the timestamp domain 0..d: for lo in 0..d, for hi in lo..d *)
Fixpoint seqN (a : N) (n : nat) : list N :=
  match n with O => [] | S k => a :: seqN (a + 1) k end.
Definition block_types (d : N) : list block :=
  flat_map (fun l => map (fun h => blk l h) (seqN l (N.to_nat (d + 1 - l)))) (seqN 0 (N.to_nat (d + 1))).

(* may t follow prev in a list sorted for mode m? *)
Definition follows_ok (m : mode) (prev : option block) (t : block) : bool :=
  match prev with
  | None => true
  | Some p => negb (block_less m t p)
  end.

(* all sorted lists of exactly k blocks *)
Fixpoint sorted_lists (m : mode) (types : list block) (k : nat) (prev : option block) : list (list block) :=
  match k with
  | O => [[]]
  | S k' =>
    flat_map (fun t => if follows_ok m prev t
                       then map (cons t) (sorted_lists m types k' (Some t))
                       else []) types
  end.

(* all sorted lists of 1..kmax blocks *)
Definition sorted_upto (m : mode) (d : N) (kmax : nat) : list (list block) :=
  flat_map (fun k => sorted_lists m (block_types d) k None) (seq 1 kmax).

(* all lists (any order) of 1..kmax blocks *)
Fixpoint all_lists (types : list block) (k : nat) : list (list block) :=
  match k with
  | O => [[]]
  | S k' => flat_map (fun t => map (cons t) (all_lists types k')) types
  end.
Definition all_upto (d : N) (kmax : nat) : list (list block) :=
  flat_map (fun k => all_lists (block_types d) k) (seq 1 kmax).

(* ---------- getNextBlocks ---------- *)
Definition gnb_obs (m : mode) (mb : nat) (l : list block) : nat * N :=
  let '(next, e) := get_next_blocks m mb l in (length next, e).

Definition obs_eqb (a b : nat * N) : bool := Nat.eqb (fst a) (fst b) && (snd a =? snd b).

Fixpoint zip_mismatch {A B} (eqb : B -> B -> bool) (f : A -> B) (xs : list A) (obs : list B) (i : nat) : list nat :=
  match xs, obs with
  | [], [] => []
  | x :: xr, o :: or => (if eqb (f x) o then [] else [i]) ++ zip_mismatch eqb f xr or (S i)
  | _, _ => [i; 9999%nat]      (* the enumerations of harness and model differ in length *)
  end.

(* exhaustive: observations of the real getNextBlocks on every sorted list of 1..kmax
   blocks over 0..d, in enumeration order *)
Definition check_gnb_exh (mo : N) (mb : nat) (d : N) (kmax : nat) (obs : list (nat * N)) : list nat :=
  zip_mismatch obs_eqb (gnb_obs (mode_of mo) mb) (sorted_upto (mode_of mo) d kmax) obs O.

(* explicit cases: (mode, maxBlocks, blocks as (lo,hi), observed (count, endTime)) *)
Definition mk_blocks (l : list (N * N)) : list block := map (fun p => blk (fst p) (snd p)) l.
Definition check_gnb (cases : list (N * nat * list (N * N) * (nat * N))) : list nat :=
  idx_mismatch (fun c => let '(mo, mb, bl, o) := c in
                         negb (obs_eqb (gnb_obs (mode_of mo) mb (mk_blocks bl)) o)) cases O.

(* ---------- sortBlocks ---------- *)
(* sort.Slice is not stable: the observed order must be a permutation of the input
   (given as input positions) whose start-time sequence equals the model's *)
Fixpoint nth_blocks (l : list block) (idx : list nat) : option (list block) :=
  match idx with
  | [] => Some []
  | i :: r => match nth_error l i, nth_blocks l r with
              | Some b, Some t => Some (b :: t)
              | _, _ => None
              end
  end.
Definition is_perm_idx (n : nat) (idx : list nat) : bool :=
  Nat.eqb (length idx) n &&
  forallb (fun i => Nat.eqb (length (filter (Nat.eqb i) idx)) 1) (seq 0 n).

Definition sort_ok (m : mode) (l : list block) (idx : list nat) : bool :=
  is_perm_idx (length l) idx &&
  match nth_blocks l idx with
  | Some out => list_eqb N.eqb (map (start_of m) out) (map (start_of m) (sort_blocks m l))
  | None => false
  end.

(* a permutation of up to 9 positions encoded in decimal digits, first position = most significant *)
Fixpoint digits (k : nat) (n : N) : list nat :=
  match k with
  | O => []
  | S k' => digits k' (n / 10) ++ [N.to_nat (n mod 10)]
  end.


Fixpoint sort_exh_loop (m : mode) (ls : list (list block)) (obs : list N) (i : nat) : list nat :=
  match ls, obs with
  | [], [] => []
  | l :: lr, o :: or =>
    (if sort_ok m l (digits (length l) o) then [] else [i]) ++ sort_exh_loop m lr or (S i)
  | _, _ => [i; 9999%nat]
  end.
Definition check_sort_exhaustive (mo : N) (d : N) (kmax : nat) (obs : list N) : list nat :=
  sort_exh_loop (mode_of mo) (all_upto d kmax) obs O.

Definition check_sort (cases : list (N * list (N * N) * list nat)) : list nat :=
  idx_mismatch (fun c => let '(mo, bl, idx) := c in
                         negb (sort_ok (mode_of mo) (mk_blocks bl) idx)) cases O.

(* ---------- getValidRRCs ---------- *)
(* (mode, lastTimestamp, timestamps (sorted for the mode), observed count) *)
Definition check_valid (cases : list (N * N * list N * nat)) : list nat :=
  idx_mismatch (fun c => let '(mo, e, ts, n) := c in
                         negb (Nat.eqb (length (get_valid_rrcs (mode_of mo) e (map (fun t => (t, 0)) ts))) n)) cases O.

(* ---------- segment level: getQSRSToProcess + getFilteredBlocks ---------- *)
(* segment = (start, end, blocks (lo, hi, id)); observation per step =
   (ids of the blocks handed to the block level, starts of the segments left in the queue, cutoff, gotAll) *)
Definition mk_seg (s : N * N * list (N * N * N)) : seg :=
  let '(a, b, bl) := s in mkSeg a b (map (fun t => let '(l, h, i) := t in blk_id l h i) bl).

Definition seg_obs := (list N * list (N * N) * N * bool)%type.

Fixpoint seg_steps (m : mode) (st : state) (n : nat) : list seg_obs :=
  match n with
  | O => []
  | S k =>
    let '(bl, q', c, ga) := get_blocks m st in
    (map block_id bl, map (fun s => (sstart s, send s)) q', c, ga)
    :: seg_steps m (mkState q' [] [] c false ga true) k
  end.

Definition seg_obs_eqb (a b : seg_obs) : bool :=
  let '(i1, q1, c1, g1) := a in
  let '(i2, q2, c2, g2) := b in
  list_eqb N.eqb i1 i2 &&
  list_eqb (fun x y => (fst x =? fst y) && (snd x =? snd y)) q1 q2 &&
  (c1 =? c2) && Bool.eqb g1 g2.

Definition check_segs (cases : list (N * list (N * N * list (N * N * N)) * list seg_obs)) : list nat :=
  idx_mismatch (fun c => let '(mo, segs, obs) := c in
                         negb (list_eqb seg_obs_eqb
                                 (seg_steps (mode_of mo) (init_state (map mk_seg segs)) (length obs)) obs)) cases O.

(* ---------- sort command ---------- *)
(* value encodings from the harness *)
Definition vnum (micro : Z) (repr : list N) : value := VNum micro repr.
(* integer-typed value: dtype (true = SS_DT_UNSIGNED_NUM), the 64 bits of CVal, GetValueAsString *)
Definition vint (unsigned : bool) (bits : N) (repr : list N) : value := VInt unsigned bits repr.
Definition vstr (s : list N) : value := VStr None s.
Definition vnstr (micro : Z) (s : list N) : value := VStr (Some micro) s.

Definition op_of (n : N) : sop := match n with 1 => OpNum | 2 => OpStr | _ => OpAuto end.
Definition mk_eles (l : list (bool * N)) : list sort_ele := map (fun p => (fst p, op_of (snd p))) l.

(* records are (id, sort values); the real result is the id list.  Ties (EQUAL on all
   keys) may come out in any order, so the comparison is on the key lists: the observed
   records' keys must equal the keys of the model's first `limit`, position by position,
   up to EQUAL *)
Definition keys_equal (eles : list sort_ele) (a b : list value) : bool :=
  negb (less_real eles a b) && negb (less_real eles b a).

Fixpoint lookup_rec (id : N) (l : list (N * list value)) : option (list value) :=
  match l with
  | [] => None
  | (i, v) :: r => if i =? id then Some v else lookup_rec id r
  end.

Fixpoint keys_match (eles : list sort_ele) (model : list (list value)) (obs : list (option (list value))) : bool :=
  match model, obs with
  | [], [] => true
  | m :: mr, Some o :: or => keys_equal eles m o && keys_match eles mr or
  | _, _ => false
  end.

(* (sort elements, limit, batches of records, observed ids) *)
Definition check_sortcmd (cases : list (list (bool * N) * nat * list (list (N * list value)) * list N)) : list nat :=
  idx_mismatch (fun c => let '(el, limit, batches, obs) := c in
     let eles := mk_eles el in
     let model := process (less_real eles) limit (map (map snd) batches) in
     negb (keys_match eles model (map (fun id => lookup_rec id (concat batches)) obs))) cases O.

(* raw comparator: (elements, a, b, observed less(a,b)) *)
Definition check_less (cases : list (list (bool * N) * list value * list value * bool)) : list nat :=
  idx_mismatch (fun c => let '(el, a, b, o) := c in
     negb (Bool.eqb (less_real (mk_eles el) a b) o)) cases O.

(* compareValues: (element, a, b, observed code 1 EQUAL / 2 LESS / 3 GREATER) *)
Definition cmp_code (c : cmp) : N := match c with EQUAL => 1 | LESS => 2 | GREATER => 3 end.
Definition check_cmp (cases : list ((bool * N) * value * value * N)) : list nat :=
  idx_mismatch (fun c => let '(el, a, b, o) := c in
     negb (cmp_code (compare_values tolerance a b (fst el) (op_of (snd el))) =? o)) cases O.

(* head / tail processors: (n, batches of ids, observed ids) *)
Definition check_head (cases : list (nat * list (list N) * list N)) : list nat :=
  idx_mismatch (fun c => let '(n, batches, o) := c in
     negb (list_eqb N.eqb (head_process n 0 batches) o)) cases O.
Definition check_tail (cases : list (nat * list (list N) * list N)) : list nat :=
  idx_mismatch (fun c => let '(n, batches, o) := c in
     negb (list_eqb N.eqb (tail_process n batches) o)) cases O.

(* utils.MergeSortedSlices with the sorting function of the mode: (mode, sorted slices of
   (ts, id), observed ids).  The first slice wins ties, so the id order is determined. *)
Definition check_merge (cases : list (N * list (list (N * N)) * list N)) : list nat :=
  idx_mismatch (fun c => let '(mo, slices, o) := c in
     negb (list_eqb N.eqb (map snd (merge_all (rec_less (mode_of mo)) slices)) o)) cases O.

(* SegmetaProto.v — the REWRITE protocol of segmeta.json (pkg/segment/writer/segmetarw.go), system-call level.
     removeSegmetas            read segmeta.json line by line, keep the entries that are not dropped;
                               nothing to drop -> no call; nothing kept -> unlink(segmeta.json);
                               else open(segmeta.json.tmp, O_WRONLY|O_CREAT|O_TRUNC), one write per kept entry
                               (json + "\n"), rename(tmp, segmeta.json)
     BulkAddRotatedSegmetas    open(segmeta.json, O_APPEND|O_WRONLY|O_CREAT), ONE write with all new lines
     AddOrReplaceRotatedSegmeta = removeSegmetas {key} followed by BulkAddRotatedSegmetas [entry]
   The temporary file is part of the file-system state: a crash inside a rewrite leaves it behind with any content
   (complete lines, and after a short write a torn line), and it is still there when the NEXT rewrite starts after
   the restart.  What a restart (ReadLocalSegmeta / readSegMetaEntries) reads: bufio.ScanLines tokens, each through
   json.Unmarshal, unparsable lines skipped. *)
From SigM Require Import Base.
Open Scope nat_scope.

(* ---- file contents and the reader ---- *)

(* bufio.ScanLines: tokens end at "\n" (dropped); a final unterminated non-empty token is returned too *)
Fixpoint lines (b : bytes) : list bytes :=
  match b with
  | [] => []
  | c :: r => if N.eqb c 10 then [] :: lines r
              else match lines r with
                   | [] => [[c]]
                   | l :: ls => (c :: l) :: ls
                   end
  end.

(* dropCR: a trailing "\r" of the token is dropped *)
Fixpoint drop_cr (l : bytes) : bytes :=
  match l with
  | [] => []
  | [c] => if N.eqb c 13 then [] else [c]
  | c :: r => c :: drop_cr r
  end.

(* pwrite semantics of a write at descriptor offset [off] (holes read as 0) *)
Definition write_at (off : nat) (b old : bytes) : bytes :=
  firstn off (old ++ repeat 0%N (off - length old)) ++ b ++ skipn (off + length b) old.

Definition dflt {A} (d : A) (o : option A) : A := match o with Some x => x | None => d end.

Record mfs := { mainf : option bytes;    (* segmeta.json      (None = absent) *)
                tmpf  : option bytes }.  (* segmeta.json.tmp *)

Inductive mop :=
| TmpOpenTrunc                                  (* open(tmp, O_WRONLY|O_CREAT|O_TRUNC) *)
| TmpOpenKeep                                   (* open(tmp, O_WRONLY|O_CREAT) without O_TRUNC (with or without O_APPEND) *)
| TmpWrite (app : bool) (off : nat) (b : bytes) (* write(2) on the tmp descriptor: O_APPEND -> at the end of the file,
                                                   otherwise at the descriptor's offset *)
| Rename                                        (* rename(tmp, segmeta.json) *)
| MainOpen                                      (* open(segmeta.json, O_APPEND|O_WRONLY|O_CREAT) *)
| MainAppend (b : bytes)                        (* write(2) on that descriptor *)
| MainUnlink.                                   (* os.RemoveAll(segmeta.json) *)

Definition mstep (f : mfs) (o : mop) : mfs :=
  match o with
  | TmpOpenTrunc => {| mainf := mainf f; tmpf := Some [] |}
  | TmpOpenKeep => {| mainf := mainf f; tmpf := Some (dflt [] (tmpf f)) |}
  | TmpWrite app off b =>
      let t := dflt [] (tmpf f) in
      {| mainf := mainf f; tmpf := Some (if app then t ++ b else write_at off b t) |}
  | Rename => match tmpf f with
              | Some t => {| mainf := Some t; tmpf := None |}
              | None => f                                   (* ENOENT: nothing happens *)
              end
  | MainOpen => {| mainf := Some (dflt [] (mainf f)); tmpf := tmpf f |}
  | MainAppend b => {| mainf := Some (dflt [] (mainf f) ++ b); tmpf := tmpf f |}
  | MainUnlink => {| mainf := None; tmpf := tmpf f |}
  end.

Definition mrun (f : mfs) (ops : list mop) : mfs := fold_left mstep ops f.

(* one write per line, at consecutive offsets of a descriptor opened by this process *)
Fixpoint tmp_writes (app : bool) (off : nat) (ls : list bytes) : list mop :=
  match ls with
  | [] => []
  | l :: r => TmpWrite app off l :: tmp_writes app (off + length l) r
  end.

Inductive rm := RmKeys (ks : list nat) | RmIndex (ix : nat).

Section Proto.
  Variable E : Type.                       (* a segmeta entry *)
  Variable parse : bytes -> option E.      (* json.Unmarshal of one line; None: the line is skipped *)
  Variable enc : E -> bytes.               (* json.Marshal *)
  Variable key : E -> nat.                 (* SegmentKey *)
  Variable vt : E -> nat.                  (* VirtualTableName *)

  Definition read_entries (c : bytes) : list E :=
    flat_map (fun l => match parse (drop_cr l) with Some e => [e] | None => [] end) (lines c).

  (* what a restart loads *)
  Definition read_main (f : mfs) : list E := dflt [] (option_map read_entries (mainf f)).

  Definition line (e : E) : bytes := enc e ++ [10%N].
  Definition file_of (es : list E) : bytes := flat_map line es.

  Definition targeted (r : rm) (e : E) : bool :=
    match r with
    | RmKeys ks => existsb (Nat.eqb (key e)) ks
    | RmIndex ix => Nat.eqb (vt e) ix
    end.
  Definition keepb (r : rm) (e : E) : bool := negb (targeted r e).
  (* len(segbaseDirs) != 0: with keys the directories come from the keys themselves, with an index name from the
     entries of that index found in the file *)
  Definition found (r : rm) (es : list E) : bool :=
    match r with
    | RmKeys ks => match ks with [] => false | _ => true end
    | RmIndex _ => existsb (targeted r) es
    end.

  (* [trunc = true]: the code (O_TRUNC).  [trunc = false, app]: the variants that reuse an existing tmp file *)
  Definition remove_ops_gen (trunc app : bool) (m : option bytes) (r : rm) : list mop :=
    match m with
    | None => []                                           (* the read-only open fails: return *)
    | Some c =>
        let es := read_entries c in
        if negb (found r es) then [] else
        match filter (keepb r) es with
        | [] => [MainUnlink]
        | ks => (if trunc then TmpOpenTrunc else TmpOpenKeep) :: tmp_writes app 0 (map line ks) ++ [Rename]
        end
    end.
  Definition remove_ops := remove_ops_gen true false.

  Definition add_ops (es : list E) : list mop :=
    match es with [] => [] | _ => [MainOpen; MainAppend (file_of es)] end.

  (* one metadata rewrite *)
  Inductive act := Remove (r : rm) | Add (es : list E) | Replace (e : E).

  Definition act_ops_gen (trunc app : bool) (f : mfs) (a : act) : list mop :=
    match a with
    | Remove r => remove_ops_gen trunc app (mainf f) r
    | Add es => add_ops es
    | Replace e => remove_ops_gen trunc app (mainf f) (RmKeys [key e]) ++ add_ops [e]
    end.
  Definition act_ops := act_ops_gen true false.

  (* generations: each process runs one rewrite and dies after its first k calls (k >= the number of calls: the
     rewrite completed); the next process starts on what is on disk, the tmp file included *)
  Fixpoint run_gens_gen (trunc app : bool) (f : mfs) (gs : list (act * nat)) : mfs :=
    match gs with
    | [] => f
    | (a, k) :: r => run_gens_gen trunc app (mrun f (firstn k (act_ops_gen trunc app f a))) r
    end.
  Definition run_gens := run_gens_gen true false.

  (* ---- specification on entry lists (None = the file is absent) ---- *)
  Definition abs_remove (r : rm) (m : option (list E)) : option (list E) * nat :=
    match m with
    | None => (None, 0)
    | Some es =>
        if negb (found r es) then (Some es, 0) else
        match filter (keepb r) es with
        | [] => (None, 1)
        | ks => (Some ks, 2 + length ks)
        end
    end.

  Definition expect_add (m : option (list E)) (es : list E) (k : nat) : option (list E) :=
    match es with
    | [] => m
    | _ => if 2 <=? k then Some (dflt [] m ++ es) else if 1 <=? k then Some (dflt [] m) else m
    end.

  (* the entries segmeta.json holds after the first k calls of the rewrite: all or nothing for a removal *)
  Definition expect_act (m : option (list E)) (a : act) (k : nat) : option (list E) :=
    match a with
    | Remove r => let '(m', n) := abs_remove r m in if n <=? k then m' else m
    | Add es => expect_add m es k
    | Replace e => let '(m', n) := abs_remove (RmKeys [key e]) m in
                   if k <? n then m else expect_add m' [e] (k - n)
    end.

  Fixpoint spec_gens (m : option (list E)) (gs : list (act * nat)) : option (list E) :=
    match gs with
    | [] => m
    | (a, k) :: r => spec_gens (expect_act m a k) r
    end.

  (* the main file holds exactly the lines of m *)
  Definition WF (f : mfs) (m : option (list E)) : Prop := mainf f = option_map file_of m.
End Proto.

(* a concrete one-byte encoding "{d}" for the refuted variants and the non-vacuity examples *)
Definition enc_d (n : nat) : bytes := [123%N; N.of_nat (48 + n); 125%N].
Definition parse_d (l : bytes) : option nat :=
  match l with
  | [a; d; b] => if N.eqb a 123 && N.eqb b 125 then Some (N.to_nat d - 48) else None
  | _ => None
  end.

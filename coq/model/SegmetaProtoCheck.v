(* SegmetaProtoCheck.v — comparison of the segmeta.json rewrite model with observations of the real code:
   entries are (segment ordinal, index id); json.Marshal / json.Unmarshal are the dictionary of the complete lines the
   real writer produced for the scenario's segments (a line that is not in it does not parse: torn and glued lines). *)
From SigM Require Import Base SegmetaProto.
Open Scope nat_scope.

Definition ent := (nat * nat)%type.
Definition dict := list (bytes * ent).

Fixpoint dparse (d : dict) (l : bytes) : option ent :=
  match d with
  | [] => None
  | (b, e) :: r => if bytes_eqb b l then Some e else dparse r l
  end.
Fixpoint denc (d : dict) (e : ent) : bytes :=
  match d with
  | [] => []
  | (b, e') :: r => if Nat.eqb (fst e') (fst e) then b else denc r e
  end.

(* the rewrites the harness drives *)
Inductive rw :=
| Retention (segs : list nat)   (* retention.DeleteSegmentData on the listed segments that segmeta.json still names *)
| DelIndex (ix : nat)           (* delete-index request -> DeleteSegmentsForIndex *)
| ReplaceSeg (o : nat)          (* AddOrReplaceRotatedSegmeta of the entry read from segmeta.json *)
| NoRw.

Section D.
  Variable d : dict.
  Definition rd (f : mfs) : list ent := read_main ent (dparse d) f.
  Definition rops := remove_ops ent (dparse d) (denc d) fst snd.

  Definition rw_ops (f : mfs) (w : rw) : list mop :=
    let es := rd f in
    match w with
    | Retention segs =>
        match filter (fun o => existsb (fun e => Nat.eqb (fst e) o) es) segs with
        | [] => []
        | present => rops (mainf f) (RmKeys present)
        end
    | DelIndex ix => rops (mainf f) (RmIndex ix)
    | ReplaceSeg o =>
        match find (fun e => Nat.eqb (fst e) o) es with
        | Some e => act_ops ent (dparse d) (denc d) fst snd f (Replace ent e)
        | None => []
        end
    | NoRw => []
    end.

  (* start-up (syncSegMetaWithSegFullMeta): segments of a listed index whose directory has a readable .sfm and which
     segmeta.json does not name are appended to it, oldest first, by BulkAddRotatedSegmetas: an [Add] generation *)
  Definition adopt_ops (f : mfs) (dirs : list nat) : list mop :=
    let es := rd f in
    add_ops ent (denc d)
      (map (fun o => (o, 0)) (filter (fun o => negb (existsb (fun e => Nat.eqb (fst e) o) es)) dirs)).
End D.

Definition mop_eqb (a b : mop) : bool :=
  match a, b with
  | TmpOpenTrunc, TmpOpenTrunc | TmpOpenKeep, TmpOpenKeep | Rename, Rename | MainOpen, MainOpen | MainUnlink, MainUnlink => true
  | TmpWrite p o x, TmpWrite q n y => Bool.eqb p q && Nat.eqb o n && bytes_eqb x y
  | MainAppend x, MainAppend y => bytes_eqb x y
  | _, _ => false
  end.

Definition obytes_eqb (a b : option bytes) : bool :=
  match a, b with
  | Some x, Some y => bytes_eqb x y
  | None, None => true
  | _, _ => false
  end.

(* the calls completed before the crash: the first k observed calls, plus (short write) the first n bytes of the next
   write on the temporary file *)
Definition torn_op (o : mop) (n : nat) : list mop :=
  match o with
  | TmpWrite p off b => [TmpWrite p off (firstn n b)]
  | _ => []
  end.
Definition crash_prefix (obs : list mop) (k : nat) (torn : option nat) : list mop :=
  firstn k obs ++ match torn with
                  | Some n => match nth_error obs k with Some o => torn_op o n | None => [] end
                  | None => []
                  end.

(* one case: crash point of the first rewrite, the segments (ordinals, oldest first) that have a .sfm under a listed
   index in that state; observed after the restart and the complete second rewrite: bytes of segmeta.json (None =
   absent), whether segmeta.json.tmp exists, ordinals the real reader returns *)
Definition mcase := (nat * option nat * list nat * (option bytes * bool * list nat))%type.

Definition check_mcase (d : dict) (f0 : mfs) (obs1 : list mop) (r2 : rw) (c : mcase) : bool :=
  let '(k, torn, dirs, (omain, otmp, okeys)) := c in
  let fc := mrun f0 (crash_prefix obs1 k torn) in
  let f1 := mrun fc (adopt_ops d fc dirs) in
  let f2 := mrun f1 (rw_ops d f1 r2) in
  obytes_eqb (mainf f2) omain &&
  Bool.eqb (match tmpf f2 with Some _ => true | None => false end) otmp &&
  list_eqb Nat.eqb (map fst (rd d f2)) okeys.

Fixpoint bad_mcases (d : dict) (f0 : mfs) (obs1 : list mop) (r2 : rw) (cs : list mcase) (i : nat) : list nat :=
  match cs with
  | [] => []
  | c :: r => (if check_mcase d f0 obs1 r2 c then [] else [i]) ++ bad_mcases d f0 obs1 r2 r (S i)
  end.

(* index 0: the traced calls of the first rewrite are the model's calls for it on the traced segmeta.json *)
Definition check_meta (d : dict) (main0 : option bytes) (r1 r2 : rw) (obs1 : list mop) (cs : list mcase) : list nat :=
  let f0 := {| mainf := main0; tmpf := None |} in
  (if list_eqb mop_eqb (rw_ops d f0 r1) obs1 then [] else [0]) ++ bad_mcases d f0 obs1 r2 cs 1.

(* SortCmd.v — model of the `sort` command of the query pipeline
   (pkg/segment/query/processor/sortcommand.go, iqr.Sort / MergeIQRs / DiscardAfter,
   pkg/common/dtypeutils.AlmostEquals), of `head n` (headcommand.go), `tail n`
   (tailcommand.go) and from/size paging (scroller.go + ParseSearchBody).
   Definitions only. *)
From SigM Require Import Base.
Open Scope N_scope.

(* ------------------------------------------------------------------ *)
(* generic list machinery, parametrised by the comparator `less`      *)
(* ------------------------------------------------------------------ *)
Section GEN.
  Context {A : Type}.
  Variable less : A -> A -> bool.

  (* insertion before the first element that is not strictly smaller: the
     specification sort (stable; the element inserted is the EARLIER one) *)
  Fixpoint ins (x : A) (l : list A) : list A :=
    match l with
    | [] => [x]
    | y :: r => if less y x then y :: ins x r else x :: y :: r
    end.

  Fixpoint sort_by (l : list A) : list A :=
    match l with
    | [] => []
    | x :: r => ins x (sort_by r)
    end.

  (* iqr.MergeIQRs on two inputs followed by Append(leftover): utils.IndexOfMin
     starts with index 0 and switches to index 1 only if less(arr[1], arr[0]), so
     the first input wins ties; the loop stops when one input is exhausted and the
     other one's remainder is appended.  utils.MergeSortedSlices has the same
     tie rule (first slice wins). *)
  Fixpoint merge (a : list A) : list A -> list A :=
    fix mb (b : list A) : list A :=
      match a, b with
      | [], _ => b
      | _, [] => a
      | x :: a', y :: b' => if less y x then y :: mb b' else x :: merge a' b
      end.

  (* k-way MergeSortedSlices = right fold of the two-way merge (first slice wins ties) *)
  Definition merge_all (ls : list (list A)) : list A := fold_right merge [] ls.

  (* IQR.Sort(cols, less, limit): limit <= 1000 -> utils.GetTopN(limit, …) (the best
     `limit` records in order; what follows them is unspecified and is cut or sorts
     last), otherwise a full sort.Slice.  The heap and sort.Slice are not stable; the
     model uses the stable specification sort, observables are compared up to ties. *)
  Definition topn_threshold : nat := 1000.
  Definition sort_batch (limit : nat) (b : list A) : list A :=
    if Nat.leb limit topn_threshold then firstn limit (sort_by b) else sort_by b.

  (* IQR.DiscardAfter(n): keeps the first n (no-op when n > length) *)
  Definition discard_after (n : nat) (l : list A) : list A := firstn n l.

  (* sortProcessor.Process on one input batch; state = resultsSoFar (None = nil) *)
  Definition sort_step (limit : nat) (st : option (list A)) (b : list A) : option (list A) :=
    match st with
    | None => Some (discard_after limit (sort_batch limit b))
    | Some r => Some (discard_after limit (merge r (sort_batch limit b)))
    end.

  (* Process(nil): resultsSoFar is the final answer *)
  Definition process (limit : nat) (batches : list (list A)) : list A :=
    match fold_left (sort_step limit) batches None with
    | None => []
    | Some r => r
    end.

  Fixpoint sorted_by (l : list A) : bool :=
    match l with
    | [] => true
    | x :: r => match r with [] => true | y :: _ => negb (less y x) && sorted_by r end
    end.
End GEN.

(* ------------------------------------------------------------------ *)
(* head n: headProcessor.Process without a condition                   *)
(* ------------------------------------------------------------------ *)
Section HEAD.
  Context {A : Type}.
  (* state: numRecordsSent; result: records passed on and whether EOF was signalled *)
  Fixpoint head_process (limit sent : nat) (batches : list (list A)) : list A :=
    match batches with
    | [] => []
    | b :: r =>
      let keep := firstn (limit - sent) b in
      let sent' := (sent + length keep)%nat in
      if Nat.leb limit sent' then keep            (* io.EOF: upstream is not fetched again *)
      else keep ++ head_process limit sent' r
    end.

  (* scrollProcessor.Process: discards the first scrollFrom records of the stream *)
  Fixpoint scroll_process (from : nat) (batches : list (list A)) : list A :=
    match batches with
    | [] => []
    | b :: r =>
      if Nat.eqb from 0 then b ++ scroll_process 0 r
      else if Nat.ltb from (length b) then skipn from b ++ scroll_process 0 r
      else scroll_process (from - length b) r
    end.

  (* tailProcessor: keeps the last n records seen and returns them reversed *)
  Definition tail_step (n : nat) (st : option (list A)) (b : list A) : option (list A) :=
    match st with
    | None => Some (skipn (length b - n) b)
    | Some f =>
      if Nat.leb n (length b) then Some (skipn (length b - n) b)
      else Some (skipn (length f - (n - length b)) f ++ b)
    end.
  Definition tail_process (n : nat) (batches : list (list A)) : list A :=
    match fold_left (tail_step n) batches None with
    | None => []
    | Some f => rev f
    end.

  (* one request {from, size}: ParseSearchBody makes sizeLimit = size + from, the
     head limits the stream to sizeLimit, the scroller drops the first `from` *)
  Definition page (from size : nat) (result : list A) : list A :=
    skipn from (firstn (from + size) result).

  Fixpoint page_starts (k npages : nat) (from : nat) : list nat :=
    match npages with
    | O => []
    | S n => from :: page_starts k n (from + k)
    end.
End HEAD.

(* ------------------------------------------------------------------ *)
(* values and the comparator of `sort`                                 *)
(* ------------------------------------------------------------------ *)
(* A column value as the comparator sees it.  Numbers are exact rationals in
   units of 1e-6 (Z); the tolerance 1e-4 of AlmostEquals is 100 units.  Every
   value carries its string form (GetValueAsString) because op=str compares
   numbers as strings. *)
Inductive value :=
| VNum (micro : Z) (repr : list N)      (* SS_DT_FLOAT *)
| VInt (unsigned : bool) (bits : N) (repr : list N)
                                        (* SS_DT_UNSIGNED_NUM (CVal uint64) / SS_DT_SIGNED_NUM (CVal int64):
                                           the dtype and the 64 bits of CVal *)
| VStr (num : option Z) (s : list N)    (* SS_DT_STRING; num = Some q iff MightBeFloat && ParseFloat succeeds *)
| VNull.                                (* SS_DT_BACKFILL / SS_INVALID *)

(* ---- 64-bit integer sort keys (SS_DT_SIGNED_NUM: CVal int64, SS_DT_UNSIGNED_NUM: CVal uint64) ----
   The harness passes the 64-bit pattern of CVal and the dtype.  Two integer-typed values are
   compared exactly (compareInts); against a float or a numeric string an integer goes through
   GetFloatValueIfPossible (float64(int64) / float64(uint64)), i.e. the mathematical value of
   the integer rounded to 53 significant bits, nearest, ties to even; |value| < 2^64, so the
   exponent never overflows. *)
Definition int_of_bits (unsigned : bool) (bits : N) : Z :=
  if unsigned then Z.of_N bits
  else if (bits <? 9223372036854775808)%N then Z.of_N bits
       else (Z.of_N bits - 18446744073709551616)%Z.

(* n rounded to a multiple of 2^sh: nearest, ties to the even multiple (n >= 0) *)
Definition rne (n sh : Z) : Z :=
  let p := (2 ^ sh)%Z in
  let q := (n / p)%Z in
  let r := (n mod p)%Z in
  if (2 * r <? p)%Z then (q * p)%Z
  else if (p <? 2 * r)%Z then ((q + 1) * p)%Z
  else if Z.even q then (q * p)%Z else ((q + 1) * p)%Z.

(* the spacing of float64 at n: 2^(log2 n - 52), at least 1 *)
Definition ulp_shift (n : Z) : Z := Z.max 0 (Z.log2 n - 52).

(* float64(n) as an exact integer *)
Definition f64_of_int (n : Z) : Z :=
  if (n <? 0)%Z then (- rne (- n) (ulp_shift (- n)))%Z else rne n (ulp_shift n).

(* the integer survives the conversion unchanged *)
Definition f64_exact (n : Z) : bool := (f64_of_int n =? n)%Z.

Inductive sop := OpAuto | OpNum | OpStr.       (* "", "auto" -> OpAuto *)
Inductive rank := RNumeric | RString | ROther. (* 1, 2, 3 *)
Inductive cmp := EQUAL | LESS | GREATER.

Definition rank_n (r : rank) : nat := match r with RNumeric => 1 | RString => 2 | ROther => 3 end.

Definition get_rank (v : value) (op : sop) : rank :=
  match v with
  | VNull => ROther
  | VNum _ _ | VInt _ _ _ => match op with OpStr => RString | _ => RNumeric end
  | VStr num _ =>
    match op with
    | OpStr => RString
    | _ => match num with Some _ => RNumeric | None => RString end
    end
  end.

Definition tolerance : Z := 100.   (* 0.0001 in units of 1e-6 *)

(* compareFloat with dtypeutils.AlmostEquals: |a-b| < tol -> EQUAL *)
Definition compare_float (tol : Z) (a b : Z) : cmp :=
  if (Z.abs (a - b) <? tol)%Z || (a =? b)%Z then EQUAL
  else if (a <? b)%Z then LESS else GREATER.

(* Go string comparison = lexicographic on bytes *)
Fixpoint bytes_ltb (a b : list N) : bool :=
  match a, b with
  | [], [] => false
  | [], _ :: _ => true
  | _ :: _, [] => false
  | x :: a', y :: b' => if x <? y then true else if y <? x then false else bytes_ltb a' b'
  end.

Definition compare_string (a b : list N) : cmp :=
  if list_eqb N.eqb a b then EQUAL else if bytes_ltb a b then LESS else GREATER.

(* GetFloatValueIfPossible, in units of 1e-6 *)
Definition num_of (v : value) : option Z :=
  match v with
  | VNum q _ => Some q
  | VInt u b _ => Some (f64_of_int (int_of_bits u b) * 1000000)%Z
  | VStr n _ => n
  | VNull => None
  end.
Definition str_of (v : value) : option (list N) :=
  match v with VNum _ s => Some s | VInt _ _ s => Some s | VStr _ s => Some s | VNull => None end.

(* intBits: (negative?, the 64 bits) of an integer-typed value *)
Definition int_negative (unsigned : bool) (bits : N) : bool :=
  negb unsigned && (9223372036854775808 <=? bits)%N.

(* compareInts: different signs decide; with the same sign the bits compare as uint64 (two's
   complement keeps the numeric order) *)
Definition compare_ints (ua : bool) (ba : N) (ub : bool) (bb : N) : cmp :=
  let na := int_negative ua ba in
  let nb := int_negative ub bb in
  if negb (Bool.eqb na nb) then (if na then LESS else GREATER)
  else if (ba <? bb)%N then LESS
  else if (bb <? ba)%N then GREATER
  else EQUAL.

Definition flip (asc : bool) (c : cmp) : cmp :=
  if asc then c else match c with LESS => GREATER | GREATER => LESS | EQUAL => EQUAL end.

(* compareValues(valueA, valueB, asc, op) — same case order as the Go code.  Note
   that the three ROther cases return BEFORE the asc flip: missing values sort
   last in both directions. *)
Definition compare_values (tol : Z) (a b : value) (asc : bool) (op : sop) : cmp :=
  let ra := get_rank a op in
  let rb := get_rank b op in
  match ra, rb with
  | ROther, ROther => EQUAL
  | ROther, _ => GREATER
  | _, ROther => LESS
  | _, _ =>
    if Nat.ltb (rank_n ra) (rank_n rb) then flip asc LESS
    else if Nat.ltb (rank_n rb) (rank_n ra) then flip asc GREATER
    else match ra with
         | RNumeric =>
           match a, b with
           | VInt ua ba _, VInt ub bb _ => flip asc (compare_ints ua ba ub bb)   (* both IsInt() *)
           | _, _ =>
             match num_of a, num_of b with
             | None, _ => GREATER
             | _, None => LESS
             | Some x, Some y => flip asc (compare_float tol x y)
             end
           end
         | RString =>
           match str_of a, str_of b with
           | None, _ => GREATER
           | _, None => LESS
           | Some x, Some y => flip asc (compare_string x y)
           end
         | ROther => flip asc LESS
         end
  end.

(* one sort element: (ascending?, op); a record for `sort` = its sort values, one per element *)
Definition sort_ele := (bool * sop)%type.

Fixpoint less_keys (tol : Z) (eles : list sort_ele) (a b : list value) : bool :=
  match eles, a, b with
  | (asc, op) :: er, va :: ar, vb :: br =>
    match compare_values tol va vb asc op with
    | EQUAL => less_keys tol er ar br
    | LESS => true
    | GREATER => false
    end
  | _, _, _ => false
  end.

(* the comparator of the real code *)
Definition less_real := less_keys tolerance.
(* the comparator with exact numeric equality (tolerance 0: only a = b is EQUAL) *)
Definition less_exact := less_keys 0%Z.

(* guard under which the two agree: numeric sort keys pairwise equal or >= 1e-4 apart *)
Definition sep2 (a b : value) : bool :=
  match num_of a, num_of b with
  | Some x, Some y => (x =? y)%Z || (tolerance <=? Z.abs (x - y))%Z
  | _, _ => true
  end.
Fixpoint sep_keys (a b : list value) : bool :=
  match a, b with
  | va :: ar, vb :: br => sep2 va vb && sep_keys ar br
  | _, _ => true
  end.
(* every ordered pair of records of U is separated *)
Definition separated (U : list (list value)) : bool :=
  forallb (fun a => forallb (sep_keys a) U) U.

(* three-way lexicographic comparison of byte strings (used by the proofs) *)
Fixpoint lex_cmp (a b : list N) : cmp :=
  match a, b with
  | [], [] => EQUAL
  | [], _ :: _ => LESS
  | _ :: _, [] => GREATER
  | x :: a', y :: b' => if x <? y then LESS else if y <? x then GREATER else lex_cmp a' b'
  end.

(* numeric order of the first key, for stating what "out of order" means *)
Fixpoint num_sorted_asc (l : list (list value)) : bool :=
  match l with
  | [] => true
  | a :: r =>
    match r with
    | [] => true
    | b :: _ =>
      match a, b with
      | va :: _, vb :: _ =>
        match num_of va, num_of vb with
        | Some x, Some y => (x <=? y)%Z && num_sorted_asc r
        | _, _ => num_sorted_asc r
        end
      | _, _ => num_sorted_asc r
      end
    end
  end.

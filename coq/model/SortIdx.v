(* SortIdx.v — the reader of the on-disk SORT INDEX (pkg/segment/sortindex/sortindex.go:
   ReadSortIndex / readLine / pastCheckpoint), which Searcher.fetchSortedRRCsForQSR drains in
   batches to serve `sort` from a rotated segment that has <col>_{auto,num,str}.srt.

   File = list of LINES in the sort order of the column; line i = all blocks that hold records
   with the i-th value; block = (block number, record numbers).  A checkpoint is
   (line, number of records of that line already delivered, eof): the Go code keeps a byte
   offset and re-reads the line from its start, skipping every record whose end offset is
   <= the checkpoint offset (pastCheckpoint) - record j of the line is past the checkpoint
   iff j >= k where k records were consumed before the offset.  No proofs in this file. *)
From Coq Require Import List Arith Bool.
From SigM Require Import Base.
Import ListNotations.
Open Scope nat_scope.

Definition sblock := (N * list N)%type.      (* blockNum, recNums *)
Definition sline := list sblock.             (* the blocks of one value *)
Definition sfile := list sline.              (* lines in value order *)
Definition ckpt := (nat * nat * bool)%type.  (* lineNum, records of the line consumed, eof *)

(* the record loop of one block:
     for numRecords < totalRecordsInBlock && (readFullLine || totalRecordsRead < max) { … }
   pos = index (within the line) of the block's next record, read = totalRecordsRead.
   Result: delivered recNums, numRecords, totalRecordsRead. *)
Fixpoint take_recs (full : bool) (max k pos read : nat) (recs : list N) : list N * nat * nat :=
  match recs with
  | [] => ([], 0, read)
  | r :: rest =>
    if full || (read <? max) then
      if k <=? pos then
        let '(d, n, rd) := take_recs full max k (S pos) (S read) rest in (r :: d, S n, rd)
      else
        let '(d, n, rd) := take_recs full max k (S pos) read rest in (d, S n, rd)
    else ([], 0, read)
  end.

Definition is_nil {A} (l : list A) : bool := match l with [] => true | _ => false end.

(* the block loop of readLine: `for numBlocks < totalBlocks && !done`.
   Result: delivered blocks, gotToEndOfLine, records of the line consumed, totalRecordsRead.
     if totalRecordsRead >= max {
        gotToEndOfLine = (numBlocks == totalBlocks && numRecords == totalRecordsInBlock)
        if gotToEndOfLine || !readFullLine { done = true } }
   a block is appended iff the file position after it is past the checkpoint. *)
Fixpoint read_blocks (full : bool) (max k pos read : nat) (bs : list sblock)
  : list sblock * bool * nat * nat :=
  match bs with
  | [] => ([], true, pos, read)
  | (bn, recs) :: rest =>
    let '(d, n, rd) := take_recs full max k pos read recs in
    let pos' := pos + n in
    let outb := if k <? pos' then [(bn, d)] else [] in
    if max <=? rd then
      let eol := is_nil rest && (n =? length recs) in
      if eol || negb full then (outb, eol, pos', rd)
      else let '(o, e, p, r2) := read_blocks full max k pos' rd rest in (outb ++ o, e, p, r2)
    else let '(o, e, p, r2) := read_blocks full max k pos' rd rest in (outb ++ o, e, p, r2)
  end.

(* the variant that takes "this block was read completely" for "the line was read completely"
   (refuted below): stops after the block in which the quota was reached and, with
   readFullLine, declares the line finished *)
Fixpoint read_blocks_blockend (full : bool) (max k pos read : nat) (bs : list sblock)
  : list sblock * bool * nat * nat :=
  match bs with
  | [] => ([], true, pos, read)
  | (bn, recs) :: rest =>
    let '(d, n, rd) := take_recs full max k pos read recs in
    let pos' := pos + n in
    let outb := if k <? pos' then [(bn, d)] else [] in
    if max <=? rd then
      let eol := (n =? length recs) && (full || is_nil rest) in
      (outb, eol, pos', rd)
    else let '(o, e, p, r2) := read_blocks_blockend full max k pos' rd rest in (outb ++ o, e, p, r2)
  end.

Definition next_line (rev : bool) (nlines ln : nat) : nat * bool :=
  if rev then (match ln with O => (0, true) | S p => (p, false) end)
  else (S ln, nlines <=? S ln).

(* the line loop of ReadSortIndex: `for maxRecordsToRead > 0 && lineNum < total`;
   max is the remaining quota (> 0 on entry), the result carries (line number, blocks) per
   line read and the final checkpoint.  RB = the block loop (read_blocks). *)
Section Lines.
Variable RB : bool -> nat -> nat -> nat -> nat -> list sblock -> list sblock * bool * nat * nat.

Fixpoint read_lines (fuel : nat) (rev full : bool) (file : sfile) (max ln k : nat)
  : list (nat * list sblock) * ckpt :=
  match fuel with
  | O => ([], (ln, k, false))
  | S f =>
    let '(out, eol, pos, rd) := RB full max k 0 0 (nth ln file []) in
    if eol then
      let '(ln', eof) := next_line rev (length file) ln in
      if eof || (max <=? rd) then ([(ln, out)], (ln', 0, eof))
      else let '(ls, c) := read_lines f rev full file (max - rd) ln' 0 in ((ln, out) :: ls, c)
    else ([(ln, out)], (ln, pos, false))
  end.

(* one ReadSortIndex call from checkpoint c with quota q *)
Definition read_index (rev full : bool) (file : sfile) (q : nat) (c : ckpt)
  : list (nat * list sblock) * ckpt :=
  let '(ln, k, eof) := c in
  if eof then ([], c) else read_lines (S (length file)) rev full file q ln k.

(* the searcher's drain: one call per quota *)
Fixpoint drain (rev full : bool) (file : sfile) (qs : list nat) (c : ckpt)
  : list (list (nat * list sblock)) * ckpt :=
  match qs with
  | [] => ([], c)
  | q :: r =>
    let '(ls, c1) := read_index rev full file q c in
    let '(rest, c2) := drain rev full file r c1 in (ls :: rest, c2)
  end.
End Lines.

(* nil checkpoint: first line forward, last line in reverse *)
Definition start_ckpt (rev : bool) (file : sfile) : ckpt :=
  ((if rev then pred (length file) else 0), 0, is_nil file).

(* ---------- specification side ---------- *)
(* a record = (line, blockNum, recNum) *)
Definition srec := (nat * N * N)%type.
Definition recs_of_blocks (ln : nat) (bs : list sblock) : list srec :=
  flat_map (fun b => map (fun r => (ln, fst b, r)) (snd b)) bs.
Definition recs_of_lines (ls : list (nat * list sblock)) : list srec :=
  flat_map (fun l => recs_of_blocks (fst l) (snd l)) ls.

(* lines ln, ln+1, … (forward) / ln, ln-1, …, 0 (reverse), as (number, blocks) *)
Definition lines_from (rev : bool) (file : sfile) (ln : nat) : list (nat * list sblock) :=
  if rev then map (fun i => (i, nth i file [])) (List.rev (seq 0 (S ln)))
  else map (fun i => (i, nth i file [])) (seq ln (length file - ln)).

(* everything a reader at checkpoint c still has to deliver *)
Definition remaining (rev : bool) (file : sfile) (c : ckpt) : list srec :=
  let '(ln, k, eof) := c in
  if eof then [] else skipn k (recs_of_lines (lines_from rev file ln)).

Definition all_recs (rev : bool) (file : sfile) : list srec :=
  remaining rev file (start_ckpt rev file).

(* guards: no empty block, no empty line (the writer emits neither), quotas positive *)
Definition wf_file (file : sfile) : bool :=
  forallb (fun l => negb (is_nil l) && forallb (fun b => negb (is_nil (snd b))) l) file.
Definition wf_ckpt (file : sfile) (c : ckpt) : bool :=
  let '(ln, k, eof) := c in
  eof || ((ln <? length file) && (k <? length (recs_of_blocks ln (nth ln file [])))).

(* SortIdxCheck.v — comparison of the sort-index reader model with observed drains of the
   real sortindex.ReadSortIndex (generated case files of C05). *)
From Coq Require Import List Arith Bool NArith.
From SigM Require Import Base SortIdx.
Import ListNotations.
Open Scope nat_scope.

Definition sblock_eqb (a b : sblock) : bool :=
  N.eqb (fst a) (fst b) && list_eqb N.eqb (snd a) (snd b).
Definition oline_eqb (a b : nat * list sblock) : bool :=
  Nat.eqb (fst a) (fst b) && list_eqb sblock_eqb (snd a) (snd b).
Definition call_eqb (a b : list (nat * list sblock)) : bool := list_eqb oline_eqb a b.

Fixpoint idx_bad {A} (bad : A -> bool) (l : list A) (i : nat) : list nat :=
  match l with
  | [] => []
  | x :: r => (if bad x then [i] else []) ++ idx_bad bad r (S i)
  end.

(* one case: (reverse, readFullLine, file, quotas, observed lines per call, observed eof at the end) *)
Definition drain_case := (bool * bool * sfile * list nat * list (list (nat * list sblock)) * bool)%type.

Definition check_drain (cases : list drain_case) : list nat :=
  idx_bad (fun c => let '(rev, full, file, qs, obs, oeof) := c in
     let '(calls, c1) := drain read_blocks rev full file qs (start_ckpt rev file) in
     negb (list_eqb call_eqb calls obs && Bool.eqb (snd c1) oeof)) cases O.

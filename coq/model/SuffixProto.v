(* SuffixProto.v — the per-stream "next segment suffix" file (pkg/segment/writer/suffix/suffix.go) against
   crashes: getAndIncrementSuffixFromFile reads the file (absent or empty = 0), hands out that number and
   persists number+1 through writeSuffix (os.WriteFile(<file>.tmp) = open O_TRUNC + one write, then rename);
   the segment directory <suffix> is created afterwards.  After a crash the restarted writer allocates the
   number it reads from the file: it must never be the number of a directory that already exists, else later
   ingestion writes into a recovered segment. *)
From SigM Require Import Base.
Open Scope nat_scope.

Inductive sop :=
| SufTmpTrunc                (* open(<file>.tmp, O_CREAT|O_TRUNC) *)
| SufTmpWrite (n : nat)      (* {"suffix":n} written in one write(2) *)
| SufRename                  (* rename(<file>.tmp, <file>) *)
| SufTruncate                (* in-place variant: open(<file>, O_TRUNC) *)
| SufWriteInPlace (n : nat)  (* in-place variant: write into <file> *)
| SegDirCreate (s : nat).    (* first mkdir of the directory of segment s *)

Inductive sfile := SNoFile | SEmpty | SVal (n : nat).

Record sst := { sfile_ : sfile; stmp : sfile; dirs : list nat }.
Definition sst0 : sst := {| sfile_ := SNoFile; stmp := SNoFile; dirs := [] |}.

Definition sstep (x : sst) (o : sop) : sst :=
  match o with
  | SufTmpTrunc => {| sfile_ := sfile_ x; stmp := SEmpty; dirs := dirs x |}
  | SufTmpWrite n => {| sfile_ := sfile_ x; stmp := SVal n; dirs := dirs x |}
  | SufRename => {| sfile_ := stmp x; stmp := SNoFile; dirs := dirs x |}
  | SufTruncate => {| sfile_ := SEmpty; stmp := stmp x; dirs := dirs x |}
  | SufWriteInPlace n => {| sfile_ := SVal n; stmp := stmp x; dirs := dirs x |}
  | SegDirCreate s => {| sfile_ := sfile_ x; stmp := stmp x; dirs := s :: dirs x |}
  end.
Definition srun (x : sst) (ops : list sop) : sst := fold_left sstep ops x.

(* getSuffix: what the restarted writer hands out next *)
Definition next_suffix (x : sst) : nat :=
  match sfile_ x with SVal n => n | _ => 0 end.

(* one allocation of suffix j followed by the creation of its directory *)
Definition alloc_ops (j : nat) : list sop := [SufTmpTrunc; SufTmpWrite (S j); SufRename; SegDirCreate j].
Definition alloc_ops_inplace (j : nat) : list sop := [SufTruncate; SufWriteInPlace (S j); SegDirCreate j].

(* n allocations of one stream from a fresh data directory *)
Definition allocs (proto : nat -> list sop) (n : nat) : list sop := flat_map proto (seq 0 n).

(* no existing directory is handed out again *)
Definition fresh (x : sst) : bool := forallb (fun s => Nat.ltb s (next_suffix x)) (dirs x).

(* ---- comparison with the traced system calls ---- *)
Definition sop_eqb (a b : sop) : bool :=
  match a, b with
  | SufTmpTrunc, SufTmpTrunc | SufRename, SufRename | SufTruncate, SufTruncate => true
  | SufTmpWrite x, SufTmpWrite y | SufWriteInPlace x, SufWriteInPlace y | SegDirCreate x, SegDirCreate y => Nat.eqb x y
  | _, _ => false
  end.
(* observed: the suffix-file calls and first segment-directory creations of one stream, in order;
   obs: for sampled crash points k (counted in these calls) the suffix the restarted process allocated next *)
Definition check_suffix (atomic : bool) (n : nat) (observed : list sop) (obs : list (nat * nat)) : list nat :=
  let ops := allocs (if atomic then alloc_ops else alloc_ops_inplace) n in
  (if list_eqb sop_eqb ops observed then [] else [0]) ++
  flat_map (fun ko => if Nat.eqb (next_suffix (srun sst0 (firstn (fst ko) ops))) (snd ko) then [] else [S (fst ko)]) obs.

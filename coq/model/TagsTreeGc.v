(* TagsTreeGc.v — which tags-tree directories are deleted when some metrics segments are removed
   (pkg/segment/writer/metrics/meta/metricsmeta.go, removeMetricsSegmentsByList; reached by the retention cleaner through
   retention.DeleteMetricsSegmentData -> meta.RemoveMetricsSegments).

   metricmeta.json is a list of entries in rotation order; an entry names its segment directory and the tags-tree
   directory (TTreeDir) its series are looked up in. Segments of one shard rotated within one life of a tags tree holder
   (< 24 h) SHARE the tags-tree directory. A selector query on a closed segment without an in-memory holder (after a
   restart, or once the holder moved on) reads the tags tree from that directory.

   Model: entry = (segment id, tags-tree directory id); the set of segments to remove is a list of segment ids.
   No proofs here. *)
From SigM Require Import Base.
Open Scope N_scope.

Definition gc_entry := (N * N)%type.

Definition gc_mem (x : N) (l : list N) : bool := existsb (N.eqb x) l.

(* tagsTreeToDelete[d] = true (Go map used as a set) / delete(tagsTreeToDelete, d) *)
Definition gc_add (d : N) (l : list N) : list N := if gc_mem d l then l else l ++ [d].
Definition gc_del (d : N) (l : list N) : list N := filter (fun x => negb (x =? d)) l.

(* the scan over the file: state = (preservedEntries in file order, tagsTreeToDelete) *)
Definition gc_scan_step (rm : list N) (st : list gc_entry * list N) (e : gc_entry) : list gc_entry * list N :=
  let '(pres, del) := st in
  if gc_mem (fst e) rm then (pres, gc_add (snd e) del) else (pres ++ [e], del).

Definition gc_scan (rm : list N) (es : list gc_entry) : list gc_entry * list N :=
  fold_left (gc_scan_step rm) es ([], []).

(* after the scan: for _, mentry := range preservedEntries { delete(tagsTreeToDelete, mentry.TTreeDir) } *)
Definition gc_drop_preserved (pres : list gc_entry) (del : list N) : list N :=
  fold_left (fun d e => gc_del (snd e) d) pres del.

(* the code: (entries written back to the file, tags-tree directories removed from disk) *)
Definition gc_code (rm : list N) (es : list gc_entry) : list gc_entry * list N :=
  let '(pres, del) := gc_scan rm es in (pres, gc_drop_preserved pres del).

(* the "single pass" variant: a preserved entry takes its directory out of the set when it is read; no pass afterwards *)
Definition gc_single_step (rm : list N) (st : list gc_entry * list N) (e : gc_entry) : list gc_entry * list N :=
  let '(pres, del) := st in
  if gc_mem (fst e) rm then (pres, gc_add (snd e) del) else (pres ++ [e], gc_del (snd e) del).

Definition gc_single (rm : list N) (es : list gc_entry) : list gc_entry * list N :=
  fold_left (gc_single_step rm) es ([], []).

(* the store as a restarted process sees it: the entries of metricmeta.json and the tags-tree directories on disk *)
Definition gc_store := (list gc_entry * list N)%type.

Definition gc_retain_with (f : list N -> list gc_entry -> list gc_entry * list N) (s : gc_store) (rm : list N) : gc_store :=
  let '(es, dirs) := s in
  let '(pres, del) := f rm es in
  (pres, filter (fun d => negb (gc_mem d del)) dirs).

Definition gc_retain : gc_store -> list N -> gc_store := gc_retain_with gc_code.

(* a listed segment whose tags tree can be read: what a selector query after a restart needs *)
Definition gc_searchable (s : gc_store) (e : gc_entry) : Prop := In e (fst s) /\ In (snd e) (snd s).

(* TagsTreeGcCheck.v — comparison of the TagsTreeGc model with what a real retention pass left behind
   (harness/cmd/c08/retention.go). *)
From SigM Require Import Base TagsTreeGc.
Open Scope N_scope.

(* a case: the entries of metricmeta.json before the pass in file order (segment id, tags-tree directory id; ids by first
   appearance), the ids of the segments the pass was asked to remove, the segment ids listed in the file afterwards (file
   order) and the ids of the tags-tree directories that no longer exist afterwards *)
Definition gc_case := (list gc_entry * list N * list N * list N)%type.

Definition check_gc_case (c : gc_case) : bool :=
  let '(es, rm, listed, gone) := c in
  let '(pres, del) := gc_code rm es in
  list_eqb N.eqb (map fst pres) listed
  && forallb (fun d => gc_mem d del) gone
  && forallb (fun d => gc_mem d gone) del.

Fixpoint gc_bad_idx (l : list gc_case) (i : nat) : list nat :=
  match l with
  | [] => []
  | c :: r => (if check_gc_case c then [] else [i]) ++ gc_bad_idx r (S i)
  end.

Definition check_gc (cs : list gc_case) : list nat := gc_bad_idx cs 0.

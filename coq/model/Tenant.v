(* Tenant.v — model of tenant (organisation) and index isolation (C13).

   Follows pkg/virtualtable/virtualtable.go (table-name file + in-memory map per
   org, alias files + aliasToIndexNames, ExpandAndReturnIndexNames, DeleteVirtualTable),
   pkg/es/writer/esBulkHandler.go (AddAndGetRealIndexName, deleteIndex),
   pkg/segment/metadata/metadata.go (FilterSegmentsByTime, deleteTable),
   pkg/segment/writer/unrotatedquery.go (FilterUnrotatedSegmentsInQuery),
   pkg/segment/writer/segwriter.go + segmetarw.go (DeleteVirtualTableSegStore,
   removeSegmetas), cmd/startup (graceful shutdown) at the level of
   "which stored event is visible to which query".

   Names are byte strings (list N).  Definitions only; proofs are in
   SigP.TenantProofs. *)
From SigM Require Import Base.
Open Scope N_scope.

Definition name := list N.
Definition name_eqb : name -> name -> bool := list_eqb N.eqb.
Definition mem (x : name) (l : list name) : bool := existsb (name_eqb x) l.

Fixpoint dedup (l : list name) : list name :=
  match l with
  | [] => []
  | x :: r => if mem x r then dedup r else x :: dedup r
  end.

(* ---------- strings ---------- *)
Definition c_star : N := 42.   (* '*' *)
Definition c_plus : N := 43.   (* '+' *)
Definition c_comma : N := 44.  (* ',' *)
Definition c_dot : N := 46.    (* '.' *)
Definition c_colon : N := 58.  (* ':' *)
Definition c_quest : N := 63.  (* '?' *)
Definition c_nl : N := 10.

Fixpoint after_colon (e : name) : option name :=
  match e with
  | [] => None
  | c :: r => if c =? c_colon then Some r else after_colon r
  end.

(* indexNameIn[idx+1:] for the first ':' *)
Definition strip_colon (e : name) : name :=
  match after_colon e with Some r => r | None => e end.

(* strings.Split(e, ",") *)
Fixpoint split_comma (e : name) (cur : name) : list name :=
  match e with
  | [] => [rev cur]
  | c :: r => if c =? c_comma then rev cur :: split_comma r [] else split_comma r (c :: cur)
  end.

Definition has_star (n : name) : bool := existsb (N.eqb c_star) n.
Definition remove_stars (n : name) : name := filter (fun c => negb (c =? c_star)) n.

Fixpoint is_prefix (p s : name) : bool :=
  match p, s with
  | [], _ => true
  | _ :: _, [] => false
  | a :: p', b :: s' => (a =? b) && is_prefix p' s'
  end.

Fixpoint contains_sub (sub s : name) : bool :=
  is_prefix sub s || match s with [] => false | _ :: r => contains_sub sub r end.

(* "traces", "red-traces", "service-dependency" *)
Definition n_traces : name := [116;114;97;99;101;115].
Definition excluded_names : list name :=
  [ n_traces;
    [114;101;100;45;116;114;97;99;101;115];
    [115;101;114;118;105;99;101;45;100;101;112;101;110;100;101;110;99;121] ].
Definition n_kibana : name := [46;107;105;98;97;110;97].   (* ".kibana" *)

(* isIndexExcluded *)
Definition excluded (n : name) : bool := mem (remove_stars n) excluded_names.

(* ---------- the regular-expression fragment ----------
   PRE-FIX code: regexStr := "^" + strings.ReplaceAll(indexName, "*", ".*") + "$" is compiled by Go
   regexp (kept as documentation of the repaired defect: rx_matcher / expand_prefix).  Fragment modelled: literal bytes, '.', postfix '*' '+' '?' (incl. the lazy
   marker '?' after a repetition), the two anchors added by the code.  The bytes
   \ ( ) [ ] { } | ^ $ inside an index pattern are outside the fragment
   ([rx_supported] = false). *)
Inductive ratom := ALit (c : N) | ADot | AAny.
Inductive ritem := IOne (a : ratom) | IStar (a : ratom) | IPlus (a : ratom) | IOpt (a : ratom).

Definition amatch (a : ratom) (c : N) : bool :=
  match a with ALit d => c =? d | ADot => negb (c =? c_nl) | AAny => true end.

Definition rx_unsupported_bytes : list N := [92;40;41;91;93;123;125;124;94;36].
Definition rx_supported (p : name) : bool :=
  forallb (fun c => negb (existsb (N.eqb c) rx_unsupported_bytes)) p.

(* strings.ReplaceAll(p, "*", ".*") *)
Definition translate (p : name) : name :=
  flat_map (fun c => if c =? c_star then [c_dot; c_star] else [c]) p.

(* parser state: the operand a postfix operator would apply to is the head of [acc]
   (an atom) or the leading anchor ([anchor] = true: Go accepts "^+" (= "^") and "^?" / "^*"
   (an optional anchor: the expression is then unanchored at the start, modelled by a
   leading "any bytes" item));
   [lvl] 0 = no repetition yet, 1 = repeated, 2 = repeated and marked lazy. *)
Definition apply_rep (mk : ratom -> ritem) (acc : list ritem) : list ritem :=
  match acc with
  | IOne a :: r => mk a :: r
  | _ => acc
  end.

Fixpoint rx_parse (s : name) (acc : list ritem) (anchor : bool) (lvl : nat) : option (list ritem) :=
  match s with
  | [] => Some (rev acc)
  | c :: r =>
    if (c =? c_star) || (c =? c_plus) then
      match lvl with
      | O => rx_parse r (if anchor then (if c =? c_star then IStar AAny :: acc else acc)
                         else apply_rep (if c =? c_star then IStar else IPlus) acc) anchor 1
      | _ => None     (* invalid nested repetition operator *)
      end
    else if c =? c_quest then
      match lvl with
      | O => rx_parse r (if anchor then IStar AAny :: acc else apply_rep IOpt acc) anchor 1
      | S O => rx_parse r acc anchor 2     (* lazy marker: same language *)
      | _ => None
      end
    else rx_parse r (IOne (if c =? c_dot then ADot else ALit c) :: acc) false 0
  end.

(* regexp.Compile("^" + translate p + "$") *)
Definition rx_compile (p : name) : option (list ritem) := rx_parse (translate p) [] true 0.

(* whole-string match of the item sequence (anchored at both ends) *)
Fixpoint rmatch (p : list ritem) (s : name) {struct p} : bool :=
  match p with
  | [] => match s with [] => true | _ => false end
  | IOne a :: p' => match s with c :: s' => amatch a c && rmatch p' s' | [] => false end
  | IStar a :: p' =>
    (fix star (s : name) : bool :=
       rmatch p' s || match s with c :: s' => amatch a c && star s' | [] => false end) s
  | IPlus a :: p' =>
    match s with
    | c :: s' => amatch a c &&
      (fix star (s : name) : bool :=
         rmatch p' s || match s with c :: s' => amatch a c && star s' | [] => false end) s'
    | [] => false
    end
  | IOpt a :: p' =>
    rmatch p' s || match s with c :: s' => amatch a c && rmatch p' s' | [] => false end
  end.

(* the code's matcher for one wildcard term: None = regexp.Compile failed *)
Definition rx_matcher (p : name) : option (name -> bool) :=
  match rx_compile p with Some it => Some (rmatch it) | None => None end.

(* ---------- specification: glob matching, only '*' is special ---------- *)
Fixpoint glob_match (p s : name) {struct p} : bool :=
  match p with
  | [] => match s with [] => true | _ => false end
  | c :: p' =>
    if c =? c_star then
      (fix star (s : name) : bool :=
         glob_match p' s || match s with _ :: s' => star s' | [] => false end) s
    else match s with d :: s' => (c =? d) && glob_match p' s' | [] => false end
  end.

Definition glob_matcher (p : name) : option (name -> bool) := Some (glob_match p).

(* ---------- state ---------- *)
(* e_seg: number of the segment the event was written to; (e_org, e_tab, e_seg) identifies a segment
   (one segstore per (org, table); a new segment starts after every rotation) *)
Record event := mkEv { e_org : N; e_tab : name; e_rot : bool; e_id : N; e_seg : N }.

Record state := mkSt {
  ftabs : list (N * name);          (* lines of virtualtablenames[-org].txt *)
  mtabs : list (N * name);          (* allVirtualTables (in memory): decides whether a name is appended to the file *)
  adirs : list N;                   (* orgs whose aliases/<org>/ directory exists (org 0 uses the base directory) *)
  afile : list (N * name * name);   (* (org, f, k): key k in the JSON map of aliases/[org/]f.json *)
  amem  : list (N * name * name);   (* (org, alias, index): aliasToIndexNames[org][alias][index] *)
  akeys : list (N * name);          (* (org, alias): alias present in aliasToIndexNames[org], possibly with an empty set *)
  evs   : list event;               (* searchable events: flushed (open segment) or rotated *)
  ghost : list (N * name);          (* PRE-FIX only: unrotated-segment infos left in memory after their files were deleted;
                                       the fixed delete-index removes them, the field stays [] (TenantProofs.ghost_empty) *)
  segno : N                         (* rotation epoch: open segments carry this number *)
}.

Definition init : state := mkSt [] [] [] [] [] [] [] [] 0.

Definition pair_is (X : N) (n : name) (p : N * name) : bool := (fst p =? X) && name_eqb (snd p) n.
Definition has_tab (l : list (N * name)) (X : N) (n : name) : bool := existsb (pair_is X n) l.
Definition tabs_of (s : state) (X : N) : list name := map snd (filter (fun p => fst p =? X) (ftabs s)).
Definition aliases_of (s : state) (X : N) : list name := map snd (filter (fun p => fst p =? X) (akeys s)).
Definition alias_present (s : state) (X : N) (a : name) : bool := has_tab (akeys s) X a.
Definition trip_is (X : N) (a b : name) (t : N * name * name) : bool :=
  (fst (fst t) =? X) && name_eqb (snd (fst t)) a && name_eqb (snd t) b.
Definition alias_targets (s : state) (X : N) (a : name) : list name :=
  map snd (filter (fun t => (fst (fst t) =? X) && name_eqb (snd (fst t)) a) (amem s)).
Definition file_keys (s : state) (X : N) (f : name) : list name :=
  map snd (filter (fun t => (fst (fst t) =? X) && name_eqb (snd (fst t)) f) (afile s)).
Definition dir_ok (s : state) (X : N) : bool := (X =? 0) || existsb (N.eqb X) (adirs s).

(* ---------- ExpandAndReturnIndexNames, parametric in the wildcard matcher ---------- *)
Section Expand.
  Variable matcher : name -> option (name -> bool).

  Definition expand_term (s : state) (X : N) (term : name) : option (list name) :=
    if has_star term then
      if excluded term then Some []
      else match matcher term with
           | None => None
           | Some m =>
             Some (flat_map (fun a => if m a then alias_targets s X a else []) (aliases_of s X)
                   ++ filter m (tabs_of s X))
           end
    else if alias_present s X term then Some (alias_targets s X term)
    else Some [term].

  Fixpoint expand_terms (s : state) (X : N) (terms : list name) : option (list name) :=
    match terms with
    | [] => Some []
    | t :: r =>
      match expand_term s X t with
      | None => None
      | Some l => match expand_terms s X r with None => None | Some l' => Some (l ++ l') end
      end
    end.

  Definition expand_with (s : state) (X : N) (isElastic : bool) (expr0 : name) : list name :=
    let expr := strip_colon expr0 in
    let res :=
      if name_eqb expr [c_star]
      then Some (filter (fun t => negb (excluded t) && (isElastic || negb (contains_sub n_kibana t))) (tabs_of s X))
      else expand_terms s X (split_comma expr []) in
    match res with
    | None => []                                   (* regexp.Compile failed: return []string{} *)
    | Some l =>
      match dedup l with
      | [] => if excluded expr then [] else [expr]   (* "return the index as is" *)
      | l' => l'
      end
    end.
End Expand.

(* the code (after the fix "quote index pattern"): IndexPatternToRegexStr splits the pattern at '*',
   applies regexp.QuoteMeta to every part and joins the parts with ".*" under "(?s)^...$".  In the
   regex fragment this is: every byte other than '*' is a literal, '*' is "any bytes".  Compilation
   cannot fail. *)
Definition fixed_items (p : name) : list ritem :=
  map (fun c => if c =? c_star then IStar AAny else IOne (ALit c)) p.
Definition fixed_matcher (p : name) : option (name -> bool) := Some (rmatch (fixed_items p)).

Definition expand := expand_with fixed_matcher.
(* the specification: the same expansion with glob matching *)
Definition expand_glob := expand_with glob_matcher.
(* PRE-FIX code (documentation): the pattern went into the regexp unquoted, see rx_matcher above *)
Definition expand_prefix := expand_with rx_matcher.

(* ---------- ops ---------- *)
Inductive op :=
| Create (org : N) (idx : name)                 (* AddVirtualTable *)
| Ingest (org : N) (idx : name) (ids : list N)  (* HandleBulkBody (index actions) + flush of the WIP buffer *)
| Rotate                                        (* all open segments are rotated *)
| MkAliasDir (org : N)                          (* the deployment creates aliases/<org>/ *)
| AddAlias (org : N) (idx al : name)            (* AddAliases idx [al] *)
| RemAlias (org : N) (idx al : name)            (* RemoveAliases idx [al] *)
| Delete (org : N) (expr : name)                (* ProcessDeleteIndex *)
| Restart                                       (* graceful shutdown (ShutdownSiglensServer) + start on the same directory *)
| QSearch (org : N) (expr : name)               (* search / stats / SPL index block over an index expression *)
| QCols (org : N) (expr : name)                 (* ListColumnNamesHandler *)
| QList (org : N).                              (* ListIndicesHandler *)

Inductive out :=
| ONone
| OIds (l : list N)             (* markers of the returned events *)
| OPairs (l : list (N * name))  (* (org, index) whose marker column is listed *)
| ONames (l : list name)
| OCode (c : N).

Definition add_tab (s : state) (X : N) (t : name) : state :=
  if has_tab (mtabs s) X t then s
  else mkSt (ftabs s ++ [(X, t)]) (mtabs s ++ [(X, t)]) (adirs s) (afile s) (amem s) (akeys s) (evs s) (ghost s) (segno s).

(* IsAlias: some index of a non-empty alias entry; the harness only ingests through aliases with one target *)
Definition resolve (s : state) (X : N) (n : name) : name :=
  match alias_targets s X n with i :: _ => i | [] => n end.

Definition is_empty (n : name) : bool := match n with [] => true | _ => false end.

Definition put_alias (X : N) (idx : name) (st : list (N * name * name) * list (N * name)) (k : name) :=
  if is_empty k || is_empty idx then st
  else (fst st ++ [(X, k, idx)], snd st ++ [(X, k)]).

Definition add_alias (s : state) (X : N) (idx al : name) : state :=
  if is_empty idx then s
  else if negb (dir_ok s X) then s          (* writeAliasFile fails, nothing else happens *)
  else
    let cur := file_keys s X idx ++ [al] in
    let '(am, ak) := fold_left (put_alias X idx) cur (amem s, akeys s) in
    mkSt (ftabs s) (mtabs s) (adirs s) (afile s ++ [(X, idx, al)]) am ak (evs s) (ghost s) (segno s).

Definition rem_alias (s : state) (X : N) (idx al : name) : state :=
  if is_empty idx then s
  else mkSt (ftabs s) (mtabs s) (adirs s)
            (filter (fun t => negb (trip_is X idx al t)) (afile s))
            (filter (fun t => negb (trip_is X al idx t)) (amem s))
            (akeys s) (evs s) (ghost s) (segno s).

Definition sel_tab (names : list name) (X : N) (e : event) : bool :=
  (e_org e =? X) && mem (e_tab e) names.

Definition q_events (s : state) (X : N) (expr : name) : list event :=
  filter (sel_tab (expand s X false expr) X) (evs s).

Definition q_pairs (s : state) (X : N) (expr : name) : list (N * name) :=
  let names := expand s X false expr in
  map (fun e => (e_org e, e_tab e)) (filter (sel_tab names X) (evs s))
  ++ filter (fun p => (fst p =? X) && mem (snd p) names) (ghost s).

Definition q_list (s : state) (X : N) : list name :=
  filter (fun n => negb (is_empty n) && negb (name_eqb n [c_star])) (expand s X false [c_star]).

(* ---- what delete-index does to the stored segments of table n, requested by org X ----
   metadata.DeleteVirtualTable -> allSegmentMetadata.deleteTable(table, orgid):
     allSegKeysInTable := keys of the segments of tableSortedMetadata[table] with OrgId = orgid   [seg_keys]
     for every collected key: deleteSegmentKeyWithLock(key)                                       [del_seg, fold]
     delete(tableSortedMetadata, table)   -- the table entry of EVERY org                         [meta_delete_table]
   DeleteVirtualTableSegStore(table): the open segments of the table, of every org                 [del_evs]
   (removeSegmetas / RemoveAll delete the files of the same segments; an event without files is not searchable) *)
Definition in_seg_tab (X : N) (n : name) (e : event) : bool :=
  e_rot e && (e_org e =? X) && name_eqb (e_tab e) n.

(* one key per stored event of the segment: the code's map holds each key once, deleting a key a second
   time is a no-op there (key not found) and here (nothing left to filter) *)
Definition seg_keys (X : N) (n : name) (l : list event) : list N :=
  map e_seg (filter (in_seg_tab X n) l).

Definition del_seg (X : N) (n : name) (l : list event) (k : N) : list event :=
  filter (fun e => negb (in_seg_tab X n e && (e_seg e =? k))) l.

Definition meta_delete_table (X : N) (n : name) (l : list event) : list event :=
  filter (fun e => negb (e_rot e && name_eqb (e_tab e) n))
         (fold_left (del_seg X n) (seg_keys X n l) l).

Definition del_evs (X : N) (n : name) (l : list event) : list event :=
  filter (fun e => negb (negb (e_rot e) && name_eqb (e_tab e) n)) (meta_delete_table X n l).

(* documentation of a seeded regression (seeded/C13b): deleting while ranging over the very slice that
   deleteSegmentKeyWithLock shifts.  [arr] is the backing array (fixed length, stale tail), [live] the keys
   still in the metadata; position i is read from the shifted array. *)
Fixpoint remove_first (k : N) (l : list N) : list N :=
  match l with [] => [] | x :: r => if x =? k then r else x :: remove_first k r end.
Fixpoint range_delete_shifting (fuel i : nat) (arr live : list N) : list N :=
  match fuel with
  | O => live
  | S f =>
    match nth_error arr i with
    | None => live
    | Some k =>
      if existsb (N.eqb k) live
      then range_delete_shifting f (S i) (remove_first k arr ++ [last arr 0]) (remove_first k live)
      else range_delete_shifting f (S i) arr live
    end
  end.
Definition shifting_survivors (keys : list N) : list N :=
  range_delete_shifting (length keys) 0 keys keys.

(* one iteration of the loop in deleteIndex *)
Definition del_one (X : N) (acc : state * nat) (n : name) : state * nat :=
  let '(s, nf) := acc in
  if has_tab (ftabs s) X n then
    let s1 := match alias_targets s X n with
              | [] => s
              | _ :: _ => fold_left (fun st a => rem_alias st X n a) (file_keys s X n) s
              end in
    (* DeleteVirtualTable forgets the name in the file AND in allVirtualTables; DeleteVirtualTableSegStore
       also removes the unrotated-segment infos of the deleted segstores (no ghost is left) *)
    (mkSt (filter (fun p => negb (pair_is X n p)) (ftabs s1)) (filter (fun p => negb (pair_is X n p)) (mtabs s1))
          (adirs s1) (afile s1) (amem s1) (akeys s1)
          (del_evs X n (evs s1)) (ghost s1) (segno s1),
     nf)
  else (s, S nf).

Definition do_delete (s : state) (X : N) (expr : name) : state * N :=
  if name_eqb expr n_traces then (s, 405)
  else
    let names := expand s X true expr in
    let '(s', nf) := fold_left (del_one X) names (s, O) in
    (s', if Nat.eqb nf (length names) then 404 else 200).

Definition set_rot (e : event) : event := mkEv (e_org e) (e_tab e) true (e_id e) (e_seg e).

(* FlushAliasMapToFile: the in-memory map is per alias, the files are per index: for every index that has
   an alias in memory, aliases/[org/]<index>.json := the aliases of the index *)
Definition mem_indexes (s : state) : list (N * name) := map (fun t => (fst (fst t), snd t)) (amem s).
Definition aliases_of_index (s : state) (X : N) (idx : name) : list name :=
  map (fun t => snd (fst t)) (filter (fun t => (fst (fst t) =? X) && name_eqb (snd t) idx) (amem s)).
Definition flush_index (s : state) (fl : list (N * name * name)) (k : N * name) : list (N * name * name) :=
  if dir_ok s (fst k) then
    filter (fun t => negb ((fst (fst t) =? fst k) && name_eqb (snd (fst t)) (snd k))) fl
    ++ map (fun a => (fst k, snd k, a)) (aliases_of_index s (fst k) (snd k))
  else fl.

(* initializeAliasToIndexMap: <index>.json of every org (org 0: the base directory, org n: aliases/n/) *)
Definition loadable (t : N * name * name) : bool :=
  negb (is_empty (snd (fst t))) && negb (is_empty (snd t)).

Definition do_restart (s : state) : state :=
  let fl := fold_left (flush_index s) (mem_indexes s) (afile s) in
  let ld := filter loadable fl in
  mkSt (ftabs s) (filter (fun p => fst p =? 0) (ftabs s)) (adirs s) fl
       (map (fun t => (fst (fst t), snd t, snd (fst t))) ld)
       (map (fun t => (fst (fst t), snd t)) ld)
       (map set_rot (evs s)) [] (segno s + 1).

Definition step (s : state) (o : op) : state * out :=
  match o with
  | Create X n => (add_tab s X n, ONone)
  | Ingest X n ids =>
    match ids with
    | [] => (s, ONone)
    | _ =>
      let t := resolve s X n in
      let s1 := add_tab s X t in
      (mkSt (ftabs s1) (mtabs s1) (adirs s1) (afile s1) (amem s1) (akeys s1)
            (evs s1 ++ map (fun i => mkEv X t false i (segno s1)) ids) (ghost s1) (segno s1), ONone)
    end
  | Rotate => (mkSt (ftabs s) (mtabs s) (adirs s) (afile s) (amem s) (akeys s) (map set_rot (evs s)) (ghost s) (segno s + 1), ONone)
  | MkAliasDir X => (mkSt (ftabs s) (mtabs s) (adirs s ++ [X]) (afile s) (amem s) (akeys s) (evs s) (ghost s) (segno s), ONone)
  | AddAlias X idx al => (add_alias s X idx al, ONone)
  | RemAlias X idx al => (rem_alias s X idx al, ONone)
  | Delete X expr => let '(s', c) := do_delete s X expr in (s', OCode c)
  | Restart => (do_restart s, ONone)
  | QSearch X expr => (s, OIds (map e_id (q_events s X expr)))
  | QCols X expr => (s, OPairs (q_pairs s X expr))
  | QList X => (s, ONames (q_list s X))
  end.

Definition run_from (s : state) (ops : list op) : state := fold_left (fun st o => fst (step st o)) ops s.
Definition run (ops : list op) : state := run_from init ops.

(* outputs of every op of a sequence *)
Fixpoint outs_from (s : state) (ops : list op) : list out :=
  match ops with
  | [] => []
  | o :: r => let '(s', x) := step s o in x :: outs_from s' r
  end.

(* ====================================================================== *)
(* Ingest-side routing.  The writer keeps one open segstore per STREAM ID
   (segwriter.getOrCreateSegStore / allSegStores: looked up by stream id alone; table and org of an
   existing segstore are never re-checked), and
     utils.CreateStreamId(index, org) = fmt.Sprintf("%d-%v-%v", rand.Intn(MAX_SHARDS = 1), org, xxhash(index)).
   An event therefore lands in the (org, table) of whichever segstore owns its stream id.
   [step] above stores an ingested event directly under (X, t); [rstep] below routes it through the stream
   id as the code does.  SigP.TenantProofs proves that the two coincide because the stream id is injective
   on (org, index) (routing_is_direct), and refutes it for a separator-less concatenation. *)

(* decimal printing (%v of an integer) *)
Fixpoint dec_rev (fuel : nat) (n : N) : list N :=     (* least significant digit first *)
  match fuel with
  | O => []
  | S f => if n =? 0 then [] else (48 + n mod 10) :: dec_rev f (n / 10)
  end.
Definition dec (n : N) : list N :=
  if n =? 0 then [48] else rev (dec_rev (S (N.to_nat (N.log2 n))) n).

Definition c_dash : N := 45.

(* the full string of the real stream id, for a hash function h of the index name (shard 0) *)
Definition sid_str (h : name -> N) (X : N) (t : name) : list N :=
  [48; c_dash] ++ dec X ++ c_dash :: dec (h t).

(* the model's segstore key: "<org>-<index>", the index name standing for its hash
   (assumption: no xxhash collision among the index names in use) *)
Definition stream_key (X : N) (t : name) : name := dec X ++ c_dash :: t.

(* documentation of a seeded regression (seeded/C13c): org and index concatenated without separator *)
Definition concat_key (X : N) (t : name) : name := dec X ++ t.

Definition stores := list (name * (N * name)).   (* stream key -> (org, table) of the open segstore *)

Definition route (st : stores) (k : name) (dflt : N * name) : N * name :=
  match find (fun e => name_eqb (fst e) k) st with
  | Some e => snd e
  | None => dflt
  end.
Definition has_key (st : stores) (k : name) : bool := existsb (fun e => name_eqb (fst e) k) st.

Section Routed.
  Variable keyf : N -> name -> name.     (* CreateStreamId *)

  Definition rstep_with (rs : state * stores) (o : op) : (state * stores) * out :=
    let '(s, st) := rs in
    match o with
    | Ingest X n ids =>
      match ids with
      | [] => ((s, st), ONone)
      | _ =>
        let t := resolve s X n in
        let s1 := add_tab s X t in              (* AddAndGetRealIndexName: the table name is registered for (X, t) *)
        let k := keyf X t in
        let tgt := route st k (X, t) in          (* getOrCreateSegStore(streamid, ...) *)
        let st' := if has_key st k then st else st ++ [(k, (X, t))] in
        ((mkSt (ftabs s1) (mtabs s1) (adirs s1) (afile s1) (amem s1) (akeys s1)
               (evs s1 ++ map (fun i => mkEv (fst tgt) (snd tgt) false i (segno s1)) ids) (ghost s1) (segno s1),
          st'), ONone)
      end
    | Delete X expr =>
      (* DeleteVirtualTableSegStore(name) drops the open segstores of every deleted table name *)
      let names := if name_eqb expr n_traces then []
                   else filter (has_tab (ftabs s) X) (expand s X true expr) in
      let '(s', x) := step s o in
      ((s', filter (fun e => negb (mem (snd (snd e)) names)) st), x)
    | Restart => let '(s', x) := step s o in ((s', []), x)     (* ForcedFlushToSegfile empties allSegStores *)
    | _ => let '(s', x) := step s o in ((s', st), x)
    end.

  Fixpoint routs_with (rs : state * stores) (ops : list op) : list out :=
    match ops with
    | [] => []
    | o :: r => let '(rs', x) := rstep_with rs o in x :: routs_with rs' r
    end.
  Definition rrun_with (ops : list op) : state * stores :=
    fold_left (fun rs o => fst (rstep_with rs o)) ops (init, []).
End Routed.

(* the code *)
Definition rstep := rstep_with stream_key.
Definition routs_from := routs_with stream_key.
Definition rrun := rrun_with stream_key.

(* ====================================================================== *)
(* PRE-FIX semantics (documentation of repaired defects; no longer the code).
   del_one_prefix: DeleteVirtualTable left the name in allVirtualTables (a later ingest did not add it back to
     the file: delete answered 404 and the data stayed) and the unrotated-segment infos stayed in memory
     (column listing of a deleted index).
   do_restart_prefix: FlushAliasMapToFile wrote <alias>.json holding INDEX names, initializeAliasToIndexMap read
     every file as <index>.json and only in sub-directories (org 0's aliases were lost, other orgs' reversed). *)
Definition del_one_prefix (X : N) (acc : state * nat) (n : name) : state * nat :=
  let '(s, nf) := acc in
  if has_tab (ftabs s) X n then
    let s1 := match alias_targets s X n with
              | [] => s
              | _ :: _ => fold_left (fun st a => rem_alias st X n a) (file_keys s X n) s
              end in
    (mkSt (filter (fun p => negb (pair_is X n p)) (ftabs s1)) (mtabs s1) (adirs s1) (afile s1) (amem s1) (akeys s1)
          (del_evs X n (evs s1))
          (ghost s1 ++ map (fun e => (e_org e, e_tab e))
                           (filter (fun e => name_eqb (e_tab e) n && negb (e_rot e)) (evs s1)))
          (segno s1),
     nf)
  else (s, S nf).

Definition do_delete_prefix (s : state) (X : N) (expr : name) : state * N :=
  if name_eqb expr n_traces then (s, 405)
  else
    let names := expand s X true expr in
    let '(s', nf) := fold_left (del_one_prefix X) names (s, O) in
    (s', if Nat.eqb nf (length names) then 404 else 200).

Definition flush_one_prefix (s : state) (fl : list (N * name * name)) (k : N * name) : list (N * name * name) :=
  if dir_ok s (fst k) then
    filter (fun t => negb ((fst (fst t) =? fst k) && name_eqb (snd (fst t)) (snd k))) fl
    ++ map (fun i => (fst k, snd k, i)) (alias_targets s (fst k) (snd k))
  else fl.
Definition loadable_prefix (t : N * name * name) : bool :=
  negb (fst (fst t) =? 0) && negb (is_empty (snd (fst t))) && negb (is_empty (snd t)).
Definition do_restart_prefix (s : state) : state :=
  let fl := fold_left (flush_one_prefix s) (akeys s) (afile s) in
  let ld := filter loadable_prefix fl in
  mkSt (ftabs s) (filter (fun p => fst p =? 0) (ftabs s)) (adirs s) fl
       (map (fun t => (fst (fst t), snd t, snd (fst t))) ld)
       (map (fun t => (fst (fst t), snd t)) ld)
       (map set_rot (evs s)) [] (segno s + 1).

Definition step_prefix (s : state) (o : op) : state * out :=
  match o with
  | Delete X expr => let '(s', c) := do_delete_prefix s X expr in (s', OCode c)
  | Restart => (do_restart_prefix s, ONone)
  | _ => step s o
  end.
Definition run_prefix (ops : list op) : state := fold_left (fun st o => fst (step_prefix st o)) ops init.
Fixpoint outs_prefix (s : state) (ops : list op) : list out :=
  match ops with
  | [] => []
  | o :: r => let '(s', x) := step_prefix s o in x :: outs_prefix s' r
  end.

(* TenantCheck.v — executable comparison of the tenant model with observations of
   the real siglens code (used by the generated case files of C13). *)
From SigM Require Import Base Tenant TenantCrash.
Open Scope N_scope.

Definition subset {A} (eqb : A -> A -> bool) (a b : list A) : bool :=
  forallb (fun x => existsb (eqb x) b) a.
Definition set_eqb {A} (eqb : A -> A -> bool) (a b : list A) : bool :=
  subset eqb a b && subset eqb b a.

Definition pair_eqb (a b : N * name) : bool := (fst a =? fst b) && name_eqb (snd a) (snd b).

(* model output vs observation: id sets, pair sets and name sets are compared as sets *)
Definition out_agrees (m o : out) : bool :=
  match m, o with
  | ONone, ONone => true
  | OIds a, OIds b => set_eqb N.eqb a b
  | OPairs a, OPairs b => set_eqb pair_eqb a b
  | ONames a, ONames b => set_eqb name_eqb a b
  | OCode a, OCode b => a =? b
  | _, _ => false
  end.

Fixpoint mismatches (ms os : list out) (idx : nat) : list nat :=
  match ms, os with
  | [], [] => []
  | m :: mr, o :: or => (if out_agrees m o then [] else [idx]) ++ mismatches mr or (S idx)
  | _, _ => [idx]
  end.

(* indices of the ops whose observed output differs from the model's *)
Definition check_run (ops : list op) (obs : list out) : list nat :=
  mismatches (routs_from (init, []) ops) obs 0.

(* several scenarios in one file: index = 1000 * scenario + op *)
Fixpoint check_runs (cs : list (list op * list out)) (k : nat) : list nat :=
  match cs with
  | [] => []
  | (ops, obs) :: r => map (fun i => (1000 * k + i)%nat) (check_run ops obs) ++ check_runs r (S k)
  end.

(* model self-check on a case (redundant with the theorems): every id a query returns
   belongs to an event of the requesting org in a table of the code's expansion *)
Fixpoint self_check_from (s : state) (ops : list op) (idx : nat) : list nat :=
  match ops with
  | [] => []
  | o :: r =>
    let bad :=
      match o with
      | QSearch X e =>
        negb (forallb (fun ev => (e_org ev =? X) && mem (e_tab ev) (expand s X false e)) (q_events s X e))
      | QCols X e =>
        negb (forallb (fun p => (fst p =? X) && mem (snd p) (expand s X false e)) (q_pairs s X e))
      | _ => false
      end in
    (if bad then [idx] else []) ++ self_check_from (fst (step s o)) r (S idx)
  end.

(* the PRE-FIX matcher against Go regexp on the pre-fix translation: code 0 = no match, 1 = match, 2 = compile error *)
Definition rx_code (p s : name) : N :=
  match rx_matcher p with None => 2 | Some m => if m s then 1 else 0 end.

Fixpoint check_rx (cs : list (name * name * N)) (idx : nat) : list nat :=
  match cs with
  | [] => []
  | (p, s, c) :: r => (if rx_code p s =? c then [] else [idx]) ++ check_rx r (S idx)
  end.

(* glob specification against the harness' own glob implementation (path.Match restricted to '*') *)
Fixpoint check_glob (cs : list (name * name * bool)) (idx : nat) : list nat :=
  match cs with
  | [] => []
  | (p, s, b) :: r => (if Bool.eqb (glob_match p s) b then [] else [idx]) ++ check_glob r (S idx)
  end.

(* the real utils.CreateStreamId against the model's formula: [htbl] = xxhash of the index names as
   computed by the harness (external function as an observed table); obs = (org, index, real id string).
   index i: the real string differs from sid_str; index 1000+i: some j>i where "ids equal" and
   "pairs equal" disagree (on the REAL strings). *)
Definition hlook (htbl : list (name * N)) (t : name) : N :=
  match find (fun e => name_eqb (fst e) t) htbl with Some e => snd e | None => 0 end.

Fixpoint check_sid_str (htbl : list (name * N)) (obs : list (N * name * list N)) (idx : nat) : list nat :=
  match obs with
  | [] => []
  | (X, t, str) :: r =>
    (if name_eqb (sid_str (hlook htbl) X t) str then [] else [idx]) ++ check_sid_str htbl r (S idx)
  end.

Fixpoint check_sid_distinct (obs : list (N * name * list N)) (idx : nat) : list nat :=
  match obs with
  | [] => []
  | (X, t, str) :: r =>
    (if forallb (fun q => Bool.eqb (name_eqb str (snd q))
                                   ((fst (fst q) =? X) && name_eqb (snd (fst q)) t)) r
     then [] else [(1000 + idx)%nat]) ++ check_sid_distinct r (S idx)
  end.

Definition check_sid (htbl : list (name * N)) (obs : list (N * name * list N)) : list nat :=
  check_sid_str htbl obs 0 ++ check_sid_distinct obs 0.

(* crash-recovery stream: the model with on-disk records (TenantCrash.v) against the observed outputs;
   index = 1000 * scenario + op *)
Definition check_crash_run (ops : list cop) (obs : list out) : list nat :=
  mismatches (couts cinit ops) obs 0.

Fixpoint check_crash_runs (cs : list (list cop * list out)) (k : nat) : list nat :=
  match cs with
  | [] => []
  | (ops, obs) :: r => map (fun i => (1000 * k + i)%nat) (check_crash_run ops obs) ++ check_crash_runs r (S k)
  end.

(* TenantCrash.v — tenant ownership across an UNCLEAN death + start-up recovery (C13).

   Tenant.v models a graceful restart only: ForcedFlushToSegfile rotates every open segment, and the
   rotation-time metadata (segmeta.json) carries the org.  After an unclean death nothing is rotated:
   the in-memory bookkeeping (segstore.OrgId, UnrotatedSegmentInfo.orgid, allSegmentMicroIndex) is gone
   and start-up rebuilds it from the ON-DISK RECORDS alone:

     * segmeta.json                         one line per rotated segment (read for every org);
     * <segkey>.sfm of an OPEN segment      written by SegStore.AppendWipToSegfile -> WriteRunningSegMeta on
                                            every WIP flush; read by query.initSyncSegMetaForAllIds ->
                                            syncSegMetaWithSegFullMeta(myId) -> readSegFullMetaFileAndPopulate:
         for every myId of GetMyIds(), for every table name in myId's virtualtablenames file, for every
         segment directory under final/<table>/<CreateStreamId(table, myId)>/ that is not in the metadata yet:
         the SegMeta stored in the .sfm is added to the in-memory metadata AND appended to segmeta.json
         AS IT IS STORED — the org of the recovered segment is the `orgid` field of the record
         (`orgid,omitempty`: an absent field reads as 0), not the org of the directory it was found in.

   So the state below pairs the Tenant state (what queries see) with the list of on-disk segment records;
   [recover] rebuilds the searchable events from the records only.  The writer's choice of the org field of a
   running .sfm is a parameter [wr] ([wr_code] = the code: the segstore's org; [wr_orgless] = a record without
   the field), so that the theorem "recovery preserves provenance when the stored record carries the org" and
   its refutation for an org-less record are about the same step function.
   Histories of this model: create / ingest (+ WIP flush) / rotate / unclean restart / graceful restart /
   queries; no aliases and no delete-index (Tenant.v covers those; the harness stream crash_recovery issues none).
   Definitions only; proofs are in SigP.TenantCrashProofs. *)
From Coq Require Import List NArith Bool.
From SigM Require Import Base Tenant.
Import ListNotations.
Open Scope N_scope.

(* one on-disk segment record *)
Record srec := mkRec {
  r_dorg : N;          (* the directory: final/<r_dtab>/<shard>-<r_dorg>-<hash r_dtab>/<r_seg>/ *)
  r_dtab : name;
  r_seg  : N;
  r_org  : N;          (* SegMeta.OrgId as stored in the record (absent = 0) *)
  r_tab  : name;       (* SegMeta.VirtualTableName as stored *)
  r_ids  : list N;     (* the events of the blocks flushed so far *)
  r_listed : bool      (* the record is also a line of segmeta.json *)
}.

Definition cstate := (state * list srec)%type.
Definition cinit : cstate := (init, []).

Inductive cop :=
| CCreate (org : N) (idx : name)
| CIngest (org : N) (idx : name) (ids : list N)
| CRotate
| CCrash (my : list N)          (* unclean death + start with GetMyIds() = my *)
| CRestart (my : list N)        (* graceful shutdown (rotates everything) + start *)
| CSearch (org : N) (expr : name)
| CCols (org : N) (expr : name)
| CList (org : N).

Definition wr_code (X : N) : N := X.
Definition wr_orgless (_ : N) : N := 0.

Definition rec_is (X : N) (t : name) (g : N) (r : srec) : bool :=
  (r_dorg r =? X) && name_eqb (r_dtab r) t && (r_seg r =? g).

(* WriteRunningSegMeta: the .sfm of the open segment (X, t, g) is rewritten with the blocks flushed so far *)
Definition write_sfm (wr : N -> N) (d : list srec) (X : N) (t : name) (g : N) (ids : list N) : list srec :=
  map (fun r => if rec_is X t g r
                then mkRec (r_dorg r) (r_dtab r) (r_seg r) (wr X) t (r_ids r ++ ids) (r_listed r) else r) d
  ++ (if existsb (rec_is X t g) d then [] else [mkRec X t g (wr X) t ids false]).

(* rotation (checkAndRotateColFiles -> addSegmeta): the .sfm is rewritten from the segstore — its org is the
   org of the stream id the segstore is keyed by — and the same SegMeta becomes a line of segmeta.json *)
Definition rotate_rec (r : srec) : srec :=
  if r_listed r then r else mkRec (r_dorg r) (r_dtab r) (r_seg r) (r_dorg r) (r_dtab r) (r_ids r) true.

(* start-up: which records become searchable segments *)
Definition adoptable (my : list N) (s : state) (r : srec) : bool :=
  existsb (N.eqb (r_dorg r)) my && has_tab (ftabs s) (r_dorg r) (r_dtab r).
Definition visible (my : list N) (s : state) (r : srec) : bool := r_listed r || adoptable my s r.
(* BulkAddRotatedSegmetas: the adopted record is appended to segmeta.json as it is stored *)
Definition adopt (my : list N) (s : state) (r : srec) : srec :=
  if visible my s r then mkRec (r_dorg r) (r_dtab r) (r_seg r) (r_org r) (r_tab r) (r_ids r) true else r.
Definition rec_events (r : srec) : list event :=
  map (fun i => mkEv (r_org r) (r_tab r) true i (r_seg r)) (r_ids r).
Definition recover (my : list N) (s : state) (d : list srec) : list event :=
  flat_map rec_events (filter (visible my s) d).

(* the restarted process: table files stay, allVirtualTables is pre-loaded for the node's ids, the alias maps are
   re-read from the files (initializeAliasToIndexMap), every searchable event comes from a record *)
Definition crash_state (my : list N) (s : state) (d : list srec) : state :=
  let ld := filter loadable (afile s) in
  mkSt (ftabs s) (filter (fun p => existsb (N.eqb (fst p)) my) (ftabs s)) (adirs s) (afile s)
       (map (fun t => (fst (fst t), snd t, snd (fst t))) ld)
       (map (fun t => (fst (fst t), snd t)) ld)
       (recover my s d) [] (segno s + 1).

Definition rotate_state (s : state) : state := fst (step s Rotate).

Definition cstep_with (wr : N -> N) (c : cstate) (o : cop) : cstate * out :=
  let '(s, d) := c in
  match o with
  | CCreate X n => ((fst (step s (Create X n)), d), ONone)
  | CIngest X n ids =>
    match ids with
    | [] => (c, ONone)
    | _ => let t := resolve s X n in
           ((fst (step s (Ingest X n ids)), write_sfm wr d X t (segno s) ids), ONone)
    end
  | CRotate => ((rotate_state s, map rotate_rec d), ONone)
  | CCrash my => ((crash_state my s d, map (adopt my s) d), ONone)
  | CRestart my =>
    let s1 := rotate_state s in
    let d1 := map rotate_rec d in
    ((crash_state my s1 d1, map (adopt my s1) d1), ONone)
  | CSearch X e => (c, snd (step s (QSearch X e)))
  | CCols X e => (c, snd (step s (QCols X e)))
  | CList X => (c, snd (step s (QList X)))
  end.

Definition crun_with (wr : N -> N) (ops : list cop) : cstate :=
  fold_left (fun c o => fst (cstep_with wr c o)) ops cinit.

Fixpoint couts_with (wr : N -> N) (c : cstate) (ops : list cop) : list out :=
  match ops with
  | [] => []
  | o :: r => let '(c', x) := cstep_with wr c o in x :: couts_with wr c' r
  end.

Definition cstep := cstep_with wr_code.
Definition crun := crun_with wr_code.
Definition couts := couts_with wr_code.

(* ids a search of org X over expr returns in state c *)
Definition csearch (c : cstate) (X : N) (expr : name) : list N := map e_id (q_events (fst c) X expr).

(* TextPlan.v — the bloom check as a PLANNER (C03): besides keeping or dropping the block, the block-bloom check of a
   query on the wildcard column records WHICH columns of the block can hold the value
   (timeFilteredBlocks[blk][cname] = true  ->  SegmentSearchRequest.CmiPassedCnames), and an equality on the wildcard
   column with a string value (`{"term":{"*":"alpha"}}`, query_string `*:alpha`: ExpressionFilter on "*", SearchType
   SimpleExpressionAllColumns) is then searched in those columns only (filterRecordsFromSearchQuery: cmiPassedCnames =
   columns of the block that are in CmiPassedCnames[blk]; the dictionary search and the record loop walk exactly these).
   Word / regex searches on all columns (MatchWordsAllColumns, RegexExpressionAllColumns) ignore the list.

   Follows  pkg/segment/query/metadata/blockmeta.go  doBloomCheckAllCol   (rotated segments)
            pkg/segment/writer/unrotatedquery.go     doBloomCheckForCols  (open segments, colsToCheck = usi.allColumns)
            pkg/segment/search/filtersearch.go       filterRecordsFromSearchQuery (candidate columns)
   Definitions only. *)
From SigM Require Import Base Prune.
From Coq Require Import List NArith Bool.
Import ListNotations.

(* the micro index of one column of one block as the bloom check sees it:
   Some test = a bloom filter (CMI_BLOOM_INDEX), None = a range index (skipped by the bloom loops) *)
Definition colidx := (bytes * option (bytes -> bool))%type.

(* entryExists: the key, or the key as typed when the search is case-insensitive *)
Definition col_hit (k : bytes * option bytes) (c : colidx) : bool :=
  match snd c with Some t => probe t k | None => false end.

(* doBloomCheckAllCol, inner loop for one key: EVERY bloom column of the block whose filter has the key is recorded *)
Definition key_cols (cmis : list colidx) (k : bytes * option bytes) : list bytes :=
  map fst (filter (col_hit k) cmis).

(* doBloomCheckForCols (open segment), inner loop for one key: the columns of the SEGMENT (colsToCheck) are walked,
   `cmi, ok := currInfo[col]` looks the column up in the block; no entry / no filter: skipped *)
Fixpoint cmi_lookup (c : bytes) (cmis : list colidx) : option colidx :=
  match cmis with
  | [] => None
  | x :: r => if bytes_eqb (fst x) c then Some x else cmi_lookup c r
  end.
Definition key_cols_unrot (segcols : list bytes) (cmis : list colidx) (k : bytes * option bytes) : list bytes :=
  filter (fun c => match cmi_lookup c cmis with Some x => col_hit k x | None => false end) segcols.

(* NOT the code: the inner loop with an early exit at the first positive column (the loop the sibling
   doBloomCheckForCol has for a NAMED column list); the order of the list stands for Go's map order *)
Definition key_cols_first (cmis : list colidx) (k : bytes * option bytes) : list bytes :=
  match key_cols cmis k with [] => [] | c :: _ => [c] end.

(* the loop over the bloom keys, common to both functions; kc = the inner loop.
   And: the first key found nowhere drops the block (break); otherwise the columns of all keys are recorded.
   Or : the loop stops at the first key that is found (break): only its columns are recorded; no key found: dropped;
        no key at all: kept with no column.   None = block deleted from timeFilteredBlocks *)
Section KeysLoop.
  Variable kc : bytes * option bytes -> list bytes.
  Fixpoint keys_and (keys : list (bytes * option bytes)) : option (list bytes) :=
    match keys with
    | [] => Some []
    | k :: r => match kc k with
                | [] => None
                | cs => match keys_and r with Some cs' => Some (cs ++ cs') | None => None end
                end
    end.
  Fixpoint keys_or (keys : list (bytes * option bytes)) : option (list bytes) :=
    match keys with
    | [] => None
    | k :: r => match kc k with [] => keys_or r | cs => Some cs end
    end.
  Definition keys_loop (keys : list (bytes * option bytes)) (o : lop) : option (list bytes) :=
    match o with
    | LAnd => keys_and keys
    | LOr => match keys with [] => Some [] | _ => keys_or keys end
    end.
End KeysLoop.

Definition allcol_rotated (cmis : list colidx) (keys : list (bytes * option bytes)) (o : lop) : option (list bytes) :=
  keys_loop (key_cols cmis) keys o.
Definition allcol_unrotated (segcols : list bytes) (cmis : list colidx) (keys : list (bytes * option bytes)) (o : lop)
  : option (list bytes) :=
  keys_loop (key_cols_unrot segcols cmis) keys o.
Definition allcol_rotated_first (cmis : list colidx) (keys : list (bytes * option bytes)) (o : lop) : option (list bytes) :=
  keys_loop (key_cols_first cmis) keys o.

(* ---------- records, blocks, segments ---------- *)
Definition scell := (bytes * bytes)%type.                 (* column, string value *)
Definition srec := (nat * list scell)%type.               (* id, the string cells of the record *)
Record tblock := mkTB { tb_recs : list srec; tb_num : list bytes (* columns holding numbers: range index *) }.
Definition tseg := (bool * list tblock)%type.             (* open?, blocks *)

Definition col_values (c : bytes) (recs : list srec) : list bytes :=
  flat_map (fun r => map snd (filter (fun cv => bytes_eqb (fst cv) c) (snd r))) recs.
Definition rec_cols (recs : list srec) : list bytes := flat_map (fun r => map fst (snd r)) recs.

(* the micro indexes of a block: one filter per string column over all its values in the block (mk = how a filter is
   built from the values and probed), a range index per numeric column *)
Definition blk_cmis (mk : list bytes -> bytes -> bool) (b : tblock) : list colidx :=
  map (fun c => (c, Some (mk (col_values c (tb_recs b))))) (rec_cols (tb_recs b))
  ++ map (fun c => (c, @None (bytes -> bool))) (tb_num b).
Definition blk_cols (b : tblock) : list bytes := rec_cols (tb_recs b) ++ tb_num b.
Definition seg_cols (bs : list tblock) : list bytes := flat_map blk_cols bs.          (* usi.allColumns *)

(* SimpleExpressionAllColumns with a string literal on the candidate columns (None = every column):
   some candidate column of the record holds the value (fopOnString Equals) *)
Definition rec_eq_in (ci : bool) (cs : option (list bytes)) (key : bytes) (r : srec) : bool :=
  existsb (fun cv => match cs with None => true | Some l => mem_bytes (fst cv) l end && eq_ci ci key (snd cv)) (snd r).

Definition search_block (ci : bool) (key : bytes) (plan : option (list bytes)) (b : tblock) : list nat :=
  match plan with
  | None => []                                                            (* block pruned *)
  | Some cs => map fst (filter (rec_eq_in ci (Some cs) key) (tb_recs b))  (* searched in the candidate columns *)
  end.

(* the answer of a layout to  * = key : per segment, per block, the plan of the (open / rotated) bloom check *)
Definition seg_answer (mk : list bytes -> bytes -> bool) (ci : bool) (k : bytes * option bytes) (s : tseg) : list nat :=
  flat_map (fun b =>
    search_block ci (fst k)
      (if fst s then allcol_unrotated (seg_cols (snd s)) (blk_cmis mk b) [k] LAnd
       else allcol_rotated (blk_cmis mk b) [k] LAnd) b) (snd s).
Definition allcol_answer (mk : list bytes -> bytes -> bool) (ci : bool) (k : bytes * option bytes) (L : list tseg) : list nat :=
  flat_map (seg_answer mk ci k) L.

(* the variant with the early exit, rotated segments only (open segments as the code) *)
Definition seg_answer_first (mk : list bytes -> bytes -> bool) (ci : bool) (k : bytes * option bytes) (s : tseg) : list nat :=
  flat_map (fun b =>
    search_block ci (fst k)
      (if fst s then allcol_unrotated (seg_cols (snd s)) (blk_cmis mk b) [k] LAnd
       else allcol_rotated_first (blk_cmis mk b) [k] LAnd) b) (snd s).
Definition allcol_answer_first (mk : list bytes -> bytes -> bool) (ci : bool) (k : bytes * option bytes) (L : list tseg) : list nat :=
  flat_map (seg_answer_first mk ci k) L.

(* layout-free specification: the records in which SOME column holds the value *)
Definition layout_recs (L : list tseg) : list srec := flat_map (fun s => flat_map tb_recs (snd s)) L.
Definition allcol_spec (ci : bool) (key : bytes) (recs : list srec) : list nat :=
  map fst (filter (rec_eq_in ci None key) recs).

(* a filter without false positives: the exact token set (legal instance of the bloom hypotheses; used by the
   witnesses and by the case files, whose filters are far too large for a false positive) *)
Definition exact_filter (vals : list bytes) (k : bytes) : bool := mem_bytes k (tokens_of_values vals).

(* TimePrune.v (C03) — the query TIME RANGE as a pruning accelerator.
   A time-bounded query is answered in three steps, all driven by TimeRange.CheckRangeOverLap /
   CheckInRange (pkg/common/dtypeutils/dtypeutils.go):
   * segment level: a segment whose time range does not overlap the query range is not asked
     (metadata.go FilterSegmentsByTime / unrotatedquery.go FilterUnrotatedSegmentsInQuery);
   * block level: metautils.FilterBlocksByTime (metacheckers.go) — the first step of the micro-index
     check of rotated segments (blockmeta.RunCmiCheck) and of open segments
     (UnrotatedSegmentInfo.DoCMICheckForUnrotated): a loop over the block summaries of the segment IN
     THE ORDER THE BLOCKS WERE WRITTEN (ingest order, not time order) that keeps block i when the
     block tracker allows it and [LowTs, HighTs] overlaps the query range;
   * record level: a record of a kept block is returned when its timestamp is in the range
     (filtersearch.go / segsearch.go CheckInRange; skipped for fully enclosed blocks, where it is true).
   The blocks that survive are what the block scheduler (Sched.v / Fetch.v) sees.
   Also here: the variant of the block loop that stops at the first block starting after the end of
   the query range (correct only when the block summaries are ascending in LowTs; not the code), used
   for the refutation, and the comparison functions of the generated case files.
   Definitions only. *)
From SigM Require Import Base SortCmd Sched Fetch.
Open Scope N_scope.

(* dtu.TimeRange: StartEpochMs, EndEpochMs (uint64) *)
Definition trange := (N * N)%type.
Definition tr_start (tr : trange) : N := fst tr.
Definition tr_end (tr : trange) : N := snd tr.

(* (tsVal *TimeRange) CheckRangeOverLap(earliest_ts, latest_ts): the three disjuncts in the order of the code *)
Definition overlap (tr : trange) (lo hi : N) : bool :=
  ((tr_start tr <=? lo) && (lo <=? tr_end tr)) ||
  ((tr_start tr <=? hi) && (hi <=? tr_end tr)) ||
  ((lo <=? tr_start tr) && (tr_end tr <=? hi)).

(* (tsVal *TimeRange) CheckInRange(timeStamp) *)
Definition ts_in_range (tr : trange) (t : N) : bool := (tr_start tr <=? t) && (t <=? tr_end tr).

(* ---------- FilterBlocksByTime ---------- *)
(* a block summary: LowTs, HighTs *)
Definition bsum := (N * N)%type.

(* structs.BlockTracker: entireFile (None) or the set of excluded block numbers *)
Definition tracker := option (list nat).
Definition should_process (t : tracker) (i : nat) : bool :=
  match t with
  | None => true
  | Some ex => negb (existsb (Nat.eqb i) ex)
  end.

(* `for i, blockSummary := range bSum { if ShouldProcessBlock(i) && CheckRangeOverLap(LowTs, HighTs) { keep i } }`
   (block numbers below 2^16: uint16(i) = i) *)
Fixpoint fbt_loop (t : tracker) (tr : trange) (bs : list bsum) (i : nat) : list nat :=
  match bs with
  | [] => []
  | b :: r =>
    (if should_process t i && overlap tr (fst b) (snd b) then [i] else []) ++ fbt_loop t tr r (S i)
  end.
Definition filter_blocks_by_time (t : tracker) (tr : trange) (bs : list bsum) : list nat :=
  fbt_loop t tr bs O.

(* NOT the code: the loop with an early exit at the first block whose LowTs is after the end of the query range
   ("blocks are appended in time order") *)
Fixpoint fbt_break_loop (t : tracker) (tr : trange) (bs : list bsum) (i : nat) : list nat :=
  match bs with
  | [] => []
  | b :: r =>
    if tr_end tr <? fst b then []
    else (if should_process t i && overlap tr (fst b) (snd b) then [i] else []) ++ fbt_break_loop t tr r (S i)
  end.
Definition filter_blocks_by_time_break (t : tracker) (tr : trange) (bs : list bsum) : list nat :=
  fbt_break_loop t tr bs O.

(* ---------- a time-bounded query over a layout (Fetch.lseg: blocks with summaries and matching records) ---------- *)
Definition in_range (tr : trange) (r : rec) : bool := ts_in_range tr (rts r).

Definition bsum_of (b : lblock) : bsum := fst b.

(* the blocks of the segment whose numbers the block filter returned *)
Definition pick_blocks (s : lseg) (ks : list nat) : list lblock :=
  flat_map (fun i => match nth_error s i with Some b => [b] | None => [] end) ks.

(* record level: the matching records of the block that are inside the range *)
Definition restrict_block (tr : trange) (b : lblock) : lblock :=
  (fst (fst b), snd (fst b), filter (in_range tr) (snd b)).

Section QUEUE.
  (* the block filter in use (FilterBlocksByTime, or the variant) *)
  Variable flt : tracker -> trange -> list bsum -> list nat.

  (* one segment as the scheduler gets it: segKeyTsRange stays the range of the whole segment, the blocks are the
     ones that passed the filter, each with its in-range records *)
  Definition time_seg (tr : trange) (s : lseg) : seg :=
    mkSeg (seg_lo s) (seg_hi s)
          (map (fun b => to_block (restrict_block tr b)) (pick_blocks s (flt None tr (map bsum_of s)))).

  (* segment level + block level + record level *)
  Definition time_queue (tr : trange) (L : list lseg) : list seg :=
    map (time_seg tr) (filter (fun s => overlap tr (seg_lo s) (seg_hi s)) L).

  (* plain search, sort mode recentFirst, GOMAXPROCS = procs: ids in the order released, EOF reached *)
  Definition time_answer_with (procs : nat) (tr : trange) (L : list lseg) : list N * bool :=
    let '(out, eof) := run RecentFirst procs (time_queue tr L) in (map snd out, eof).
End QUEUE.

Definition time_fetch_answer := time_answer_with filter_blocks_by_time.
Definition time_fetch_answer_break := time_answer_with filter_blocks_by_time_break.

(* the specification: the matching records whose timestamp is inside the range *)
Definition time_spec (tr : trange) (L : list lseg) : list rec :=
  filter (in_range tr) (concat (map (fun s => concat (map snd s)) L)).

(* ---------- comparison with the real code ---------- *)
Fixpoint listnat_eqb (a b : list nat) : bool :=
  match a, b with
  | [], [] => true
  | x :: a', y :: b' => Nat.eqb x y && listnat_eqb a' b'
  | _, _ => false
  end.

(* direct: the block summaries in the order handed to the real FilterBlocksByTime / DoCMICheckForUnrotated (match-all
   query), the tracker, the range, and the block numbers returned (ascending) *)
Definition tf_case := (list bsum * tracker * trange * list nat)%type.
Definition tf_case_ok (c : tf_case) : bool :=
  let '(bs, t, tr, obs) := c in listnat_eqb (filter_blocks_by_time t tr bs) obs.
Fixpoint tf_bad (l : list tf_case) (i : nat) : list nat :=
  match l with
  | [] => []
  | c :: r => (if tf_case_ok c then [] else [i]) ++ tf_bad r (S i)
  end.
Definition check_time_filter (l : list tf_case) : list nat := tf_bad l O.

(* end to end: GOMAXPROCS, the query range, the layout's real segments and blocks (summaries over all events of the
   flush, records = the events the query's predicate accepts, whatever their timestamp), and the ids of the hits in
   the order the real system returned them *)
Definition tfetch_case := (nat * trange * list lseg * list N)%type.
Definition tfetch_case_ok (c : tfetch_case) : bool :=
  let '(procs, tr, L, obs) := c in
  layout_ok L &&
  (let '(ids, eof) := time_fetch_answer procs tr L in eof && listN_eqb ids obs).
Fixpoint tfetch_bad (l : list tfetch_case) (i : nat) : list nat :=
  match l with
  | [] => []
  | c :: r => (if tfetch_case_ok c then [] else [i]) ++ tfetch_bad r (S i)
  end.
Definition check_tfetch (l : list tfetch_case) : list nat := tfetch_bad l O.

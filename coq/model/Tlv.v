(* Tlv.v — the per-value type-length-value encoding of column records
   (pkg/segment/utils/segconsts.go VALTYPE_ENC_*, writer/logpacker.go parseSingle*,
   writer/packer.go GetCvalFromRec, reader/.../segreader.go getCurrentRecordLength).
   Definitions only. *)
From SigM Require Import Base.
Open Scope N_scope.

(* a flattened column value as the ingest path produces it.  A float64 is its 64-bit
   pattern; VUint is never produced by the JSON ingest path (parseSingleNumber knows
   int64 and float64 only) but is a TLV type the readers decode (the timestamp column
   is handed out as one). *)
Inductive cval :=
| VStr (s : bytes)
| VInt (z : Z)
| VUint (n : N)
| VFloat (bits : N)
| VBool (b : bool)
| VNull.

Definition T_BOOL : N := 1.
Definition T_STR : N := 2.
Definition T_U8 : N := 3.
Definition T_U16 : N := 4.
Definition T_U32 : N := 5.
Definition T_U64 : N := 6.
Definition T_I8 : N := 7.
Definition T_I16 : N := 8.
Definition T_I32 : N := 9.
Definition T_I64 : N := 16.       (* 0x10 *)
Definition T_F64 : N := 17.       (* 0x11 *)
Definition T_BACKFILL : N := 19.  (* 0x13 *)
Definition T_DICT_ARRAY : N := 20.
Definition T_RAW_JSON : N := 21.

(* two's complement *)
Definition i64_to_u (z : Z) : N := Z.to_N (z mod 18446744073709551616)%Z.
(* sign extension of a k-byte little-endian number *)
Definition sext (k : nat) (n : N) : Z :=
  let m := (256 ^ N.of_nat k) in
  if n <? m / 2 then Z.of_N n else (Z.of_N n - Z.of_N m)%Z.

Definition enc_val (v : cval) : bytes :=
  match v with
  | VStr s => T_STR :: le16 (N.of_nat (length s)) ++ s
  | VInt z => T_I64 :: le64 (i64_to_u z)
  | VUint n => T_U64 :: le64 n
  | VFloat b => T_F64 :: le64 b
  | VBool b => [T_BOOL; if b then 1 else 0]
  | VNull => [T_BACKFILL]
  end.

Definition rd_signed (k : nat) (r : bytes) : option (cval * bytes) :=
  match rd_le k r with Some (n, rest) => Some (VInt (sext k n), rest) | None => None end.
Definition rd_unsigned (k : nat) (r : bytes) : option (cval * bytes) :=
  match rd_le k r with Some (n, rest) => Some (VUint n, rest) | None => None end.

(* GetCvalFromRec on the scalar types; returns the value and the bytes after endIdx.
   endIdx is a uint16: a string of 65533.. bytes makes strlen+3 wrap and the slice
   expression panic -> None. *)
Definition dec_val (rec : bytes) : option (cval * bytes) :=
  match rec with
  | [] => None
  | t :: r =>
    if t =? T_STR then
      match rd16 r with
      | Some (len, r') =>
        if 65536 <=? len + 3 then None
        else match take (N.to_nat len) r' with
             | Some (s, rest) => Some (VStr s, rest)
             | None => None
             end
      | None => None
      end
    else if t =? T_BOOL then
      match r with b :: rest => Some (VBool (negb (b =? 0)), rest) | [] => None end
    else if t =? T_I8 then rd_signed 1 r
    else if t =? T_I16 then rd_signed 2 r
    else if t =? T_I32 then rd_signed 4 r
    else if t =? T_I64 then rd_signed 8 r
    else if t =? T_U8 then rd_unsigned 1 r
    else if t =? T_U16 then rd_unsigned 2 r
    else if t =? T_U32 then rd_unsigned 4 r
    else if t =? T_U64 then rd_unsigned 8 r
    else if t =? T_F64 then
      match rd_le 8 r with Some (n, rest) => Some (VFloat n, rest) | None => None end
    else if t =? T_BACKFILL then Some (VNull, r)
    else None
  end.

(* the switch of getCurrentRecordLength on the buffer starting at the current offset *)
Definition reclen (b : bytes) : option N :=
  match b with
  | [] => None
  | t :: r =>
    if (t =? T_STR) || (t =? T_DICT_ARRAY) || (t =? T_RAW_JSON) then
      match rd16 r with Some (l, _) => Some (3 + l) | None => None end
    else if (t =? T_BOOL) || (t =? T_I8) || (t =? T_U8) then Some 2
    else if (t =? T_I16) || (t =? T_U16) then Some 3
    else if (t =? T_I32) || (t =? T_U32) then Some 5
    else if (t =? T_I64) || (t =? T_U64) || (t =? T_F64) then Some 9
    else if t =? T_BACKFILL then Some 1
    else None
  end.

(* values the encoder is defined on without loss *)
Definition wf_val (v : cval) : bool :=
  match v with
  | VStr s => N.of_nat (length s) <? 65533
  | VInt z => ((-9223372036854775808 <=? z) && (z <? 9223372036854775808))%Z
  | VUint n => n <? pow2_64
  | VFloat b => b <? pow2_64
  | VBool _ => true
  | VNull => true
  end.

Definition cval_eqb (a b : cval) : bool :=
  match a, b with
  | VStr x, VStr y => bytes_eqb x y
  | VInt x, VInt y => (x =? y)%Z
  | VUint x, VUint y => x =? y
  | VFloat x, VFloat y => x =? y
  | VBool x, VBool y => Bool.eqb x y
  | VNull, VNull => true
  | _, _ => false
  end.

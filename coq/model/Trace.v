(* Trace.v — model of the trace views (C12).

   Follows
     pkg/otlp/traces.go                       spanToJson (ids hex, status string, duration = end-start in uint64)
     pkg/segment/tracing/handler/tracehandler.go
         ProcessSearchTracesRequest            (three generated queries: distinct trace ids, root attributes
                                                with values(...) by trace_id, counts by status and trace_id)
         ProcessGanttChartRequest              (records -> idToSpanMap / idToParentId, then BuildSpanTree)
         MakeTracesDependancyGraph             (ONE result page of the query "*": the request carries no size)
         ProcessRedTracesIngest                (pages of 1000 until empty; entry spans; RED per service)
     pkg/segment/tracing/utils/buildspantree.go   BuildSpanTree
     pkg/segment/tracing/utils/lineartimefinding.go FindPercentileData, quickSelect, pickPivot,
                                                nLogNMedian, QuickSelectMedian, chunked
   Strings (ids, service and operation names) are byte strings.  Go maps are association
   lists with unique keys; where the Go code iterates over a map (root choice of
   BuildSpanTree) the iteration order is an explicit parameter.  The query engine is not
   part of this model: every view is a function of the list of records the engine
   returned (and, for search, of the order of the group-by buckets).
   Definitions only; proofs are in SigP.TraceProofs. *)
From SigM Require Import Base.
Open Scope N_scope.

(* ------------------------------------------------------------------ *)
(* strings, association lists                                          *)
(* ------------------------------------------------------------------ *)
Definition str := list N.
Definition str_eqb : str -> str -> bool := list_eqb N.eqb.
Definition is_empty (s : str) : bool := match s with [] => true | _ => false end.

(* Go string comparison s < t (bytewise lexicographic) *)
Fixpoint str_ltb (a b : str) : bool :=
  match a, b with
  | [], [] => false
  | [], _ :: _ => true
  | _ :: _, [] => false
  | x :: a', y :: b' => if x <? y then true else if y <? x then false else str_ltb a' b'
  end.

Fixpoint lookup {A} (k : str) (m : list (str * A)) : option A :=
  match m with
  | [] => None
  | (k', v) :: r => if str_eqb k' k then Some v else lookup k r
  end.

(* m[k] = v : replaces the value of an existing key, otherwise adds the key *)
Fixpoint insert {A} (k : str) (v : A) (m : list (str * A)) : list (str * A) :=
  match m with
  | [] => [(k, v)]
  | (k', v') :: r => if str_eqb k' k then (k', v) :: r else (k', v') :: insert k v r
  end.

(* modify the value stored under k (no effect when the key is absent) *)
Fixpoint update {A} (k : str) (f : A -> A) (m : list (str * A)) : list (str * A) :=
  match m with
  | [] => []
  | (k', v) :: r => if str_eqb k' k then (k', f v) :: r else (k', v) :: update k f r
  end.

Fixpoint dedup_by {A} (eqb : A -> A -> bool) (l : list A) : list A :=
  match l with
  | [] => []
  | x :: r => if existsb (eqb x) r then dedup_by eqb r else x :: dedup_by eqb r
  end.

Definition sub64 (a b : N) : N := (a + pow2_64 - b mod pow2_64) mod pow2_64.   (* uint64 a - b *)
Definition add64 (a b : N) : N := (a + b) mod pow2_64.
Definition mul64 (a b : N) : N := (a * b) mod pow2_64.

(* ------------------------------------------------------------------ *)
(* spans                                                               *)
(* ------------------------------------------------------------------ *)
(* status codes: 0 STATUS_CODE_UNSET, 1 STATUS_CODE_OK, 2 STATUS_CODE_ERROR, 3 "Unknown" (no status message) *)
Record span := mkSpan {
  sp_trace : str; sp_id : str; sp_parent : str; sp_service : str; sp_name : str;
  sp_start : N; sp_end : N; sp_dur : N; sp_status : N }.

Definition is_error (s : span) : bool := sp_status s =? 2.

(* an OTLP span as received: raw id bytes, optional status code *)
Record otlp_span := mkOtlp {
  o_trace : bytes; o_id : bytes; o_parent : bytes; o_name : str;
  o_start : N; o_end : N; o_status : option N }.

Definition hex_digit (n : N) : N := if n <? 10 then 48 + n else 87 + n.   (* '0'.. , 'a'.. *)
Definition hex (b : bytes) : str := flat_map (fun x => [hex_digit (x / 16); hex_digit (x mod 16)]) b.

(* spanToJson: the stored event of a span *)
Definition span_to_event (service : str) (o : otlp_span) : span :=
  mkSpan (hex (o_trace o)) (hex (o_id o)) (hex (o_parent o)) service (o_name o)
         (o_start o) (o_end o) (sub64 (o_end o) (o_start o))
         (match o_status o with Some c => c | None => 3 end).

(* ProcessTraceIngest: an export request is a list of ResourceSpans; each has an optional Resource
   (None = nil) whose attributes are (key, string value) pairs (None = the value is not a string:
   GetStringValue returns ""), and ScopeSpans, each a list of spans.  The service name is a variable
   declared INSIDE the loop over the resources ("var service string"): it starts as "" for every
   resource and is set by each "service.name" attribute in turn (the last one wins). *)
Record otlp_resource := mkRes {
  or_attrs : option (list (str * option str));
  or_scopes : list (list otlp_span) }.

Definition service_name_key : str := [115;101;114;118;105;99;101;46;110;97;109;101].   (* "service.name" *)

Definition resource_service (r : otlp_resource) : str :=
  match or_attrs r with
  | None => []
  | Some attrs =>
    fold_left (fun service kv =>
                 if str_eqb (fst kv) service_name_key
                 then (match snd kv with Some v => v | None => [] end)
                 else service) attrs []
  end.

Definition resource_events (r : otlp_resource) : list span :=
  map (span_to_event (resource_service r)) (concat (or_scopes r)).

(* the events stored for one request, in ingest order *)
Definition request_events (req : list otlp_resource) : list span := flat_map resource_events req.

(* ------------------------------------------------------------------ *)
(* span tree (ProcessGanttChartRequest + BuildSpanTree)                *)
(* ------------------------------------------------------------------ *)
(* structs.GanttChartSpan; children are kept as ids into the span map (the Go code holds pointers) *)
Record gnode := mkG {
  g_span : span;            (* SpanID, ServiceName, OperationName, Duration, Status: never modified *)
  g_actual : N;             (* ActualStartTime *)
  g_start : N; g_end : N;   (* StartTime / EndTime (made relative to the root by BuildSpanTree) *)
  g_anom : bool;
  g_children : list str }.

Definition gmap := list (str * gnode).
Definition pmap := list (str * str).

Definition init_node (s : span) : gnode := mkG s 0 (sp_start s) (sp_end s) false [].

(* the loop over the records of ProcessGanttChartRequest: later records overwrite earlier ones *)
Definition gantt_maps (recs : list span) : gmap * pmap :=
  fold_left (fun mp s => (insert (sp_id s) (init_node s) (fst mp), insert (sp_id s) (sp_parent s) (snd mp)))
            recs ([], []).

(* "Find root span": the loop over the map; the LAST span (in iteration order) whose parent id is ""
   wins; a span without an entry in idToParentId is skipped *)
Definition root_step (m : gmap) (pm : pmap) (res : option gnode) (id : str) : option gnode :=
  match lookup id m with
  | None => res
  | Some n =>
    match lookup id pm with
    | None => res
    | Some p => if is_empty p then Some n else res
    end
  end.
Definition find_root (order : list str) (m : gmap) (pm : pmap) : option gnode :=
  fold_left (root_step m pm) order None.

(* sort.Slice less: start time, then span id *)
Definition g_less (a b : gnode) : bool :=
  if g_start a =? g_start b then str_ltb (sp_id (g_span a)) (sp_id (g_span b))
  else g_start a <? g_start b.

Fixpoint g_insert (x : gnode) (l : list gnode) : list gnode :=
  match l with
  | [] => [x]
  | y :: r => if g_less y x then y :: g_insert x r else x :: l
  end.
Definition g_sort (l : list gnode) : list gnode := fold_right g_insert [] l.

Definition set_times (r : N) (n : gnode) : gnode :=
  mkG (g_span n) (g_start n) (sub64 (g_start n) r) (sub64 (g_end n) r) (g_anom n) (g_children n).
Definition set_anom (n : gnode) : gnode :=
  mkG (g_span n) (g_actual n) (g_start n) (g_end n) true (g_children n).
Definition add_child (c : str) (n : gnode) : gnode :=
  mkG (g_span n) (g_actual n) (g_start n) (g_end n) (g_anom n) (g_children n ++ [c]).

(* one iteration of the second loop of BuildSpanTree for the span with key id; r = rootSpanStartTime *)
Definition tree_step (r : N) (pm : pmap) (m : gmap) (id : str) : gmap :=
  match lookup id m with
  | None => m
  | Some n =>
    let a := g_start n in
    let m1 := update id (set_times r) m in
    match lookup id pm with
    | None => m1
    | Some p =>
      if is_empty p then m1 else
      match lookup p m1 with
      | None => m1
      | Some pn =>
        let pstart := if g_actual pn =? 0 then g_start pn else g_actual pn in
        let m2 := if (a <? pstart) || (a <? r) then update id set_anom m1 else m1 in
        update p (add_child id) m2
      end
    end
  end.

Inductive gtree := GT (n : gnode) (cs : list gtree).

(* the value reachable from the root pointer (what the JSON encoder walks); fuel bounds the depth *)
Fixpoint unfold (fuel : nat) (m : gmap) (n : gnode) : gtree :=
  match fuel with
  | O => GT n []
  | S f => GT n (flat_map (fun c => match lookup c m with Some cn => [unfold f m cn] | None => [] end)
                          (g_children n))
  end.

(* BuildSpanTree(spanMap, idToParentId); None = error "can not find a root span" *)
Definition build_span_tree_fuel (fuel : nat) (order : list str) (m : gmap) (pm : pmap) : option gtree :=
  match find_root order m pm with
  | None => None
  | Some root =>
    if is_empty (sp_id (g_span root)) then None else
    let r := g_start root in
    let sorted := g_sort (map snd m) in
    let mf := fold_left (tree_step r pm) (map (fun n => sp_id (g_span n)) sorted) m in
    match lookup (sp_id (g_span root)) mf with
    | None => None   (* not reachable: the root is a key of the map *)
    | Some rn => Some (unfold fuel mf rn)
    end
  end.
Definition build_span_tree (order : list str) (m : gmap) (pm : pmap) : option gtree :=
  build_span_tree_fuel (length m) order m pm.

(* ProcessGanttChartRequest on the records of one trace query *)
Definition gantt_view (order : list str) (recs : list span) : option gtree :=
  let '(m, pm) := gantt_maps recs in build_span_tree order m pm.

Fixpoint tree_nodes (t : gtree) : list gnode :=
  match t with GT n cs => n :: flat_map tree_nodes cs end.
Definition tree_ids (t : gtree) : list str := map (fun n => sp_id (g_span n)) (tree_nodes t).
Definition tree_root (t : gtree) : gnode := match t with GT n _ => n end.
(* (parent node, child node) for every edge of the tree *)
Fixpoint tree_edges (t : gtree) : list (gnode * gnode) :=
  match t with GT n cs => map (fun c => (n, tree_root c)) cs ++ flat_map tree_edges cs end.

(* ---- specification vocabulary for the span tree (used by the theorem statements) ---- *)
(* the parent id recorded for a span ("" = root: none) *)
Definition parent_of (pm : pmap) (id : str) : option str :=
  match lookup id pm with
  | Some p => if is_empty p then None else Some p
  | None => None
  end.
(* k steps along a partial parent function *)
Fixpoint climb (up : str -> option str) (k : nat) (x : str) : option str :=
  match k with
  | O => Some x
  | S k' => match up x with Some p => climb up k' p | None => None end
  end.
Definition on_cycle (pm : pmap) (x : str) : Prop := exists k, (0 < k)%nat /\ climb (parent_of pm) k x = Some x.

Fixpoint str_nodupb (l : list str) : bool :=
  match l with [] => true | x :: r => negb (existsb (str_eqb x) r) && str_nodupb r end.
(* following parent ids from id, a span without parent is reached and every parent on the way is present *)
Fixpoint reaches (pm : pmap) (fuel : nat) (id : str) : bool :=
  match fuel with
  | O => false
  | S f => match lookup id pm with
           | None => false
           | Some p => if is_empty p then true else reaches pm f p
           end
  end.
(* the guard of tree_contains_each_span_once_guarded: unique non-empty span ids, a single root,
   all parents present, no parent cycle *)
Definition wf_forest (recs : list span) : bool :=
  let pm := snd (gantt_maps recs) in
  str_nodupb (map sp_id recs)
  && Nat.eqb (length (filter (fun s => is_empty (sp_parent s)) recs)) 1
  && forallb (fun s => negb (is_empty (sp_id s)) && reaches pm (length recs) (sp_id s)) recs.

(* ------------------------------------------------------------------ *)
(* trace search (ProcessSearchTracesRequest)                           *)
(* ------------------------------------------------------------------ *)
Definition TRACE_PAGE_LIMIT : nat := 50.

Record trace_summary := mkSum {
  ts_id : str; ts_start : N; ts_end : N; ts_service : str; ts_name : str; ts_count : N; ts_errs : N }.

Definition of_trace (t : str) (s : span) : bool := str_eqb (sp_trace s) t.
Definition root_spans (t : str) (recs : list span) : list span :=
  filter (fun s => of_trace t s && is_empty (sp_parent s)) recs.

(* query 1: "<text> | stats count(*) BY trace_id": the buckets are the distinct trace ids;
   [buckets] is their order as the engine returns it (it differs from request to request);
   GetUniqueTraceIds sorts the buckets by trace id (sort.SliceStable, Go string order) and slices
   one page *)
Definition distinct_traces (recs : list span) : list str := dedup_by str_eqb (map sp_trace recs).
Fixpoint str_insert (x : str) (l : list str) : list str :=
  match l with
  | [] => [x]
  | y :: r => if str_ltb x y then x :: l else y :: str_insert x r
  end.
Definition str_sort (l : list str) : list str := fold_right str_insert [] l.
(* the slice [(page-1)*50 : min(page*50, n)] of a sequence *)
Definition page_slice (ids : list str) (page : nat) : list str :=
  firstn TRACE_PAGE_LIMIT (skipn ((page - 1) * TRACE_PAGE_LIMIT) ids).
Definition page_ids (buckets : list str) (page : nat) : list str := page_slice (str_sort buckets) page.

Inductive root_info :=
| RNone                       (* no span with parent_span_id="" : no bucket in query 2 *)
| RAbort                      (* only in the pre-fix model: several root start / end times: HTTP 500 *)
| RSkip                       (* outside the window, or several root start / end times / services / operations *)
| ROk (st en : N) (svc nm : str).

(* query 2: values(start_time), values(end_time), values(name), values(service) of the root spans;
   [multi] = the answer for a trace whose roots have several start or end times: the trace is left
   out (RSkip) like one with several root services / operations; before the fix the handler answered
   HTTP 500 for the whole page (RAbort) *)
Definition root_info_gen (multi : root_info) (winS winE : N) (recs : list span) (t : str) : root_info :=
  let rs := root_spans t recs in
  match rs with
  | [] => RNone
  | _ =>
    match dedup_by N.eqb (map sp_start rs), dedup_by N.eqb (map sp_end rs) with
    | [st], [en] =>
      if (st <? mul64 winS 1000000) || (mul64 winE 1000000 <? en) then RSkip else
      match dedup_by str_eqb (map sp_service rs), dedup_by str_eqb (map sp_name rs) with
      | [svc], [nm] => ROk st en svc nm
      | _, _ => RSkip
      end
    | _, _ => multi
    end
  end.
Definition root_info_of := root_info_gen RSkip.

Definition count_if {A} (f : A -> bool) (l : list A) : N := N.of_nat (length (filter f l)).

(* query 3: count by status, trace_id *)
Definition summarise (winS winE : N) (recs : list span) (t : str) : list trace_summary :=
  match root_info_of winS winE recs t with
  | ROk st en svc nm =>
    [mkSum t st en svc nm (count_if (of_trace t) recs) (count_if (fun s => of_trace t s && is_error s) recs)]
  | _ => []
  end.

(* the answer of one page request; the listed traces are compared as a set *)
Definition search_page (winS winE : N) (recs : list span) (ids : list str) : list trace_summary :=
  flat_map (summarise winS winE recs) ids.

Definition search_traces (winS winE : N) (recs : list span) (buckets : list str) (page : nat)
  : list trace_summary :=
  search_page winS winE recs (page_ids buckets page).

(* ---- PRE-FIX model (documentation: the two repaired search defects) ----
   the buckets were sliced in the order of the response, and a trace whose root spans have several
   start or end times made the handler answer HTTP 500 (None) *)
Definition aborts_prefix (winS winE : N) (recs : list span) (t : str) : bool :=
  match root_info_gen RAbort winS winE recs t with RAbort => true | _ => false end.
Definition search_traces_prefix (winS winE : N) (recs : list span) (buckets : list str) (page : nat)
  : option (list trace_summary) :=
  let ids := page_slice buckets page in
  if existsb (aborts_prefix winS winE recs) ids then None
  else Some (flat_map (summarise winS winE recs) ids).

(* specification: the traces a search lists (single-valued root attributes, root inside the window) *)
Definition listable (winS winE : N) (recs : list span) (t : str) : bool :=
  match root_info_of winS winE recs t with ROk _ _ _ _ => true | _ => false end.

(* ------------------------------------------------------------------ *)
(* service dependency graph (MakeTracesDependancyGraph)                *)
(* ------------------------------------------------------------------ *)
Definition DEFAULT_PAGE : nat := 100.   (* ParseSearchBody: size absent -> 100 rows (pre-fix model only) *)

(* spanKey{traceID, spanID}: a Go struct used as map key (equal iff both fields are equal),
   modelled by an injective encoding into one string *)
Definition skey (t i : str) : str := N.of_nat (length t) :: t ++ i.
Definition span_key (s : span) : str := skey (sp_trace s) (sp_id s).
Definition parent_key (s : span) : str := skey (sp_trace s) (sp_parent s).

Definition pair_eqb (a b : str * str) : bool := str_eqb (fst a) (fst b) && str_eqb (snd a) (snd b).
Fixpoint incr (k : str * str) (m : list ((str * str) * N)) : list ((str * str) * N) :=
  match m with
  | [] => [(k, 1)]
  | (k', v) :: r => if pair_eqb k' k then (k', v + 1) :: r else (k', v) :: incr k r
  end.
Fixpoint dep_count (m : list ((str * str) * N)) (k : str * str) : N :=
  match m with
  | [] => 0
  | (k', v) :: r => if pair_eqb k' k then v else dep_count r k
  end.

(* [kf]: the key a span is stored under; [pk]: the key its parent is looked up with *)
Definition svc_map_by (kf : span -> str) (recs : list span) : list (str * str) :=
  fold_left (fun m s => insert (kf s) (sp_service s) m) recs [].
Definition svc_map : list span -> list (str * str) := svc_map_by span_key.

Definition dep_step_by (pk : span -> str) (svc : list (str * str)) (mat : list ((str * str) * N)) (s : span) :=
  if is_empty (sp_parent s) then mat else
  match lookup (pk s) svc with
  | None => mat
  | Some ps => if str_eqb ps (sp_service s) then mat else incr (ps, sp_service s) mat
  end.

(* [recs] = all spans of the window: the handler pages through the result (from = 0, 1000, ...
   until a page is empty) and looks every parent up within the span's own trace *)
Definition dep_graph (recs : list span) : list ((str * str) * N) :=
  fold_left (dep_step_by parent_key (svc_map recs)) recs [].

(* PRE-FIX model (documentation): one request without size, i.e. the first [page] rows in the
   order the engine returns them, and spans joined to parents by span id alone *)
Definition dep_graph_prefix (page : nat) (recs : list span) : list ((str * str) * N) :=
  let pg := firstn page recs in
  fold_left (dep_step_by sp_parent (svc_map_by sp_id pg)) pg [].

(* specification: the number of (child, parent) pairs of records OF ONE TRACE where the parent's span
   id is the child's parent id, the parent is in service a and the child in service b *)
Definition is_cross (a b : str) (cp : span * span) : bool :=
  let '(c, p) := cp in
  negb (is_empty (sp_parent c)) && str_eqb (sp_id p) (sp_parent c)
  && str_eqb (sp_trace p) (sp_trace c)
  && str_eqb (sp_service p) a && str_eqb (sp_service c) b.
Definition cross_pairs (recs : list span) (a b : str) : N :=
  count_if (is_cross a b) (list_prod recs recs).
(* ------------------------------------------------------------------ *)
(* quick-select and percentiles (lineartimefinding.go, T = uint64)     *)
(* ------------------------------------------------------------------ *)
Fixpoint n_insert (x : N) (l : list N) : list N :=
  match l with
  | [] => [x]
  | y :: r => if x <=? y then x :: l else y :: n_insert x r
  end.
Definition n_sort (l : list N) : list N := fold_right n_insert [] l.

Definition avg64 (a b : N) : N := add64 a b / 2.    (* (a + b) / 2 in uint64 *)

(* nLogNMedian (sorts its argument in place); for the empty slice the Go code panics (index -1) *)
Definition nlogn_median (arr : list N) : option N :=
  let s := n_sort arr in
  let n := length s in
  if Nat.eqb n 0 then None
  else if Nat.eqb (n mod 2) 1 then Some (nth (n / 2) s 0)
  else Some (avg64 (nth (n / 2 - 1) s 0) (nth (n / 2) s 0)).

(* chunked(arr, 5) *)
Fixpoint chunks5 (fuel : nat) (arr : list N) : list (list N) :=
  match fuel with
  | O => []
  | S f => match arr with [] => [] | _ => firstn 5 arr :: chunks5 f (skipn 5 arr) end
  end.
Definition full_chunks (arr : list N) : list (list N) :=
  filter (fun c => Nat.eqb (length c) 5) (chunks5 (length arr) arr).

(* the content of arr after pickPivot(arr): nLogNMedian sorts the whole slice, otherwise every
   full chunk (a sub-slice of arr) is sorted in place *)
Definition pp_mutate (arr : list N) : list N :=
  if Nat.ltb (length arr) 5 then n_sort arr
  else flat_map (fun c => if Nat.eqb (length c) 5 then n_sort c else c) (chunks5 (length arr) arr).

Definition partition3 (pivot : N) (arr : list N) : list N * list N * list N :=
  (filter (fun x => x <? pivot) arr, filter (fun x => x =? pivot) arr, filter (fun x => pivot <? x) arr).

(* quickSelect / pickPivot / QuickSelectMedian are mutually recursive; fuel = recursion depth.
   None = the Go code panics (empty slice) or the fuel ran out. *)
Fixpoint qsel (fuel : nat) (arr : list N) (k : nat) : option N :=
  match fuel with
  | O => None
  | S f =>
    match arr with
    | [x] => Some x
    | _ =>
      let pivot :=
        if Nat.ltb (length arr) 5 then nlogn_median arr
        else
          let medians := map (fun c => nth 2 (n_sort c) 0) (full_chunks arr) in
          let n := length medians in
          if Nat.eqb (n mod 2) 1 then qsel f medians (n / 2)
          else
            (* the first call has sorted pieces of [medians] in place (n is even, so n <> 1) *)
            match qsel f medians (n / 2 - 1), qsel f (pp_mutate medians) (n / 2) with
            | Some a, Some b => Some (avg64 a b)
            | _, _ => None
            end in
      match pivot with
      | None => None
      | Some p =>
        let '(lows, pivots, highs) := partition3 p (pp_mutate arr) in
        if Nat.ltb k (length lows) then qsel f lows k
        else if Nat.ltb k (length lows + length pivots) then
          match pivots with x :: _ => Some x | [] => None end
        else qsel f highs (k - length lows - length pivots)
      end
    end
  end.

Definition quickselect (arr : list N) (k : nat) : option N := qsel (S (length arr)) arr k.

(* pickPivot alone (observable through the verif hook) *)
Definition pick_pivot (arr : list N) : option N :=
  if Nat.ltb (length arr) 5 then nlogn_median arr
  else
    let medians := map (fun c => nth 2 (n_sort c) 0) (full_chunks arr) in
    let n := length medians in
    if Nat.eqb (n mod 2) 1 then quickselect medians (n / 2)
    else
      match quickselect medians (n / 2 - 1), quickselect (pp_mutate medians) (n / 2) with
      | Some a, Some b => Some (avg64 a b)
      | _, _ => None
      end.

(* FindPercentileData(arr, percentile): k = percentile*(len-1)/100; floor, ceil; linear interpolation.
   The result is returned as the exact rational  value = num / 100  (the Go code computes it in
   float64: lower + (upper-lower)*(k - floor k)).  0 for an empty list or a percentile outside 0..100. *)
Definition find_percentile_x100 (arr : list N) (pct : nat) : option N :=
  match arr with
  | [] => Some 0
  | _ =>
    if Nat.ltb 100 pct then Some 0 else
    let a := (pct * (length arr - 1))%nat in
    let fl := (a / 100)%nat in
    let r := (a mod 100)%nat in
    if Nat.eqb r 0 then
      match quickselect arr fl with Some v => Some (100 * v) | None => None end
    else
      match quickselect arr fl, quickselect (pp_mutate arr) (S fl) with
      | Some lo, Some up => Some (100 * lo + (up - lo) * N.of_nat r)
      | _, _ => None
      end
  end.

(* ------------------------------------------------------------------ *)
(* RED metrics (ProcessRedTracesIngest)                                *)
(* ------------------------------------------------------------------ *)
(* A span is an entry span if it has no parent id, or its parent is unknown, or its parent is in a
   different service *)
Definition is_entry (svc : list (str * str)) (s : span) : bool :=
  if is_empty (sp_parent s) then true else
  match lookup (parent_key s) svc with
  | Some ps => negb (str_eqb ps (sp_service s))
  | None => true
  end.

Definition entry_spans (recs : list span) : list span := filter (is_entry (svc_map recs)) recs.

(* per service: number of entry spans, of erroring entry spans, durations (ns) in arrival order *)
Record red_acc := mkAcc { ra_cnt : N; ra_err : N; ra_durs : list N }.
Definition acc_add (s : span) (a : red_acc) : red_acc :=
  mkAcc (ra_cnt a + 1) (if is_error s then ra_err a + 1 else ra_err a) (ra_durs a ++ [sp_dur s]).
Definition acc_step (m : list (str * red_acc)) (s : span) : list (str * red_acc) :=
  match lookup (sp_service s) m with
  | Some _ => update (sp_service s) (acc_add s) m
  | None => m ++ [(sp_service s, acc_add s (mkAcc 0 0 []))]
  end.

(* rate = cnt/60 ; error rate = err*100/cnt ; percentiles as value*100 of the durations in ms *)
Record red := mkRed { r_cnt : N; r_err : N; r_p50 : option N; r_p90 : option N; r_p95 : option N; r_p99 : option N }.

Definition red_of_acc (a : red_acc) : red :=
  let ds := map (fun d => d / 1000000) (ra_durs a) in
  (* the four calls share one slice; each call leaves it partially sorted *)
  let ds1 := pp_mutate ds in
  mkRed (ra_cnt a) (ra_err a)
        (find_percentile_x100 ds 50) (find_percentile_x100 ds1 90)
        (find_percentile_x100 ds1 95) (find_percentile_x100 ds1 99).

Definition red_metrics (recs : list span) : list (str * red) :=
  map (fun kv => (fst kv, red_of_acc (snd kv))) (fold_left acc_step (entry_spans recs) []).

(* specification: s is an entry span of its service: it has no parent id, or no record of its trace
   with that span id is in the same service *)
Definition entry_spec (recs : list span) (s : span) : bool :=
  is_empty (sp_parent s)
  || negb (existsb (fun p => str_eqb (sp_trace p) (sp_trace s) && str_eqb (sp_id p) (sp_parent s)
                             && str_eqb (sp_service p) (sp_service s)) recs).

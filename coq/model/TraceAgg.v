(* TraceAgg.v — model of the trace views that AGGREGATE OVER SEVERAL STORED PERIODS (C12).

   Follows pkg/segment/tracing/handler/tracehandler.go (after fixes 37f2dcb and 25574c6)
     DependencyGraphThread               every full hour: MakeTracesDependancyGraph over the last hour, and
                                         writeDependencyMatrix when the matrix is not empty
     writeDependencyMatrix               the matrix is stored as ONE record of index service-dependency with ONE
                                         column "graph" holding the matrix as a JSON string
                                         (before 25574c6: the matrix {"a":{"b":n}} itself was ingested and the ingest
                                         path flattened it into columns "a.b", an empty outer key contributing
                                         nothing: column "b" — [stored_cols_prefix]; such records are still read)
     ProcessAggregatedDependencyGraphs   (/dependencies; also behind the Jaeger ProcessGetDependencies)
                                         one search "*" over the requested range with size 10000 (before 37f2dcb:
                                         no size = the first 100 hits), then for every hit and every column:
                                         a string under key "graph" is parsed and every cell added;
                                         any other column is an old per-edge column: strings.Split(key, ".") must
                                         give exactly two parts [service, dependent] and the value must be a number;
                                         graph[service][dependent] += count
   The JSON text of a matrix (encoding/json of a map[string]map[string]int and back) is not modelled: the
   value of the "graph" column IS the matrix.  The order of the hits (the engine's) and the order of the
   columns of a hit (Go map iteration) are not controlled by the handler; the theorems quantify over them.
   Definitions only; proofs are in SigP.TraceAggProofs. *)
From SigM Require Import Base Trace.
Open Scope N_scope.

Definition DOT : N := 46.
Definition dotfree (s : str) : bool := forallb (fun c => negb (c =? DOT)) s.
Definition matrix := list ((str * str) * N).

(* the value of a column of a hit: a number, a string that parses as a matrix, JSON null, anything else *)
Inductive colval := VNum (n : N) | VGraph (g : matrix) | VNull | VOther.
Definition hit := list (str * colval).

Definition GRAPH : str := [103; 114; 97; 112; 104].   (* "graph" *)
(* writeDependencyMatrix: the stored record of a matrix *)
Definition stored_cols (mat : matrix) : hit := [(GRAPH, VGraph mat)].

(* before 25574c6: the column a nested entry {"a":{"b":n}} was stored under, and the stored record *)
Definition col_key (a b : str) : str := if is_empty a then b else a ++ DOT :: b.
Definition stored_cols_prefix (mat : matrix) : hit :=
  map (fun e => (col_key (fst (fst e)) (snd (fst e)), VNum (snd e))) mat.

(* strings.Split(s, "."): at least one part *)
Fixpoint split_dot (s : str) : list str :=
  match s with
  | [] => [[]]
  | c :: r =>
    let ps := split_dot r in
    if c =? DOT then [] :: ps
    else match ps with p :: q => (c :: p) :: q | [] => [[c]] end
  end.

(* addDependencyCalls: graph[service][dependent] += v *)
Fixpoint addn (k : str * str) (v : N) (m : matrix) : matrix :=
  match m with
  | [] => [(k, v)]
  | (k', w) :: r => if pair_eqb k' k then (k', w + v) :: r else (k', w) :: addn k v r
  end.
(* the seeded variant: graph[service][dependent] = v *)
Fixpoint setn (k : str * str) (v : N) (m : matrix) : matrix :=
  match m with
  | [] => [(k, v)]
  | (k', w) :: r => if pair_eqb k' k then (k', v) :: r else (k', w) :: setn k v r
  end.

(* an old per-edge column *)
Definition legacy_col_by (put : str * str -> N -> matrix -> matrix) (m : matrix) (kv : str * colval) : matrix :=
  match split_dot (fst kv) with
  | [a; b] => match snd kv with VNum v => put (a, b) v m | _ => m end   (* "is not a number": skipped *)
  | _ => m                                                              (* "Unexpected key format": skipped *)
  end.
(* one column of one hit; [put] = addn in the code *)
Definition agg_col_by (put : str * str -> N -> matrix -> matrix) (m : matrix) (kv : str * colval) : matrix :=
  if str_eqb (fst kv) GRAPH then
    match snd kv with
    | VGraph g => fold_left (fun acc e => put (fst e) (snd e) acc) g m
    | _ => legacy_col_by put m kv
    end
  else legacy_col_by put m kv.
Definition agg_graph_by put (hits : list hit) : matrix :=
  fold_left (fun m h => fold_left (agg_col_by put) h m) hits [].
Definition agg_graph : list hit -> matrix := agg_graph_by addn.
Definition agg_graph_overwrite : list hit -> matrix := agg_graph_by setn.
(* the reader before 25574c6: per-edge columns only *)
Definition agg_graph_prefix (hits : list hit) : matrix :=
  fold_left (fun m h => fold_left (legacy_col_by addn) h m) hits [].

(* specification of one cell: the sum of the values the columns hold for (a, b) *)
Definition sumN (l : list N) : N := fold_right N.add 0 l.
Definition cell_value (a b : str) (e : (str * str) * N) : N := if pair_eqb (fst e) (a, b) then snd e else 0.
Definition legacy_value (a b : str) (kv : str * colval) : N :=
  match split_dot (fst kv), snd kv with
  | [a'; b'], VNum v => if str_eqb a' a && str_eqb b' b then v else 0
  | _, _ => 0
  end.
Definition col_value (a b : str) (kv : str * colval) : N :=
  if str_eqb (fst kv) GRAPH then
    match snd kv with
    | VGraph g => sumN (map (cell_value a b) g)
    | _ => legacy_value a b kv
    end
  else legacy_value a b kv.
Definition hit_value (a b : str) (h : hit) : N := sumN (map (col_value a b) h).
Definition hits_value (a b : str) (hits : list hit) : N := sumN (map (hit_value a b) hits).

(* ---- the store ---- *)
Record stored_graph := mkSG { sg_ts : N; sg_cols : hit }.

(* one iteration of DependencyGraphThread at time [now] over the spans [recs] of its window;
   [enc] = the record format of the writer *)
Definition hourly_job_by (enc : matrix -> hit) (store : list stored_graph) (p : N * list span) : list stored_graph :=
  match dep_graph (snd p) with
  | [] => store
  | g => store ++ [mkSG (fst p) (enc g)]
  end.
Definition run_jobs_by enc (periods : list (N * list span)) : list stored_graph := fold_left (hourly_job_by enc) periods [].
Definition run_jobs := run_jobs_by stored_cols.
Definition run_jobs_prefix := run_jobs_by stored_cols_prefix.

Definition in_range (lo hi : N) (g : stored_graph) : bool := (lo <=? sg_ts g) && (sg_ts g <=? hi).
Definition AGG_HITS : nat := 10000.      (* the size of the handler's search request *)
Definition DEFAULT_HITS : nat := 100.    (* before 37f2dcb: a request without size returns 100 hits *)

(* the hits of the handler's search: the stored graphs of the range, newest first, one page of [n] *)
Definition range_hits_n (n : nat) (lo hi : N) (store : list stored_graph) : list hit :=
  map sg_cols (firstn n (rev (filter (in_range lo hi) store))).
Definition range_hits := range_hits_n AGG_HITS.
Definition agg_view (lo hi : N) (store : list stored_graph) : matrix := agg_graph (range_hits lo hi store).
(* the handler before the two fixes *)
Definition agg_view_prefix (lo hi : N) (store : list stored_graph) : matrix :=
  agg_graph_prefix (range_hits_n DEFAULT_HITS lo hi store).

(* ---- specification ---- *)
Definition period_in_range (lo hi : N) (p : N * list span) : bool := (lo <=? fst p) && (fst p <=? hi).
Definition periods_in (lo hi : N) (periods : list (N * list span)) : list (list span) :=
  map snd (filter (period_in_range lo hi) periods).
(* no trace has spans in two periods *)
Definition trace_in (t : str) (recs : list span) : bool := existsb (fun s => str_eqb (sp_trace s) t) recs.
Fixpoint traces_within_periods (ps : list (list span)) : bool :=
  match ps with
  | [] => true
  | p :: r => forallb (fun s => negb (existsb (trace_in (sp_trace s)) r)) p && traces_within_periods r
  end.
Definition services_dotfree (recs : list span) : bool := forallb (fun s => dotfree (sp_service s)) recs.

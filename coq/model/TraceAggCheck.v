(* TraceAggCheck.v — executable comparison of the model of the aggregated trace views (TraceAgg.v) with
   observations of the real siglens code (case files of the streams agg / aggdot / aggunnamed / aggsplit /
   aggover100 of C12). *)
From SigM Require Import Base Trace TraceCheck TraceAgg.
Open Scope N_scope.

(* a time in milliseconds relative to a fixed offset (the elaboration of long numerals is expensive) *)
Definition MS (k : N) : N := 1700000000000 + k.
(* an observed column / matrix entry over pool services *)
Definition CK (a b : nat) (v : N) : str * colval := (col_key (sv a) (sv b), VNum v).   (* an old per-edge column *)
Definition ME (a b : nat) (v : N) : (str * str) * N := ((sv a, sv b), v).
Definition GR (m : matrix) : str * colval := (GRAPH, VGraph m).                          (* the column "graph" *)

(* two matrices hold the same cells (a JSON object has no order) *)
Definition matrix_eqb (m o : matrix) : bool :=
  Nat.eqb (length m) (length o) && forallb (fun kv => dep_count m (fst kv) =? snd kv) o
  && nodupb pair_eqb (map fst o) && nodupb pair_eqb (map fst m).
Definition col_eqb (x y : str * colval) : bool :=
  str_eqb (fst x) (fst y)
  && match snd x, snd y with
     | VNum a, VNum b => a =? b
     | VGraph a, VGraph b => matrix_eqb a b
     | VNull, VNull => true
     | VOther, VOther => true
     | _, _ => false
     end.
(* two hits hold the same columns (the order of the columns of a hit is Go map order) *)
Definition hit_eqb (h o : hit) : bool :=
  Nat.eqb (length h) (length o) && forallb (fun c => existsb (col_eqb c) h) o && nodupb str_eqb (map fst o).

(* the record the hourly job stored for the spans [recs] of its window: none when the matrix is empty *)
Definition check_stored_graph (recs : list span) (obs : option hit) : bool :=
  match dep_graph recs, obs with
  | [], None => true
  | [], Some _ => false
  | g, Some o => hit_eqb (stored_cols g) o
  | _, None => false
  end.

Fixpoint hits_eqb (m o : list hit) : bool :=
  match m, o with
  | [], [] => true
  | h :: m', x :: o' => hit_eqb h x && hits_eqb m' o'
  | _, _ => false
  end.

(* the answer of /dependencies: None = the message "no dependencies graphs have been generated" (no hit),
   Some cells = the merged matrix *)
Definition agg_answer_eqb (hits : list hit) (obs : option matrix) : bool :=
  match hits, obs with
  | [], None => true
  | _ :: _, Some o => dep_eqb (agg_graph hits) o
  | _, _ => false
  end.

(* from the hits the engine returned for the handler's request to the handler's answer *)
Definition check_agg_hits (hits : list hit) (obs : option matrix) : bool := agg_answer_eqb hits obs.
(* from the periods (time of the job, spans of its window) to the hits and to the answer *)
Definition check_range_hits (lo hi : N) (periods : list (N * list span)) (obs : list hit) : bool :=
  hits_eqb (range_hits lo hi (run_jobs periods)) obs.
Definition check_agg_view (lo hi : N) (periods : list (N * list span)) (obs : option matrix) : bool :=
  agg_answer_eqb (range_hits lo hi (run_jobs periods)) obs.

(* the same from a store of given matrices (streams aggover100 / aggmeta / agglegacy); the flag says that the
   record was written in the format used before 25574c6 (per-edge columns), which the handler still reads *)
Definition store_of (graphs : list (N * bool * matrix)) : list stored_graph :=
  map (fun g : N * bool * matrix =>
         mkSG (fst (fst g)) (if snd (fst g) then stored_cols_prefix (snd g) else stored_cols (snd g))) graphs.
Definition check_store_hits (lo hi : N) (graphs : list (N * bool * matrix)) (obs : list hit) : bool :=
  hits_eqb (range_hits lo hi (store_of graphs)) obs.
Definition check_agg_store (lo hi : N) (graphs : list (N * bool * matrix)) (obs : option matrix) : bool :=
  agg_answer_eqb (range_hits lo hi (store_of graphs)) obs.

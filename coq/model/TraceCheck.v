(* TraceCheck.v — executable comparison of the trace-view model with observations of the
   real siglens code (used by the generated case files of C12). *)
From SigM Require Import Base Trace TracePage.
Open Scope N_scope.

(* ---------- compact constructors for the case files ---------- *)
Fixpoint be_bytes (k : nat) (n : N) : bytes :=
  match k with O => [] | S k' => be_bytes k' (n / 256) ++ [n mod 256] end.

(* an ingested span: 16-byte trace id, 8-byte span id, parent (0 = none), service, name,
   start, end, status code (3 = no status message) *)
Definition E (t i p : N) (svc nm : str) (st en : N) (code : N) : span :=
  span_to_event svc (mkOtlp (be_bytes 16 t) (be_bytes 8 i) (if p =? 0 then [] else be_bytes 8 p) nm st en
                            (if code =? 3 then None else Some code)).
Definition tid (t : N) : str := hex (be_bytes 16 t).
Definition sid (i : N) : str := if i =? 0 then [] else hex (be_bytes 8 i).

(* ----- compact encodings used by the e2e case files (the elaboration of numerals dominates the
   cost of a case file, so ids and times are written relative to fixed offsets) ----- *)
Definition BASE_NS : N := 1700000000000000000.
Definition U (k : N) : N := BASE_NS + 1024 * k.          (* a time: base + k units of 1024 ns *)
Definition K (k : N) : N := 1024 * k.
Definition W (k : N) : N := pow2_64 - 1024 * k.          (* a wrapped (negative) relative time *)
Definition TB (t : N) : N := 171 * 2 ^ 120 + t.          (* trace id "ab00..00" + t *)
Definition SB (i : N) : N := if i =? 0 then 0 else 14771806777775226880 + i.   (* span id 0xcd00000000000000 + i *)
Definition svc_pool : list str :=
  [[65]; [66]; [67]; [99;104;101;99;107;111;117;116]; [100;98]; [97;117;116;104;45;115;118;99];
   [88;49]; [88;50]; [89;49]; [89;50]; [];
   [119;101;98;46;102;114;111;110;116]; [100;98;46;118;50]; [113;46;114]].
   (* A B C checkout db auth-svc X1 X2 Y1 Y2 "" web.front db.v2 q.r (the last three: streams of aggregated views only) *)
Definition sv (k : nat) : str := nth k svc_pool [].
Definition nm (k : N) : str := if k <? 10 then [111; 112; 48 + k] else [111; 112; 48 + k / 10; 120].  (* "op<k>", k>=10: "op<k/10>x" *)
Definition E1 (t i p : N) (s : nat) (n : N) (st en : N) (code : N) : span :=
  E (TB t) (SB i) (SB p) (sv s) (nm n) st en code.
(* an OTLP span of a request (the service comes from its resource) *)
Definition O1 (t i p : N) (n : N) (st en : N) (code : N) : otlp_span :=
  mkOtlp (be_bytes 16 (TB t)) (be_bytes 8 (SB i)) (if p =? 0 then [] else be_bytes 8 (SB p)) (nm n) st en
         (if code =? 3 then None else Some code).
Definition host_key : str := [104;111;115;116;46;110;97;109;101].   (* "host.name" *)
(* a ResourceSpans entry of kind k (what the harness sent):
   0 service.name only; 1 nil Resource; 2 attributes without service.name; 3 service.name with an
   integer value; 4 two service.name attributes (the first one "zzz"); 5 service.name between others.
   Several ScopeSpans are flattened: one scope per span when [split] *)
Definition R1 (k : N) (s : nat) (split : bool) (spans : list otlp_span) : otlp_resource :=
  let sn := service_name_key in
  let attrs :=
    if k =? 0 then Some [(sn, Some (sv s))]
    else if k =? 1 then None
    else if k =? 2 then Some [(host_key, Some [104])]
    else if k =? 3 then Some [(sn, None)]
    else if k =? 4 then Some [(sn, Some [122;122;122]); (sn, Some (sv s))]
    else Some [(host_key, Some [104]); (sn, Some (sv s)); (host_key, Some [105])] in
  mkRes attrs (if split then map (fun o => [o]) spans else [spans]).
(* all events of a scenario = the requests in ingest order *)
Definition events_of (reqs : list (list otlp_resource)) : list span := flat_map request_events reqs.

(* the stored spans (trace, span id, service) read back with a "*" query, as a multiset *)
Definition stored_key (e : span) : str * str * str := (sp_trace e, sp_id e, sp_service e).
Definition key_eqb (a b : str * str * str) : bool :=
  str_eqb (fst (fst a)) (fst (fst b)) && str_eqb (snd (fst a)) (snd (fst b)) && str_eqb (snd a) (snd b).
Definition count_key (k : str * str * str) (l : list (str * str * str)) : nat := length (filter (key_eqb k) l).
Definition check_stored (evs : list span) (obs : list (N * N * nat)) : bool :=
  let m := map stored_key evs in
  let o := map (fun x => (tid (TB (fst (fst x))), sid (SB (snd (fst x))), sv (snd x))) obs in
  Nat.eqb (length m) (length o)
  && forallb (fun k => Nat.eqb (count_key k m) (count_key k o)) m.

Definition tid1 (t : N) : str := tid (TB t).
Definition sid1 (i : N) : str := sid (SB i).

(* a span given directly to BuildSpanTree (ids are arbitrary strings) *)
Definition G (i svc nm : str) (st en dur code : N) : span := mkSpan [] i [] svc nm st en dur code.

(* ---------- observed trees ---------- *)
Inductive otree :=
  OT (id : str) (actual start end_ dur : N) (anom : bool) (status : N) (svc nm : str) (cs : list otree).

Fixpoint otree_of (t : gtree) : otree :=
  match t with
  | GT n cs =>
    OT (sp_id (g_span n)) (g_actual n) (g_start n) (g_end n) (sp_dur (g_span n)) (g_anom n)
       (sp_status (g_span n)) (sp_service (g_span n)) (sp_name (g_span n)) (map otree_of cs)
  end.

Fixpoint otree_eqb (a b : otree) : bool :=
  match a, b with
  | OT i1 a1 s1 e1 d1 an1 st1 sv1 n1 c1, OT i2 a2 s2 e2 d2 an2 st2 sv2 n2 c2 =>
    str_eqb i1 i2 && (a1 =? a2) && (s1 =? s2) && (e1 =? e2) && (d1 =? d2) && Bool.eqb an1 an2
    && (st1 =? st2) && str_eqb sv1 sv2 && str_eqb n1 n2
    && (fix go (l1 l2 : list otree) : bool :=
          match l1, l2 with
          | [], [] => true
          | x :: r1, y :: r2 => otree_eqb x y && go r1 r2
          | _, _ => false
          end) c1 c2
  end.

Definition opt_tree_eqb (m : option gtree) (o : option otree) : bool :=
  match m, o with
  | None, None => true
  | Some t, Some ot => otree_eqb (otree_of t) ot
  | _, _ => false
  end.

(* the Go map iteration order is not observable: the model is run with the observed root last *)
Definition order_last (keys : list str) (root : option str) : list str :=
  match root with
  | None => keys
  | Some r => filter (fun k => negb (str_eqb k r)) keys ++ (if existsb (str_eqb r) keys then [r] else [])
  end.
Definition oroot (o : option otree) : option str :=
  match o with Some (OT i _ _ _ _ _ _ _ _ _) => Some i | None => None end.

(* BuildSpanTree driven directly: spanMap = the spans keyed by their ids, idToParentId = pm *)
(* an observed error has two explanations when there are several roots: no root at all, or the map
   iteration ended on a root whose id is "" (res.SpanID == "") *)
Definition check_tree (spans : list span) (pm : pmap) (obs : option otree) : bool :=
  let m := map (fun s => (sp_id s, init_node s)) spans in
  opt_tree_eqb (build_span_tree (order_last (map fst m) (oroot obs)) m pm) obs
  || match obs with
     | None => opt_tree_eqb (build_span_tree (order_last (map fst m) (Some [])) m pm) None
     | Some _ => false
     end.

(* ProcessGanttChartRequest: recs = the records of the trace query (for duplicated span ids
   the harness puts the duplicate the real code kept last) *)
Definition check_gantt (recs : list span) (obs : option otree) : bool :=
  let keys := map fst (fst (gantt_maps recs)) in
  opt_tree_eqb (gantt_view (order_last keys (oroot obs)) recs) obs.

Fixpoint indices_false (l : list bool) (i : nat) : list nat :=
  match l with
  | [] => []
  | b :: r => (if b then [] else [i]) ++ indices_false r (S i)
  end.

(* ---------- search ---------- *)
Definition sum_eqb (a b : trace_summary) : bool :=
  str_eqb (ts_id a) (ts_id b) && (ts_start a =? ts_start b) && (ts_end a =? ts_end b)
  && str_eqb (ts_service a) (ts_service b) && str_eqb (ts_name a) (ts_name b)
  && (ts_count a =? ts_count b) && (ts_errs a =? ts_errs b).

Definition subset {A} (eqb : A -> A -> bool) (a b : list A) : bool :=
  forallb (fun x => existsb (eqb x) b) a.
Definition set_eqb {A} (eqb : A -> A -> bool) (a b : list A) : bool :=
  subset eqb a b && subset eqb b a.
Fixpoint nodupb {A} (eqb : A -> A -> bool) (l : list A) : bool :=
  match l with [] => true | x :: r => negb (existsb (eqb x) r) && nodupb eqb r end.

(* pages = the observed answers of pages 1, 2, ... (None = an HTTP error).  The handler sorts the
   buckets by trace id before slicing, so every page is determined by the set of trace ids: page p
   must be the model's page p (as a set), whatever order the engine returned the buckets in. *)
Fixpoint check_pages (winS winE : N) (recs : list span) (ids : list str)
         (pages : list (option (list trace_summary))) (p : nat) : bool :=
  match pages with
  | [] => true
  | Some obs :: rest =>
    set_eqb sum_eqb (search_traces winS winE recs ids p) obs
    && nodupb str_eqb (map ts_id obs)
    && check_pages winS winE recs ids rest (S p)
  | None :: _ => false
  end.
Definition check_search (winS winE : N) (recs : list span) (pages : list (option (list trace_summary))) : bool :=
  check_pages winS winE recs (distinct_traces recs) pages 1.

(* ---------- dependency graph ---------- *)
Definition dep_eqb (m o : list ((str * str) * N)) : bool :=
  Nat.eqb (length m) (length o) && forallb (fun kv => dep_count m (fst kv) =? snd kv) o
  && nodupb pair_eqb (map fst o).
(* cands: the possible record orders (several only when a span id is duplicated) *)
Definition check_dep (cands : list (list span)) (obs : list ((str * str) * N)) : bool :=
  existsb (fun recs => dep_eqb (dep_graph recs) obs) cands.

(* ---------- floats ---------- *)
(* an observed float64 >= 0 as m * 2^e *)
Inductive fl := F (m : N) (e : Z).
(* |obs - num/den| <= 1e-9 * max(obs, num/den) *)
Definition approx (o : fl) (num den : N) : bool :=
  match o with
  | F m e =>
    let '(l, r) := match e with
                   | Z0 => (m * den, num)
                   | Zpos p => (m * 2 ^ (Npos p) * den, num)
                   | Zneg p => (m * den, num * 2 ^ (Npos p))
                   end in
    let d := if l <? r then r - l else l - r in
    d * 1000000000 <=? N.max l r
  end.

(* ---------- quick-select, percentiles ---------- *)
Definition optN_eqb (a b : option N) : bool :=
  match a, b with Some x, Some y => x =? y | None, None => true | _, _ => false end.
(* (arr, k, observed quickSelect) ; None = panic *)
Definition check_qs (c : list N * nat * option N) : bool :=
  let '(arr, k, o) := c in optN_eqb (quickselect arr k) o.
Definition check_pivot (c : list N * option N) : bool :=
  let '(arr, o) := c in optN_eqb (pick_pivot arr) o.
(* (arr, percentile, observed FindPercentileData) *)
Definition check_pct (c : list N * nat * fl) : bool :=
  let '(arr, p, o) := c in
  match find_percentile_x100 arr p with Some v => approx o v 100 | None => false end.

(* ---------- RED ---------- *)
(* observed: service, rate, error rate, p50, p90, p95, p99 *)
Definition ored := (str * (fl * fl * fl * fl * fl * fl))%type.
Definition red_eqb (m : red) (o : fl * fl * fl * fl * fl * fl) : bool :=
  let '(rate, er, p50, p90, p95, p99) := o in
  let pc (x : option N) (f : fl) := match x with Some v => approx f v 100 | None => false end in
  approx rate (r_cnt m) 60 && approx er (r_err m * 100) (r_cnt m)
  && pc (r_p50 m) p50 && pc (r_p90 m) p90 && pc (r_p95 m) p95 && pc (r_p99 m) p99.
Definition red_all_eqb (m : list (str * red)) (o : list ored) : bool :=
  Nat.eqb (length m) (length o) && nodupb str_eqb (map fst o)
  && forallb (fun kv => match lookup (fst kv) m with Some r => red_eqb r (snd kv) | None => false end) o.
Definition check_red (cands : list (list span)) (obs : list ored) : bool :=
  existsb (fun recs => red_all_eqb (red_metrics recs) obs) cands.

(* ---------- spanToJson ---------- *)
Definition span_eqb (a b : span) : bool :=
  str_eqb (sp_trace a) (sp_trace b) && str_eqb (sp_id a) (sp_id b) && str_eqb (sp_parent a) (sp_parent b)
  && str_eqb (sp_service a) (sp_service b) && str_eqb (sp_name a) (sp_name b)
  && (sp_start a =? sp_start b) && (sp_end a =? sp_end b) && (sp_dur a =? sp_dur b) && (sp_status a =? sp_status b).
Definition check_event (c : str * otlp_span * span) : bool :=
  let '(svc, o, obs) := c in span_eqb (span_to_event svc o) obs.

(* ---------- model self-checks (redundant with the theorems) ---------- *)
(* every node of the model's tree is a span of the requested trace, at most once *)
Definition self_gantt (t : str) (recs : list span) : bool :=
  let tr := filter (of_trace t) recs in
  match gantt_view (map fst (fst (gantt_maps tr))) tr with
  | None => true
  | Some g => nodupb str_eqb (tree_ids g)
              && forallb (fun n => of_trace t (g_span n)) (tree_nodes g)
  end.
(* quickselect = k-th of the sorted list *)
Definition self_qs (c : list N * nat * option N) : bool :=
  let '(arr, k, _) := c in
  if Nat.ltb k (length arr) && forallb (fun x => x <? 9223372036854775808) arr
  then optN_eqb (quickselect arr k) (Some (nth k (n_sort arr) 0)) else true.

(* ---------- paged reads (TracePage) ---------- *)
Fixpoint seqN (start : N) (k : nat) : list N :=
  match k with O => [] | S k' => start :: seqN (start + 1) k' end.
Definition lN_eqb : list N -> list N -> bool := list_eqb N.eqb.

(* direct: the real head(size+from) -> scroller(from) tail on the records 0..n-1 handed over in batches of
   the given sizes (the last batch takes the rest): (from, size, batch sizes, n, observed page) *)
Definition check_scroll_page (c : N * N * list nat * nat * list N) : bool :=
  let '(from, size, sizes, n, obs) := c in
  lN_eqb (engine_page from size (cut sizes (seqN 0 n))) obs.

(* direct: the read loop of a handler (short = false: until an empty page; true: until a short page) with
   page size [page] over the records 0..n-1; the k-th request sees the batching [nth k sizess] *)
Definition check_scroll_loop (c : N * list (list nat) * nat * bool * list N) : bool :=
  let '(page, sizess, n, short, obs) := c in
  let bat := fun from => cut (nth (N.to_nat (from / page)) sizess []) (seqN 0 n) in
  lN_eqb (if short then paged_read_trace page bat n else paged_read_all page bat n) obs.

(* a list of numbers written as descending runs: (start, length) = start, start-1, ... *)
Fixpoint run_down (start : N) (k : nat) : list N :=
  match k with O => [] | S k' => start :: run_down (start - 1) k' end.
Definition unruns (rs : list (N * nat)) : list N := flat_map (fun r => run_down (fst r) (snd r)) rs.

(* e2e: the pages from = 0, 1000, ... (size 1000) of one search text over hits with pairwise different
   timestamps; [order] = the matching spans newest first (numbered in ingest order), [sizes] = the hits per
   fetch of the searcher; lists as descending runs.  Every observed page is the model's page, the page after
   the last one is empty, both read loops return what was observed — under the scenario's batching and as one
   batch — and that is the newest [reachable PAGE] = 11 000 spans (all of them when there are no more) *)
Definition check_span_pages (order : list (N * nat)) (sizes : list nat) (pages : list (list (N * nat))) : bool :=
  let order := unruns order in
  let pages := map unruns pages in
  let bs := cut sizes order in
  forallb (fun kp => lN_eqb (search_page (PAGE * N.of_nat (fst kp)) PAGE bs) (snd kp))
          (combine (seq 0 (S (length pages))) (pages ++ [[]]))
  && lN_eqb (paged_read_all PAGE (fun _ => bs) (length order)) (concat pages)
  && lN_eqb (paged_read_trace PAGE (fun _ => [order]) (length order)) (concat pages)
  && lN_eqb (firstn (N.to_nat (reachable PAGE)) order) (concat pages).

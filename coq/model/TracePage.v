(* TracePage.v — model of the paged reads underneath the trace views (C12).

   The dependency graph, the RED job and the span tree do not see "the records of the window /
   of the trace" in one piece: they send the search request again and again with
   from = 0, 1000, 2000, ... and size = 1000,

     pkg/segment/tracing/handler/tracehandler.go
         MakeTracesDependancyGraph, ProcessRedTracesIngest   until a page comes back EMPTY
         ProcessGanttChartRequest                            until a page is SHORTER than size

   and every such request runs the query again and hands its hits, batch by batch (one batch per
   fetch of the searcher = the hits of up to GOMAXPROCS blocks), through the tail of the pipeline

     pkg/ast/pipesearch/searchHandler.go    ParseSearchBody: finalSize = size + uint64(from)
     pkg/segment/query/processor/queryprocessor.go  newQueryProcessorHelper:
                                            input -> head(MaxRows = finalSize) -> scroller(from)
     pkg/segment/query/processor/headcommand.go     headProcessor.Process (no condition)
     pkg/segment/query/processor/scroller.go        scrollProcessor.Process

   A batch is a list of records; a query result is the list of its batches.  The order of the
   hits (newest first; arbitrary among equal timestamps — finding paging_timestamp_ties of C05)
   and their batching are parameters: the theorems quantify over every batching, separately for
   every page request.  Definitions only; proofs are in SigP.TracePageProofs. *)
From SigM Require Import Base.
Open Scope N_scope.

Definition usub64 (a b : N) : N := (a + pow2_64 - b mod pow2_64) mod pow2_64.   (* uint64 a - b *)
Definition uadd64 (a b : N) : N := (a + b) mod pow2_64.

Section Page.
Context {A : Type}.

Definition lenN (l : list A) : N := N.of_nat (length l).

(* IQR.DiscardAfter(n): keep the first n records (everything when n >= NumberOfRecords) *)
Definition discard_after (n : N) (b : list A) : list A :=
  if lenN b <=? n then b else firstn (N.to_nat n) b.
(* IQR.Discard(n): drop the first n records (called with n <= NumberOfRecords only) *)
Definition discard (n : N) (b : list A) : list A :=
  if lenN b <=? n then [] else skipn (N.to_nat n) b.

(* headProcessor.Process: numToKeep := limit - numRecordsSent (uint64); DiscardAfter(numToKeep);
   numRecordsSent += NumberOfRecords(); io.EOF iff numRecordsSent >= limit.
   Result: (new counter, batch handed on, EOF) *)
Definition head_step (limit sent : N) (b : list A) : N * list A * bool :=
  let kept := discard_after (usub64 limit sent) b in
  let sent' := uadd64 sent (lenN kept) in
  (sent', kept, limit <=? sent').

(* DataProcessor.Fetch of the head stage over the batches of its input: after EOF nothing more is fetched *)
Fixpoint head_run (limit sent : N) (bs : list (list A)) : list (list A) :=
  match bs with
  | [] => []
  | b :: r =>
    let '(sent', kept, eof) := head_step limit sent b in
    if eof then [kept] else kept :: head_run limit sent' r
  end.

(* scrollProcessor.Process: state = the number of records still to be skipped (uint64)
     if scrollFrom == 0 { return iqr }
     n := NumberOfRecords()
     if scrollFrom < n { discard scrollFrom records; scrollFrom = 0 }
     else              { scrollFrom -= n; discard n records }
   The counter goes down by the number of records DISCARDED. *)
Definition scroll_step (from : N) (b : list A) : N * list A :=
  if from =? 0 then (0, b)
  else if from <? lenN b then (0, discard from b)
  else (usub64 from (lenN b), discard (lenN b) b).

Fixpoint scroll_run (from : N) (bs : list (list A)) : list (list A) :=
  match bs with
  | [] => []
  | b :: r => let '(from', out) := scroll_step from b in out :: scroll_run from' r
  end.

(* the records one search request (from, size) returns when its hits arrive in the batches bs *)
Definition engine_page (from size : N) (bs : list (list A)) : list A :=
  concat (scroll_run from (head_run (uadd64 size from) 0 bs)).

(* --- a variant that is NOT the code (documentation; refuted in the proofs): the counter goes down by the
   size of the batch instead of by the number of records discarded, so it wraps around when the offset
   ends strictly inside a batch and every later batch is dropped *)
Definition scroll_step_by_batch (from : N) (b : list A) : N * list A :=
  if from =? 0 then (0, b)
  else (usub64 from (lenN b), discard (N.min from (lenN b)) b).
Fixpoint scroll_run_by_batch (from : N) (bs : list (list A)) : list (list A) :=
  match bs with
  | [] => []
  | b :: r => let '(from', out) := scroll_step_by_batch from b in out :: scroll_run_by_batch from' r
  end.

(* --- the read loops of the handlers; q from = the answer to the request with that offset --- *)
(* MakeTracesDependancyGraph / ProcessRedTracesIngest: append the pages until one is empty *)
Fixpoint read_until_empty (fuel : nat) (page : N) (q : N -> list A) (from : N) : list A :=
  match fuel with
  | O => []
  | S f => match q from with
           | [] => []
           | p => p ++ read_until_empty f page q (from + page)
           end
  end.
(* ProcessGanttChartRequest: process the page, stop after a page shorter than size *)
Fixpoint read_until_short (fuel : nat) (page : N) (q : N -> list A) (from : N) : list A :=
  match fuel with
  | O => []
  | S f => let p := q from in
           if lenN p <? page then p else p ++ read_until_short f page q (from + page)
  end.

(* ParseAndExecutePipeRequest: a request with scrollFrom > 10 000 is not executed (isScrollMax);
   processMaxScrollCount answers 200 with no hits *)
Definition MAX_SCROLL : N := 10000.
Definition search_page (from size : N) (bs : list (list A)) : list A :=
  if MAX_SCROLL <? from then [] else engine_page from size bs.

(* what a handler reads when every page request sees the same hit sequence in its own batching *)
Definition paged_read_all (page : N) (bat : N -> list (list A)) (n : nat) : list A :=
  read_until_empty (S n) page (fun from => search_page from page (bat from)) 0.
Definition paged_read_trace (page : N) (bat : N -> list (list A)) (n : nat) : list A :=
  read_until_short (S n) page (fun from => search_page from page (bat from)) 0.
(* the number of records such a loop can reach: the pages from = 0, page, ..., the last multiple <= 10 000 *)
Definition reachable (page : N) : N := (MAX_SCROLL / page + 1) * page.

(* a batching given by batch sizes (the last batch takes the rest) *)
Fixpoint cut (sizes : list nat) (l : list A) : list (list A) :=
  match sizes with
  | [] => match l with [] => [] | _ => [l] end
  | k :: r => firstn k l :: cut r (skipn k l)
  end.
End Page.

Definition PAGE : N := 1000.   (* Size of every paged request of the trace handlers *)

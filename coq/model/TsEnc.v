(* TsEnc.v — timestamp column: "top-diff" encoding of a block's timestamps
   (writer/segstore.go encodeTimestamps, WipBlock.adjustEarliestLatestTimes;
   reader/segread/timereader.go convertRawRecordsToTimestamps).  Definitions only. *)
From SigM Require Import Base.
Open Scope N_scope.

(* WipBlock.adjustEarliestLatestTimes: 0 means "not set yet" *)
Definition adj_low (low t : N) : N := if low =? 0 then t else if t <? low then t else low.
Definition adj_high (high t : N) : N := if high =? 0 then t else if high <? t then t else high.
Definition ts_low (ts : list N) : N := fold_left adj_low ts 0.
Definition ts_high (ts : list N) : N := fold_left adj_high ts 0.

(* uint64 subtraction *)
Definition sub64 (a b : N) : N := (a + pow2_64 - b mod pow2_64) mod pow2_64.

(* (bytes per value, TS_TYPE code) from HighTs - LowTs *)
Definition ts_width (diff : N) : nat * N :=
  if diff <=? 255 then (1%nat, 1)
  else if diff <=? 65535 then (2%nat, 2)
  else if diff <=? 4294967295 then (4%nat, 3)
  else (8%nat, 4).

Definition TS_ENC : N := 2.   (* TIMESTAMP_TOPDIFF_VARENC *)

(* the column block as written to the .csg file: encoding byte, TS_TYPE, lowTs, values.
   uintN(ts - lowTs) keeps the low N bits: le_enc w does exactly that. *)
Definition ts_encode (ts : list N) : bytes :=
  let low := ts_low ts in
  let high := ts_high ts in
  let '(w, ty) := ts_width (sub64 high low) in
  TS_ENC :: ty :: le64 low ++ concat (map (fun t => le_enc w (sub64 t low)) ts).

Definition width_of_type (ty : N) : option nat :=
  if ty =? 1 then Some 1%nat else if ty =? 2 then Some 2%nat
  else if ty =? 3 then Some 4%nat else if ty =? 4 then Some 8%nat else None.

Fixpoint ts_take (w : nat) (n : nat) (low : N) (b : bytes) : list N :=
  match n with
  | O => []
  | S n' => ((le_dec (firstn w b) + low) mod pow2_64) :: ts_take w n' low (skipn w b)
  end.

(* convertRawRecordsToTimestamps(rawRec, numRecs): None = error return *)
Definition ts_decode (numRecs : nat) (raw : bytes) : option (list N) :=
  if Nat.ltb (length raw) 10 then None
  else match raw with
  | e :: ty :: r =>
    if negb (e =? TS_ENC) then None
    else
      let low := le_dec (firstn 8 r) in
      let body := skipn 8 r in
      match width_of_type ty with
      | None => Some (repeat 0 numRecs)     (* unknown TS_TYPE: the switch does nothing, no error *)
      | Some w =>
        (* numValidRecs = min(numRecs, uint16(len(body)/w)) *)
        let avail := (N.of_nat (length body) / N.of_nat w) mod 65536 in
        if avail <? N.of_nat numRecs then None      (* ErrTooFewRecords *)
        else Some (ts_take w numRecs low body)
      end
  | _ => None
  end.

Definition ts_ok (t : N) : bool := (0 <? t) && (t <? pow2_64).

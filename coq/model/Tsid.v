(* Tsid.v — the series identity pre-image of TagsHolder.GetTSID
   (pkg/segment/writer/metrics/tagsholder.go): name "__" (key "__" value)* over the
   tag entries sorted by key, descending (Go string comparison = bytewise lexicographic).
   The id is xxhash64 of these bytes; the hash itself is not modelled. *)
From SigM Require Import Base.
Open Scope N_scope.

Definition SEP : bytes := [95; 95].   (* "__" *)

(* bytewise lexicographic a > b *)
Fixpoint bytes_gtb (a b : bytes) : bool :=
  match a, b with
  | [], _ => false
  | _ :: _, [] => true
  | x :: a', y :: b' => if y <? x then true else if x <? y then false else bytes_gtb a' b'
  end.

Definition tagp := (bytes * bytes)%type.

Fixpoint insert_desc (t : tagp) (l : list tagp) : list tagp :=
  match l with
  | [] => [t]
  | u :: r => if bytes_gtb (fst u) (fst t) then u :: insert_desc t r else t :: l
  end.

Definition sort_desc (l : list tagp) : list tagp := fold_right insert_desc [] l.

Definition preimage_sorted (name : bytes) (tags : list tagp) : bytes :=
  name ++ SEP ++ concat (map (fun kv => fst kv ++ SEP ++ snd kv) tags).

Definition preimage (name : bytes) (tags : list tagp) : bytes :=
  preimage_sorted name (sort_desc tags).

Fixpoint bad_idx (cs : list (bytes * list tagp * bytes)) (i : nat) : list nat :=
  match cs with
  | [] => []
  | (nm, tags, real) :: r =>
      (if bytes_eqb (preimage nm tags) real then [] else [i]) ++ bad_idx r (S i)
  end.
Definition check_tsid (cs : list (bytes * list tagp * bytes)) : list nat := bad_idx cs 0.

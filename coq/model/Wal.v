(* Wal.v — metrics write-ahead log: framing, the three iterators, recovery order.
   Follows pkg/segment/writer/metrics/wal/wal.go (NewWAL, writeBlockToFile,
   openAndValidateWALFile, DPWalIterator.Next/decodeWALBlock,
   MNameWalIterator.Next/decompressMetricNames, MMetaEntryIterator.Next). *)
From SigM Require Import Base Crc32.
Open Scope N_scope.

Definition WAL_VERSION : N := 1.     (* sutils.VERSION_WALFILE = {0x01} *)

(* writeBlockToFile: blockSize = len+4 (LE32), crc32 (LE32), payload *)
Definition frame (p : bytes) : bytes :=
  le32 (N.of_nat (length p) + 4) ++ le32 (crc32 p) ++ p.

Definition encode (ps : list bytes) : bytes := concat (map frame ps).

(* NewWAL writes the version byte, then every Append writes one frame *)
Definition wal_file (ps : list bytes) : bytes := WAL_VERSION :: encode ps.

Inductive status := CleanEOF | Err.

Definition status_eqb (a b : status) : bool :=
  match a, b with CleanEOF, CleanEOF => true | Err, Err => true | _, _ => false end.

(* One step of an iterator on the bytes after the version byte:
   inr CleanEOF : binary.Read of the size field saw io.EOF (zero bytes left)
   inr Err      : short size field, size < 4, short checksum, short body, CRC mismatch
   inl (p, rest): a block whose checksum verified *)
Definition next (f : bytes) : (bytes * bytes) + status :=
  match f with
  | [] => inr CleanEOF
  | _ =>
    match rd32 f with
    | None => inr Err
    | Some (sz, r1) =>
      if sz <? 4 then inr Err else
      match rd32 r1 with
      | None => inr Err
      | Some (c, r2) =>
        (* compared in N before converting: the claimed size may be 2^32 *)
        if N.of_nat (length r2) <? sz - 4 then inr Err else
        let n := N.to_nat (sz - 4) in
        let p := firstn n r2 in
        if crc32 p =? c then inl (p, skipn n r2) else inr Err
      end
    end
  end.

Fixpoint read_all (fuel : nat) (f : bytes) : list bytes * status :=
  match fuel with
  | O => ([], Err)
  | S k =>
    match next f with
    | inr s => ([], s)
    | inl (p, r) => let '(ps, s) := read_all k r in (p :: ps, s)
    end
  end.

(* openAndValidateWALFile *)
Definition open_wal (f : bytes) : option bytes :=
  match f with
  | v :: r => if v =? WAL_VERSION then Some r else None
  | [] => None
  end.

(* all verified blocks of a file; fuel = file length is always enough
   because every block consumes at least 8 bytes *)
Definition read_file (f : bytes) : list bytes * status :=
  match open_wal f with
  | None => ([], Err)
  | Some r => read_all (S (length r)) r
  end.

(* ---------- datapoint blocks (DataPointEncoder / decodeWALBlock) ---------- *)
Record dp := { dp_ts : N; dp_val : N; dp_tsid : N }.   (* uint32, float64 bit pattern, uint64 *)

Definition dp_eqb (a b : dp) : bool :=
  (dp_ts a =? dp_ts b) && (dp_val a =? dp_val b) && (dp_tsid a =? dp_tsid b).

Definition dp_raw (dps : list dp) : bytes :=
  le32 (N.of_nat (length dps))
  ++ concat (map (fun d => le32 (dp_ts d)) dps)
  ++ concat (map (fun d => le64 (dp_val d)) dps)
  ++ concat (map (fun d => le64 (dp_tsid d)) dps).

Fixpoint rd_many (k n : nat) (b : bytes) : option (list N * bytes) :=
  match n with
  | O => Some ([], b)
  | S n' =>
    match rd_le k b with
    | None => None
    | Some (x, r) =>
      match rd_many k n' r with
      | None => None
      | Some (xs, r') => Some (x :: xs, r')
      end
    end
  end.

Fixpoint zip3 (a b c : list N) : list dp :=
  match a, b, c with
  | x :: a', y :: b', z :: c' => {| dp_ts := x; dp_val := y; dp_tsid := z |} :: zip3 a' b' c'
  | _, _, _ => []
  end.

(* decodeWALBlock on the decompressed bytes; trailing bytes are not inspected *)
Definition dp_parse (raw : bytes) : option (list dp) :=
  match rd32 raw with
  | None => None
  | Some (n, r0) =>
    (* a count larger than the buffer can never be satisfied; the guard keeps
       N.to_nat small and does not change the result *)
    if N.of_nat (length r0) <? n * 20 then None else
    let n' := N.to_nat n in
    match rd_many 4 n' r0 with
    | None => None
    | Some (ts, r1) =>
      match rd_many 8 n' r1 with
      | None => None
      | Some (vs, r2) =>
        match rd_many 8 n' r2 with
        | None => None
        | Some (ids, _) => Some (zip3 ts vs ids)
        end
      end
    end
  end.

(* ---------- metric-name blocks (MetricNameEncoder / decompressMetricNames) ---------- *)
Definition names_raw (names : list bytes) : bytes :=
  concat (map (fun nm => le16 (N.of_nat (length nm)) ++ nm) names).

Definition pad_to (n : nat) (b : bytes) : bytes := b ++ repeat 0 (n - length b).

(* the loop `for buf.Len() > 0`: bytes.Reader.Read returns io.EOF when nothing
   is left (even for a zero-length destination) and otherwise copies what is
   there, leaving the rest of the destination zero *)
Fixpoint names_parse (fuel : nat) (b : bytes) : option (list bytes) :=
  match b with
  | [] => Some []
  | _ =>
    match fuel with
    | O => None
    | S k =>
      match rd16 b with
      | None => None
      | Some (len, r) =>
        match r with
        | [] => None
        | _ =>
          let n := N.to_nat len in
          let nm := pad_to n (firstn n r) in
          match names_parse k (skipn n r) with
          | None => None
          | Some rest => Some (nm :: rest)
          end
        end
      end
    end
  end.

(* ---------- typed replay: what an iterator yields before it stops ---------- *)
Section Replay.
  Context {A : Type}.
  (* payload decoder: decompression + parsing.  zstd is not modelled: the
     harness supplies the decompression as a finite table, the theorems take
     it as a section variable with the round-trip hypothesis. *)
  Variable decode_block : bytes -> option (list A).
  (* MName/MMeta iterators return (nil, nil) on a verified block that holds no
     entries, which their callers read as the end of the log *)
  Variable empty_is_eof : bool.

  Fixpoint replay_blocks (fuel : nat) (f : bytes) : list A * status :=
    match fuel with
    | O => ([], Err)
    | S k =>
      match next f with
      | inr s => ([], s)
      | inl (p, r) =>
        match decode_block p with
        | None => ([], Err)
        | Some [] =>
            if empty_is_eof then ([], CleanEOF)
            else ([], Err)   (* DPWalIterator indexes readDps[0]: a panic, classified as Err *)
        | Some xs => let '(ys, s) := replay_blocks k r in (xs ++ ys, s)
        end
      end
    end.

  Definition replay (f : bytes) : list A * status :=
    match open_wal f with
    | None => ([], Err)
    | Some r => replay_blocks (S (length r)) r
    end.
End Replay.

(* the number of whole frames of [ps] that fit into the first k bytes after the version byte *)
Fixpoint whole_frames (k : nat) (ps : list bytes) : nat :=
  match ps with
  | [] => O
  | p :: r => if Nat.leb (8 + length p) k then S (whole_frames (k - (8 + length p)) r) else O
  end.

Fixpoint frames_len (ps : list bytes) : nat :=
  match ps with [] => O | p :: r => (8 + length p + frames_len r)%nat end.

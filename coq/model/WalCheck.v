(* WalCheck.v — executable comparison of the WAL model with observations of the
   real wal package (used by the generated cases files of C10). *)
From SigM Require Import Base Crc32 Wal.
Open Scope N_scope.

Inductive mutation := Trunc (k : nat) | Flip (i : nat) (v : N) | Append1 (tail : bytes).

Definition apply_mut (m : mutation) (f : bytes) : bytes :=
  match m with
  | Trunc k => firstn k f
  | Flip i v => set_nth i v f
  | Append1 t => f ++ t
  end.

Fixpoint assoc (k : bytes) (tbl : list (bytes * bytes)) : option bytes :=
  match tbl with
  | [] => None
  | (a, b) :: r => if bytes_eqb a k then Some b else assoc k r
  end.

(* decompression as the finite table the harness observed (payload -> raw) *)
Definition dp_decode (tbl : list (bytes * bytes)) (p : bytes) : option (list dp) :=
  match assoc p tbl with Some raw => dp_parse raw | None => None end.

Definition names_decode (tbl : list (bytes * bytes)) (p : bytes) : option (list bytes) :=
  match assoc p tbl with Some raw => names_parse (S (length raw)) raw | None => None end.

(* the meta-entry log: payload is JSON; the harness supplies payload -> entry ids *)
Definition meta_decode (tbl : list (bytes * bytes)) (p : bytes) : option (list N) :=
  assoc p tbl.

Definition st_code (s : status) : N := match s with CleanEOF => 0 | Err => 1 end.

(* observation: yielded items and final status code (0 clean end, 1 error; a panic of the real code is 2 and never equals a model status) *)
Fixpoint first_mismatch {A} (eqb : A -> A -> bool) (f : bytes)
  (replayf : bytes -> list A * status)
  (obs : list (mutation * (list A * N))) (idx : nat) : list nat :=
  match obs with
  | [] => []
  | (m, (items, st)) :: r =>
    let '(mi, ms) := replayf (apply_mut m f) in
    (if list_eqb eqb mi items && (st_code ms =? st) then [] else [idx])
    ++ first_mismatch eqb f replayf r (S idx)
  end.

(* index 0: the file written by the real WAL differs from wal_file payloads;
   index i+1: observation i differs from the model's replay *)
Definition check_dp (payloads : list bytes) (tbl : list (bytes * bytes)) (file : bytes)
  (obs : list (mutation * (list dp * N))) : list nat :=
  (if bytes_eqb (wal_file payloads) file then [] else [O])
  ++ first_mismatch dp_eqb file (replay (dp_decode tbl) false) obs 1.

Definition check_names (payloads : list bytes) (tbl : list (bytes * bytes)) (file : bytes)
  (obs : list (mutation * (list bytes * N))) : list nat :=
  (if bytes_eqb (wal_file payloads) file then [] else [O])
  ++ first_mismatch bytes_eqb file (replay (names_decode tbl) true) obs 1.

Definition check_meta (payloads : list bytes) (tbl : list (bytes * bytes)) (file : bytes)
  (obs : list (mutation * (list N * N))) : list nat :=
  (if bytes_eqb (wal_file payloads) file then [] else [O])
  ++ first_mismatch N.eqb file (replay (meta_decode tbl) true) obs 1.

(* raw layout check: the decompressed bytes the real encoder produced equal dp_raw / names_raw *)
Definition check_dp_raw (batches : list (list dp)) (raws : list bytes) : bool :=
  list_eqb bytes_eqb (map dp_raw batches) raws.
Definition check_names_raw (batches : list (list bytes)) (raws : list bytes) : bool :=
  list_eqb bytes_eqb (map names_raw batches) raws.

(* model self-check on a case: the model's own replay of every truncation is the
   spec (whole batches that fit), redundant with theorem replay_cut *)
Definition mkdp (t v i : N) : dp := {| dp_ts := t; dp_val := v; dp_tsid := i |}.
